#!/usr/bin/env python3
"""usage: recheck_survivors.py MUTS.jsonl RES.jsonl BASEDIR OUT.txt [workers] — re-run the current checker (iscpcheck sweep)
on the mutants that survived both the test suite and the checker at sweep time. BASEDIR is a checkout of the commit the
mutants were generated from. Prints NOW-CAUGHT / SURVIVES lines."""
import sys, json, os, subprocess, shutil, re, threading, queue
muts = {json.loads(l)["id"]: json.loads(l) for l in open(sys.argv[1])}
res = [json.loads(l) for l in open(sys.argv[2])]
base_dir, out_path = sys.argv[3], sys.argv[4]
workers = int(sys.argv[5]) if len(sys.argv) > 5 else 4
surv = [r for r in res if r["status"] == "survived"]
chk = "/tmp/mutw/iscpcheck_recheck"
os.makedirs("/tmp/mutw", exist_ok=True)
shutil.copy("/verif/bin/iscpcheck", chk)
env = dict(os.environ, GOFLAGS="-mod=mod", GOPROXY="off")
norm = lambda l: re.sub(r" @ .*$", "", l.strip())
q = queue.Queue()
for r in surv: q.put(r)
lock = threading.Lock()
out = open(out_path, "w")
def worker(k):
    wd = f"/tmp/mutw/recheck{k}"
    shutil.rmtree(wd, ignore_errors=True)
    subprocess.check_call(["rsync", "-a", "--exclude", ".git", "--exclude", "SEED*", base_dir + "/", wd + "/"])
    base = set(norm(l) for l in subprocess.run([chk, "sweep", "--repo", wd], capture_output=True, text=True, env=env).stdout.splitlines() if l.strip())
    while True:
        try: r = q.get_nowait()
        except queue.Empty: break
        m = muts[r["id"]]
        path = os.path.join(wd, m["file"])
        orig = open(path, "rb").read()
        try:
            open(path, "wb").write(orig[:m["start"]] + m["new"].encode() + orig[m["end"]:])
            o = subprocess.run([chk, "sweep", "--repo", wd], capture_output=True, text=True, env=env).stdout
            fired = sorted(set(norm(l) for l in o.splitlines() if l.strip()) - base)
        finally:
            open(path, "wb").write(orig)
        tag = "NOW-CAUGHT" if fired else "SURVIVES  "
        with lock:
            out.write(f'{tag} {m["id"]} {m["op"]} {m["file"]}:{m["line"]} {m["func"][:28]} | {m["desc"][:70]} => {"; ".join(f.split(" ")[1] for f in fired[:3])}\n'); out.flush()
    shutil.rmtree(wd, ignore_errors=True)
ths = [threading.Thread(target=worker, args=(k,)) for k in range(workers)]
for t in ths: t.start()
for t in ths: t.join()
print("done")
