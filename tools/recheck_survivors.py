#!/usr/bin/env python3
"""usage: recheck_survivors.py MUTS.jsonl RES.jsonl — re-run the current checker (iscpcheck sweep) on the mutants
that survived both the test suite and the checker at sweep time; prints which are caught now and which still survive."""
import sys, json, os, subprocess, shutil, re
muts = {json.loads(l)["id"]: json.loads(l) for l in open(sys.argv[1])}
res = [json.loads(l) for l in open(sys.argv[2])]
surv = [r for r in res if r["status"] == "survived"]
wd = "/tmp/mutw/recheck"
shutil.rmtree(wd, ignore_errors=True)
os.makedirs("/tmp/mutw", exist_ok=True)
subprocess.check_call(["rsync", "-a", "--exclude", ".git", "--exclude", "SEED*", "/repo/", wd + "/"])
env = dict(os.environ, GOFLAGS="-mod=mod", GOPROXY="off")
norm = lambda l: re.sub(r" @ .*$", "", l.strip())
base = set(norm(l) for l in subprocess.run([os.environ.get("CHK","/verif/bin/iscpcheck"), "sweep", "--repo", wd], capture_output=True, text=True, env=env).stdout.splitlines() if l.strip())
still = []
for r in surv:
    m = muts[r["id"]]
    path = os.path.join(wd, m["file"])
    orig = open(path, "rb").read()
    try:
        open(path, "wb").write(orig[:m["start"]] + m["new"].encode() + orig[m["end"]:])
        out = subprocess.run([os.environ.get("CHK","/verif/bin/iscpcheck"), "sweep", "--repo", wd], capture_output=True, text=True, env=env).stdout
        fired = sorted(set(norm(l) for l in out.splitlines() if l.strip()) - base)
    finally:
        open(path, "wb").write(orig)
    tag = "NOW-CAUGHT" if fired else "SURVIVES  "
    print(tag, m["id"], m["op"], f'{m["file"]}:{m["line"]}', m["func"][:28], "|", m["desc"][:70], "=>", "; ".join(f.split(" ")[1] for f in fired[:3]))
shutil.rmtree(wd, ignore_errors=True)
