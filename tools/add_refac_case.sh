#!/bin/bash
# usage: add_refac_case.sh <diff> PROP name — stores a behaviour-preserving variant as a must-stay-silent self-test case
d=$1; prop=$2; name=$3
mkdir -p /verif/selftest/$prop
{ echo "# behaviour-preserving refactoring written by a sub-agent (suite passes); the check must stay silent"; echo "# expect: silent"; cat "$d"; } > /verif/selftest/$prop/silent-$name.patch
echo "wrote /verif/selftest/$prop/silent-$name.patch"
