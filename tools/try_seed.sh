#!/bin/bash
# usage: try_seed.sh <patch.diff> [PROP ...]   — applies the patch to /repo, runs the quick checks, reverts.
patch=$1; shift
props="$@"
[ -z "$props" ] && props=$(/verif/bin/iscpcheck list)
cd /repo || exit 2
if ! git diff --quiet; then echo "/repo has uncommitted changes"; exit 2; fi
git apply "$patch" || { echo "patch does not apply"; exit 2; }
export VERIF_DIR=$(mktemp -d)
cp /verif/known_findings.json $VERIF_DIR/ 2>/dev/null
for p in $props; do
  out=$(/verif/bin/iscpcheck run $p 2>&1); code=$?
  if [ $code -ne 0 ]; then echo "== $p exit $code"; echo "$out" | grep -v "^    \|^VIOLATION" | cut -c1-260 | head -12; fi
done
git -C /repo checkout -- . ; git -C /repo status --short | head -3
rm -rf $VERIF_DIR
echo "done"
