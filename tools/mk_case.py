#!/usr/bin/env python3
"""usage: mk_case.py PROP NAME "EXPECT" FILE <<< 'OLD\n@@@@\nNEW'   (several FILE/OLD/NEW triples allowed, separated by a line '####' followed by the file name)
Creates /verif/selftest/PROP/NAME.patch by replacing OLD with NEW in FILE (relative to /repo) in a scratch copy; checks that it still builds."""
import sys, os, subprocess, tempfile, shutil
prop, name, expect = sys.argv[1:4]
spec = sys.stdin.read()
edits = []
for part in spec.split("\n####"):
    part = part.lstrip("\n") if not edits else part
    lines = part.split("\n", 1)
    f = lines[0].strip()
    old, new = lines[1].split("\n@@@@\n")
    if new.endswith("\n"): new = new[:-1]
    edits.append((f, old, new))
tmp = tempfile.mkdtemp(prefix="mkcase-")
try:
    a = os.path.join(tmp, "a"); b = os.path.join(tmp, "b")
    subprocess.check_call(["rsync", "-a", "--exclude", ".git", "/repo/", a + "/"])
    subprocess.check_call(["rsync", "-a", a + "/", b + "/"])
    for f, old, new in edits:
        p = os.path.join(b, f)
        s = open(p).read()
        if s.count(old) != 1:
            sys.exit(f"{f}: OLD occurs {s.count(old)} times")
        open(p, "w").write(s.replace(old, new))
    env = dict(os.environ, GOFLAGS="-mod=mod", GOPROXY="off")
    r = subprocess.run(["go", "build", "./..."], cwd=b, env=env, capture_output=True, text=True)
    if r.returncode != 0:
        sys.exit("variant does not build:\n" + r.stderr[:2000])
    subprocess.run(["gofmt", "-l", "."], cwd=b)
    d = subprocess.run(["diff", "-ruN", "a", "b"], cwd=tmp, capture_output=True, text=True).stdout
    os.makedirs(f"/verif/selftest/{prop}", exist_ok=True)
    out = f"/verif/selftest/{prop}/{name}.patch"
    open(out, "w").write(f"# hand-written variant\n# expect: {expect}\n" + d)
    print("wrote", out)
finally:
    shutil.rmtree(tmp)
