#!/usr/bin/env python3
"""Prints the armed-rule table of DESIGN.md §5.2 from the evidence files (run the quick checks first)."""
import json, glob
tot = 0
print("| id | rule (instances) | obligations |\n|---|---|---|")
for f in sorted(glob.glob("/verif/evidence/C*.json")):
    e = json.load(open(f))
    rules = e["coverage"]["rules"]
    n = sum(r["instances"] for r in rules)
    tot += n
    print("| %s | %s | %d |" % (e["property_id"], ", ".join("%s (%d)" % (r["rule"], r["instances"]) for r in rules), n))
print("\n(total %d obligations; numbers regenerated from the evidence files)" % tot)
