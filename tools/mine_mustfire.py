#!/usr/bin/env python3
"""usage: mine_mustfire.py MUTS.jsonl RES.jsonl [--write] — for every armed rule that has no must-fire case yet, pick a
sweep mutant that the rule caught and store it as /verif/selftest/<prop>/sweep-<rule>-<id>.patch (expect: fire)."""
import json, glob, re, os, sys, subprocess, tempfile, shutil
muts = {json.loads(l)["id"]: json.loads(l) for l in open(sys.argv[1])}
res = [json.loads(l) for l in open(sys.argv[2])]
write = "--write" in sys.argv
rules = set()
for f in glob.glob('/verif/evidence/C*.json'):
    e = json.load(open(f))
    for r in e['coverage']['rules']: rules.add((e['property_id'], r['rule']))
fired = set()
for f in glob.glob('/verif/selftest/*/*.patch'):
    prop = f.split('/')[-2]
    for l in open(f).read().split('\n')[:4]:
        m = re.match(r'# expect: fire (\S+)', l)
        if m: fired.add((prop, m.group(1)))
for f in glob.glob('/verif/seeded/*/meta.json'):
    for c in json.load(open(f)).get('caught_by', []): fired.add((c['property'], c['rule']))
generic = {"W0", "Wc"}
if any(r in generic for _, r in fired):
    for p, r in list(rules):
        if r in generic and any(r == fr for _, fr in fired): fired.add((p, r))
missing = sorted(rules - fired)
pref = {"del-call": 0, "neg-if": 1, "field-swap": 2, "del-store": 3, "binop": 4, "rlock": 5, "del-defer": 6, "swallow-err": 7, "const-off": 8, "arg-swap": 9, "del-return": 9, "del-send": 9}
out = []
for prop, rule in missing:
    cands = []
    for r in res:
        if r["status"] != "caught": continue
        for f in r.get("fired", []):
            m = re.match(r"FAIL (C\d\d)\.(\S+) (.*)$", f)
            if m and m.group(1) == prop and m.group(2) == rule:
                cands.append((pref.get(r["op"], 9), len(r["fired"]), r["id"], m.group(3)))
    if not cands:
        out.append((prop, rule, None, None)); continue
    cands.sort()
    out.append((prop, rule, cands[0][2], cands[0][3]))
for prop, rule, mid, key in out:
    print(prop, rule, mid, (key or "")[:70])
if write:
    for prop, rule, mid, key in out:
        if not mid: continue
        m = muts[mid]
        tmp = tempfile.mkdtemp(prefix="mine-")
        try:
            a = os.path.join(tmp, "a", m["file"]); b = os.path.join(tmp, "b", m["file"])
            os.makedirs(os.path.dirname(a)); os.makedirs(os.path.dirname(b))
            src = open(os.path.join(os.environ.get("MUTBASE", "/repo"), m["file"]), "rb").read()
            open(a, "wb").write(src); open(b, "wb").write(src[:m["start"]] + m["new"].encode() + src[m["end"]:])
            d = subprocess.run(["diff", "-ruN", "a", "b"], cwd=tmp, capture_output=True, text=True).stdout
        finally:
            shutil.rmtree(tmp)
        keysub = key[:60].replace('"', '')
        name = f"/verif/selftest/{prop}/sweep-{rule.replace('.', '_')}-{mid}.patch"
        os.makedirs(os.path.dirname(name), exist_ok=True)
        open(name, "w").write(f"# sweep mutant {mid} ({m['op']}): {m['desc']}\n# expect: fire {rule} {keysub}\n" + d)
        print("wrote", name)
