#!/bin/bash
# usage: try_refac.sh <dir with rNN.diff> — applies each behaviour-preserving variant to /repo, runs every property's rules once (iscpcheck sweep), reverts; anything printed beyond the baseline is a false alarm.
dir=$1
cd /repo || exit 2
if ! git diff --quiet; then echo "/repo has uncommitted changes"; exit 2; fi
base=$(/verif/bin/iscpcheck sweep 2>&1 | sort)
for d in $dir/r*.diff; do
  git apply "$d" || { echo "$d does not apply"; continue; }
  out=$(/verif/bin/iscpcheck sweep 2>&1 | sort)
  extra=$(comm -13 <(echo "$base") <(echo "$out"))
  echo "== $(basename $d): $(echo -n "$extra" | grep -c .) new lines"
  [ -n "$extra" ] && echo "$extra" | cut -c1-300
  git checkout -- . ; git clean -fdq -- . 2>/dev/null
done
git status --short | head -3
