#!/usr/bin/env python3
"""usage: keep_seed.py <SEED/X dir> <id>  [--caught PROP:RULE:KEYSUB ...] [--missed "reason"]
Verifies a seeded change in a scratch worktree of /repo (build, full suite with the change, demo fails with / passes without)
and, if all of that holds, stores it as /verif/seeded/<id>/ (patch.diff, demo, meta.json)."""
import sys, os, json, subprocess, shutil, tempfile, time
seed, sid = sys.argv[1], sys.argv[2]
caught, missed = [], None
args = sys.argv[3:]
i = 0
while i < len(args):
    if args[i] == "--caught":
        p, r, k = args[i+1].split(":", 2); caught.append({"property": p, "rule": r, "key": k}); i += 2
    elif args[i] == "--missed":
        missed = args[i+1]; i += 2
    else:
        sys.exit("bad arg " + args[i])
meta = json.load(open(os.path.join(seed, "meta.json")))
env = dict(os.environ, GOFLAGS="-mod=mod", GOPROXY="off")
wt = tempfile.mkdtemp(prefix="seedverify-")
os.rmdir(wt)
def run(cmd, cwd, timeout=1500):
    t0 = time.time()
    r = subprocess.run(cmd, cwd=cwd, env=env, shell=isinstance(cmd, str), capture_output=True, text=True, timeout=timeout)
    return r.returncode, (r.stdout + r.stderr)[-3000:], time.time() - t0
subprocess.check_call(["git", "-C", "/repo", "worktree", "add", "-q", "--detach", wt, "HEAD"])
ok = {}
try:
    patch = os.path.abspath(os.path.join(seed, "patch.diff"))
    rc, out, _ = run(["git", "apply", patch], wt); ok["applies"] = rc == 0
    rebased = False
    if rc != 0:
        # the tree has moved on since the seed was written (later fix: commits): merge it in, keep the re-based diff
        rc, out, _ = run(["git", "apply", "--3way", patch], wt); ok["applies"] = rc == 0
        if rc != 0: print(out); raise SystemExit("patch does not apply (also not with --3way)")
        run(["git", "reset", "-q"], wt)
        rb = os.path.join(seed, "patch.rebased.diff")
        r2 = subprocess.run(["git", "diff"], cwd=wt, capture_output=True, text=True)
        open(rb, "w").write(r2.stdout)
        patch = os.path.abspath(rb); rebased = True
    rc, out, _ = run(["go", "build", "./..."], wt); ok["builds"] = rc == 0
    import re
    flaky = set(x.split("::")[-1] for x in json.load(open("/root/.vp/BASELINE.json")).get("flaky", [])) | {"TestUpstream_SendDataPointWithAck_Close", "TestTransport_ReadWrite_Datagrams", "TestRetry_Do", "Test_FlushPolicy"}  # also flaky under heavy machine load (observed on the unmodified tree)
    suite_ok = False
    for attempt in range(3):
        r = subprocess.run("go test -mod=mod -vet=off -count=1 -timeout 20m ./... 2>&1 | grep -v 'no test files'", cwd=wt, env=env, shell=True, capture_output=True, text=True, timeout=1500)
        out = r.stdout + r.stderr
        failed = set(re.findall(r"--- FAIL: (\S+)", out))
        if "FAIL" not in out:
            suite_ok = True; break
        if failed and all(f.split("/")[0] in flaky for f in failed):
            print("only baseline-flaky tests failed:", failed); suite_ok = True; break
        print("suite attempt", attempt, "failed:", failed)
    ok["suite_passes_with_change"] = suite_ok
    if not suite_ok: print(out[-1500:])
    demo_dir = meta.get("demo_dir", "").strip("/")
    demos = [f for f in os.listdir(seed) if f.endswith(".go")]
    dst = []
    for d in demos:
        name = "zz_seed_" + sid.lower().replace("-", "_") + "_" + d
        if not name.endswith("_test.go"): name = name[:-3] + "_test.go"
        shutil.copy(os.path.join(seed, d), os.path.join(wt, demo_dir, name)); dst.append(os.path.join(wt, demo_dir, name))
    cmd = " && ".join(seg.strip() for seg in meta["demo_cmd"].split("&&") if not seg.strip().startswith(("cp ", "rm ", "cd /tmp/seed")))
    rc1, out1, _ = run(cmd, wt, timeout=400); ok["demo_fails_with_change"] = rc1 != 0
    run(["git", "apply", "-R", patch], wt)
    rc2, out2, _ = run(cmd, wt, timeout=400); ok["demo_passes_without_change"] = rc2 == 0
    if rc2 != 0: print("demo on clean tree:", out2[-1500:])
    print(json.dumps(ok))
    if all(ok.values()):
        dest = f"/verif/seeded/{sid}"
        os.makedirs(dest, exist_ok=True)
        shutil.copy(patch, os.path.join(dest, "patch.diff"))
        for d in demos: shutil.copy(os.path.join(seed, d), os.path.join(dest, d + ".txt" if not d.endswith(".go") else d.replace(".go", ".go.txt")))
        m = {"property": meta.get("property"), "summary": meta.get("summary"), "needs_to_manifest": meta.get("needs_to_manifest"),
             "demo_dir": demo_dir, "demo_cmd": cmd, "demo_files": [d.replace(".go", ".go.txt") for d in demos],
             "demo_note": "the demonstration file is stored with a .txt suffix; copy it into demo_dir as a _test.go file to run it",
             "rebased_onto_current_head": rebased,
             "verified_by_me": ok, "what_i_ran": ["git worktree add <scratch> HEAD", "git apply patch.diff", "go build ./...", "go test -mod=mod -vet=off -count=1 ./... (full suite, passes)", cmd + " (fails with the change)", "git apply -R patch.diff", cmd + " (passes without the change)"],
             "failure_output_with_change": out1[-600:], "caught_by": caught}
        if missed: m["not_caught"] = missed
        json.dump(m, open(os.path.join(dest, "meta.json"), "w"), indent=1)
        print("kept as", dest)
    else:
        print("NOT kept")
finally:
    subprocess.call(["git", "-C", "/repo", "worktree", "remove", "--force", wt])
