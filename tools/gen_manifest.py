#!/usr/bin/env python3
"""Generate /verif/MANIFEST.json from tools/manifest_src.json (one entry per claimed property)."""
import json, os, sys
here = os.path.dirname(os.path.abspath(__file__))
root = os.path.dirname(here)
src = json.load(open(os.path.join(here, "manifest_src.json")))
props = [json.loads(l)["id"] for l in open(os.path.join(root, "properties.jsonl"))]
checks = []
claimed = set()
for c in src["checks"]:
    pid = c["property_id"]
    claimed.add(pid)
    checks.append({
        "property_id": pid,
        "quick_cmd": f"./bin/iscpcheck run {pid} --tier quick",
        "thorough_cmd": f"./bin/iscpcheck run {pid} --tier thorough",
        "evidence_file": f"/verif/evidence/{pid}.json",
        "replay_cmd_template": "./bin/iscpcheck explain {path}",
        "engine": "iscpcheck",
        "level_claimed": {"category": "other", "text": c["level_text"], "design_ref": c.get("design_ref", f"DESIGN.md §2 {pid}")},
        "level_note": c["level_note"],
        "technique": c["technique"],
    })
na = [x for x in src.get("not_applicable", []) if x["property_id"] not in claimed]
missing = [p for p in props if p not in claimed and p not in {x["property_id"] for x in na}]
if missing:
    sys.exit(f"properties neither claimed nor not_applicable: {missing}")
m = {
    "version": 1,
    "setup_cmd": "cd /verif/checker && GOFLAGS=-mod=mod GOPROXY=off GOWORK=off go build -o /verif/bin/iscpcheck ./cmd/iscpcheck",
    "hooks": {
        "guard": "verif",
        "enable": "none needed: the checker reads /repo's source; no hook or instrumentation is compiled into the repository",
        "baseline_off_cmd": "cd /repo && go test -mod=mod -vet=off -count=1 -timeout 25m ./...",
        "source_commits": [],
        "add_only": True,
    },
    "engines": src["engines"],
    "checks": checks,
    "notes": src["notes"],
    "not_applicable": na,
}
json.dump(m, open(os.path.join(root, "MANIFEST.json"), "w"), indent=1)
print("wrote MANIFEST.json:", len(checks), "checks,", len(na), "not_applicable")
