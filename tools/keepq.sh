#!/bin/bash
# usage: keepq.sh <seed dir> <id> <caught spec>... — serialised (flock) wrapper around keep_seed.py, appends to /tmp/keepq.log
exec 9>/tmp/keepq.lock
flock 9
cd /verif && python3 tools/keep_seed.py "$@" >> /tmp/keepq.log 2>&1
