#!/bin/bash
# usage: mk_revert_case.sh <commit> <PROP> <name> "<expect line>"
# writes selftest/<PROP>/<name>.patch = reverse of the fix commit (re-introduces the defect)
set -e
c=$1; prop=$2; name=$3; expect=$4
mkdir -p /verif/selftest/$prop
f=/verif/selftest/$prop/$name.patch
{ echo "# revert of fix commit $c: $(git -C /repo log -1 --format=%s $c)"; echo "# expect: $expect"; git -C /repo diff $c $c^ ; } > $f
# must apply to HEAD
tmp=$(mktemp -d); rsync -a --exclude .git /repo/ $tmp/; if (cd $tmp && patch -p1 -s --dry-run -i $f >/dev/null 2>&1); then echo "ok   $f"; else echo "NOAPPLY $f"; fi; rm -rf $tmp
