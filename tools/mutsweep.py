#!/usr/bin/env python3
"""Mutation sweep of the checker (development aid, see DESIGN.md §5.7).
usage: mutsweep.py MUTS.jsonl OUT.jsonl [--workers N] [--only-op OP,...] [--skip-done]
For each mutant: apply to a scratch copy of /repo (under /tmp/mutw), build, run `iscpcheck sweep` on the copy, and — when no
rule fires — run the package's tests and then the whole suite to see whether the existing tests kill it.
status: nocompile | caught (rules that fired) | killed (suite fails) | survived (compiles, suite passes, no rule fires)."""
import sys, os, json, subprocess, shutil, random, re, threading, queue, time
muts_path, out_path = sys.argv[1], sys.argv[2]
workers = 6; only = None
args = sys.argv[3:]
for i, a in enumerate(args):
    if a == "--workers": workers = int(args[i+1])
    if a == "--only-op": only = set(args[i+1].split(","))
muts = [json.loads(l) for l in open(muts_path)]
if only: muts = [m for m in muts if m["op"] in only]
done = set()
if os.path.exists(out_path):
    for l in open(out_path):
        try: done.add(json.loads(l)["id"])
        except Exception: pass
muts = [m for m in muts if m["id"] not in done]
random.Random(7).shuffle(muts)
ROOT = "/tmp/mutw"
CHK = ROOT + "/iscpcheck"
os.makedirs(ROOT, exist_ok=True)
shutil.copy("/verif/bin/iscpcheck", CHK)
env = dict(os.environ, GOFLAGS="-mod=mod", GOPROXY="off", GOCACHE=ROOT + "/gocache")
flaky = set(x.split("::")[-1] for x in json.load(open("/root/.vp/BASELINE.json")).get("flaky", []))
flaky |= {"TestUpstream_SendDataPointWithAck_Close", "TestTransport_ReadWrite_Datagrams", "TestRetry_Do", "Test_FlushPolicy"}
def norm(line):
    return re.sub(r" @ .*$", "", line.strip())
base = set(norm(l) for l in subprocess.run([CHK, "sweep", "--repo", "/repo"], capture_output=True, text=True, env=env).stdout.splitlines() if l.strip())
q = queue.Queue()
for m in muts: q.put(m)
lock = threading.Lock()
outf = open(out_path, "a")
t0 = time.time(); cnt = [0]
def sh(cmd, cwd, timeout):
    try:
        r = subprocess.run(cmd, cwd=cwd, env=env, capture_output=True, text=True, timeout=timeout)
        return r.returncode, r.stdout + r.stderr
    except subprocess.TimeoutExpired as e:
        return 124, "TIMEOUT"
def tests(cwd, pkgs, timeout):
    for attempt in range(2):
        rc, out = sh(["go", "test", "-mod=mod", "-vet=off", "-count=1", "-timeout", "%ds" % timeout] + pkgs, cwd, timeout + 60)
        if rc == 0: return True, []
        failed = set(re.findall(r"--- FAIL: (\S+)", out))
        tops = set(f.split("/")[0] for f in failed)
        if failed and tops <= flaky: continue
        return False, sorted(failed)[:6] or ["(build/timeout) " + out[-200:].replace("\n", " ")]
    return True, ["flaky-only"]
def worker(k):
    wd = f"{ROOT}/w{k}"
    shutil.rmtree(wd, ignore_errors=True)
    subprocess.check_call(["rsync", "-a", "--exclude", ".git", "--exclude", "SEED*", "/repo/", wd + "/"])
    while True:
        try: m = q.get_nowait()
        except queue.Empty: return
        path = os.path.join(wd, m["file"])
        orig = open(path, "rb").read()
        res = {"id": m["id"], "op": m["op"], "file": m["file"], "line": m["line"], "func": m["func"], "desc": m["desc"]}
        try:
            open(path, "wb").write(orig[:m["start"]] + m["new"].encode() + orig[m["end"]:])
            rc, out = sh(["go", "build", "./..."], wd, 300)
            if rc != 0:
                res["status"] = "nocompile"
            else:
                rc, out = sh([CHK, "sweep", "--repo", wd], wd, 300)
                fired = sorted(set(norm(l) for l in out.splitlines() if l.strip()) - base)
                if rc not in (0,) or any(l.startswith("BROKEN") or l.startswith("PANIC") for l in fired):
                    res["checker_problem"] = out[-300:]
                if fired:
                    res["status"] = "caught"; res["fired"] = [f[:160] for f in fired[:8]]
                else:
                    pkgdir = "./" + os.path.dirname(m["file"])
                    ok, failed = tests(wd, [pkgdir], 120)
                    if ok: ok, failed = tests(wd, ["./..."], 300)
                    res["status"] = "survived" if ok else "killed"
                    if failed: res["tests"] = failed
        except Exception as e:
            res["status"] = "error"; res["error"] = repr(e)[:200]
        finally:
            open(path, "wb").write(orig)
        with lock:
            outf.write(json.dumps(res) + "\n"); outf.flush()
            cnt[0] += 1
            if cnt[0] % 25 == 0:
                print(f"{cnt[0]} done, {q.qsize()} left, {time.time()-t0:.0f}s", flush=True)
ths = [threading.Thread(target=worker, args=(k,)) for k in range(workers)]
for t in ths: t.start()
for t in ths: t.join()
for k in range(workers): shutil.rmtree(f"{ROOT}/w{k}", ignore_errors=True)
print("finished", cnt[0])
