#!/usr/bin/env python3
import json,sys
pid,lt,ln,tech=sys.argv[1:5]
src=json.load(open('/verif/tools/manifest_src.json'))
src['checks']=[c for c in src['checks'] if c['property_id']!=pid]
src['checks'].append({"property_id":pid,"level_text":lt,"level_note":ln,"technique":tech})
src['not_applicable']=[x for x in src['not_applicable'] if x['property_id']!=pid]
src['engines'][0]['serves_properties']=sorted({c['property_id'] for c in src['checks']})
src['checks'].sort(key=lambda c:c['property_id'])
json.dump(src,open('/verif/tools/manifest_src.json','w'),indent=1)
