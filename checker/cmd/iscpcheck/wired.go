package main

import (
	_ "embed"
	"encoding/json"
	"fmt"
	"go/token"
	"go/types"
	"path/filepath"
	"sort"
	"strings"

	"golang.org/x/tools/go/ssa"
)

// "Still wired". Many realistic breakages delete the one call that connects a mechanism to the rest of the program
// (a reader loop that is no longer started, a cleanup that is no longer invoked). The function is still there and
// every rule about its body still passes. baseline_reachable.json lists the declared functions that were reachable
// in the call graph from the module's exported API on the tree the rule tables were confirmed on; for the functions
// declared in a property's anchor files the rule requires that each of them that still exists is still reachable.
// A function that was removed altogether is not reported (that is a refactoring, and the rules about its callers
// decide whether it mattered).

//go:embed baseline_reachable.json
var baselineReachableJSON []byte

func declFile(p *Prog, fn *ssa.Function) string {
	pos := p.SSA.Fset.Position(fn.Pos())
	if !pos.IsValid() {
		return ""
	}
	rel, err := filepath.Rel(p.Dir, pos.Filename)
	if err != nil {
		return pos.Filename
	}
	return rel
}

// reachableFuncs: functions reachable in the VTA call graph from exported functions and methods and package
// initialisers; a closure is reachable when the function that creates it is.
var reachCache = map[*Prog]map[*ssa.Function]bool{}

func (p *Prog) reachableFuncs() map[*ssa.Function]bool {
	if c, ok := reachCache[p]; ok {
		return c
	}
	cg := p.CG()
	reach := map[*ssa.Function]bool{}
	reachCache[p] = reach
	var work []*ssa.Function
	push := func(f *ssa.Function) {
		if f != nil && !reach[f] {
			reach[f] = true
			work = append(work, f)
		}
	}
	for _, fn := range p.Funcs {
		if fn.Parent() != nil {
			continue
		}
		if fn.Name() == "init" || strings.HasPrefix(fn.Name(), "init#") {
			push(fn)
			continue
		}
		if o := fn.Object(); o != nil && o.Exported() {
			push(fn)
		}
	}
	for len(work) > 0 {
		f := work[len(work)-1]
		work = work[:len(work)-1]
		for _, an := range f.AnonFuncs {
			push(an)
		}
		if n := cg.Nodes[f]; n != nil {
			for _, e := range n.Out {
				push(e.Callee.Func)
			}
		}
		// function values taken (method values, funcs passed as arguments)
		allInstrs(f, func(ins ssa.Instruction) {
			for _, op := range ins.Operands(nil) {
				if op == nil || *op == nil {
					continue
				}
				switch v := (*op).(type) {
				case *ssa.Function:
					push(v)
				case *ssa.MakeClosure:
					if cf, ok := v.Fn.(*ssa.Function); ok {
						push(cf)
					}
				}
			}
		})
	}
	return reach
}

type wiredEntry struct {
	Callers []string `json:"callers"` // declared functions that called it (directly or from their closures)
	Effects []string `json:"effects"` // calls made and fields written by its body (closures included)
}

// effectsOf: what a function's body does, as a set of names: callees, written fields, updated map fields.
func effectsOf(p *Prog, fn *ssa.Function) map[string]bool {
	out := map[string]bool{}
	withAnon(fn, func(f *ssa.Function) {
		allInstrs(f, func(ins ssa.Instruction) {
			switch x := ins.(type) {
			case *ssa.Store:
				if fk := fieldKeyOfAddr(x.Addr); fk != "" {
					out["store:"+fk] = true
				}
			case *ssa.MapUpdate:
				for _, l := range p.Leaves(x.Map, provOpts{}) {
					if strings.HasPrefix(l, "field:") {
						out["mapupdate:"+l[6:]] = true
					}
				}
			case *ssa.Send:
				out["send"] = true
			default:
				if n := callName(ins); n != "" && n != "dynamic" && !strings.Contains(n, "/log.") {
					out["call:"+n] = true
				}
			}
		})
	})
	return out
}

func writeBaselineReachable(p *Prog) {
	reach := p.reachableFuncs()
	cg := p.CG()
	out := map[string]wiredEntry{}
	for _, fn := range p.Funcs {
		if fn.Parent() != nil || !reach[fn] || fn.Synthetic != "" {
			continue
		}
		e := wiredEntry{}
		seen := map[string]bool{}
		if n := cg.Nodes[fn]; n != nil {
			for _, in := range n.In {
				c := topFunc(in.Caller.Func)
				if c != fn && p.Analysed(c) && !seen[fnName(c)] {
					seen[fnName(c)] = true
					e.Callers = append(e.Callers, fnName(c))
				}
			}
		}
		for k := range effectsOf(p, fn) {
			e.Effects = append(e.Effects, k)
		}
		sort.Strings(e.Callers)
		sort.Strings(e.Effects)
		out[fnName(fn)] = e
	}
	b, _ := json.MarshalIndent(out, "", " ")
	fmt.Println(string(b))
}

//go:embed anchor_files.json
var anchorFilesJSON []byte // anchors.files of /verif/properties.jsonl (the properties are given and fixed)

func anchorFilesOf(prop string) []string {
	var m map[string][]string
	if json.Unmarshal(anchorFilesJSON, &m) != nil {
		return nil
	}
	return m[prop]
}

func ruleStillWired(r *Run) {
	files := anchorFilesOf(r.Prop)
	r.Begin("W0", "still wired: every declared function of the property's anchor files ("+strings.Join(files, ", ")+") that was reachable from the exported API on the confirmed tree, and still exists, is still reachable in the call graph (a deleted call that disconnects a reader loop, a cleanup or a handler leaves the function in place but dead)", 1)
	p := r.P
	var base map[string]wiredEntry
	if err := json.Unmarshal(baselineReachableJSON, &base); err != nil || len(base) == 0 {
		r.Undecided("baseline", "baseline_reachable.json is empty")
		return
	}
	if len(files) == 0 {
		r.Undecided("anchor files", "no anchor files recorded for "+r.Prop)
		return
	}
	inFiles := func(f string) bool {
		for _, pat := range files {
			if ok, _ := filepath.Match(pat, f); ok || pat == f {
				return true
			}
		}
		return false
	}
	wasReach := map[string]bool{}
	for b := range base {
		wasReach[b] = true
	}
	byName := map[string]*ssa.Function{}
	for _, fn := range p.Funcs {
		if fn.Parent() == nil {
			byName[fnName(fn)] = fn
		}
	}
	reach := p.reachableFuncs()
	n, gone := 0, 0
	seenNow := map[string]bool{}
	for _, fn := range p.Funcs {
		if fn.Parent() != nil || fn.Synthetic != "" {
			continue
		}
		name := fnName(fn)
		seenNow[name] = true
		if !wasReach[name] || !inFiles(declFile(p, fn)) {
			continue
		}
		n++
		if !reach[fn] {
			// inlined by hand? a former caller that now performs everything this function did makes the leftover harmless
			inlined := ""
			for _, cn := range base[name].Callers {
				g := byName[cn]
				if g == nil || !reach[g] {
					continue
				}
				now := effectsOf(p, g)
				all := len(base[name].Effects) > 0
				for _, e := range base[name].Effects {
					if !now[e] {
						all = false
					}
				}
				if all {
					inlined = cn
				}
			}
			if inlined != "" {
				r.Check(name+" reachable", true, p.pos(fn.Pos()), name, "no longer called, but its former caller "+inlined+" now performs every call and store of its body itself (inlined by hand; the leftover is dead code)")
				continue
			}
		}
		r.Check(name+" reachable", reach[fn], p.pos(fn.Pos()), name, "this function was reachable from the exported API on the confirmed tree and is no longer called from anywhere reachable: the call (or go statement) that connected it was removed")
	}
	for b := range base {
		if !seenNow[b] {
			gone++
		}
	}
	r.Stat("functions_checked", n)
	r.Stat("baseline_functions_no_longer_declared", gone)
}

// ruleChannelsWired: a channel kept in a struct field that somebody receives from must have somebody who sends on it
// (or closes it, or hands it to a function that can). A deleted send leaves the receiver, and every rule about the
// receiver, intact — and the messages of that kind silently stop. Checked for the structs declared in the
// property's anchor files.
func ruleChannelsWired(r *Run) {
	files := anchorFilesOf(r.Prop)
	r.Begin("Wc", "channel fields are fed: for every channel-typed field of a struct declared in the property's anchor files that is received from somewhere in the module, there is a send on it or a call that is handed the channel (a close alone delivers nothing)", 1)
	p := r.P
	inFiles := func(f string) bool {
		for _, pat := range files {
			if ok, _ := filepath.Match(pat, f); ok || pat == f {
				return true
			}
		}
		return false
	}
	type use struct{ recv, feed int }
	uses := map[string]*use{}
	declared := map[string]string{} // field key -> position
	for _, pk := range p.Pkgs {
		if pk.Types == nil {
			continue
		}
		sc := pk.Types.Scope()
		for _, nm := range sc.Names() {
			tn, ok := sc.Lookup(nm).(*types.TypeName)
			if !ok {
				continue
			}
			n, ok := tn.Type().(*types.Named)
			if !ok {
				continue
			}
			st, ok := n.Underlying().(*types.Struct)
			if !ok {
				continue
			}
			pos := p.SSA.Fset.Position(tn.Pos())
			rel, _ := filepath.Rel(p.Dir, pos.Filename)
			if !inFiles(rel) {
				continue
			}
			for i := 0; i < st.NumFields(); i++ {
				if _, isCh := st.Field(i).Type().Underlying().(*types.Chan); isCh {
					fk := fieldKey(n, st.Field(i))
					declared[fk] = p.pos(st.Field(i).Pos())
					uses[fk] = &use{}
				}
			}
		}
	}
	if len(declared) == 0 {
		r.Check("channel fields", true, "", "", "no struct with channel fields is declared in the anchor files")
		return
	}
	fieldOfChan := func(v ssa.Value) string {
		for _, l := range p.Leaves(v, provOpts{}) {
			if strings.HasPrefix(l, "field:") {
				if _, ok := uses[l[6:]]; ok {
					return l[6:]
				}
			}
		}
		return ""
	}
	for _, fn := range p.Funcs {
		if fn.Blocks == nil {
			continue
		}
		allInstrs(fn, func(ins ssa.Instruction) {
			switch x := ins.(type) {
			case *ssa.UnOp:
				if x.Op == token.ARROW {
					if fk := fieldOfChan(x.X); fk != "" {
						uses[fk].recv++
					}
				}
			case *ssa.Range:
				if _, isCh := x.X.Type().Underlying().(*types.Chan); isCh {
					if fk := fieldOfChan(x.X); fk != "" {
						uses[fk].recv++
					}
				}
			case *ssa.Send:
				if fk := fieldOfChan(x.Chan); fk != "" {
					uses[fk].feed++
				}
			case *ssa.Select:
				for _, st := range x.States {
					fk := fieldOfChan(st.Chan)
					if fk == "" {
						continue
					}
					if st.Dir == types.SendOnly {
						uses[fk].feed++
					} else {
						uses[fk].recv++
					}
				}
			default:
				cc := instrCall(ins)
				if cc == nil {
					return
				}
				if b, isB := cc.Value.(*ssa.Builtin); isB && (b.Name() == "close" || b.Name() == "len" || b.Name() == "cap") {
					// closing ends the stream of values, it does not deliver one — except on a pure signal channel
					if b.Name() == "close" && len(cc.Args) == 1 {
						if ct, isCh := cc.Args[0].Type().Underlying().(*types.Chan); isCh {
							if st, isSt := ct.Elem().Underlying().(*types.Struct); isSt && st.NumFields() == 0 {
								if fk := fieldOfChan(cc.Args[0]); fk != "" {
									uses[fk].feed++
								}
							}
						}
					}
					return
				}
				for _, a := range cc.Args {
					if _, isCh := a.Type().Underlying().(*types.Chan); isCh {
						if fk := fieldOfChan(a); fk != "" {
							uses[fk].feed++ // close(ch), or a helper that is handed the channel (it may send or receive)
							uses[fk].recv++
						}
					}
				}
			}
		})
	}
	// only channels that the module creates for the field itself: a field that is assigned a channel obtained
	// elsewhere (a subscription handed out by another layer) is fed through that other reference
	own := map[string]bool{}
	aliased := map[string]bool{}
	for _, fn := range p.Funcs {
		allInstrs(fn, func(ins ssa.Instruction) {
			st, ok := ins.(*ssa.Store)
			if !ok {
				return
			}
			fk := fieldKeyOfAddr(st.Addr)
			if _, ok := uses[fk]; !ok {
				return
			}
			if mk, isMk := st.Val.(*ssa.MakeChan); isMk && mk.Referrers() != nil && len(*mk.Referrers()) == 1 {
				own[fk] = true
			} else {
				aliased[fk] = true
			}
		})
	}
	var ks []string
	for fk := range declared {
		ks = append(ks, fk)
	}
	sort.Strings(ks)
	for _, fk := range ks {
		u := uses[fk]
		if u.recv == 0 || !own[fk] || aliased[fk] {
			continue
		}
		r.Check("channel "+fk+" is fed", u.feed > 0, declared[fk], "", fmt.Sprintf("%d receive site(s), %d feeding site(s) (send, or call handed the channel)", u.recv, u.feed))
	}
	if len(r.cur.Obs) == 0 {
		r.Check("channel fields", true, "", "", "no channel field of the anchor files is both created for the field and received from")
	}
}
