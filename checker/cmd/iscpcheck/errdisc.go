package main

import (
	"fmt"
	"go/token"
	"go/types"
	"strings"

	"golang.org/x/tools/go/ssa"
)

// firstReturnFrom: the Return reached from block b by following unconditional successors (up to 4 blocks).
func firstReturnFrom(b *ssa.BasicBlock) *ssa.Return {
	for d := 0; d < 5 && b != nil; d++ {
		for _, ins := range b.Instrs {
			if ret, ok := ins.(*ssa.Return); ok {
				return ret
			}
		}
		if len(b.Succs) == 1 && len(b.Succs[0].Preds) == 1 {
			b = b.Succs[0] // still on this edge only (not a join with the other branch)
		} else {
			return nil
		}
	}
	return nil
}

func returnsError(fn *ssa.Function) bool {
	res := fn.Signature.Results()
	if res.Len() == 0 {
		return false
	}
	return types.Identical(res.At(res.Len()-1).Type(), types.Universe.Lookup("error").Type())
}

// ruleErrorDiscipline: errors of wire-level calls and negative result codes surface to the caller.
func ruleErrorDiscipline(r *Run, id string) {
	r.Begin(id, "error discipline in package iscp: in every function that returns an error, (a) the error of each call to the retry wrapper, to a wire-level Send…/Subscribe… or to the store's Store is either returned or tested, and its non-nil edge leads to a return of a non-nil error; (b) wherever a response's ResultCode is compared with ResultCodeSucceeded, the not-succeeded edge leads to a return of a non-nil error (a negative answer is never reported as success)", 20)
	p := r.P
	succ, _ := p.enumConst("/message", "ResultCodeSucceeded")
	isWatched := func(n string) bool {
		switch {
		case n == "/iscp.Conn.send", n == "/iscp.Conn.call", n == "/iscp.Conn.subscribeReply", n == "/iscp.Conn.subscribeDownstreamMetadata", n == "/iscp.sentStorage.Store":
			return true
		case strings.HasPrefix(n, "/wire.ClientConn.Send"), strings.HasPrefix(n, "/wire.ClientConn.Subscribe"):
			return true
		}
		return false
	}
	nCalls, nRC := 0, 0
	for _, fn := range p.Funcs {
		if fnPkgPath(fn) != modPath+"/iscp" || !returnsError(fn) {
			continue
		}
		name := fnName(fn)
		k := 0
		allInstrs(fn, func(ins ssa.Instruction) {
			c, ok := ins.(*ssa.Call)
			if !ok || !isWatched(callName(ins)) {
				return
			}
			errs := errResultsOf(c)
			if len(errs) == 0 {
				return
			}
			nCalls++
			k++
			key := fmt.Sprintf("%s call#%d %s", name, k, callName(ins)[strings.LastIndexByte(callName(ins), '.')+1:])
			okc := false
			detail := "the call's error is neither returned nor tested"
			for _, ev := range errs {
				// returned directly
				allInstrs(fn, func(x ssa.Instruction) {
					if ret, isRet := x.(*ssa.Return); isRet {
						rs := retResults(ret)
						last := rs[len(rs)-1]
						if last == ev || sameValue(last, ev) {
							okc = true
						}
						for _, cand := range loadsOfStored(ev) {
							if last == cand {
								okc = true
							}
						}
					}
				})
				for _, ifs := range nilTestsOf(fn, ev) {
					bo := ifs.Cond.(*ssa.BinOp)
					ne := nilEdge(ifs, bo.X)
					if ne == nil {
						ne = nilEdge(ifs, bo.Y)
					}
					for _, s := range ifs.Block().Succs {
						if s == ne {
							continue
						}
						ret := firstReturnFrom(s)
						if ret == nil {
							// the failure edge continues (retry loop, cleanup then return later): accept when every
							// return reachable before re-joining the success path is non-nil — approximated by: some
							// return of a non-nil error is reachable from here
							w := reachesWithoutFromBlock(s, func(x ssa.Instruction) bool {
								rr, isRet := x.(*ssa.Return)
								return isRet && nonNilErrReturn(rr)
							}, nil)
							if w != nil {
								okc = true
							} else {
								detail = "after the error was detected no return of a non-nil error is reachable"
							}
							continue
						}
						if nonNilErrReturn(ret) {
							okc = true
						} else {
							detail = "the failure edge returns a nil error at " + posOf(p, ret)
						}
					}
				}
			}
			r.Check(key, okc, posOf(p, ins), name, detail)
		})
		// result codes
		j := 0
		allInstrs(fn, func(ins ssa.Instruction) {
			bo, ok := ins.(*ssa.BinOp)
			if !ok || (bo.Op != token.NEQ && bo.Op != token.EQL) || bo.Referrers() == nil {
				return
			}
			kv, isK := constInt(bo.Y)
			if !isK || kv != succ || !typeIs(bo.Y.Type(), modPath+"/message", "ResultCode") {
				return
			}
			if !strings.HasSuffix(strings.Join(p.Leaves(bo.X, provOpts{}), " "), ".ResultCode") && !hasLeafSuffix(p.Leaves(bo.X, provOpts{}), ".ResultCode") {
				return
			}
			for _, ref := range *bo.Referrers() {
				ifs, isIf := ref.(*ssa.If)
				if !isIf {
					continue
				}
				nRC++
				j++
				failSucc := ifs.Block().Succs[0]
				if bo.Op == token.EQL {
					failSucc = ifs.Block().Succs[1]
				}
				ret := firstReturnFrom(failSucc)
				okc := false
				detail := "no return on the not-succeeded edge"
				if ret != nil {
					okc = nonNilErrReturn(ret)
					detail = "the not-succeeded edge returns at " + posOf(p, ret)
				} else {
					okc = false
					detail = "the not-succeeded edge does not end in a return of its own: it rejoins the success path, so a negative answer is treated like a positive one"
				}
				r.Check(fmt.Sprintf("%s resultcode#%d", name, j), okc, p.pos(bo.Pos()), name, detail)
			}
		})
	}
	r.Stat("watched_calls", nCalls)
	r.Stat("result_code_tests", nRC)
}

func hasLeafSuffix(l []string, suf string) bool {
	for _, x := range l {
		if strings.HasSuffix(x, suf) {
			return true
		}
	}
	return false
}

// loadsOfStored: loads of the local/captured variable that v is stored into.
func loadsOfStored(v ssa.Value) []ssa.Value {
	var out []ssa.Value
	if v.Referrers() == nil {
		return nil
	}
	for _, r := range *v.Referrers() {
		if st, ok := r.(*ssa.Store); ok && st.Val == v {
			out = append(out, loadsOfAddr(st.Addr)...)
		}
	}
	return out
}

// ruleErrorsChecked: in the given package, no error returned by a module function is dropped or overwritten unchecked.
func ruleErrorsChecked(r *Run, id string, pkgRel string, floor int) {
	r.Begin(id, "no converter error is lost: in package "+pkgRel+", the error result of every call to a function of the module is either tested against nil, returned, or handed on; an error overwritten by a later assignment before it was looked at lets an invalid field through with a zero value", floor)
	p := r.P
	n := 0
	for _, fn := range p.Funcs {
		if fnPkgPath(fn) != modPath+pkgRel {
			continue
		}
		name := fnName(fn)
		k := 0
		allInstrs(fn, func(ins ssa.Instruction) {
			c, ok := ins.(*ssa.Call)
			if !ok {
				return
			}
			cf := c.Call.StaticCallee()
			if cf == nil || !p.Analysed(cf) || !returnsError(cf) {
				return
			}
			n++
			k++
			key := fmt.Sprintf("%s call#%d %s", name, k, cf.Name())
			used := false
			for _, ev := range errResultsOf(c) {
				if ev.Referrers() == nil {
					continue
				}
				for _, ref := range *ev.Referrers() {
					switch ref.(type) {
					case *ssa.BinOp, *ssa.Return, *ssa.Call, *ssa.MakeInterface, *ssa.Phi:
						used = true
					case *ssa.Store:
						for _, ld := range loadsOfStored(ev) {
							if ld.Referrers() != nil && len(*ld.Referrers()) > 0 {
								used = true
							}
						}
					}
				}
			}
			r.Check(key, used, posOf(p, c), name, "the error returned by "+cf.Name()+" is never looked at (dropped, or overwritten before any test)")
		})
	}
	r.Stat("calls_returning_error", n)
}

// ruleNoSwallowedErrors: (1) the error result of a call to a function of the module is looked at (tested, returned or
// handed on) — see ruleErrorsChecked; (2) wherever an error value obtained from a call is tested against nil, the
// failure edge does something before it rejoins the success path (returns, calls, stores, sends): an empty
// `if err != nil {}` silently continues with the zero value of whatever the call was meant to produce.
func ruleNoSwallowedErrors(r *Run, id string, floor int, dropped bool, pkgs ...string) {
	r.Begin(id, "errors are neither dropped nor swallowed in "+strings.Join(pkgs, ", ")+": the error result of every call to a module function is tested, returned or handed on; and where the error of any call is tested against nil, the non-nil edge performs some action (return, call, store, send) before rejoining the success path", floor)
	p := r.P
	inPkgs := func(fn *ssa.Function) bool {
		for _, pk := range pkgs {
			if fnPkgPath(fn) == modPath+pk || (strings.HasSuffix(pk, "/") && strings.HasPrefix(fnPkgPath(fn), modPath+pk)) {
				return true
			}
		}
		return false
	}
	nCalls, nTests := 0, 0
	for _, fn := range p.Funcs {
		if !inPkgs(fn) || fn.Blocks == nil {
			continue
		}
		name := fnName(fn)
		k, j := 0, 0
		allInstrs(fn, func(ins ssa.Instruction) {
			c, ok := ins.(*ssa.Call)
			if !ok {
				return
			}
			errs := errResultsOf(c)
			if len(errs) == 0 {
				return
			}
			cf := c.Call.StaticCallee()
			if dropped && cf != nil && p.Analysed(cf) && returnsError(cf) && !strings.HasPrefix(cf.Name(), "Close") && !strings.HasPrefix(cf.Name(), "close") {
				// (teardown calls are exempt: the error of a Close on a failure path is conventionally not acted upon)
				nCalls++
				k++
				used := false
				for _, ev := range errs {
					if ev.Referrers() == nil {
						continue
					}
					for _, ref := range *ev.Referrers() {
						switch ref.(type) {
						case *ssa.BinOp, *ssa.Return, *ssa.Call, *ssa.MakeInterface, *ssa.Phi, *ssa.Send, *ssa.MakeClosure, *ssa.Defer, *ssa.Go, *ssa.ChangeInterface, *ssa.TypeAssert:
							used = true
						case *ssa.Store:
							for _, ld := range loadsOfStored(ev) {
								if ld.Referrers() != nil && len(*ld.Referrers()) > 0 {
									used = true
								}
							}
							if st := ref.(*ssa.Store); st.Val == ev {
								if _, isAlloc := st.Addr.(*ssa.Alloc); !isAlloc {
									used = true // stored into a field or a result
								}
							}
						}
					}
				}
				r.Check(fmt.Sprintf("%s call#%d %s looked at", name, k, cf.Name()), used, posOf(p, c), name, "the error returned by "+cf.Name()+" is never looked at (dropped, or overwritten before any test)")
			}
			// (2) empty failure branches
			for _, ev := range errs {
				// go/ssa folds `if err != nil {}` into a comparison nobody reads
				for _, cand := range append([]ssa.Value{ev}, loadsOfStored(ev)...) {
					if cand.Referrers() == nil {
						continue
					}
					for _, ref := range *cand.Referrers() {
						bo, isBo := ref.(*ssa.BinOp)
						if !isBo || (bo.Op != token.EQL && bo.Op != token.NEQ) || !(isNilConst(bo.X) || isNilConst(bo.Y)) {
							continue
						}
						if bo.Referrers() == nil || len(*bo.Referrers()) == 0 {
							nTests++
							j++
							r.Check(fmt.Sprintf("%s errtest#%d of %s", name, j, calleeShort(c)), false, p.pos(bo.Pos()), name, "the error of "+calleeShort(c)+" is compared with nil and nothing depends on the outcome (an empty branch): execution continues as if the call had succeeded")
						}
					}
				}
				for _, ifs := range nilTestsOf(fn, ev) {
					bo := ifs.Cond.(*ssa.BinOp)
					ne := nilEdge(ifs, bo.X)
					if ne == nil {
						ne = nilEdge(ifs, bo.Y)
					}
					if ne == nil {
						continue
					}
					var fe *ssa.BasicBlock
					for _, s := range ifs.Block().Succs {
						if s != ne {
							fe = s
						}
					}
					nTests++
					j++
					empty := fe == nil // both edges lead to the same block
					if fe != nil {
						// follow the failure edge while blocks hold nothing but an unconditional jump
						b := fe
						for hops := 0; hops < 4; hops++ {
							if len(b.Instrs) == 1 {
								if _, isJ := b.Instrs[0].(*ssa.Jump); isJ {
									b = b.Succs[0]
									continue
								}
							}
							break
						}
						if b == ne && ne != fe {
							empty = true
						}
						// the failure edge reaches the block the nil edge jumps to without doing anything
						if !empty && len(ne.Instrs) == 1 {
							if _, isJ := ne.Instrs[0].(*ssa.Jump); isJ && ne.Succs[0] == b && b != fe {
								empty = true
							}
						}
					}
					r.Check(fmt.Sprintf("%s errtest#%d of %s", name, j, calleeShort(c)), !empty, posOf(p, ifs), name, "the branch taken when "+calleeShort(c)+" failed is empty: execution continues as if the call had succeeded")
					// wrong variable: the failure edge returns an error value that an earlier test already proved nil
					// (`if uerr := f(); uerr != nil { return err }` after `if err != nil { return err }`)
					// (not decided for functions that return through named results after a defer: go/ssa re-loads the result
					// variables behind rundefers and in the recover block, the identity of the returned value is lost)
					if fe != nil && !(fn.Recover != nil && fn.Signature.Results().Len() > 0 && fn.Signature.Results().At(0).Name() != "") {
						if ret := firstReturnFrom(fe); ret != nil {
							rs := retResults(ret)
							if len(rs) > 0 {
								last := rs[len(rs)-1]
								// a named result (or a variable) re-loaded for the return: what was last stored into it on this
								// edge is what is returned (functions with defers return through their result variables)
								for round := 0; round < 4; round++ {
									ld, isLd := last.(*ssa.UnOp)
									if !isLd || ld.Op != token.MUL {
										break
									}
									a, isA := ld.X.(*ssa.Alloc)
									if !isA || a.Referrers() == nil {
										break
									}
									var lastStore *ssa.Store
									for _, ref := range *a.Referrers() {
										if st, isSt := ref.(*ssa.Store); isSt && st.Addr == ssa.Value(a) && dominatesInstr(st, ld) {
											if lastStore == nil || dominatesInstr(lastStore, st) {
												lastStore = st
											}
										}
									}
									if lastStore == nil {
										break
									}
									last = lastStore.Val
								}
								if last != ev && !sameValue(last, ev) && !isNilConst(last) {
									provenNil := false
									for _, t2 := range nilTestsOf(fn, last) {
										if t2 == ifs {
											continue
										}
										if ne2 := nilEdge(t2, t2.Cond.(*ssa.BinOp).X); ne2 != nil && edgeDominates(t2.Block(), ne2, ret.Block()) {
											provenNil = true
										} else if ne2 := nilEdge(t2, t2.Cond.(*ssa.BinOp).Y); ne2 != nil && edgeDominates(t2.Block(), ne2, ret.Block()) {
											provenNil = true
										}
									}
									if provenNil {
										j++
										r.Check(fmt.Sprintf("%s errtest#%d of %s returns another error", name, j, calleeShort(c)), false, posOf(p, ret), name, "when "+calleeShort(c)+" fails, the function returns a different error value which an earlier test on this path proved to be nil: the failure is reported as success")
									}
								}
							}
						}
					}
					// inverted test: the branch on which the error is nil hands that (nil) error back while the failure
					// edge carries on with the call's other results
					if fe != nil && fe != ne {
						// region form: somewhere under the nil edge the (nil) error itself is returned, while the
						// failure edge does not return but carries on
						nilRet, failRet := false, false
						for _, b := range fn.Blocks {
							ret, isRet := b.Instrs[len(b.Instrs)-1].(*ssa.Return)
							if !isRet {
								continue
							}
							if edgeDominates(ifs.Block(), ne, b) {
								rs := retResults(ret)
								if len(rs) > 0 && (rs[len(rs)-1] == ev || sameValue(rs[len(rs)-1], ev)) {
									nilRet = true
								}
							}
							if edgeDominates(ifs.Block(), fe, b) {
								failRet = true
							}
						}
						_ = failRet
						if nilRet && firstReturnFrom(fe) == nil {
							j++
							r.Check(fmt.Sprintf("%s errtest#%d of %s polarity", name, j, calleeShort(c)), false, posOf(p, ifs), name, "the error of "+calleeShort(c)+" is returned on the branch where it is nil, and the branch where it is non-nil continues: the test is inverted")
						}
					}
				}
			}
		})
	}
	r.Stat("module_calls_returning_error", nCalls)
	r.Stat("error_tests", nTests)
}

func calleeShort(c *ssa.Call) string {
	n := callName(c)
	if i := strings.LastIndexByte(n, '/'); i >= 0 {
		n = n[i+1:]
	}
	return n
}
