package main

import (
	"fmt"
	"go/token"
	"go/types"
	"strings"

	"golang.org/x/tools/go/ssa"
)

func init() {
	register(&PropSpec{
		ID:          "C06",
		Explanation: "Structural necessary conditions for 'each request receives its own response; request ids are unique'. R1: every request handed to sendRequest (and the connect request) carries a RequestID taken from the connection's id generator on that path; the generator starts even and advances by an even step. R2: sendRequest registers the reply channel, under the connection mutex, before it writes. R3: the router looks up, deletes and delivers by the incoming message's own request id; the not-found edge delivers nothing and releases the lock. R4: every channel stored in the reply table has capacity ≥ 1, so delivery cannot block the router. R5: the waiter selects on the reply, the caller's context and the connection's done channel.",
		NotDecided:  []string{"correlation under arbitrary permutations (follows from R1–R4 only if the broker echoes ids)", "leak of abandoned reply-table entries"},
		Rules: func(r *Run) {
			le := newLockEngine(r.P)
			ruleC06R1(r)
			ruleC06R2(r, le)
			ruleC06R3(r, le)
			ruleC06R4(r)
			ruleC06R5(r)
			ruleNoSwallowedErrors(r, "R7", 20, true, "/wire")
			ruleC06R8(r)
			ruleCtxParamUsed(r, "R9")
			r.borrow("C08", func() { ruleNoRoundTripUnderConnLock(r, newLockEngine(r.P), "X3") }) // a second request is sent while the first is unanswered: the broker may answer in any order
			ruleLockPairingFor(r, le, "R6", "lock pairing in the correlation paths: every function that touches the reply table releases ClientConn.mu on every path (the not-found edge of the router included)", func(fn *ssa.Function) bool {
				for _, a := range collectAccesses(fn) {
					if fieldKey(a.Owner, a.Field) == "/wire.ClientConn.replyCh" {
						return true
					}
				}
				return false
			}, 2)
		},
	})
}

func ruleC06R1(r *Run) {
	r.Begin("R1", "ids come from the generator: at every call of sendRequest the request's RequestID was set, on that path, from ClientConn.idGenerator.Next(); the connect request likewise; Next returns the old value of an atomic add of an even constant and the client generator starts at an even value", 10)
	p := r.P
	send := r.method("/wire", "ClientConn", "sendRequest")
	if send == nil {
		return
	}
	isGenNext := func(v ssa.Value) bool {
		l := p.Leaves(v, provOpts{})
		return hasLeaf(l, "call:/wire.IDGenerator.Next") && hasLeaf(l, "addr:/wire.ClientConn.idGenerator") && len(leavesWithin(l, []string{"call:/wire.IDGenerator.Next", "addr:/wire.ClientConn.idGenerator", "param:*"})) == 0
	}
	// (c) the id is stamped inside sendRequest: a store to RequestID of the request parameter with a generator value —
	// directly, or in a helper (setRequestID(req, id)) whose type switch has to name the dynamic type of the request;
	// stampedTypes lists the types for which that happens ("*" = any: the store goes through an interface method or an
	// unconditional path)
	stampedTypes := map[string]bool{}
	stampInSend := false
	{
		reqPrm := ssa.Value(nil)
		if len(send.Params) > 2 {
			reqPrm = send.Params[2]
		}
		var scan func(fn *ssa.Function, prm ssa.Value, genOK func(ssa.Value) bool, depth int)
		scan = func(fn *ssa.Function, prm ssa.Value, genOK func(ssa.Value) bool, depth int) {
			if fn == nil || fn.Blocks == nil || depth > 2 {
				return
			}
			allInstrs(fn, func(ins ssa.Instruction) {
				switch x := ins.(type) {
				case *ssa.Store:
					fa, isFA := x.Addr.(*ssa.FieldAddr)
					if !isFA {
						return
					}
					f := fieldOf(fa.X.Type(), fa.Field)
					if f == nil || f.Name() != "RequestID" || !genOK(x.Val) {
						return
					}
					// the object is the request narrowed by a type assertion / type switch
					base := canonVal(fa.X)
					if ex, isEx := base.(*ssa.Extract); isEx {
						base = ex.Tuple
					}
					if ta, isTA := base.(*ssa.TypeAssert); isTA && canonVal(ta.X) == prm {
						stampedTypes[ta.AssertedType.String()] = true
						stampInSend = true
					}
				case *ssa.Call:
					cal := x.Call.StaticCallee()
					if cal == nil || !p.Analysed(cal) || !dominatesAllReturnsOrWrite(x, send) {
						return
					}
					ri, gi := -1, -1
					for i, a := range x.Call.Args {
						if canonVal(a) == prm {
							ri = i
						} else if genOK(a) {
							gi = i
						}
					}
					if ri >= 0 && gi >= 0 && ri < len(cal.Params) && gi < len(cal.Params) {
						gp := ssa.Value(cal.Params[gi])
						scan(cal, cal.Params[ri], func(v ssa.Value) bool { return canonVal(v) == gp }, depth+1)
					}
				}
			})
		}
		if reqPrm != nil {
			scan(send, reqPrm, isGenNext, 0)
		}
	}
	// the sites at which a request is handed over: the calls of sendRequest, or — when the request there is the
	// interface-typed parameter of an unexported forwarding function (a generic round-trip helper) — the calls of that
	// function, with the argument that becomes the request
	type reqSite struct {
		at  ssa.Instruction
		req ssa.Value
	}
	var sites []reqSite
	var expand func(at ssa.Instruction, req ssa.Value, depth int)
	expand = func(at ssa.Instruction, req ssa.Value, depth int) {
		fn := at.Parent()
		if fn.TypeParams().Len() > 0 && len(fn.TypeArgs()) == 0 {
			return // the uninstantiated body of a generic function: its instances are judged
		}
		if prm, isP := canonVal(req).(*ssa.Parameter); isP && depth < 2 && fn.Parent() == nil && types.IsInterface(prm.Type()) && !(fn.Object() != nil && fn.Object().Exported() && fn.Signature.Recv() != nil) {
			callers := p.staticCallSites(fn)
			idx := -1
			for i, q := range fn.Params {
				if q == prm {
					idx = i
				}
			}
			if len(callers) > 0 && idx >= 0 && !(fn.Object() != nil && fn.Object().Exported()) {
				for _, c := range callers {
					if args := callArgs(instrCall(c)); idx < len(args) {
						expand(c, args[idx], depth+1)
					}
				}
				return
			}
		}
		sites = append(sites, reqSite{at, req})
	}
	for _, s := range p.staticCallSites(send) {
		expand(s, instrCall(s).Args[2], 0)
	}
	for _, rs := range sites {
		s := rs.at
		fn := s.Parent()
		name := fnName(fn)
		req := rs.req
		ok := false
		detail := ""
		if stampInSend {
			if mi, isMI := req.(*ssa.MakeInterface); isMI {
				t := mi.X.Type().String()
				ok = stampedTypes[t]
				detail = fmt.Sprintf("sendRequest stamps the id itself; its type switch names %s: %v", t, ok)
			} else if prm, isP := canonVal(req).(*ssa.Parameter); isP {
				// the request is an interface-typed parameter of a forwarding function: judged at its callers? not followed
				_ = prm
			}
			if ok {
				r.Check(name+" request id", true, posOf(p, s), name, detail)
				continue
			}
		}
		// (a) request is a literal built here (Ping): RequestID field store from the generator
		rv := req
		if mi, isMI := rv.(*ssa.MakeInterface); isMI {
			rv = mi.X
		}
		if a, isAlloc := rv.(*ssa.Alloc); isAlloc {
			if n := namedOf(deref(a.Type())); n != nil {
				for _, lit := range literalsOf(fn, n) {
					if lit.Alloc == a {
						if v, has := lit.Fields["RequestID"]; has {
							ok = isGenNext(v)
							detail = "literal RequestID <- [" + joinLeaves(p.Leaves(v, provOpts{})) + "]"
						}
					}
				}
			}
		} else {
			// (b) request is a parameter: a store to its RequestID field from the generator dominates the call
			allInstrs(fn, func(ins ssa.Instruction) {
				st, isSt := ins.(*ssa.Store)
				if !isSt {
					return
				}
				fa, isFA := st.Addr.(*ssa.FieldAddr)
				if !isFA {
					return
				}
				f := fieldOf(fa.X.Type(), fa.Field)
				if f == nil || f.Name() != "RequestID" || canonVal(fa.X) != canonVal(rv) {
					return
				}
				if dominatesInstr(st, s) && isGenNext(st.Val) {
					ok = true
					detail = "req.RequestID <- generator at " + posOf(p, st)
				}
			})
		}
		r.Check(name+" request id", ok, posOf(p, s), name, "the request passed to sendRequest must get its id from idGenerator.Next() on this path; "+detail)
	}
	r.Stat("sendRequest_call_sites", len(sites))
	// connect request
	cr := r.named("/message", "ConnectRequest")
	if cr != nil {
		n := 0
		for _, lit := range p.allLiterals(cr) {
			if fnPkgPath(lit.Fn) != modPath+"/wire" {
				continue
			}
			n++
			v, has := lit.Fields["RequestID"]
			r.Check(fnName(lit.Fn)+" connect request id", has && isGenNext(v), p.pos(lit.Alloc.Pos()), fnName(lit.Fn), "ConnectRequest.RequestID from the generator")
		}
		if n == 0 {
			r.Undecided("connect request literal", "no ConnectRequest literal in package wire")
		}
	}
	// generator parity
	next := r.method("/wire", "IDGenerator", "Next")
	if next != nil {
		ok := false
		detail := ""
		adds := findCalls(next, false, "sync/atomic.AddUint32")
		if len(adds) == 1 {
			step, isC := constInt(instrCall(adds[0]).Args[1])
			allInstrs(next, func(ins ssa.Instruction) {
				if ret, isRet := ins.(*ssa.Return); isRet && len(ret.Results) == 1 {
					if bo, isBo := ret.Results[0].(*ssa.BinOp); isBo && bo.Op == token.SUB && bo.X == adds[0].(ssa.Value) {
						if k, isK := constInt(bo.Y); isK && isC && k == step && step%2 == 0 && step > 0 {
							ok = true
						}
					}
					if ret.Results[0] == adds[0].(ssa.Value) && isC && step%2 == 0 && step > 0 {
						ok = true
					}
				}
			})
			detail = fmt.Sprintf("atomic add step %d", step)
		}
		r.Check("generator step even", ok, p.pos(next.Pos()), fnName(next), "Next must advance by a positive even constant and return a value of the starting parity; "+detail)
	}
	ctor := r.function("/wire", "newRequestIDGeneratorForClient")
	if ctor != nil {
		ok := false
		gen := p.Named("/wire", "IDGenerator")
		for _, lit := range literalsOf(ctor, gen) {
			if v, has := lit.Fields["currentValue"]; has {
				if k, isK := constInt(v); isK && k%2 == 0 {
					ok = true
				}
			} else {
				ok = true // zero value
			}
		}
		// IDGenerator{} with no field at all is the zero constant of the struct type
		for _, ret := range returnsOf(ctor) {
			for _, v := range retResults(ret) {
				if flds, isLit := structLitFields(v); isLit && len(flds) == 0 {
					if _, isK := v.(*ssa.Const); isK {
						ok = true
					}
				}
			}
		}
		r.Check("client generator starts even", ok, p.pos(ctor.Pos()), fnName(ctor), "the client's request id generator must start at an even value")
	}
	// who stores ClientConn.idGenerator: only the constructor
	if f := p.Field("/wire", "ClientConn", "idGenerator"); f != nil {
		for _, st := range p.fieldStores(f) {
			fa := st.Addr.(*ssa.FieldAddr)
			r.Check("idGenerator stored in "+fnName(st.Parent()), isLocalObject(pathOf(fa.X)), p.pos(st.Pos()), fnName(st.Parent()), "the id generator must not be replaced after construction")
		}
	}
}

func ruleC06R2(r *Run, le *LockEngine) {
	r.Begin("R2", "register before write: in sendRequest the store replyCh[id] = ch, keyed by the request's own id and made under ClientConn.mu, dominates the transport write", 2)
	p := r.P
	send := r.method("/wire", "ClientConn", "sendRequest")
	if send == nil {
		return
	}
	name := fnName(send)
	var reg *ssa.MapUpdate
	var regSite ssa.Instruction // the registration as seen from sendRequest: the map update itself or the call of a helper doing it
	var regKey ssa.Value
	findReg := func(fn *ssa.Function) *ssa.MapUpdate {
		var out *ssa.MapUpdate
		allInstrs(fn, func(ins ssa.Instruction) {
			if mu, ok := ins.(*ssa.MapUpdate); ok {
				if u, isU := mu.Map.(*ssa.UnOp); isU && fieldKeyOfAddr(u.X) == "/wire.ClientConn.replyCh" {
					out = mu
				}
			}
		})
		return out
	}
	regFn := send
	if reg = findReg(send); reg != nil {
		regSite, regKey = reg, reg.Key
	} else {
		allInstrs(send, func(ins ssa.Instruction) {
			c, ok := ins.(*ssa.Call)
			if !ok {
				return
			}
			cf := c.Call.StaticCallee()
			if cf == nil || !p.Analysed(cf) {
				return
			}
			if mu := findReg(cf); mu != nil {
				// the helper's key is one of its parameters: map it to the argument
				for i, prm := range cf.Params {
					if canonVal(mu.Key) == ssa.Value(prm) && i < len(c.Call.Args) {
						reg, regSite, regKey, regFn = mu, ins, c.Call.Args[i], cf
					}
				}
				// or the helper computes the key itself as GetRequestID() of the request it is handed, and that request
				// is the one sendRequest writes
				if kc, isCall := mu.Key.(*ssa.Call); isCall && reg == nil && kc.Call.IsInvoke() && kc.Call.Method.Name() == "GetRequestID" {
					for i, prm := range cf.Params {
						if canonVal(kc.Call.Value) == ssa.Value(prm) && i < len(c.Call.Args) {
							if _, isReqParam := canonVal(c.Call.Args[i]).(*ssa.Parameter); isReqParam {
								reg, regSite, regKey, regFn = mu, ins, mu.Key, cf
							}
						}
					}
				}
			}
		})
	}
	inLiteral := false
	if reg == nil {
		// helper → literal: the store sits in a function literal that the helper hands to a lock helper
		// (c.withLock(func(){ c.replyCh[req.GetRequestID()] = ch })); the key is GetRequestID() of a variable the
		// literal captured, bound to the helper's parameter, which is the request sendRequest was given
		allInstrs(send, func(ins ssa.Instruction) {
			c, ok := ins.(*ssa.Call)
			if !ok || reg != nil {
				return
			}
			cf := c.Call.StaticCallee()
			if cf == nil || !p.Analysed(cf) {
				return
			}
			for _, an := range cf.AnonFuncs {
				mu := findReg(an)
				if mu == nil {
					continue
				}
				kc, isCall := mu.Key.(*ssa.Call)
				if !isCall || !kc.Call.IsInvoke() || kc.Call.Method.Name() != "GetRequestID" {
					continue
				}
				var recvV ssa.Value = kc.Call.Value
				if u, isU := recvV.(*ssa.UnOp); isU && u.Op == token.MUL {
					recvV = u.X // captured by reference: the literal loads the variable
				}
				fv, isFV := recvV.(*ssa.FreeVar)
				if !isFV {
					fv, isFV = canonVal(kc.Call.Value).(*ssa.FreeVar)
				}
				if !isFV {
					continue
				}
				// the binding of the free variable in the helper
				allInstrs(cf, func(x ssa.Instruction) {
					mc, isMC := x.(*ssa.MakeClosure)
					if !isMC || mc.Fn != ssa.Value(an) {
						return
					}
					for bi, b := range mc.Bindings {
						if bi >= len(an.FreeVars) || an.FreeVars[bi] != fv {
							continue
						}
						bound := canonVal(b)
						if al, isAl := b.(*ssa.Alloc); isAl && al.Referrers() != nil {
							// the spilled parameter: one store, of the parameter itself
							var stored []ssa.Value
							for _, ref := range *al.Referrers() {
								if st, isSt := ref.(*ssa.Store); isSt && st.Addr == ssa.Value(al) {
									stored = append(stored, st.Val)
								}
							}
							if len(stored) == 1 {
								bound = canonVal(stored[0])
							}
						}
						for i, prm := range cf.Params {
							if bound == ssa.Value(prm) && i < len(c.Call.Args) {
								if _, isReqParam := canonVal(c.Call.Args[i]).(*ssa.Parameter); isReqParam {
									reg, regSite, regKey, regFn, inLiteral = mu, ins, mu.Key, an, true
								}
							}
						}
					}
				})
			}
		})
	}
	writes := findCalls(send, false, "/wire.EncodingTransport.Write")
	if reg == nil || len(writes) == 0 {
		r.Check(name+" registers", false, p.pos(send.Pos()), name, fmt.Sprintf("registration found: %v; transport writes: %d", reg != nil, len(writes)))
		return
	}
	okDom := true
	for _, w := range writes {
		if !dominatesInstr(regSite, w) {
			okDom = false
		}
	}
	kl := p.Leaves(regKey, provOpts{})
	okKey := hasLeaf(kl, "call:/message.Request.GetRequestID")
	r.Check(name+" registers before write", okDom && okKey, posOf(p, reg), name, fmt.Sprintf("registration dominates every write: %v; key derives from [%s]", okDom, joinLeaves(kl)))
	h := le.HeldAt(reg)
	if inLiteral {
		h = le.heldWhereInvoked(regFn)
		okLock := false
		for k, m := range h {
			if m == modeW && strings.HasSuffix(k, ".mu") {
				okLock = true
			}
		}
		r.Check(name+" registers under lock", okLock, posOf(p, reg), name, fmt.Sprintf("locks held where the registering literal is invoked: %v", h))
		return
	}
	r.Check(name+" registers under lock", h[regFn.Params[0].Name()+".mu"] == modeW, posOf(p, reg), name, fmt.Sprintf("locks held at the registration: %v", h))
}

func ruleC06R3(r *Run, le *LockEngine) {
	r.Begin("R3", "route and delete by the same id: in the reply router the lookup key, the deleted key and the delivered message all come from the incoming message's GetRequestID(); the delete precedes the delivery; the not-found edge delivers nothing", 3)
	p := r.P
	// the router: the function that deletes from replyCh
	var router *ssa.Function
	var del *ssa.Call
	routerLooksUp := false
	for _, fn := range p.Funcs {
		if fnPkgPath(fn) != modPath+"/wire" {
			continue
		}
		var d0 *ssa.Call
		looksUp := false
		allInstrs(fn, func(ins ssa.Instruction) {
			if c, ok := ins.(*ssa.Call); ok {
				if b, isB := c.Call.Value.(*ssa.Builtin); isB && b.Name() == "delete" {
					if u, isU := c.Call.Args[0].(*ssa.UnOp); isU && fieldKeyOfAddr(u.X) == "/wire.ClientConn.replyCh" {
						d0 = c
					}
				}
			}
			if l, ok := ins.(*ssa.Lookup); ok {
				if u, isU := l.X.(*ssa.UnOp); isU && fieldKeyOfAddr(u.X) == "/wire.ClientConn.replyCh" {
					looksUp = true
				}
			}
		})
		// a function that only deletes (a requester taking back its own registration when it gives up) is no router;
		// it stands in only when nobody looks up and deletes
		if d0 != nil && (looksUp || router == nil) && !(routerLooksUp && !looksUp) {
			router, del, routerLooksUp = fn, d0, looksUp
		}
	}
	if router == nil {
		r.Check("router deletes entries", false, "", "", "no function deletes from ClientConn.replyCh: answered ids are never released and a duplicate response is delivered again")
		return
	}
	name := fnName(router)
	var lk *ssa.Lookup
	allInstrs(router, func(ins ssa.Instruction) {
		if l, ok := ins.(*ssa.Lookup); ok {
			if u, isU := l.X.(*ssa.UnOp); isU && fieldKeyOfAddr(u.X) == "/wire.ClientConn.replyCh" {
				lk = l
			}
		}
	})
	if lk == nil {
		r.Check(name+" lookup", false, p.pos(router.Pos()), name, "no lookup in replyCh")
		return
	}
	// keys: both are msg.GetRequestID() of the same msg
	msgOf := func(v ssa.Value) ssa.Value {
		if c, ok := v.(*ssa.Call); ok && c.Call.IsInvoke() && c.Call.Method.Name() == "GetRequestID" {
			return canonVal(c.Call.Value)
		}
		return nil
	}
	m1, m2 := msgOf(lk.Index), msgOf(del.Call.Args[1])
	r.Check(name+" same key", m1 != nil && m1 == m2, posOf(p, del), name, "lookup key and deleted key must both be GetRequestID() of the same incoming message")
	// delivery: a send on the looked-up channel of that message, after the delete, on the found edge
	var snd *ssa.Send
	allInstrs(router, func(ins ssa.Instruction) {
		if s, ok := ins.(*ssa.Send); ok {
			if hasLeaf(p.Leaves(s.Chan, provOpts{}), "elem:/wire.ClientConn.replyCh") {
				snd = s
			}
		}
	})
	if snd == nil {
		// lookup and delete live in a helper that hands the channel back ("takeReply"): the delivery is at its caller
		if ruleC06R3ViaHelper(r, le, router, lk, del, m1) {
			return
		}
		r.Check(name+" delivers", false, p.pos(router.Pos()), name, "no send on the looked-up reply channel")
		return
	}
	okMsg := canonVal(snd.X) == m1
	okOrder := dominatesInstr(del, snd)
	okFound := false
	if lk.CommaOk && lk.Referrers() != nil {
		for _, ref := range *lk.Referrers() {
			if ex, isEx := ref.(*ssa.Extract); isEx && ex.Index == 1 {
				if condTrueDominates(router, ex, snd) {
					okFound = true
				}
				if condTrueDominates(router, ex, del) {
					okOrder = true
				}
			}
		}
	}
	r.Check(name+" delivers the routed message after the delete on the found edge", okMsg && okOrder && okFound, posOf(p, snd), name,
		fmt.Sprintf("delivered value is the looked-up message: %v; delete dominates the send: %v; send only on the found edge: %v", okMsg, okOrder, okFound))
	// delivery happens without the table lock (a full channel must not stall registration)
	h := le.HeldAt(snd)
	_, held := h[router.Params[0].Name()+".mu"]
	r.Check(name+" delivers outside the lock", !held, posOf(p, snd), name, fmt.Sprintf("locks held at the delivery: %v", h))
}

// c06DeleteOnFoundEdge: the delete sits on the found edge of the test of ok, and from that edge ret is reachable only
// through the delete.
func c06DeleteOnFoundEdge(h *ssa.Function, ok ssa.Value, del, ret ssa.Instruction) bool {
	good := false
	allInstrs(h, func(ins ssa.Instruction) {
		ifs, isIf := ins.(*ssa.If)
		if !isIf || !sameValue(ifs.Cond, ok) {
			return
		}
		found := ifs.Block().Succs[0]
		if !edgeDominates(ifs.Block(), found, del.Block()) {
			return
		}
		seen := map[*ssa.BasicBlock]bool{del.Block(): true}
		stack := []*ssa.BasicBlock{found}
		around := false
		for len(stack) > 0 {
			b := stack[len(stack)-1]
			stack = stack[:len(stack)-1]
			if seen[b] {
				continue
			}
			seen[b] = true
			if b == ret.Block() {
				around = true
			}
			stack = append(stack, b.Succs...)
		}
		if !around {
			good = true
		}
	})
	return good
}

// ruleC06R3ViaHelper: the lookup and the delete sit in helper h, which returns the looked-up channel (and a found flag);
// the send is in a caller. The same three facts are established across the call: the helper returns the channel only
// after the delete and only on the found edge, reports "found" truthfully, and the caller sends the very message whose
// id keyed the lookup, on the found edge of the helper's flag, without the table lock.
func ruleC06R3ViaHelper(r *Run, le *LockEngine, h *ssa.Function, lk *ssa.Lookup, del *ssa.Call, msgInHelper ssa.Value) bool {
	p := r.P
	prmIdx := -1
	for i, prm := range h.Params {
		if msgInHelper == ssa.Value(prm) {
			prmIdx = i
		}
	}
	if prmIdx < 0 || !lk.CommaOk || lk.Referrers() == nil {
		return false
	}
	var lkVal, lkOk ssa.Value
	for _, ref := range *lk.Referrers() {
		if ex, isEx := ref.(*ssa.Extract); isEx {
			if ex.Index == 0 {
				lkVal = ex
			} else {
				lkOk = ex
			}
		}
	}
	if lkVal == nil || lkOk == nil {
		return false
	}
	// the helper's returns: the channel result is the looked-up value only after the delete on the found edge; otherwise nil
	chIdx, flagIdx := -1, -1
	okHelper := true
	allInstrs(h, func(ins ssa.Instruction) {
		ret, isRet := ins.(*ssa.Return)
		if !isRet {
			return
		}
		for j, rv := range retResults(ret) {
			if canonVal(rv) == lkVal || rv == lkVal {
				chIdx = j
				if !dominatesInstr(del, ret) || !condTrueDominates(h, lkOk, ret) {
					// one common return for both outcomes: the looked-up value is nil when nothing was found, so this
					// is the same contract as long as the found edge cannot get to the return around the delete
					if !c06DeleteOnFoundEdge(h, lkOk, del, ret) {
						okHelper = false
					}
				}
			}
		}
	})
	if chIdx < 0 {
		return false
	}
	allInstrs(h, func(ins ssa.Instruction) {
		ret, isRet := ins.(*ssa.Return)
		if !isRet {
			return
		}
		rs := retResults(ret)
		for j, rv := range rs {
			if j == chIdx {
				continue
			}
			if k, isK := rv.(*ssa.Const); isK && k.Value != nil && types.Identical(k.Type().Underlying(), types.Typ[types.Bool]) {
				flagIdx = j
				found := canonVal(rs[chIdx]) == lkVal || rs[chIdx] == lkVal
				if (k.Value.String() == "true") != found {
					okHelper = false // the flag must say "found" exactly when the channel is handed back
				}
			} else if rv == lkOk {
				flagIdx = j
			}
		}
	})
	n := 0
	for _, site := range p.staticCallSites(h) {
		call, isCall := site.(*ssa.Call)
		if !isCall || call.Referrers() == nil {
			continue
		}
		s := call.Parent()
		var chRes, flagRes ssa.Value
		for _, ref := range *call.Referrers() {
			if ex, isEx := ref.(*ssa.Extract); isEx {
				if ex.Index == chIdx {
					chRes = ex
				}
				if ex.Index == flagIdx {
					flagRes = ex
				}
			}
		}
		if chRes == nil {
			continue
		}
		allInstrs(s, func(ins ssa.Instruction) {
			snd, isSnd := ins.(*ssa.Send)
			if !isSnd || canonVal(snd.Chan) != chRes {
				return
			}
			n++
			name := fnName(s)
			okMsg := prmIdx < len(call.Call.Args) && canonVal(snd.X) == canonVal(call.Call.Args[prmIdx])
			okFound := flagRes != nil && condTrueDominates(s, flagRes, snd)
			r.Check(name+" delivers the routed message after the delete on the found edge", okMsg && okHelper && okFound, posOf(p, snd), name,
				fmt.Sprintf("delivered value is the message handed to %s: %v; the helper returns the channel only after the delete, on the found edge, with a truthful flag: %v; send only on the found edge of that flag: %v", fnName(h), okMsg, okHelper, okFound))
			hd := le.HeldAt(snd)
			_, held := hd[s.Params[0].Name()+".mu"]
			r.Check(name+" delivers outside the lock", !held, posOf(p, snd), name, fmt.Sprintf("locks held at the delivery: %v", hd))
		})
	}
	return n > 0
}

// chanCapOK: every channel value that can be stored (map update) into the table field has capacity >= 1.
func chanCapRule(r *Run, table string, minFloor int) {
	p := r.P
	n := 0
	for _, fn := range p.Funcs {
		allInstrs(fn, func(ins ssa.Instruction) {
			mu, ok := ins.(*ssa.MapUpdate)
			if !ok {
				return
			}
			u, isU := mu.Map.(*ssa.UnOp)
			if !isU || fieldKeyOfAddr(u.X) != table {
				return
			}
			n++
			name := fnName(fn)
			// the stored channel, or — when the store sits in a registration helper — the channels its callers hand in
			origins, complete := p.originsThroughParams(mu.Value, 0)
			okCap := complete && len(origins) > 0
			detail := ""
			for _, v := range origins {
				mc, isMk := v.(*ssa.MakeChan)
				if !isMk {
					okCap = false
					detail += "stored channel is not created by the caller: " + v.String() + "; "
					continue
				}
				k, isK := constInt(mc.Size)
				if !(isK && k >= 1) {
					okCap = false
				}
				detail += fmt.Sprintf("make(chan, %v); ", mc.Size)
			}
			r.Check(name+" "+table+" capacity", okCap, posOf(p, mu), name, "channel stored into "+table+": "+detail+"; the single dispatcher delivers with a plain send, so an unbuffered channel whose waiter left blocks every other caller")
		})
	}
	if n < minFloor {
		r.Undecided("stores into "+table, "no map update on the table found")
	}
}

func ruleC06R4(r *Run) {
	r.Begin("R4", "delivery cannot block: every channel stored into ClientConn.replyCh is created with capacity ≥ 1", 1)
	chanCapRule(r, "/wire.ClientConn.replyCh", 1)
}

func ruleC06R5(r *Run) {
	r.Begin("R5", "the waiter can leave: the select in sendRequest that waits for the reply has receive cases on the caller's context and on the connection's context", 1)
	p := r.P
	send := r.method("/wire", "ClientConn", "sendRequest")
	if send == nil {
		return
	}
	name := fnName(send)
	ok := false
	detail := "no blocking select"
	found, bad := 0, 0
	// sendRequest, or the unexported helper the wait was moved to (its ctx parameter is then what sendRequest hands in)
	p.withHelpers(send, 1, func(g *ssa.Function) {
		allInstrs(g, func(ins ssa.Instruction) {
			sel, isSel := ins.(*ssa.Select)
			if !isSel || !sel.Blocking {
				return
			}
			caller, conn, reply := false, false, false
			for _, st := range sel.States {
				if st.Dir != types.RecvOnly {
					continue
				}
				if cx := doneCtx(st.Chan); cx != nil {
					// (in the helper the context is what sendRequest hands in; sendRequest's own parameter is the caller's)
					origins := []ssa.Value{cx}
					if g != send {
						origins = nil
						for _, o := range ctxRoots(cx) {
							if prm, isP := canonVal(o).(*ssa.Parameter); isP && prm.Parent() == g && g.Parent() == nil {
								for _, site := range p.staticCallSites(g) {
									args := callArgs(instrCall(site))
									for i, q := range g.Params {
										if q == prm && i < len(args) {
											origins = append(origins, args[i])
										}
									}
								}
							} else {
								origins = append(origins, o)
							}
						}
					}
					for _, o := range origins {
						for _, x := range p.Leaves(o, provOpts{}) {
							if strings.HasPrefix(x, "param:") && strings.HasSuffix(x, "#ctx") {
								caller = true
							}
							if x == "field:/wire.ClientConn.ctx" {
								conn = true
							}
						}
					}
				} else if _, isDone := doneLike(st.Chan); !isDone {
					if ch, isCh := st.Chan.Type().Underlying().(*types.Chan); isCh && types.Implements(ch.Elem(), p.Named("/message", "Request").Underlying().(*types.Interface)) {
						reply = true
					}
				}
			}
			if !reply {
				return
			}
			found++
			if !(caller && conn) {
				bad++
			}
			detail = fmt.Sprintf("cases: caller ctx %v, connection ctx %v, reply channel %v", caller, conn, reply)
		})
	})
	ok = found > 0 && bad == 0
	r.Check(name+" waiter select", ok, p.pos(send.Pos()), name, detail)
}

// ruleLockPairingFor applies the lock-release lemma (C08.L1) to the functions selected by pick.
func ruleLockPairingFor(r *Run, le *LockEngine, id, text string, pick func(*ssa.Function) bool, floor int) {
	r.Begin(id, text, floor)
	p := r.P
	for _, fn := range p.Funcs {
		if !pick(fn) {
			continue
		}
		if isLocalCtor(fn) {
			continue
		}
		fi := le.Info(fn)
		name := fnName(fn)
		reports := le.EffectiveReports(fn)
		if len(reports) == 0 {
			r.Check(name, true, p.pos(fn.Pos()), name, fmt.Sprintf("%d lock events; all exits release", fi.Events))
			continue
		}
		for _, rep := range reports {
			r.Check(name+" "+rep.Kind+" "+rep.Key, false, p.pos(rep.At), name, rep.Detail, "entry: "+name, "acquire: "+p.pos(rep.Site), "offending point: "+p.pos(rep.At))
		}
	}
}

// isLocalCtor: the function only touches the field on an object it allocates itself.
func isLocalCtor(fn *ssa.Function) bool {
	return fn.Signature.Recv() == nil && fn.Parent() == nil && strings.HasPrefix(fn.Name(), "Connect")
}

// ruleC06R8: the demultiplexer of the reliable transport hands every decoded message to the goroutine that owns its
// kind. A response dropped here leaves its caller waiting although the broker answered: the hand-over must block
// (back-pressure) and must not be a select with a default branch.
func ruleC06R8(r *Run) {
	r.Begin("R8", "the reliable demultiplexer never drops: every channel send in (*ClientConn).readReliableLoop is a plain blocking send or a blocking select (no default branch)", 5)
	p := r.P
	fn := r.method("/wire", "ClientConn", "readReliableLoop")
	if fn == nil {
		return
	}
	k := 0
	// the loop, its closures, and helpers called only from it (the dispatch of one message moved into a method)
	fns := []*ssa.Function{}
	withAnon(fn, func(f *ssa.Function) {
		fns = append(fns, f)
		allInstrs(f, func(ins ssa.Instruction) {
			if c, ok := ins.(*ssa.Call); ok {
				if cf := c.Call.StaticCallee(); cf != nil && p.Analysed(cf) && recvTypeName(cf) == "ClientConn" && cf != fn {
					// (a dispatch helper may be shared with the unreliable loop)
					withAnon(cf, func(g *ssa.Function) { fns = append(fns, g) })
				}
			}
		})
	})
	for _, f := range fns {
		allInstrs(f, func(ins ssa.Instruction) {
			name := fnName(f)
			switch x := ins.(type) {
			case *ssa.Send:
				k++
				r.Check(fmt.Sprintf("%s send#%d on %s", name, k, chanField(p, x.Chan)), true, posOf(p, ins), name, "plain blocking send")
			case *ssa.Select:
				for _, st := range x.States {
					if st.Dir == types.SendOnly {
						k++
						r.Check(fmt.Sprintf("%s send#%d on %s", name, k, chanField(p, st.Chan)), x.Blocking, posOf(p, ins), name, "a send in a select with a default branch drops the message when the receiver is momentarily behind; for responses this leaves the caller without its answer")
					}
				}
			}
			// a channel of the connection handed to a send helper (offer(ch, m) / deliver(ctx, ch, m)): judged by the
			// helper's sends on that parameter
			if c, isCall := ins.(*ssa.Call); isCall {
				if cal := c.Call.StaticCallee(); cal != nil && p.Analysed(cal) && cal.Blocks != nil && recvTypeName(cal) != "ClientConn" {
					for i, a := range c.Call.Args {
						if _, isCh := a.Type().Underlying().(*types.Chan); !isCh || chanField(p, a) == "?" {
							continue
						}
						for _, ps := range paramSends(cal, i, 0) {
							k++
							r.Check(fmt.Sprintf("%s send#%d on %s", name, k, chanField(p, a)), ps.blocking, posOf(p, ins), name, "the channel is handed to "+fnName(cal)+", which sends with a default branch: the message is dropped when the receiver is momentarily behind; for responses this leaves the caller without its answer")
						}
					}
				}
			}
		})
	}
}

func chanField(p *Prog, ch ssa.Value) string {
	for _, l := range p.Leaves(ch, provOpts{}) {
		if strings.HasPrefix(l, "field:") {
			return l[strings.LastIndexByte(l, '.')+1:]
		}
	}
	return "?"
}

// dominatesAllReturnsOrWrite: in sendRequest the id has to be stamped before the request is registered and written:
// the stamping call dominates every transport write of the function.
func dominatesAllReturnsOrWrite(c *ssa.Call, send *ssa.Function) bool {
	if c.Parent() != send {
		return true
	}
	ok := true
	for _, w := range findCalls(send, false, "/wire.EncodingTransport.Write") {
		if !dominatesInstr(c, w) {
			ok = false
		}
	}
	return ok
}
