package main

import (
	"fmt"
)

func init() {
	register(&PropSpec{
		ID: "C08",
		Explanation: "Static necessary conditions for 'no API call blocks forever'. L1 decides the lock-release lemma completely: for every control-flow path of every function in the analysed packages that performs a sync.Mutex/RWMutex/Locker operation, the forward lock-state dataflow over go/ssa (defers applied at RunDefers, summaries for wrappers and deferred closures) shows every acquired lock released before every return, no re-acquisition while held, no release of an unheld lock, and Cond.Wait only with its L held. W1: every sync.Cond waited on while polling a context has a context-triggered waker. S1: every blocking select in a function with a context parameter has a Done() case deriving from it. E1: the closed-connection sentinel of the status wait primitive is feasible.",
		NotDecided: []string{"wall-clock bounds and the keepalive bound", "blocking inside third-party transports", "bare channel operations between internal goroutines", "deadlock by lock order"},
		Assumptions: []string{"lock identity is by access path (no pointer analysis): two paths with equal roots and fields denote the same lock within a function and its closures", "functions called through function values or interfaces are lock-balanced (each is checked on its own)"},
		Rules: func(r *Run) {
			le := newLockEngine(r.P)
			ruleL1(r, le)
			ruleW1(r)
			ruleW2(r)
			ruleS1(r)
			ruleE1(r)
		},
	})
}

func ruleL1(r *Run, le *LockEngine) {
	r.Begin("L1", "every path of every function that acquires a lock releases it before returning; no re-acquire while held; no release of an unheld lock; Cond.Wait only with L held", 90)
	p := r.P
	fnWith, sites := 0, 0
	for _, fn := range p.Funcs {
		fi := le.Info(fn)
		if fi.Events == 0 {
			continue
		}
		fnWith++
		sites += len(fi.Acquires)
		name := fnName(fn)
		if len(fi.Reports) == 0 {
			r.Check(name, true, p.pos(fn.Pos()), name, fmt.Sprintf("%d lock events, %d acquire sites, %d exits, %d lock states explored; all exits release", fi.Events, len(fi.Acquires), fi.Returns, fi.StatesSeen))
			continue
		}
		for _, rep := range fi.Reports {
			key := name + " " + rep.Kind + " " + rep.Key
			if rep.Kind == "unresolved" {
				r.Undecided(key, rep.Detail+" at "+p.pos(rep.At))
				continue
			}
			r.Check(key, false, p.pos(rep.At), name, rep.Detail,
				"entry: "+name+" ("+p.pos(fn.Pos())+")", "acquire: "+p.pos(rep.Site), "offending point: "+p.pos(rep.At))
		}
	}
	r.Stat("functions_with_lock_events", fnWith)
	r.Stat("acquire_sites", sites)
	for _, v := range le.Aliases.verified {
		r.Note("verified lock alias cond.L == embedded RWMutex: " + v)
	}
}
