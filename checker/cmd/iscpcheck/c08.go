package main

import (
	"fmt"
	"go/token"
	"go/types"
	"sort"
	"strings"

	"golang.org/x/tools/go/ssa"
)

func init() {
	register(&PropSpec{
		ID:          "C08",
		Explanation: "Static necessary conditions for 'no API call blocks forever'. L1 decides the lock-release lemma completely: for every control-flow path of every function in the analysed packages that performs a sync.Mutex/RWMutex/Locker operation, the forward lock-state dataflow over go/ssa (defers applied at RunDefers, summaries for wrappers and deferred closures) shows every acquired lock released before every return, no re-acquisition while held, no release of an unheld lock, and Cond.Wait only with its L held. W1: every sync.Cond waited on while polling a context has a context-triggered waker. S1: every blocking select in a function with a context parameter has a Done() case deriving from it. E1: the closed-connection sentinel of the status wait primitive is feasible.",
		NotDecided:  []string{"wall-clock bounds and the keepalive bound", "blocking inside third-party transports", "bare channel operations between internal goroutines", "deadlock by lock order"},
		Assumptions: []string{"lock identity is by access path (no pointer analysis): two paths with equal roots and fields denote the same lock within a function and its closures", "functions called through function values or interfaces are lock-balanced (each is checked on its own)"},
		Rules: func(r *Run) {
			le := newLockEngine(r.P)
			ruleL1(r, le)
			ruleW1(r)
			ruleW4(r, le, "W4")
			r.borrow("C01", func() { ruleFlushRendezvous(r, "R9") }) // an abandoned Flush must not wedge the flush loop
			ruleW2(r)
			ruleS1(r)
			ruleE1(r)
			ruleD1(r)
			ruleB1(r, le)
			ruleLockOrder(r, le)
			ruleH1(r, le)
			ruleAlwaysCancels(r, "X1")
			ruleCtxParamUsed(r, "X2")
			ruleNoRoundTripUnderConnLock(r, le, "X3")
			ruleC08X4(r)
			ruleNoReentrantLock(r, le, "L2", "/iscp", "/wire", "/transport/reconnect", "/transport/multi", "/internal/segment")
			r.borrow("C01", func() { ruleC01R5(r) }) // Close must not wait for a flush loop that is not running (stream waiting to be resumed)
			ruleDrainBounds(r, "W3")
		},
	})
}

func ruleL1(r *Run, le *LockEngine) {
	r.Begin("L1", "every path of every function that acquires a lock releases it before returning; no re-acquire while held; no release of an unheld lock; Cond.Wait only with L held", 90)
	p := r.P
	fnWith, sites := 0, 0
	for _, fn := range p.Funcs {
		fi := le.Info(fn)
		if fi.Events == 0 && len(fi.Reports) == 0 {
			continue
		}
		fnWith++
		sites += len(fi.Acquires)
		name := fnName(fn)
		reports := le.EffectiveReports(fn)
		if len(reports) == 0 {
			r.Check(name, true, p.pos(fn.Pos()), name, fmt.Sprintf("%d lock events, %d acquire sites, %d exits, %d lock states explored; all exits release", fi.Events, len(fi.Acquires), fi.Returns, fi.StatesSeen))
			continue
		}
		for _, rep := range reports {
			key := name + " " + rep.Kind + " " + rep.Key
			if rep.Kind == "unresolved" {
				r.Undecided(key, rep.Detail+" at "+p.pos(rep.At))
				continue
			}
			r.Check(key, false, p.pos(rep.At), name, rep.Detail,
				"entry: "+name+" ("+p.pos(fn.Pos())+")", "acquire: "+p.pos(rep.Site), "offending point: "+p.pos(rep.At))
		}
	}
	r.Stat("functions_with_lock_events", fnWith)
	r.Stat("acquire_sites", sites)
	for _, v := range le.Aliases.verified {
		r.Note("verified lock alias cond.L == embedded RWMutex: " + v)
	}
}

// ruleD1: plain (non-select) sends on channels taken from a waiter table must not be able to block.
func ruleD1(r *Run) {
	r.Begin("D1", "dispatcher sends cannot block: wherever a goroutine performs a blocking send (plain, or in a select without default) on a channel it looked up in a map field (a waiter table), every channel ever stored into that table is created with capacity >= 1; otherwise a waiter that has left stalls the dispatcher and every later caller", 3)
	p := r.P
	tables := map[string]bool{}
	for _, fn := range p.Funcs {
		allInstrs(fn, func(ins ssa.Instruction) {
			var chans []ssa.Value
			switch x := ins.(type) {
			case *ssa.Send:
				chans = append(chans, x.Chan)
			case *ssa.Select:
				if x.Blocking {
					for _, st := range x.States {
						if st.Dir == types.SendOnly {
							chans = append(chans, st.Chan)
						}
					}
				}
			}
			for _, ch := range chans {
				// IntoCallees: the channel may come out of a lookup helper (takeReply)
				for _, l := range p.Leaves(ch, provOpts{IntoCallees: true}) {
					if strings.HasPrefix(l, "elem:/") {
						tables[strings.TrimPrefix(l, "elem:")] = true
					}
				}
			}
		})
	}
	var names []string
	for t := range tables {
		names = append(names, t)
	}
	sort.Strings(names)
	for _, t := range names {
		chanCapRule(r, t, 1)
	}
	r.Stat("waiter_tables_with_plain_sends", len(names))
}

// ruleB1: the state change that ends a blocking retry loop must not need a lock the loop's owner holds.
func ruleB1(r *Run, le *LockEngine) {
	r.Begin("B1", "a lock that some function holds across a blocking retry (retry.Do) must not be held, or waited for, before a status cell is set to its terminal Closed value in a function that takes that lock: the retry loop ends only when it sees Closed, so publishing Closed after acquiring the lock deadlocks Close against the redial", 1)
	p := r.P
	// locks held across retry.Do
	blocking := map[*types.Var]string{}
	for _, c := range p.moduleCalls("/internal/retry.Do", "/internal/retry.Retry.Do") {
		fn := c.Parent()
		fi := le.Info(fn)
		for k := range le.HeldAt(c) {
			if f := fi.keyField[k]; f != nil {
				blocking[f] = fnName(fn) + " (" + p.pos(c.Pos()) + ")"
			}
		}
	}
	r.Stat("locks_held_across_blocking_retry", len(blocking))
	closedC, okC := p.enumConst("/iscp", "connStatusClosed")
	if !okC {
		r.Undecided("anchor connStatusClosed", "constant not found")
		return
	}
	n := 0
	for _, fn := range p.Funcs {
		if fnPkgPath(fn) != modPath+"/iscp" {
			continue
		}
		// functions that publish Closed
		var pubs []ssa.Instruction
		allInstrs(fn, func(ins ssa.Instruction) {
			c, ok := ins.(*ssa.Call)
			if !ok {
				return
			}
			cf := c.Call.StaticCallee()
			if cf == nil || recvTypeName(cf) != "connStatus" || !(strings.HasPrefix(cf.Name(), "Swap") || strings.HasPrefix(cf.Name(), "CompareAndSwap")) {
				return
			}
			last := c.Call.Args[len(c.Call.Args)-1]
			if v, isC := constInt(last); isC && v == closedC {
				pubs = append(pubs, ins)
			}
		})
		if len(pubs) == 0 {
			continue
		}
		fi := le.Info(fn)
		name := fnName(fn)
		for _, pub := range pubs {
			n++
			// every acquisition of a blocking lock in this function must come after the publication
			bad := ""
			allInstrs(fn, func(ins ssa.Instruction) {
				c, ok := ins.(*ssa.Call)
				if !ok {
					return
				}
				if op, recv := classifyLockCall(&c.Call); op == opLock || op == opRLock {
					pt := pathOf(recv)
					if pt == nil {
						return
					}
					if f := pt.Last(); f != nil {
						if owner, isBlocking := blocking[f]; isBlocking {
							_ = fi
							if !dominatesInstr(pub, ins) {
								bad = fmt.Sprintf("%s is acquired at %s before (or without) the publication of Closed at %s; %s holds it across a blocking retry that ends only on Closed", le.Aliases.canonKey(pt), p.pos(c.Pos()), posOf(p, pub), owner)
							}
						}
					}
				}
			})
			r.Check(name+" publishes Closed before taking a redial-held lock", bad == "", posOf(p, pub), name, "publication of the terminal status precedes every acquisition of a lock held across retry.Do. "+bad)
		}
	}
	if n == 0 {
		r.Undecided("publication sites", "no site sets connStatusClosed")
	}
}

// ruleH1: no blocking channel operation while a mutex is held.
func ruleH1(r *Run, le *LockEngine) {
	r.Begin("H1", "no blocking channel operation under a mutex: a plain send or receive, or a select without a default case, is never executed while the function holds a sync mutex — unless every channel it may block on is a buffered channel created in the same function. A peer that never takes the value stalls the holder and, through the mutex, every other user of the object", 1)
	p := r.P
	n := 0
	for _, fn := range p.Funcs {
		fi := le.Info(fn)
		if fi.Events == 0 {
			continue
		}
		name := fnName(fn)
		k := 0
		allInstrs(fn, func(ins ssa.Instruction) {
			blocking := false
			what := ""
			switch x := ins.(type) {
			case *ssa.Send:
				blocking, what = true, "send"
				if mk, ok := canonVal(x.Chan).(*ssa.MakeChan); ok {
					if sz, isK := constInt(mk.Size); isK && sz >= 1 {
						blocking = false
					}
				}
			case *ssa.UnOp:
				if x.Op == token.ARROW {
					blocking, what = true, "receive"
				}
			case *ssa.Select:
				if x.Blocking {
					blocking, what = true, "select without default"
				}
			}
			if !blocking {
				return
			}
			held := le.HeldAt(ins)
			if len(held) == 0 {
				return
			}
			// sync.Cond.L held around a select that only polls is handled by Blocking=false; here the wait is real
			n++
			k++
			var hk []string
			for key := range held {
				hk = append(hk, key)
			}
			sort.Strings(hk)
			// sends whose every target channel is provably buffered with free capacity cannot be decided statically: report
			r.Check(fmt.Sprintf("%s blocking#%d %s", name, k, what), false, p.pos(ins.Pos()), name,
				fmt.Sprintf("%s while holding %v: if the other side is gone the holder blocks with the lock, stalling every other user", what, hk))
		})
	}
	if n == 0 {
		r.Check("no blocking channel operation under a mutex", true, "", "", "no blocking send, receive or select executes with a mutex held")
	}
	r.Stat("blocking_ops_under_lock", n)
}

// ruleNoChanBlockUnderCloseLocks: whatever a transport does while it holds a lock that its own Close needs has to end
// without Close. A blocking channel operation there (a hand-over to a queue that may be full, even one that also
// watches the transport's context) can only be released by Close — which is waiting for the lock.
// Locks are followed across calls: a helper entered with the lock held, and a closure invoked by a helper under it,
// inherit the lock.
func ruleNoChanBlockUnderCloseLocks(r *Run, le *LockEngine, id string) {
	r.Begin(id, "no channel wait under a lock that Close needs: in the transport packages no blocking send, receive or select (directly, or inside a helper such as writeOrDone) executes while a mutex is held that the same type's Close/CloseWithStatus acquires — locks held by callers and by helpers that invoke a closure count", 1)
	p := r.P
	inTransport := func(fn *ssa.Function) bool {
		return fn != nil && strings.HasPrefix(fnPkgPath(fn), modPath+"/transport") && fn.Blocks != nil
	}
	// 1. locks Close takes
	closeLocks := map[*types.Var]string{}
	for _, fn := range p.Funcs {
		if !inTransport(fn) || fn.Signature.Recv() == nil || !(fn.Name() == "Close" || fn.Name() == "CloseWithStatus") {
			continue
		}
		seen := map[*ssa.Function]bool{}
		var visit func(f *ssa.Function, d int)
		visit = func(f *ssa.Function, d int) {
			if f == nil || seen[f] || f.Blocks == nil || d > 2 {
				return
			}
			seen[f] = true
			allInstrs(f, func(ins ssa.Instruction) {
				cc := instrCall(ins)
				if cc == nil {
					return
				}
				if op, recv := classifyLockCall(cc); op == opLock || op == opRLock {
					if pt := pathOf(recv); pt != nil && pt.Last() != nil {
						closeLocks[pt.Last()] = fnName(fn)
					}
					return
				}
				if _, isGo := ins.(*ssa.Go); !isGo {
					if cal := cc.StaticCallee(); inTransport(cal) {
						visit(cal, d+1)
					}
				}
			})
		}
		visit(fn, 0)
	}
	r.Stat("locks_taken_by_close", len(closeLocks))
	// 2. locks possibly held on entry
	fieldsAt := func(ins ssa.Instruction) map[*types.Var]bool {
		out := map[*types.Var]bool{}
		fi := le.Info(ins.Parent())
		for k := range le.HeldAt(ins) {
			if f := fi.keyField[k]; f != nil {
				out[f] = true
			}
		}
		return out
	}
	memo := map[*ssa.Function]map[*types.Var]bool{}
	busy := map[*ssa.Function]bool{}
	var entryHeld func(fn *ssa.Function, depth int) map[*types.Var]bool
	entryHeld = func(fn *ssa.Function, depth int) map[*types.Var]bool {
		if m, ok := memo[fn]; ok {
			return m
		}
		out := map[*types.Var]bool{}
		if busy[fn] || depth > 5 {
			return out
		}
		busy[fn] = true
		defer func() { busy[fn] = false }()
		add := func(m map[*types.Var]bool) {
			for k := range m {
				out[k] = true
			}
		}
		at := func(site ssa.Instruction) {
			if _, isGo := site.(*ssa.Go); isGo {
				return
			}
			add(fieldsAt(site))
			add(entryHeld(site.Parent(), depth+1))
		}
		for _, site := range p.staticCallSites(fn) {
			at(site)
		}
		if fn.Parent() != nil {
			if val, uses, ok := funcValueUses(fn); ok {
				for _, u := range uses {
					cc := instrCall(u)
					if cc == nil {
						continue
					}
					if _, isGo := u.(*ssa.Go); isGo {
						continue
					}
					if cc.Value == val {
						at(u) // called directly
						continue
					}
					// handed to a helper that invokes it
					if h := cc.StaticCallee(); h != nil && p.Analysed(h) {
						for j, a := range cc.Args {
							if a != val {
								continue
							}
							if sites, okInv := paramInvocations(h, j); okInv {
								at(u)
								for _, s := range sites {
									add(fieldsAt(s))
								}
								add(entryHeld(h, depth+1))
							}
						}
					}
				}
			}
		}
		memo[fn] = out
		return out
	}
	// 3. functions that may wait on a channel
	blockMemo := map[*ssa.Function]int{} // 0 unknown, 1 no, 2 yes
	var blocks func(fn *ssa.Function, depth int) bool
	directBlock := func(ins ssa.Instruction) (bool, string) {
		switch x := ins.(type) {
		case *ssa.Send:
			return true, "send"
		case *ssa.Select:
			if x.Blocking && !timerBounded(x) { // (a select with a one-shot timer case waits for a bounded time)
				return true, "select without default"
			}
		case *ssa.UnOp:
			if x.Op == token.ARROW {
				if hasLeafPrefix(p.Leaves(x.X, provOpts{}), "call:time.") {
					return false, "" // a timer: bounded
				}
				return true, "receive"
			}
		}
		return false, ""
	}
	blocks = func(fn *ssa.Function, depth int) bool {
		if fn == nil || fn.Blocks == nil || depth > 3 || !p.Analysed(fn) {
			return false
		}
		if v := blockMemo[fn]; v != 0 {
			return v == 2
		}
		blockMemo[fn] = 1
		res := false
		allInstrs(fn, func(ins ssa.Instruction) {
			if res {
				return
			}
			if b, _ := directBlock(ins); b {
				res = true
				return
			}
			if c, ok := ins.(*ssa.Call); ok {
				if cal := c.Call.StaticCallee(); cal != nil && cal != fn && blocks(cal, depth+1) {
					res = true
				}
			}
		})
		if res {
			blockMemo[fn] = 2
		}
		return res
	}
	// 4. the sites
	n := 0
	for _, fn := range p.Funcs {
		if !inTransport(fn) {
			continue
		}
		name := fnName(fn)
		k := 0
		allInstrs(fn, func(ins ssa.Instruction) {
			is, what := directBlock(ins)
			if !is {
				if c, ok := ins.(*ssa.Call); ok {
					if cal := c.Call.StaticCallee(); cal != nil && !inTransport(cal) && blocks(cal, 0) {
						is, what = true, "call of "+fnName(cal)
					}
				}
			}
			if !is {
				return
			}
			k++
			n++
			held := fieldsAt(ins)
			for f := range entryHeld(fn, 0) {
				held[f] = true
			}
			bad := ""
			for f := range held {
				if by, isClose := closeLocks[f]; isClose {
					bad = f.Name() + " (taken by " + by + ")"
				}
			}
			r.Check(fmt.Sprintf("%s channel wait#%d outside Close's locks", name, k), bad == "", posOf(p, ins), name, what+" while "+bad+" is held: with the other side gone only Close can end the wait, and Close is waiting for the lock")
		})
	}
	if n == 0 {
		r.Check("channel waits in the transports", true, "", "", "no blocking channel operation in the transport packages")
	}
}

// ruleNoRoundTripUnderConnLock: a request/response exchange with the broker lasts as long as the broker likes. Made
// while a mutex of the connection is held, it makes every other call that needs the mutex (the next open or metadata
// request, the redial, Close) wait for the broker too — and a goroutine parked in Mutex.Lock does not look at its
// context. The wire connection is taken under the lock; the exchange happens outside.
func ruleNoRoundTripUnderConnLock(r *Run, le *LockEngine, id string) {
	r.Begin(id, "no request round trip under a connection mutex: in package iscp no call of a wire.ClientConn method that waits for the broker's response (reaches sendRequest) is made while a mutex field of iscp.Conn is held", 4)
	p := r.P
	connT := r.named("/iscp", "Conn")
	if connT == nil {
		return
	}
	n := 0
	for _, fn := range p.Funcs {
		if fnPkgPath(fn) != modPath+"/iscp" || fn.Blocks == nil {
			continue
		}
		name := fnName(fn)
		fi := le.Info(fn)
		k := 0
		allInstrs(fn, func(ins ssa.Instruction) {
			c, ok := ins.(*ssa.Call)
			if !ok {
				return
			}
			cal := c.Call.StaticCallee()
			if cal == nil || fnPkgPath(cal) != modPath+"/wire" || recvTypeName(cal) != "ClientConn" {
				return
			}
			if !(cal.Name() == "sendRequest" || p.reachesCall(cal, 2, "/wire.ClientConn.sendRequest")) {
				return
			}
			k++
			n++
			bad := ""
			for key := range le.HeldAt(c) {
				if f := fi.keyField[key]; f != nil {
					if owner := connT.Underlying().(*types.Struct); owner != nil {
						for i := 0; i < owner.NumFields(); i++ {
							if owner.Field(i) == f {
								bad = f.Name()
							}
						}
					}
				}
			}
			r.Check(fmt.Sprintf("%s round trip#%d %s outside the connection's mutexes", name, k, cal.Name()), bad == "", posOf(p, c), name, "the exchange with the broker runs while Conn."+bad+" is held: a second request is not even sent before the first is answered, its caller waits in Mutex.Lock past its own deadline, and a redial or Close waits with it")
		})
	}
	if n == 0 {
		r.Undecided("round trips", "no call of a waiting wire request found in package iscp")
	}
}

// ruleNoReentrantLock: sync mutexes are not re-entrant, and a read lock taken twice by one goroutine deadlocks as soon
// as a writer arrives in between (RWMutex queues new readers behind a waiting writer). At every call made with a lock
// held, the callee (followed two calls deep) does not acquire the same lock again before releasing it.
func ruleNoReentrantLock(r *Run, le *LockEngine, id string, pkgs ...string) {
	r.Begin(id, "no lock is taken twice by one goroutine: at every static call made while a mutex is held, the callee does not lock or read-lock that same mutex (the lock's path is translated from the callee's parameters to the call site)", 20)
	p := r.P
	inPk := func(fn *ssa.Function) bool {
		for _, pk := range pkgs {
			if fnPkgPath(fn) == modPath+pk {
				return true
			}
		}
		return false
	}
	// acquisitions of fn in its own terms (first acquisition of each key, not preceded by a release of it)
	type acq struct {
		key string
		at  ssa.Instruction
	}
	var acquires func(fn *ssa.Function, depth int, seen map[*ssa.Function]bool) []acq
	acquires = func(fn *ssa.Function, depth int, seen map[*ssa.Function]bool) []acq {
		if fn == nil || fn.Blocks == nil || seen[fn] || depth > 2 || !p.Analysed(fn) {
			return nil
		}
		seen[fn] = true
		var out []acq
		allInstrs(fn, func(ins ssa.Instruction) {
			cc := instrCall(ins)
			if cc == nil {
				return
			}
			if _, isGo := ins.(*ssa.Go); isGo {
				return
			}
			if op, recv := classifyLockCall(cc); op == opLock || op == opRLock {
				if _, isDefer := ins.(*ssa.Defer); isDefer {
					return
				}
				if pt := pathOf(recv); pt != nil {
					// only when the function does not already hold it itself (its own re-acquisition is L1's business)
					k := le.Aliases.canonKey(pt)
					if _, held := le.HeldAt(ins)[k]; !held {
						out = append(out, acq{k, ins})
					}
				}
				return
			}
			if _, isCall := ins.(*ssa.Call); isCall {
				if cal := cc.StaticCallee(); cal != nil && cal != fn {
					for _, a := range acquires(cal, depth+1, seen) {
						if tk, ok := translateKey(cal, a.key, cc.Args); ok {
							// the callee's acquisition counts only if this function does not hold the lock at the call (then it
							// is reported here one level up); translate to this function's terms
							out = append(out, acq{tk, a.at})
						}
					}
				}
			}
		})
		return out
	}
	n := 0
	for _, fn := range p.Funcs {
		if !inPk(fn) || fn.Blocks == nil {
			continue
		}
		name := fnName(fn)
		k := 0
		allInstrs(fn, func(ins ssa.Instruction) {
			c, ok := ins.(*ssa.Call)
			if !ok {
				return
			}
			held := le.MayHeldAt(c) // on some path: a lock taken in one branch and released by defer is still held here
			if len(held) == 0 {
				return
			}
			cal := c.Call.StaticCallee()
			if cal == nil || !p.Analysed(cal) || cal.Blocks == nil {
				return
			}
			if op, _ := classifyLockCall(&c.Call); op != opNone {
				return
			}
			k++
			n++
			bad := ""
			var at ssa.Instruction
			for _, a := range acquires(cal, 0, map[*ssa.Function]bool{}) {
				if tk, okT := translateKey(cal, a.key, c.Call.Args); okT {
					if _, isHeld := held[tk]; isHeld {
						bad, at = tk, a.at
					}
				}
			}
			where := posOf(p, c)
			detail := "the callee takes none of the locks held here"
			if bad != "" {
				detail = fnName(cal) + " acquires " + bad + " at " + posOf(p, at) + " while the caller already holds it: a second Lock blocks for ever; a second RLock blocks as soon as a writer is waiting"
			}
			r.Check(fmt.Sprintf("%s call#%d under lock does not re-acquire", name, k), bad == "", where, name, detail)
		})
	}
	r.Stat("calls_under_lock", n)
}

// ruleC08X4: Close has to wait for a redial in flight (C10.O18), so the redial must not be able to wait for ever: the
// connect exchange (wire.Connect waits for the broker's ConnectResponse with no bound of its own) is made by a function
// that is handed a context by reconnect and arranges for the transport to be closed when that context ends.
func ruleC08X4(r *Run) {
	r.Begin("X4", "a redial can be interrupted: the function through which (*Conn).reconnect reaches wire.Connect takes a context.Context that derives from reconnect's own context parameter, and registers (context.AfterFunc, or a goroutine selecting on Done()) a Close of the transport it dialled", 1)
	p := r.P
	rec := r.method("/iscp", "Conn", "reconnect")
	if rec == nil {
		return
	}
	name := fnName(rec)
	var dials []ssa.Instruction
	withAnon(rec, func(g *ssa.Function) {
		dials = append(dials, p.callsReaching(g, 2, "/wire.Connect")...)
	})
	if len(dials) == 0 {
		r.Undecided(name+" dial", "reconnect does not reach wire.Connect")
		return
	}
	for i, d := range dials {
		cc := instrCall(d)
		cal := cc.StaticCallee()
		okCtx, okStop := false, false
		for j, a := range cc.Args {
			if !isContextType(a.Type()) {
				continue
			}
			for _, rt := range ctxRoots(a) {
				if prm, isP := canonVal(rt).(*ssa.Parameter); isP && topFunc(prm.Parent()) == rec {
					okCtx = true
				}
				if fv, isFV := canonVal(rt).(*ssa.FreeVar); isFV && topFunc(fv.Parent()) == rec {
					okCtx = true
				}
			}
			if cal != nil && cal.Blocks != nil && j < len(cal.Params) && stopsOnDone(p, cal, j, 0) {
				okStop = true
			}
		}
		r.Check(fmt.Sprintf("%s dial#%d can be interrupted", name, i+1), okCtx && okStop, posOf(p, d), name, fmt.Sprintf("the dial is handed reconnect's context: %v; the callee closes the transport when that context ends: %v. wire.Connect waits for the ConnectResponse without a bound; with the connection mutex held across the dial, Close(ctx) waits for a silent broker whatever its context", okCtx, okStop))
	}
}

// stopsOnDone: fn registers, for the context it receives as parameter idx, a context.AfterFunc whose function closes a
// transport — itself, in one of its function literals, or in a function it hands that context on to (depth 2: the
// redial loop moved into a helper that calls connectWire(ctx)).
func stopsOnDone(p *Prog, fn *ssa.Function, idx, depth int) bool {
	if fn == nil || fn.Blocks == nil || idx >= len(fn.Params) || depth > 2 {
		return false
	}
	prm := ssa.Value(fn.Params[idx])
	fromPrm := func(v ssa.Value) bool {
		for _, rt := range ctxRoots(v) {
			c := canonVal(rt)
			if c == prm {
				return true
			}
			if fv, isFV := c.(*ssa.FreeVar); isFV {
				if b, ok := theClosures.bind[fv]; ok && canonVal(b) == prm {
					return true
				}
				if fv.Name() == fn.Params[idx].Name() && topFunc(fv.Parent()) == fn {
					return true
				}
			}
		}
		return false
	}
	found := false
	withAnon(fn, func(g *ssa.Function) {
		allInstrs(g, func(x ssa.Instruction) {
			cc := instrCall(x)
			if cc == nil || found {
				return
			}
			if isCallNamed(x, "context.AfterFunc") && len(cc.Args) >= 2 && fromPrm(cc.Args[0]) {
				if f := closureOf(cc.Args[1]); f != nil && len(callsTo(f, false, func(o *types.Func, _ *ssa.CallCommon) bool { return o.Name() == "Close" })) > 0 {
					found = true
				}
				return
			}
			cal := cc.StaticCallee()
			if cal == nil || !p.Analysed(cal) {
				return
			}
			for j, a := range cc.Args {
				if isContextType(a.Type()) && fromPrm(a) && stopsOnDone(p, cal, j, depth+1) {
					found = true
				}
			}
		})
	})
	return found
}
