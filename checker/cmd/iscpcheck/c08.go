package main

import (
	"fmt"
	"go/token"
	"go/types"
	"sort"
	"strings"

	"golang.org/x/tools/go/ssa"
)

func init() {
	register(&PropSpec{
		ID:          "C08",
		Explanation: "Static necessary conditions for 'no API call blocks forever'. L1 decides the lock-release lemma completely: for every control-flow path of every function in the analysed packages that performs a sync.Mutex/RWMutex/Locker operation, the forward lock-state dataflow over go/ssa (defers applied at RunDefers, summaries for wrappers and deferred closures) shows every acquired lock released before every return, no re-acquisition while held, no release of an unheld lock, and Cond.Wait only with its L held. W1: every sync.Cond waited on while polling a context has a context-triggered waker. S1: every blocking select in a function with a context parameter has a Done() case deriving from it. E1: the closed-connection sentinel of the status wait primitive is feasible.",
		NotDecided:  []string{"wall-clock bounds and the keepalive bound", "blocking inside third-party transports", "bare channel operations between internal goroutines", "deadlock by lock order"},
		Assumptions: []string{"lock identity is by access path (no pointer analysis): two paths with equal roots and fields denote the same lock within a function and its closures", "functions called through function values or interfaces are lock-balanced (each is checked on its own)"},
		Rules: func(r *Run) {
			le := newLockEngine(r.P)
			ruleL1(r, le)
			ruleW1(r)
			ruleW4(r, le, "W4")
			r.borrow("C01", func() { ruleFlushRendezvous(r, "R9") }) // an abandoned Flush must not wedge the flush loop
			ruleW2(r)
			ruleS1(r)
			ruleE1(r)
			ruleD1(r)
			ruleB1(r, le)
			ruleLockOrder(r, le)
			ruleH1(r, le)
			ruleAlwaysCancels(r, "X1")
			ruleCtxParamUsed(r, "X2")
			ruleDrainBounds(r, "W3")
		},
	})
}

func ruleL1(r *Run, le *LockEngine) {
	r.Begin("L1", "every path of every function that acquires a lock releases it before returning; no re-acquire while held; no release of an unheld lock; Cond.Wait only with L held", 90)
	p := r.P
	fnWith, sites := 0, 0
	for _, fn := range p.Funcs {
		fi := le.Info(fn)
		if fi.Events == 0 && len(fi.Reports) == 0 {
			continue
		}
		fnWith++
		sites += len(fi.Acquires)
		name := fnName(fn)
		if len(fi.Reports) == 0 {
			r.Check(name, true, p.pos(fn.Pos()), name, fmt.Sprintf("%d lock events, %d acquire sites, %d exits, %d lock states explored; all exits release", fi.Events, len(fi.Acquires), fi.Returns, fi.StatesSeen))
			continue
		}
		for _, rep := range fi.Reports {
			key := name + " " + rep.Kind + " " + rep.Key
			if rep.Kind == "unresolved" {
				r.Undecided(key, rep.Detail+" at "+p.pos(rep.At))
				continue
			}
			r.Check(key, false, p.pos(rep.At), name, rep.Detail,
				"entry: "+name+" ("+p.pos(fn.Pos())+")", "acquire: "+p.pos(rep.Site), "offending point: "+p.pos(rep.At))
		}
	}
	r.Stat("functions_with_lock_events", fnWith)
	r.Stat("acquire_sites", sites)
	for _, v := range le.Aliases.verified {
		r.Note("verified lock alias cond.L == embedded RWMutex: " + v)
	}
}

// ruleD1: plain (non-select) sends on channels taken from a waiter table must not be able to block.
func ruleD1(r *Run) {
	r.Begin("D1", "dispatcher sends cannot block: wherever a goroutine performs a blocking send (plain, or in a select without default) on a channel it looked up in a map field (a waiter table), every channel ever stored into that table is created with capacity >= 1; otherwise a waiter that has left stalls the dispatcher and every later caller", 3)
	p := r.P
	tables := map[string]bool{}
	for _, fn := range p.Funcs {
		allInstrs(fn, func(ins ssa.Instruction) {
			var chans []ssa.Value
			switch x := ins.(type) {
			case *ssa.Send:
				chans = append(chans, x.Chan)
			case *ssa.Select:
				if x.Blocking {
					for _, st := range x.States {
						if st.Dir == types.SendOnly {
							chans = append(chans, st.Chan)
						}
					}
				}
			}
			for _, ch := range chans {
				// IntoCallees: the channel may come out of a lookup helper (takeReply)
				for _, l := range p.Leaves(ch, provOpts{IntoCallees: true}) {
					if strings.HasPrefix(l, "elem:/") {
						tables[strings.TrimPrefix(l, "elem:")] = true
					}
				}
			}
		})
	}
	var names []string
	for t := range tables {
		names = append(names, t)
	}
	sort.Strings(names)
	for _, t := range names {
		chanCapRule(r, t, 1)
	}
	r.Stat("waiter_tables_with_plain_sends", len(names))
}

// ruleB1: the state change that ends a blocking retry loop must not need a lock the loop's owner holds.
func ruleB1(r *Run, le *LockEngine) {
	r.Begin("B1", "a lock that some function holds across a blocking retry (retry.Do) must not be held, or waited for, before a status cell is set to its terminal Closed value in a function that takes that lock: the retry loop ends only when it sees Closed, so publishing Closed after acquiring the lock deadlocks Close against the redial", 1)
	p := r.P
	// locks held across retry.Do
	blocking := map[*types.Var]string{}
	for _, c := range p.moduleCalls("/internal/retry.Do", "/internal/retry.Retry.Do") {
		fn := c.Parent()
		fi := le.Info(fn)
		for k := range le.HeldAt(c) {
			if f := fi.keyField[k]; f != nil {
				blocking[f] = fnName(fn) + " (" + p.pos(c.Pos()) + ")"
			}
		}
	}
	r.Stat("locks_held_across_blocking_retry", len(blocking))
	closedC, okC := p.enumConst("/iscp", "connStatusClosed")
	if !okC {
		r.Undecided("anchor connStatusClosed", "constant not found")
		return
	}
	n := 0
	for _, fn := range p.Funcs {
		if fnPkgPath(fn) != modPath+"/iscp" {
			continue
		}
		// functions that publish Closed
		var pubs []ssa.Instruction
		allInstrs(fn, func(ins ssa.Instruction) {
			c, ok := ins.(*ssa.Call)
			if !ok {
				return
			}
			cf := c.Call.StaticCallee()
			if cf == nil || recvTypeName(cf) != "connStatus" || !(strings.HasPrefix(cf.Name(), "Swap") || strings.HasPrefix(cf.Name(), "CompareAndSwap")) {
				return
			}
			last := c.Call.Args[len(c.Call.Args)-1]
			if v, isC := constInt(last); isC && v == closedC {
				pubs = append(pubs, ins)
			}
		})
		if len(pubs) == 0 {
			continue
		}
		fi := le.Info(fn)
		name := fnName(fn)
		for _, pub := range pubs {
			n++
			// every acquisition of a blocking lock in this function must come after the publication
			bad := ""
			allInstrs(fn, func(ins ssa.Instruction) {
				c, ok := ins.(*ssa.Call)
				if !ok {
					return
				}
				if op, recv := classifyLockCall(&c.Call); op == opLock || op == opRLock {
					pt := pathOf(recv)
					if pt == nil {
						return
					}
					if f := pt.Last(); f != nil {
						if owner, isBlocking := blocking[f]; isBlocking {
							_ = fi
							if !dominatesInstr(pub, ins) {
								bad = fmt.Sprintf("%s is acquired at %s before (or without) the publication of Closed at %s; %s holds it across a blocking retry that ends only on Closed", le.Aliases.canonKey(pt), p.pos(c.Pos()), posOf(p, pub), owner)
							}
						}
					}
				}
			})
			r.Check(name+" publishes Closed before taking a redial-held lock", bad == "", posOf(p, pub), name, "publication of the terminal status precedes every acquisition of a lock held across retry.Do. "+bad)
		}
	}
	if n == 0 {
		r.Undecided("publication sites", "no site sets connStatusClosed")
	}
}

// ruleH1: no blocking channel operation while a mutex is held.
func ruleH1(r *Run, le *LockEngine) {
	r.Begin("H1", "no blocking channel operation under a mutex: a plain send or receive, or a select without a default case, is never executed while the function holds a sync mutex — unless every channel it may block on is a buffered channel created in the same function. A peer that never takes the value stalls the holder and, through the mutex, every other user of the object", 1)
	p := r.P
	n := 0
	for _, fn := range p.Funcs {
		fi := le.Info(fn)
		if fi.Events == 0 {
			continue
		}
		name := fnName(fn)
		k := 0
		allInstrs(fn, func(ins ssa.Instruction) {
			blocking := false
			what := ""
			switch x := ins.(type) {
			case *ssa.Send:
				blocking, what = true, "send"
				if mk, ok := canonVal(x.Chan).(*ssa.MakeChan); ok {
					if sz, isK := constInt(mk.Size); isK && sz >= 1 {
						blocking = false
					}
				}
			case *ssa.UnOp:
				if x.Op == token.ARROW {
					blocking, what = true, "receive"
				}
			case *ssa.Select:
				if x.Blocking {
					blocking, what = true, "select without default"
				}
			}
			if !blocking {
				return
			}
			held := le.HeldAt(ins)
			if len(held) == 0 {
				return
			}
			// sync.Cond.L held around a select that only polls is handled by Blocking=false; here the wait is real
			n++
			k++
			var hk []string
			for key := range held {
				hk = append(hk, key)
			}
			sort.Strings(hk)
			// sends whose every target channel is provably buffered with free capacity cannot be decided statically: report
			r.Check(fmt.Sprintf("%s blocking#%d %s", name, k, what), false, p.pos(ins.Pos()), name,
				fmt.Sprintf("%s while holding %v: if the other side is gone the holder blocks with the lock, stalling every other user", what, hk))
		})
	}
	if n == 0 {
		r.Check("no blocking channel operation under a mutex", true, "", "", "no blocking send, receive or select executes with a mutex held")
	}
	r.Stat("blocking_ops_under_lock", n)
}
