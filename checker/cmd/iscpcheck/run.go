package main

import (
	"encoding/json"
	"fmt"
	"os"
	"path/filepath"
	"sort"
	"strings"
	"time"
)

// Ob is one obligation (rule instance) and its verdict.
type Ob struct {
	Rule      string   `json:"rule"`
	Key       string   `json:"key"`
	OK        bool     `json:"ok"`
	Undecided bool     `json:"undecided,omitempty"`
	Pos       string   `json:"pos,omitempty"`
	Func      string   `json:"func,omitempty"`
	Detail    string   `json:"detail,omitempty"`
	Trace     []string `json:"trace,omitempty"`
	Configs   []string `json:"configs,omitempty"`
}

type RuleRec struct {
	ID    string
	Text  string
	Floor int
	Obs   []*Ob
	Stats map[string]int
	Notes []string
}

// Run collects the obligations of one property check in one configuration.
type Run struct {
	Prop  string
	Rules []*RuleRec
	cur   *RuleRec
	P     *Prog
	seen  map[string]*Ob
	// idPrefix is prepended to rule ids while a rule of another property is borrowed (see borrow)
	idPrefix string
}

func newRun(prop string, p *Prog) *Run { return &Run{Prop: prop, P: p, seen: map[string]*Ob{}} }

// Begin starts a rule. floor: minimal number of obligations the rule must see.
func (r *Run) Begin(id, text string, floor int) {
	r.cur = &RuleRec{ID: r.idPrefix + id, Text: text, Floor: floor, Stats: map[string]int{}}
	r.Rules = append(r.Rules, r.cur)
}

// Check records an obligation. key must identify the construct (no line numbers).
func (r *Run) Check(key string, ok bool, pos, fn, detail string, trace ...string) *Ob {
	full := r.cur.ID + "|" + key
	if prev, dup := r.seen[full]; dup {
		// the same construct judged twice: a failure wins
		if prev.OK && !ok {
			prev.OK = false
			prev.Pos, prev.Func, prev.Detail, prev.Trace = pos, fn, detail, trace
		}
		return prev
	}
	o := &Ob{Rule: r.cur.ID, Key: key, OK: ok, Pos: pos, Func: fn, Detail: detail, Trace: trace}
	r.seen[full] = o
	r.cur.Obs = append(r.cur.Obs, o)
	return o
}

// Undecided records that an anchor or construct could not be resolved: the check fails closed.
func (r *Run) Undecided(key, why string) {
	o := r.Check(key, false, "", "", "UNDECIDED: "+why)
	o.Undecided = true
}

func (r *Run) Stat(name string, n int) { r.cur.Stats[name] += n }
func (r *Run) Note(s string)           { r.cur.Notes = append(r.cur.Notes, s) }

// ---- known findings ----

type KnownFinding struct {
	Property string `json:"property"`
	Rule     string `json:"rule"`
	Key      string `json:"key"`
	Status   string `json:"status"` // known | fixed
	Commit   string `json:"commit,omitempty"`
	What     string `json:"what"`
}

func loadKnown(verifDir string) ([]KnownFinding, error) {
	b, err := os.ReadFile(filepath.Join(verifDir, "known_findings.json"))
	if err != nil {
		if os.IsNotExist(err) {
			return nil, nil
		}
		return nil, err
	}
	var doc struct {
		Findings []KnownFinding `json:"findings"`
	}
	if err := json.Unmarshal(b, &doc); err != nil {
		return nil, err
	}
	return doc.Findings, nil
}

// ---- merging over configurations, output ----

type mergedRule struct {
	ID    string
	Text  string
	Floor int
	Obs   map[string]*Ob
	Order []string
	Stats map[string]int
	Notes []string
	Count map[string]int // per config: number of obligations
}

type Outcome struct {
	Prop       string
	Tier       string
	Seed       int
	Configs    []string
	Rules      []*mergedRule
	LoadStats  map[string]any
	Start      time.Time
	SelfTest   []SelfTestResult
	ExtraNotes []string
}

func mergeRuns(prop string, runs []*Run) []*mergedRule {
	var out []*mergedRule
	idx := map[string]*mergedRule{}
	for _, r := range runs {
		for _, rr := range r.Rules {
			m := idx[rr.ID]
			if m == nil {
				m = &mergedRule{ID: rr.ID, Text: rr.Text, Floor: rr.Floor, Obs: map[string]*Ob{}, Stats: map[string]int{}, Count: map[string]int{}}
				idx[rr.ID] = m
				out = append(out, m)
			}
			m.Count[r.P.Cfg.Name] = len(rr.Obs)
			for k, v := range rr.Stats {
				if v > m.Stats[k] {
					m.Stats[k] = v
				}
			}
			for _, n := range rr.Notes {
				found := false
				for _, e := range m.Notes {
					if e == n {
						found = true
					}
				}
				if !found {
					m.Notes = append(m.Notes, n)
				}
			}
			for _, o := range rr.Obs {
				prev := m.Obs[o.Key]
				if prev == nil {
					c := *o
					c.Configs = []string{r.P.Cfg.Name}
					m.Obs[o.Key] = &c
					m.Order = append(m.Order, o.Key)
					continue
				}
				prev.Configs = append(prev.Configs, r.P.Cfg.Name)
				if prev.OK && !o.OK {
					cfgs := prev.Configs
					c := *o
					c.Configs = cfgs
					c.Detail = o.Detail + " [config " + r.P.Cfg.Name + "]"
					m.Obs[o.Key] = &c
				}
			}
		}
	}
	return out
}

func verifDir() string {
	if d := os.Getenv("VERIF_DIR"); d != "" {
		return d
	}
	exe, err := os.Executable()
	if err == nil {
		d := filepath.Dir(filepath.Dir(exe)) // <verif>/bin/iscpcheck
		if _, err := os.Stat(filepath.Join(d, "properties.jsonl")); err == nil {
			return d
		}
	}
	return "/verif"
}

// finish prints the verdict lines, writes evidence and replay files, returns the exit code.
func finish(o *Outcome, spec *PropSpec) int {
	vd := verifDir()
	known, err := loadKnown(vd)
	if err != nil {
		fmt.Printf("BROKEN: cannot read known_findings.json: %v\n", err)
		return 2
	}
	isKnown := func(rule, key string) *KnownFinding {
		for i := range known {
			k := &known[i]
			if k.Property == o.Prop && k.Rule == rule && k.Key == key && k.Status == "known" {
				return k
			}
		}
		return nil
	}
	violDir := filepath.Join(vd, "evidence", "violations", o.Prop)
	os.RemoveAll(violDir)

	obligations, discharged, violations, knownHits, undecided := 0, 0, 0, 0, 0
	distinct := map[string]bool{}
	var samples []any
	var ruleSummaries []any
	exit := 0
	nviol := 0
	for _, m := range o.Rules {
		n := len(m.Order)
		pass := 0
		var failing []*Ob
		for _, k := range m.Order {
			ob := m.Obs[k]
			if ob.OK {
				pass++
			} else {
				failing = append(failing, ob)
			}
			distinct[m.ID+"|"+k] = true
		}
		obligations += n
		discharged += pass
		// floor
		floorFail := false
		for cfg, c := range m.Count {
			if c < m.Floor {
				fmt.Printf("UNDECIDED property=%s rule=%s: %d instances in config %s, floor is %d (rule lost sight of its subject)\n", o.Prop, m.ID, c, cfg, m.Floor)
				floorFail = true
			}
		}
		if floorFail {
			undecided++
			if exit == 0 {
				exit = 2
			}
		}
		for _, ob := range failing {
			if ob.Undecided {
				fmt.Printf("UNDECIDED property=%s rule=%s key=%s: %s\n", o.Prop, m.ID, ob.Key, ob.Detail)
				undecided++
				if exit == 0 {
					exit = 2
				}
				continue
			}
			if kf := isKnown(m.ID, ob.Key); kf != nil {
				fmt.Printf("KNOWN-FINDING: property=%s %s %s: %s\n", o.Prop, m.ID, ob.Key, kf.What)
				knownHits++
				continue
			}
			violations++
			nviol++
			os.MkdirAll(violDir, 0o755)
			rp := filepath.Join(violDir, fmt.Sprintf("%s-%d.json", m.ID, nviol))
			doc := map[string]any{
				"property": o.Prop, "rule": m.ID, "rule_text": m.Text, "key": ob.Key, "pos": ob.Pos,
				"func": ob.Func, "detail": ob.Detail, "trace": ob.Trace, "configs": ob.Configs,
			}
			b, _ := json.MarshalIndent(doc, "", " ")
			os.WriteFile(rp, b, 0o644)
			fmt.Printf("%s: %s %s in %s: %s\n", ob.Pos, o.Prop+"."+m.ID, ob.Key, ob.Func, ob.Detail)
			for _, t := range ob.Trace {
				fmt.Printf("    %s\n", t)
			}
			fmt.Printf("VIOLATION property=%s replay=%s\n", o.Prop, rp)
			exit = 1
		}
		// samples: up to 3 passing + all failing (capped)
		cnt := 0
		for _, k := range m.Order {
			ob := m.Obs[k]
			if ob.OK && cnt < 3 {
				samples = append(samples, map[string]any{"rule": m.ID, "key": ob.Key, "pos": ob.Pos, "func": ob.Func, "verdict": "holds", "detail": ob.Detail})
				cnt++
			}
		}
		for i, ob := range failing {
			if i >= 8 {
				break
			}
			v := "VIOLATION"
			if ob.Undecided {
				v = "UNDECIDED"
			} else if isKnown(m.ID, ob.Key) != nil {
				v = "KNOWN-FINDING"
			}
			samples = append(samples, map[string]any{"rule": m.ID, "key": ob.Key, "pos": ob.Pos, "func": ob.Func, "verdict": v, "detail": ob.Detail})
		}
		ruleSummaries = append(ruleSummaries, map[string]any{
			"rule": m.ID, "text": m.Text, "instances": n, "passing": pass, "floor": m.Floor, "stats": m.Stats, "notes": m.Notes,
		})
	}
	for _, st := range o.SelfTest {
		if !st.OK {
			fmt.Printf("BROKEN: self-test %s: %s\n", st.Name, st.Detail)
			if exit == 0 {
				exit = 2
			}
		}
	}

	assumptions := append([]string{}, spec.Assumptions...)
	assumptions = append(assumptions, "the analysed program is /repo's current working tree as loaded by go/packages (build configurations listed under coverage.configurations)",
		"value and lock identity is by access path on go/ssa (no pointer analysis); function values and interface callees are not followed unless stated")
	notDecided := append([]string{}, spec.NotDecided...)
	wall := time.Since(o.Start).Seconds()
	ev := map[string]any{
		"property_id": o.Prop,
		"tier":        o.Tier,
		"seed":        o.Seed,
		"level":       "other",
		"wall_s":      wall,
		"violations":  violations,
		"assumptions": assumptions,
		"coverage": map[string]any{
			"explanation":         spec.Explanation,
			"rule":                "static rules over the type-checked SSA program of /repo (see 'rules'); an obligation is one rule instance keyed by rule+construct; distinct_nontrivial counts distinct obligation keys that a rule actually matched in the source",
			"obligations":         obligations,
			"discharged":          discharged,
			"evaluations":         obligations,
			"distinct_nontrivial": len(distinct),
			"known_findings_hit":  knownHits,
			"undecided":           undecided,
			"samples":             samples,
			"rules":               ruleSummaries,
			"configurations":      o.Configs,
			"load":                o.LoadStats,
			"self_test":           o.SelfTest,
			"not_decided":         notDecided,
			"checker_cmd":         strings.Join(os.Args, " "),
			"trusted_base":        []string{"go/types type checker", "golang.org/x/tools v0.29.0 go/ssa builder and VTA call graph", "the rule tables in /verif/checker (hand-confirmed instances)", "third-party libraries behave as documented"},
			"exhaustive":          false,
			"notes":               o.ExtraNotes,
		},
	}
	os.MkdirAll(filepath.Join(vd, "evidence"), 0o755)
	b, _ := json.MarshalIndent(ev, "", " ")
	if err := os.WriteFile(filepath.Join(vd, "evidence", o.Prop+".json"), b, 0o644); err != nil {
		fmt.Printf("BROKEN: cannot write evidence: %v\n", err)
		return 2
	}
	fmt.Printf("%s %s: %d rules, %d obligations, %d discharged, %d known findings, %d violations, %d undecided, %.1fs [%s]\n",
		o.Prop, o.Tier, len(o.Rules), obligations, discharged, knownHits, violations, undecided, wall, strings.Join(o.Configs, ","))
	return exit
}

// PropSpec describes one property's check.
type PropSpec struct {
	ID          string
	Explanation string
	NotDecided  []string
	Assumptions []string
	Rules       func(r *Run)
	// NeedsConfigs: extra configurations that matter for this property in the thorough tier
	ThoroughConfigs []Config
}

var registry = map[string]*PropSpec{}

func register(s *PropSpec) { registry[s.ID] = s }

func sortedProps() []string {
	var ids []string
	for id := range registry {
		ids = append(ids, id)
	}
	sort.Strings(ids)
	return ids
}

type SelfTestResult struct {
	Name   string `json:"name"`
	Kind   string `json:"kind"` // must-fire | must-stay-silent | fixture
	OK     bool   `json:"ok"`
	Detail string `json:"detail"`
}

// borrow runs a rule that belongs to another property inside this one (the mechanism it checks is anchored in both);
// its obligations are recorded under "<owner>.<rule>".
func (r *Run) borrow(owner string, f func()) {
	old := r.idPrefix
	r.idPrefix = owner + "."
	defer func() { r.idPrefix = old }()
	f()
}
