package main

import (
	"flag"
	"fmt"
	"os"
	"runtime/debug"
	"strconv"
	"strings"
	"time"
)

func usage() {
	fmt.Fprintf(os.Stderr, `usage:
  iscpcheck run <property-id> [--tier quick|thorough] [--repo DIR]
  iscpcheck explain <replay.json> [--repo DIR]
  iscpcheck list
  iscpcheck discover <what> [--repo DIR]    (guard|locks|panics|selects)
`)
	os.Exit(2)
}

func main() {
	if len(os.Args) < 2 {
		usage()
	}
	defer func() {
		if e := recover(); e != nil {
			fmt.Printf("BROKEN: checker panic: %v\n%s\n", e, debug.Stack())
			os.Exit(3)
		}
	}()
	switch os.Args[1] {
	case "run":
		os.Exit(cmdRun(os.Args[2:]))
	case "explain":
		os.Exit(cmdExplain(os.Args[2:]))
	case "list":
		for _, id := range sortedProps() {
			fmt.Println(id)
		}
	case "discover":
		os.Exit(cmdDiscover(os.Args[2:]))
	case "sweep":
		os.Exit(cmdSweep(os.Args[2:]))
	case "selftest":
		if len(os.Args) < 3 {
			usage()
		}
		bad := 0
		for _, id := range os.Args[2:] {
			for _, st := range runSelfTests(id, repoDir("")) {
				v := "ok  "
				if !st.OK {
					v = "FAIL"
					bad++
				}
				fmt.Printf("%s %s %-18s %-40s %s\n", v, id, st.Kind, st.Name, st.Detail)
			}
		}
		if bad > 0 {
			os.Exit(2)
		}
	default:
		usage()
	}
}

func repoDir(flagVal string) string {
	if flagVal != "" {
		return flagVal
	}
	if d := os.Getenv("ISCP_REPO"); d != "" {
		return d
	}
	return "/repo"
}

var defaultConfig = Config{Name: "default"}

func thoroughConfigs() []Config {
	return []Config{
		{Name: "tags=gorilla", Tags: "gorilla"},
		{Name: "tags=nhooyr", Tags: "nhooyr"},
		{Name: "GOARCH=386", GOARCH: "386"},
	}
}

func cmdRun(args []string) int {
	if len(args) < 1 {
		usage()
	}
	id := args[0]
	fs := flag.NewFlagSet("run", flag.ExitOnError)
	tier := fs.String("tier", os.Getenv("VERIF_TIER"), "quick|thorough")
	repo := fs.String("repo", "", "repository directory")
	noSelf := fs.Bool("no-selftest", false, "skip the self-test in the thorough tier")
	fs.Parse(args[1:])
	if *tier == "" {
		*tier = "quick"
	}
	spec := registry[id]
	if spec == nil {
		fmt.Printf("BROKEN: unknown property %s\n", id)
		return 2
	}
	seed, _ := strconv.Atoi(os.Getenv("VERIF_SEED"))
	start := time.Now()
	dir := repoDir(*repo)
	cfgs := []Config{defaultConfig}
	if *tier == "thorough" {
		cfgs = append(cfgs, thoroughConfigs()...)
	}
	var runs []*Run
	var names []string
	load := map[string]any{}
	for _, cfg := range cfgs {
		r, st, err := runOne(spec, dir, cfg)
		if err != nil {
			fmt.Printf("BROKEN: %s [%s]: %v\n", id, cfg.Name, err)
			return 2
		}
		runs = append(runs, r)
		names = append(names, cfg.Name)
		load[cfg.Name] = st
	}
	o := &Outcome{Prop: id, Tier: *tier, Seed: seed, Configs: names, Rules: mergeRuns(id, runs), LoadStats: load, Start: start}
	if *tier == "thorough" && !*noSelf {
		o.SelfTest = runSelfTests(id, dir)
	}
	return finish(o, spec)
}

func runOne(spec *PropSpec, dir string, cfg Config) (r *Run, stats map[string]any, err error) {
	defer func() {
		if e := recover(); e != nil {
			err = fmt.Errorf("checker panic: %v\n%s", e, debug.Stack())
		}
	}()
	t0 := time.Now()
	p, err := loadProg(dir, cfg)
	if err != nil {
		return nil, nil, err
	}
	theClosures = buildClosureInfo(p)
	theProg = p
	r = newRun(spec.ID, p)
	spec.Rules(r)
	ruleStillWired(r)
	ruleChannelsWired(r)
	files := 0
	for _, pk := range p.Pkgs {
		files += len(pk.Syntax)
	}
	stats = map[string]any{
		"packages_analysed": len(p.Pkgs), "packages_module": len(p.All), "packages_loaded": len(p.ByPath),
		"functions": len(p.Funcs), "files": files, "seconds": time.Since(t0).Seconds(),
		"renames_followed": append([]string{}, renameNotes...),
	}
	return r, stats, nil
}

func cmdExplain(args []string) int {
	if len(args) < 1 {
		usage()
	}
	b, err := os.ReadFile(args[0])
	if err != nil {
		fmt.Println(err)
		return 2
	}
	fmt.Println(strings.TrimSpace(string(b)))
	// re-run the property and show whether the instance still fails
	var prop, rule, key string
	for _, f := range []struct {
		name string
		dst  *string
	}{{"property", &prop}, {"rule", &rule}, {"key", &key}} {
		*f.dst = jsonField(b, f.name)
	}
	spec := registry[prop]
	if spec == nil {
		return 2
	}
	fs := flag.NewFlagSet("explain", flag.ExitOnError)
	repo := fs.String("repo", "", "repository directory")
	fs.Parse(args[1:])
	r, _, err := runOne(spec, repoDir(*repo), defaultConfig)
	if err != nil {
		fmt.Println("BROKEN:", err)
		return 2
	}
	for _, rr := range r.Rules {
		if rr.ID != rule {
			continue
		}
		for _, ob := range rr.Obs {
			if ob.Key == key {
				if ob.OK {
					fmt.Printf("on the current tree this instance HOLDS: %s %s\n", ob.Pos, ob.Detail)
					return 0
				}
				fmt.Printf("on the current tree this instance still FAILS: %s in %s: %s\n", ob.Pos, ob.Func, ob.Detail)
				for _, t := range ob.Trace {
					fmt.Println("   ", t)
				}
				return 1
			}
		}
	}
	fmt.Println("instance not present on the current tree")
	return 0
}

func jsonField(b []byte, name string) string {
	s := string(b)
	i := strings.Index(s, `"`+name+`":`)
	if i < 0 {
		return ""
	}
	s = s[i+len(name)+3:]
	s = strings.TrimLeft(s, " ")
	if !strings.HasPrefix(s, `"`) {
		return ""
	}
	s = s[1:]
	var sb strings.Builder
	for i := 0; i < len(s); i++ {
		if s[i] == '\\' && i+1 < len(s) {
			i++
			sb.WriteByte(s[i])
			continue
		}
		if s[i] == '"' {
			break
		}
		sb.WriteByte(s[i])
	}
	return sb.String()
}

// cmdSweep loads the repository once and runs the rules of every registered property on it, printing one line per
// failing or undecided obligation. It is a development aid for trying many variants of the tree quickly (mutation
// sweeps); it writes no evidence and is not registered in the manifest.
func cmdSweep(args []string) int {
	fs := flag.NewFlagSet("sweep", flag.ExitOnError)
	repo := fs.String("repo", "", "repository directory")
	dump := fs.String("dump", "", "print every obligation of this rule (e.g. C08.L1)")
	fs.Parse(args)
	dir := repoDir(*repo)
	p, err := loadProg(dir, defaultConfig)
	if err != nil {
		fmt.Printf("BROKEN load: %v\n", err)
		return 2
	}
	theClosures = buildClosureInfo(p)
	theProg = p
	knownList, _ := loadKnown(verifDir())
	for _, id := range sortedProps() {
		spec := registry[id]
		func() {
			defer func() {
				if e := recover(); e != nil {
					fmt.Printf("PANIC %s: %v\n", id, e)
				}
			}()
			r := newRun(id, p)
			spec.Rules(r)
			ruleStillWired(r)
			ruleChannelsWired(r)
			for _, rr := range r.Rules {
				if len(rr.Obs) < rr.Floor {
					fmt.Printf("FLOOR %s.%s %d<%d\n", id, rr.ID, len(rr.Obs), rr.Floor)
				}
				for _, o := range rr.Obs {
					if *dump == id+"."+rr.ID {
						fmt.Printf("OB %v %s @ %s | %s\n", o.OK, o.Key, o.Pos, o.Detail)
					}
					if o.Undecided {
						fmt.Printf("UNDEC %s.%s %s | %s\n", id, rr.ID, o.Key, o.Detail)
					} else if !o.OK {
						listed := false
						for _, k := range knownList {
							if k.Status == "known" && k.Property == id && k.Rule == rr.ID && k.Key == o.Key {
								listed = true
							}
						}
						if !listed { // (a listed known finding is reported by `run`, not by this development sweep)
							fmt.Printf("FAIL %s.%s %s @ %s\n", id, rr.ID, o.Key, o.Pos)
						}
					}
				}
			}
		}()
	}
	return 0
}
