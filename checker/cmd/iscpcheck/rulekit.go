package main

import (
	"fmt"
	"go/constant"
	"go/token"
	"go/types"
	"sort"
	"strings"

	"golang.org/x/tools/go/ssa"
)

// ---- anchors ----

func (r *Run) method(pkg, typ, name string) *ssa.Function {
	fn := r.P.Method(pkg, typ, name)
	if fn == nil || fn.Blocks == nil {
		r.Undecided("anchor "+pkg+"."+typ+"."+name, "method not found (renamed or removed); the rule cannot see its subject")
		return nil
	}
	return fn
}

func (r *Run) function(pkg, name string) *ssa.Function {
	fn := r.P.Func(pkg, name)
	if fn == nil || fn.Blocks == nil {
		r.Undecided("anchor "+pkg+"."+name, "function not found (renamed or removed)")
		return nil
	}
	return fn
}

func (r *Run) field(pkg, typ, name string) *types.Var {
	f := r.P.Field(pkg, typ, name)
	if f == nil {
		r.Undecided("anchor field "+pkg+"."+typ+"."+name, "field not found (renamed or removed)")
	}
	return f
}

func (r *Run) named(pkg, name string) *types.Named {
	n := r.P.Named(pkg, name)
	if n == nil {
		r.Undecided("anchor type "+pkg+"."+name, "type not found")
	}
	return n
}

// ---- call naming ----

// callName: "/pkg.Recv.Method" or "/pkg.Func" or "sync/atomic.AddUint64"; "" if ins is not a call.
func callName(ins ssa.Instruction) string {
	cc := instrCall(ins)
	if cc == nil {
		return ""
	}
	if o := calleeObj(cc); o != nil {
		return objLeafName(o)
	}
	if b, ok := cc.Value.(*ssa.Builtin); ok {
		return "builtin." + b.Name()
	}
	if cf := closureOf(cc.Value); cf != nil {
		return funcLeafName(cf)
	}
	return "dynamic"
}

func isCallNamed(ins ssa.Instruction, names ...string) bool {
	n := callName(ins)
	if n == "" {
		return false
	}
	for _, x := range names {
		if n == x {
			return true
		}
	}
	return false
}

// findCalls returns the Call/Go/Defer instructions of fn (and nested closures when nested) to any of names.
func findCalls(fn *ssa.Function, nested bool, names ...string) []ssa.Instruction {
	var out []ssa.Instruction
	visit := func(f *ssa.Function) {
		allInstrs(f, func(ins ssa.Instruction) {
			if isCallNamed(ins, names...) {
				out = append(out, ins)
			}
		})
	}
	if nested {
		withAnon(fn, visit)
	} else {
		visit(fn)
	}
	return out
}

// moduleCalls finds calls to names anywhere in analysed code.
func (p *Prog) moduleCalls(names ...string) []ssa.Instruction {
	var out []ssa.Instruction
	for _, fn := range p.Funcs {
		allInstrs(fn, func(ins ssa.Instruction) {
			if isCallNamed(ins, names...) {
				out = append(out, ins)
			}
		})
	}
	return out
}

// reachesCallee: does fn (through static calls and its closures, depth<=3) contain a call named name?
func (p *Prog) reachesCall(fn *ssa.Function, depth int, names ...string) bool {
	seen := map[*ssa.Function]bool{}
	var rec func(f *ssa.Function, d int) bool
	rec = func(f *ssa.Function, d int) bool {
		if f == nil || seen[f] || f.Blocks == nil {
			return false
		}
		seen[f] = true
		found := false
		withAnon(f, func(g *ssa.Function) {
			allInstrs(g, func(ins ssa.Instruction) {
				if found {
					return
				}
				if isCallNamed(ins, names...) {
					found = true
					return
				}
				if d > 0 {
					if cc := instrCall(ins); cc != nil {
						if c := cc.StaticCallee(); c != nil && p.Analysed(c) && rec(c, d-1) {
							found = true
						}
					}
				}
			})
		})
		return found
	}
	return rec(fn, depth)
}

// ---- field events ----

func fieldKeyOfAddr(v ssa.Value) string {
	fa, ok := v.(*ssa.FieldAddr)
	if !ok {
		return ""
	}
	f := fieldOf(fa.X.Type(), fa.Field)
	owner := namedOf(fa.X.Type())
	if f == nil || owner == nil {
		return ""
	}
	return fieldKey(owner, f)
}

// isStoreTo: ins stores to the field with the given key ("/iscp.Upstream.sendBuffer").
func isStoreTo(ins ssa.Instruction, fk string) bool {
	st, ok := ins.(*ssa.Store)
	if !ok {
		return false
	}
	return fieldKeyOfAddr(st.Addr) == fk
}

// storesIn: stores to field fk in fn (not nested).
func storesIn(fn *ssa.Function, fk string) []*ssa.Store {
	var out []*ssa.Store
	allInstrs(fn, func(ins ssa.Instruction) {
		if isStoreTo(ins, fk) {
			out = append(out, ins.(*ssa.Store))
		}
	})
	return out
}

// mustStore: fn stores to field fk on every path to every return (the store's block dominates all return blocks),
// returning the stored value.
func mustStore(fn *ssa.Function, fk string) (ssa.Value, bool) {
	return mustStoreDepth(fn, fk, 0)
}

// dominatesAllReturns: ins lies on every path from entry to a return of its function.
func dominatesAllReturns(ins ssa.Instruction) bool {
	fn := ins.Parent()
	for _, b := range fn.Blocks {
		if b == fn.Recover {
			continue // the synthetic recover block of functions with defers
		}
		for _, x := range b.Instrs {
			if _, ok := x.(*ssa.Return); ok {
				if !(ins.Block() == b || ins.Block().Dominates(b)) {
					return false
				}
			}
		}
	}
	return true
}

func mustStoreDepth(fn *ssa.Function, fk string, depth int) (ssa.Value, bool) {
	if fn == nil || fn.Blocks == nil {
		return nil, false
	}
	for _, st := range storesIn(fn, fk) {
		if dominatesAllReturns(st) {
			return st.Val, true
		}
	}
	if depth >= 2 || theProg == nil {
		return nil, false
	}
	// a call on every path to a function that must-store fk, or to a helper that merely invokes a closure that does
	// (x.locked(func(){ x.f = … }))
	var val ssa.Value
	found := false
	allInstrs(fn, func(ins ssa.Instruction) {
		c, ok := ins.(*ssa.Call)
		if !ok || found || !dominatesAllReturns(c) {
			return
		}
		if cf := c.Call.StaticCallee(); cf != nil && theProg.Analysed(cf) && cf != fn {
			if v, ok2 := mustStoreDepth(cf, fk, depth+1); ok2 {
				val, found = v, true
				return
			}
			for _, ic := range invokedClosureArgs(theProg, &c.Call) {
				all := len(ic.sites) > 0
				for _, site := range ic.sites {
					if !dominatesAllReturns(site) {
						all = false
					}
				}
				if !all {
					continue
				}
				if v, ok2 := mustStoreDepth(ic.closure, fk, depth+1); ok2 {
					val, found = v, true
					return
				}
			}
		}
	})
	return val, found
}

// resetsField: ins is a direct store to fk, or a static call to a function that must-stores fk.
// Returns the stored value.
func (p *Prog) resetsField(ins ssa.Instruction, fk string) (ssa.Value, bool) {
	if isStoreTo(ins, fk) {
		return ins.(*ssa.Store).Val, true
	}
	if c, ok := ins.(*ssa.Call); ok {
		if cf := c.Call.StaticCallee(); cf != nil && p.Analysed(cf) {
			if v, ok2 := mustStore(cf, fk); ok2 {
				return v, true
			}
			// a helper that merely invokes the closure it is handed, and the closure stores
			for _, ic := range invokedClosureArgs(p, &c.Call) {
				if v, ok2 := mustStore(ic.closure, fk); ok2 {
					return v, true
				}
			}
		}
	}
	return nil, false
}

// ---- conditions ----

// errResultOf: the error-typed result value(s) of a call instruction (direct value or Extract).
func errResultsOf(call *ssa.Call) []ssa.Value {
	var out []ssa.Value
	isErr := func(t types.Type) bool { return types.Identical(t, types.Universe.Lookup("error").Type()) }
	if tup, ok := call.Type().(*types.Tuple); ok {
		if call.Referrers() != nil {
			for _, r := range *call.Referrers() {
				if ex, ok := r.(*ssa.Extract); ok && isErr(tup.At(ex.Index).Type()) {
					out = append(out, ex)
				}
			}
		}
		return out
	}
	if isErr(call.Type()) {
		out = append(out, call)
	}
	return out
}

func isNilConst(v ssa.Value) bool {
	c, ok := v.(*ssa.Const)
	return ok && c.Value == nil
}

// nilEdge: if `ifs` tests v against nil, returns the successor taken when v == nil.
func nilEdge(ifs *ssa.If, v ssa.Value) *ssa.BasicBlock {
	bo, ok := ifs.Cond.(*ssa.BinOp)
	if !ok {
		return nil
	}
	match := (sameValue(bo.X, v) && isNilConst(bo.Y)) || (sameValue(bo.Y, v) && isNilConst(bo.X))
	if !match {
		return nil
	}
	switch bo.Op {
	case token.EQL:
		return ifs.Block().Succs[0]
	case token.NEQ:
		return ifs.Block().Succs[1]
	}
	return nil
}

// sameValue: identical SSA value, or loads of the same local variable / same phi-free copy.
func sameValue(a, b ssa.Value) bool {
	if a == b {
		return true
	}
	ua, ok1 := a.(*ssa.UnOp)
	ub, ok2 := b.(*ssa.UnOp)
	if ok1 && ok2 && ua.Op == token.MUL && ub.Op == token.MUL && ua.X == ub.X {
		switch ua.X.(type) {
		case *ssa.Alloc, *ssa.FreeVar:
			return true
		}
	}
	return false
}

// ifsOn: all If instructions in fn whose condition tests v against nil; for values spilled into
// a local (named results, captured vars) also tests of loads of that local.
func nilTestsOf(fn *ssa.Function, v ssa.Value) []*ssa.If {
	cands := []ssa.Value{v}
	// v stored into an Alloc: loads of that Alloc count as v
	if v.Referrers() != nil {
		for _, r := range *v.Referrers() {
			if st, ok := r.(*ssa.Store); ok && st.Val == v {
				cands = append(cands, loadsOfAddr(st.Addr)...)
			}
		}
	}
	var out []*ssa.If
	allInstrs(fn, func(ins ssa.Instruction) {
		ifs, ok := ins.(*ssa.If)
		if !ok {
			return
		}
		for _, c := range cands {
			if nilEdge(ifs, c) != nil {
				out = append(out, ifs)
				return
			}
		}
	})
	return out
}

// guardedByNilErr: target executes only after `call` returned a nil error: some If tests the
// call's error result and target's block is dominated by its nil successor (and not the other).
func guardedByNilErr(call *ssa.Call, target ssa.Instruction) bool {
	fn := call.Parent()
	for _, ev := range errResultsOf(call) {
		cands := []ssa.Value{ev}
		if ev.Referrers() != nil {
			for _, r := range *ev.Referrers() {
				if st, ok := r.(*ssa.Store); ok && st.Val == ev {
					cands = append(cands, loadsOfAddr(st.Addr)...)
				}
			}
		}
		found := false
		allInstrs(fn, func(ins ssa.Instruction) {
			ifs, ok := ins.(*ssa.If)
			if !ok || found {
				return
			}
			for _, c := range cands {
				if ne := nilEdge(ifs, c); ne != nil {
					if edgeDominates(ifs.Block(), ne, target.Block()) {
						found = true
					}
				}
			}
		})
		if found {
			return true
		}
	}
	return false
}

// edgeDominates: every path from entry to `target` goes through the edge from->succ.
// Approximated soundly as: succ dominates target and succ has `from` as its only predecessor,
// or (when succ has several predecessors) target is unreachable from `from`'s other successor
// without passing succ... we use the simple form plus a reachability refinement.
func edgeDominates(from, succ, target *ssa.BasicBlock) bool {
	if !(succ == target || succ.Dominates(target)) {
		return false
	}
	if len(succ.Preds) == 1 {
		return true
	}
	// succ has other predecessors: the edge dominates only if all other preds are themselves
	// dominated by succ (loop back-edges)
	for _, pr := range succ.Preds {
		if pr == from {
			continue
		}
		if !succ.Dominates(pr) {
			return false
		}
	}
	return true
}

// trueEdgeDominates: the If on boolean value cond (e.g. a comma-ok result) — target is dominated by its true edge.
func condTrueDominates(fn *ssa.Function, cond ssa.Value, target ssa.Instruction) bool {
	ok := false
	allInstrs(fn, func(ins ssa.Instruction) {
		ifs, isIf := ins.(*ssa.If)
		if !isIf || ok {
			return
		}
		if sameValue(ifs.Cond, cond) {
			if edgeDominates(ifs.Block(), ifs.Block().Succs[0], target.Block()) {
				ok = true
			}
		}
	})
	return ok
}

// condFalseReturnsErr: on the edge where boolean cond is false, every path returns a non-nil error
// (the returned error value is not the nil constant) without passing `forbidden`.
func constInt(v ssa.Value) (int64, bool) {
	c, ok := v.(*ssa.Const)
	if !ok || c.Value == nil || c.Value.Kind() != constant.Int {
		return 0, false
	}
	i, ok := constant.Int64Val(c.Value)
	return i, ok
}

// enumConst returns the value of constant pkg.name.
func (p *Prog) enumConst(pkg, name string) (int64, bool) {
	tp := p.pkgTypes(pkg)
	if tp == nil {
		return 0, false
	}
	c, ok := tp.Scope().Lookup(name).(*types.Const)
	if !ok {
		return 0, false
	}
	return constant.Int64Val(c.Val())
}

// ---- misc ----

func joinLeaves(l []string) string {
	s := append([]string{}, l...)
	sort.Strings(s)
	return strings.Join(s, " ")
}

func posOf(p *Prog, ins ssa.Instruction) string {
	if ins == nil {
		return ""
	}
	if ins.Pos().IsValid() {
		return p.pos(ins.Pos())
	}
	// fall back to the nearest instruction with a position in the block
	for _, x := range ins.Block().Instrs {
		if x.Pos().IsValid() {
			return p.pos(x.Pos())
		}
	}
	return p.pos(ins.Parent().Pos())
}

func describe(p *Prog, ins ssa.Instruction) string {
	return fmt.Sprintf("%s (%s)", posOf(p, ins), ins.String())
}

// implementers returns the named types of analysed packages (pointer or value) implementing iface.
func (p *Prog) implementers(iface *types.Interface, includeExcluded bool) []*types.Named {
	var out []*types.Named
	pkgs := p.Pkgs
	if includeExcluded {
		pkgs = p.All
	}
	for _, pk := range pkgs {
		sc := pk.Types.Scope()
		for _, nm := range sc.Names() {
			tn, ok := sc.Lookup(nm).(*types.TypeName)
			if !ok || tn.IsAlias() {
				continue
			}
			n, ok := tn.Type().(*types.Named)
			if !ok {
				continue
			}
			if _, isIface := n.Underlying().(*types.Interface); isIface {
				continue
			}
			if types.Implements(n, iface) || types.Implements(types.NewPointer(n), iface) {
				out = append(out, n)
			}
		}
	}
	sort.Slice(out, func(i, j int) bool { return typeKey(out[i]) < typeKey(out[j]) })
	return out
}

// methodOf returns the declared method fn of named type n (pointer or value receiver).
func (p *Prog) methodOf(n *types.Named, name string) *ssa.Function {
	for i := 0; i < n.NumMethods(); i++ {
		m := n.Method(i)
		if m.Name() == name {
			return p.SSA.FuncValue(m)
		}
	}
	return nil
}

// retResults returns the values a Return yields, looking through go/ssa's result spill: in a
// function with defers the results are stored into locals before `rundefers` and reloaded.
func retResults(ret *ssa.Return) []ssa.Value {
	out := make([]ssa.Value, len(ret.Results))
	for i, res := range ret.Results {
		out[i] = res
		u, ok := res.(*ssa.UnOp)
		if !ok || u.Op != token.MUL {
			continue
		}
		a, ok := u.X.(*ssa.Alloc)
		if !ok {
			continue
		}
		// last store to a in the same block before the return; else, if the block has a single
		// predecessor chain, walk up
		b := ret.Block()
		found := false
		for depth := 0; depth < 4 && b != nil && !found; depth++ {
			instrs := b.Instrs
			for j := len(instrs) - 1; j >= 0; j-- {
				if st, ok := instrs[j].(*ssa.Store); ok && st.Addr == ssa.Value(a) {
					out[i] = st.Val
					found = true
					break
				}
			}
			if len(b.Preds) == 1 {
				b = b.Preds[0]
			} else {
				b = nil
			}
		}
	}
	return out
}

// loadsOfAddr: the loads of a local variable (Alloc) or captured variable (FreeVar) address.
func loadsOfAddr(addr ssa.Value) []ssa.Value {
	var out []ssa.Value
	switch addr.(type) {
	case *ssa.Alloc, *ssa.FreeVar:
	default:
		return nil
	}
	if refs := addr.Referrers(); refs != nil {
		for _, ar := range *refs {
			if ld, ok := ar.(*ssa.UnOp); ok && ld.Op == token.MUL {
				out = append(out, ld)
			}
		}
	}
	return out
}

// testsOf returns the If instructions whose condition is v. When fn returns v unchanged as its j-th result (a lookup
// helper that hands value and ok straight back), the tests are those of the j-th result at every static call site of
// fn, recursively (depth 2). complete is false when some use of v could not be followed (fn escapes as a value, a
// call site ignores the result).
func (p *Prog) testsOf(fn *ssa.Function, v ssa.Value, depth int) (tests []*ssa.If, complete bool) {
	complete = true
	if v.Referrers() == nil {
		return nil, false
	}
	returnedAs := -1
	for _, ref := range *v.Referrers() {
		switch x := ref.(type) {
		case *ssa.If:
			tests = append(tests, x)
		case *ssa.Return:
			for j, rv := range x.Results {
				if rv == v {
					returnedAs = j
				}
			}
		}
	}
	// through a spilled named result or a defer-spilled return the value is stored and re-loaded: accept a store into a
	// local whose loads are returned
	if returnedAs < 0 {
		for _, ref := range *v.Referrers() {
			if st, ok := ref.(*ssa.Store); ok && st.Val == v {
				if a, isA := st.Addr.(*ssa.Alloc); isA {
					for _, l := range loadsOfAddr(a) {
						if l.Referrers() == nil {
							continue
						}
						for _, r2 := range *l.Referrers() {
							if ret, isRet := r2.(*ssa.Return); isRet {
								for j, rv := range ret.Results {
									if rv == l {
										returnedAs = j
									}
								}
							}
						}
					}
				}
			}
		}
	}
	if returnedAs < 0 {
		return tests, complete
	}
	if depth >= 2 {
		return tests, false
	}
	sites := p.staticCallSites(fn)
	if len(sites) == 0 {
		return tests, false
	}
	for _, site := range sites {
		call, ok := site.(*ssa.Call)
		if !ok || call.Referrers() == nil {
			complete = false
			continue
		}
		var res ssa.Value
		if fn.Signature.Results().Len() == 1 {
			res = call
		} else {
			for _, ref := range *call.Referrers() {
				if ex, isEx := ref.(*ssa.Extract); isEx && ex.Index == returnedAs {
					res = ex
				}
			}
		}
		if res == nil {
			complete = false
			continue
		}
		t, c := p.testsOf(call.Parent(), res, depth+1)
		tests = append(tests, t...)
		if !c || len(t) == 0 {
			complete = false
		}
	}
	return tests, complete
}

// paramSend describes one send a function performs on a channel it received as a parameter.
type paramSend struct {
	at       ssa.Instruction
	blocking bool // a plain send, or a select without default
	hasDone  bool // a select that also receives from a Done()-like channel
}

// paramSends lists the sends fn performs on its idx-th parameter, following the parameter into static callees it is
// passed on to (depth 2).
func paramSends(fn *ssa.Function, idx, depth int) []paramSend {
	if fn == nil || fn.Blocks == nil || idx >= len(fn.Params) || depth > 2 {
		return nil
	}
	prm := ssa.Value(fn.Params[idx])
	isP := func(v ssa.Value) bool { return v == prm || canonVal(v) == prm }
	var out []paramSend
	allInstrs(fn, func(ins ssa.Instruction) {
		switch x := ins.(type) {
		case *ssa.Send:
			if isP(x.Chan) {
				out = append(out, paramSend{at: x, blocking: true})
			}
		case *ssa.Select:
			snd, done := false, false
			for _, st := range x.States {
				if st.Dir == types.SendOnly && isP(st.Chan) {
					snd = true
				}
				if st.Dir == types.RecvOnly {
					if _, isDone := doneLike(st.Chan); isDone {
						done = true
					}
				}
			}
			if snd {
				out = append(out, paramSend{at: x, blocking: x.Blocking, hasDone: done})
			}
		case *ssa.Call:
			if cal := x.Call.StaticCallee(); cal != nil && cal != fn {
				for j, a := range x.Call.Args {
					if isP(a) {
						out = append(out, paramSends(cal, j, depth+1)...)
					}
				}
			}
		}
	})
	return out
}

// originsThroughParams resolves v to its canonical value; when that is a parameter of a function that is only ever
// called statically, to the canonical values of the arguments at all its call sites (depth 2). complete is false when
// the function has no visible call site or escapes as a value.
func (p *Prog) originsThroughParams(v ssa.Value, depth int) (out []ssa.Value, complete bool) {
	cv := canonVal(v)
	if ct, ok := cv.(*ssa.ChangeType); ok {
		cv = canonVal(ct.X)
	}
	prm, isP := cv.(*ssa.Parameter)
	if !isP || depth >= 2 {
		return []ssa.Value{cv}, true
	}
	fn := prm.Parent()
	idx := -1
	for i, q := range fn.Params {
		if q == prm {
			idx = i
		}
	}
	sites := p.staticCallSites(fn)
	if idx < 0 || len(sites) == 0 || fn.Parent() != nil || (fn.Object() != nil && fn.Object().Exported()) {
		return []ssa.Value{cv}, true
	}
	complete = true
	for _, site := range sites {
		cc := instrCall(site)
		if cc == nil || idx >= len(cc.Args) {
			complete = false
			continue
		}
		o, c := p.originsThroughParams(cc.Args[idx], depth+1)
		out = append(out, o...)
		if !c {
			complete = false
		}
	}
	return out, complete
}

// callsReaching returns the instructions of fn that call one of names directly, or call (statically) a module function
// that reaches one of names within depth further calls — the sites of fn at which the named operation happens.
func (p *Prog) callsReaching(fn *ssa.Function, depth int, names ...string) []ssa.Instruction {
	var out []ssa.Instruction
	allInstrs(fn, func(ins ssa.Instruction) {
		if isCallNamed(ins, names...) {
			out = append(out, ins)
			return
		}
		if cc := instrCall(ins); cc != nil {
			if cal := cc.StaticCallee(); cal != nil && p.Analysed(cal) && cal != fn && p.reachesCall(cal, depth-1, names...) {
				out = append(out, ins)
			}
		}
	})
	return out
}

// forwardingWrapperOf: when f is called from exactly one place, and that place is a wrapper that does nothing but take
// and release locks around the call, passes its own parameters on and returns f's results unchanged
// (func (r *T) reconnectLocked(old X) error { r.mu.Lock(); err := r.reconnect(old); r.mu.Unlock(); return err }),
// the wrapper and the position map (f's argument index -> wrapper's parameter index) are returned. Rules written
// about "the call sites of f" then look at the call sites of the wrapper.
func (p *Prog) forwardingWrapperOf(f *ssa.Function) (*ssa.Function, map[int]int) {
	sites := p.staticCallSites(f)
	if len(sites) != 1 {
		return nil, nil
	}
	call, ok := sites[0].(*ssa.Call)
	if !ok {
		return nil, nil
	}
	w := call.Parent()
	if w.Parent() != nil || w == f || (w.Object() != nil && w.Object().Exported()) {
		return nil, nil
	}
	pos := map[int]int{}
	for i, a := range call.Call.Args {
		prm, isP := canonVal(a).(*ssa.Parameter)
		if !isP || prm.Parent() != w {
			return nil, nil
		}
		for j, q := range w.Params {
			if q == prm {
				pos[i] = j
			}
		}
	}
	pure := true
	allInstrs(w, func(ins ssa.Instruction) {
		switch x := ins.(type) {
		case *ssa.Call:
			if x == call {
				return
			}
			if op, _ := classifyLockCall(&x.Call); op == opNone {
				pure = false
			}
		case *ssa.Defer:
			if op, _ := classifyLockCall(&x.Call); op == opNone {
				pure = false
			}
		case *ssa.Go, *ssa.Send, *ssa.Select, *ssa.MapUpdate, *ssa.If, *ssa.Panic:
			pure = false
		case *ssa.Store:
			if _, isAlloc := x.Addr.(*ssa.Alloc); !isAlloc {
				pure = false
			}
		case *ssa.Return:
			for _, rv := range retResults(x) {
				cv := canonVal(rv)
				if ex, isEx := cv.(*ssa.Extract); isEx {
					cv = ex.Tuple
				}
				if cv != ssa.Value(call) {
					pure = false
				}
			}
		}
	})
	if !pure {
		return nil, nil
	}
	return w, pos
}

// recvVarName: the name under which fn refers to its receiver — the first parameter of a method, or for a closure the
// captured variable of pointer-to-struct type (lock keys are rendered with that name). "" when there is none.
func recvVarName(fn *ssa.Function) string {
	if fn == nil {
		return ""
	}
	if fn.Signature.Recv() != nil && len(fn.Params) > 0 {
		return fn.Params[0].Name()
	}
	for _, fv := range fn.FreeVars {
		if n := namedOf(fv.Type()); n != nil {
			if _, isStruct := n.Underlying().(*types.Struct); isStruct {
				return fv.Name()
			}
		}
	}
	if len(fn.Params) > 0 {
		return fn.Params[0].Name()
	}
	return ""
}

// withHelpers visits fn, its function literals and — depth calls deep — the unexported functions of the same package that
// they call or start with go (the named methods a goroutine body, a loop body or a critical section was moved to).
func (p *Prog) withHelpers(fn *ssa.Function, depth int, f func(*ssa.Function)) {
	seen := map[*ssa.Function]bool{}
	var visit func(g *ssa.Function, d int)
	visit = func(g *ssa.Function, d int) {
		if g == nil || g.Blocks == nil || seen[g] {
			return
		}
		seen[g] = true
		f(g)
		for _, a := range g.AnonFuncs {
			visit(a, d)
		}
		if d >= depth {
			return
		}
		allInstrs(g, func(ins ssa.Instruction) {
			cc := instrCall(ins)
			if cc == nil {
				return
			}
			cal := cc.StaticCallee()
			if cal == nil || !p.Analysed(cal) || fnPkgPath(cal) != fnPkgPath(fn) {
				return
			}
			if o := cal.Object(); o != nil && o.Exported() {
				return
			}
			visit(cal, d+1)
		})
	}
	visit(fn, 0)
}

// liftToCallers: pred holds for instruction at in its function — or, when the instruction sits in an unexported helper
// that is only ever called statically, for the call of that helper at every one of its call sites (two levels up at
// most). This is how a rule about "X happens only after Y in this function" follows X into a helper it was moved to.
func (p *Prog) liftToCallers(at ssa.Instruction, pred func(fn *ssa.Function, at ssa.Instruction) bool, depth int) bool {
	fn := at.Parent()
	if pred(fn, at) {
		return true
	}
	if depth < 2 && fn.Parent() != nil {
		// a function literal handed to a pure invoker (x.locked(func(){…})) runs where the invoker is called
		var site ssa.Instruction
		allInstrs(fn.Parent(), func(ins ssa.Instruction) {
			cc := instrCall(ins)
			if cc == nil || site != nil {
				return
			}
			if _, isCall := ins.(*ssa.Call); !isCall {
				return
			}
			for _, ic := range invokedClosureArgs(p, cc) {
				if ic.closure == fn {
					site = ins
				}
			}
		})
		if site != nil {
			return p.liftToCallers(site, pred, depth+1)
		}
		return false
	}
	if depth >= 2 || fn.Parent() != nil || (fn.Object() != nil && fn.Object().Exported()) {
		return false
	}
	sites := p.staticCallSites(fn)
	if len(sites) == 0 {
		return false
	}
	for _, s := range sites {
		if _, isCall := s.(*ssa.Call); !isCall {
			return false
		}
		if !p.liftToCallers(s, pred, depth+1) {
			return false
		}
	}
	return true
}

// attemptOf: the function in which fn's function-valued parameter is actually called — fn itself, or the module
// function fn hands the parameter on to ("one attempt" split out of a retry loop). site is the call of that function
// in fn (nil when it is fn itself), fcall the call of the parameter.
func (p *Prog) attemptOf(fn *ssa.Function) (att *ssa.Function, fcall *ssa.Call, site *ssa.Call) {
	paramCall := func(g *ssa.Function, idx int) *ssa.Call {
		var out *ssa.Call
		allInstrs(g, func(ins ssa.Instruction) {
			if c, ok := ins.(*ssa.Call); ok && !c.Call.IsInvoke() && c.Call.StaticCallee() == nil {
				if prm, isParam := c.Call.Value.(*ssa.Parameter); isParam && (idx < 0 || g.Params[idx] == prm) {
					out = c
				}
			}
		})
		return out
	}
	if c := paramCall(fn, -1); c != nil {
		return fn, c, nil
	}
	allInstrs(fn, func(ins ssa.Instruction) {
		c, ok := ins.(*ssa.Call)
		if !ok || att != nil {
			return
		}
		cal := c.Call.StaticCallee()
		if cal == nil || !p.Analysed(cal) {
			return
		}
		for i, a := range callArgs(&c.Call) {
			if prm, isP := a.(*ssa.Parameter); isP && prm.Parent() == fn && i < len(cal.Params) {
				if _, isSig := prm.Type().Underlying().(*types.Signature); !isSig {
					continue
				}
				if pc := paramCall(cal, i); pc != nil {
					att, fcall, site = cal, pc, c
					return
				}
			}
		}
	})
	return
}

// structLitFields: when v is the value of a struct literal built in its function (load of a local the literal's
// stores went into), the values stored per field index; absent fields hold the zero value.
func structLitFields(v ssa.Value) (map[int]ssa.Value, bool) {
	if k, isK := v.(*ssa.Const); isK && k.Value == nil {
		if _, isStruct := k.Type().Underlying().(*types.Struct); isStruct {
			return map[int]ssa.Value{}, true
		}
	}
	u, ok := v.(*ssa.UnOp)
	if !ok || u.Op != token.MUL {
		return nil, false
	}
	a, ok := u.X.(*ssa.Alloc)
	if !ok {
		return nil, false
	}
	if _, isStruct := a.Type().(*types.Pointer).Elem().Underlying().(*types.Struct); !isStruct {
		return nil, false
	}
	out := map[int]ssa.Value{}
	if a.Referrers() == nil {
		return out, true
	}
	for _, ref := range *a.Referrers() {
		switch x := ref.(type) {
		case *ssa.FieldAddr:
			if x.Referrers() == nil {
				continue
			}
			for _, fr := range *x.Referrers() {
				st, isSt := fr.(*ssa.Store)
				if !isSt || st.Addr != ssa.Value(x) {
					return nil, false
				}
				if _, dup := out[x.Field]; dup {
					return nil, false
				}
				out[x.Field] = st.Val
			}
		case *ssa.UnOp, *ssa.DebugRef:
		default:
			return nil, false
		}
	}
	return out, true
}

// resultsKnownAt: what the caller knows about the results of `site` when the callee returned through ret — constants
// for the call's value (a single result), for its Extracts (several results) and for Field reads of a struct result
// that the callee built with a literal (fields the literal leaves out are zero).
func resultsKnownAt(site *ssa.Call, ret *ssa.Return) map[ssa.Value]stVal {
	known := map[ssa.Value]stVal{}
	rs := retResults(ret)
	constOf := func(v ssa.Value) stVal {
		if k, ok := v.(*ssa.Const); ok {
			if i, isI := constInt(k); isI {
				return stVal{true, i}
			}
			if k.Value != nil && k.Value.Kind() == constant.Bool {
				return stVal{true, b2i(k.Value.String() == "true")}
			}
		}
		return stVal{}
	}
	zeroOf := func(t types.Type) stVal {
		if b, ok := t.Underlying().(*types.Basic); ok && b.Info()&(types.IsBoolean|types.IsInteger) != 0 {
			return stVal{true, 0}
		}
		return stVal{}
	}
	var bind func(v ssa.Value, res ssa.Value)
	bind = func(v ssa.Value, res ssa.Value) {
		if k := constOf(res); k.known {
			known[v] = k
		}
		flds, isLit := structLitFields(res)
		if v.Referrers() == nil {
			return
		}
		fieldKnown := func(at ssa.Value, idx int, t types.Type) {
			if fv, has := flds[idx]; has {
				if k := constOf(fv); k.known {
					known[at] = k
				}
			} else if k := zeroOf(t); k.known {
				known[at] = k
			}
		}
		for _, ref := range *v.Referrers() {
			if f, isF := ref.(*ssa.Field); isF && isLit {
				fieldKnown(f, f.Field, f.Type())
			}
			// res := call(); … res.f …: the result sits in a local that is written only here
			st, isSt := ref.(*ssa.Store)
			if !isSt || !isLit || st.Val != v {
				continue
			}
			a, isA := st.Addr.(*ssa.Alloc)
			if !isA || a.Referrers() == nil {
				continue
			}
			var fas []*ssa.FieldAddr
			clean := true
			for _, ar := range *a.Referrers() {
				switch x := ar.(type) {
				case *ssa.FieldAddr:
					fas = append(fas, x)
				case *ssa.Store:
					if x != st {
						clean = false
					}
				case *ssa.UnOp, *ssa.DebugRef:
				default:
					clean = false
				}
			}
			for _, fa := range fas {
				if !clean || fa.Referrers() == nil {
					continue
				}
				loadsOnly := true
				for _, fr := range *fa.Referrers() {
					if u, isU := fr.(*ssa.UnOp); !isU || u.Op != token.MUL {
						if _, isD := fr.(*ssa.DebugRef); !isD {
							loadsOnly = false
						}
					}
				}
				if !loadsOnly {
					continue
				}
				for _, fr := range *fa.Referrers() {
					if u, isU := fr.(*ssa.UnOp); isU {
						fieldKnown(u, fa.Field, u.Type())
					}
				}
			}
		}
	}
	if len(rs) == 1 {
		bind(site, rs[0])
	} else if site.Referrers() != nil {
		for _, ref := range *site.Referrers() {
			if ex, isEx := ref.(*ssa.Extract); isEx && ex.Index < len(rs) {
				bind(ex, rs[ex.Index])
			}
		}
	}
	return known
}

// retValuesDeep: the values a Return yields, including the field values of struct results built with a literal.
func retValuesDeep(ret *ssa.Return) []ssa.Value {
	var out []ssa.Value
	for _, v := range retResults(ret) {
		out = append(out, v)
		if flds, ok := structLitFields(v); ok {
			for _, fv := range flds {
				out = append(out, fv)
			}
		}
	}
	return out
}

// returnsOf lists fn's Return instructions.
func returnsOf(fn *ssa.Function) []*ssa.Return {
	var out []*ssa.Return
	allInstrs(fn, func(ins ssa.Instruction) {
		if r, ok := ins.(*ssa.Return); ok {
			out = append(out, r)
		}
	})
	return out
}

// onceGuardHeads: the blocks entered when an atomic once-guard says "somebody else has already been here": the false
// edge of flag.CompareAndSwap(false, true) and the true edge of flag.Swap(true) on an atomic.Bool. A return behind such
// a head belongs to a second call; the first one went on.
func onceGuardHeads(fn *ssa.Function) []*ssa.BasicBlock {
	var out []*ssa.BasicBlock
	isTrue := func(v ssa.Value, want string) bool {
		k, ok := v.(*ssa.Const)
		return ok && k.Value != nil && k.Value.String() == want
	}
	allInstrs(fn, func(ins ssa.Instruction) {
		ifs, ok := ins.(*ssa.If)
		if !ok {
			return
		}
		cond, neg := ifs.Cond, false
		if u, isU := cond.(*ssa.UnOp); isU && u.Op == token.NOT {
			cond, neg = u.X, true
		}
		c, isC := cond.(*ssa.Call)
		if !isC {
			return
		}
		already := -1 // successor index taken when the flag was already set
		switch {
		case isAtomicBoolMethod(&c.Call, "CompareAndSwap") && len(c.Call.Args) == 3 && isTrue(c.Call.Args[1], "false") && isTrue(c.Call.Args[2], "true"):
			already = 1
		case isAtomicBoolMethod(&c.Call, "Swap") && len(c.Call.Args) == 2 && isTrue(c.Call.Args[1], "true"):
			already = 0
		}
		if already < 0 {
			return
		}
		if neg {
			already = 1 - already
		}
		out = append(out, ifs.Block().Succs[already])
	})
	return out
}
