package main

import (
	"fmt"
	"go/constant"
	"go/token"
	"go/types"
	"sort"
	"strings"

	"golang.org/x/tools/go/ssa"
)

func isContextType(t types.Type) bool {
	return typeIs(t, "context", "Context")
}

// doneCtx: if ch is the result of X.Done() on a context.Context, return X.
func doneCtx(ch ssa.Value) ssa.Value {
	c, ok := ch.(*ssa.Call)
	if !ok {
		return nil
	}
	if !c.Call.IsInvoke() || c.Call.Method.Name() != "Done" {
		// (*wire.ClientConn).Closed() returns ctx.Done() — treated separately
		return nil
	}
	if !isContextType(c.Call.Value.Type()) {
		return nil
	}
	return c.Call.Value
}

// ctxRoots computes the context values a context value derives from (through WithCancel,
// WithTimeout, WithDeadline, errgroup.WithContext, helper methods taking a ctx and returning a
// ctx, Phi, Extract, closure free variables, local variable loads). The result includes v itself.
func ctxRoots(v ssa.Value) []ssa.Value {
	seen := map[ssa.Value]bool{}
	var out []ssa.Value
	var walk func(v ssa.Value, d int)
	walk = func(v ssa.Value, d int) {
		if v == nil || seen[v] || d > 30 {
			return
		}
		seen[v] = true
		out = append(out, v)
		switch x := v.(type) {
		case *ssa.Extract:
			walk(x.Tuple, d+1)
		case *ssa.Call:
			for _, a := range x.Call.Args {
				if isContextType(a.Type()) {
					walk(a, d+1)
				}
			}
			if x.Call.IsInvoke() && isContextType(x.Call.Value.Type()) {
				walk(x.Call.Value, d+1)
			}
		case *ssa.Phi:
			for _, e := range x.Edges {
				walk(e, d+1)
			}
		case *ssa.FreeVar:
			if b, ok := theClosures.bind[x]; ok {
				walk(b, d+1)
			}
		case *ssa.UnOp:
			if x.Op == token.MUL {
				// load of a local variable (Alloc) or captured variable: all stored values
				walk(x.X, d+1)
			}
		case *ssa.Alloc:
			if refs := x.Referrers(); refs != nil {
				for _, r := range *refs {
					if st, ok := r.(*ssa.Store); ok && st.Addr == x {
						walk(st.Val, d+1)
					}
				}
			}
		case *ssa.MakeInterface:
			walk(x.X, d+1)
		case *ssa.ChangeInterface:
			walk(x.X, d+1)
		}
	}
	walk(v, 0)
	return out
}

// ctxParamsInScope: context parameters of fn and of its enclosing functions.
func ctxParamsInScope(fn *ssa.Function) []*ssa.Parameter {
	var out []*ssa.Parameter
	for f := fn; f != nil; f = f.Parent() {
		for _, p := range f.Params {
			if isContextType(p.Type()) {
				out = append(out, p)
			}
		}
	}
	return out
}

// ---- S1: API selects watch their context ----

// doneLike: ch is X.Done() of a context, or the result of a module function that returns such a
// channel (e.g. (*wire.ClientConn).Closed). Returns the context value when known.
func doneLike(ch ssa.Value) (ctx ssa.Value, ok bool) {
	if cx := doneCtx(ch); cx != nil {
		return cx, true
	}
	if c, isCall := ch.(*ssa.Call); isCall {
		if cf := c.Call.StaticCallee(); cf != nil && cf.Blocks != nil {
			all, n := true, 0
			allInstrs(cf, func(ins ssa.Instruction) {
				if ret, isRet := ins.(*ssa.Return); isRet {
					n++
					if len(ret.Results) != 1 || doneCtx(ret.Results[0]) == nil {
						all = false
					}
				}
			})
			if all && n > 0 {
				return nil, true
			}
		}
	}
	return nil, false
}

// isGoBody: the anonymous function is the target of a go statement.
func isGoBody(fn *ssa.Function) bool {
	val, uses, ok := funcValueUses(fn)
	if !ok {
		return false
	}
	for _, u := range uses {
		if g, isGo := u.(*ssa.Go); isGo && g.Call.Value == val {
			return true
		}
	}
	return false
}

func ruleS1(r *Run) {
	r.Begin("S1", "in every function that has a context.Context parameter (its own or an enclosing function's), every blocking select has a receive from the Done() of that context or of a context derived from it; a goroutine body started inside such a function must watch some Done()/Closed() channel", 25)
	p := r.P
	total, withParam := 0, 0
	for _, fn := range p.Funcs {
		n := 0
		goBody := fn.Parent() != nil && isGoBody(fn)
		allInstrs(fn, func(ins ssa.Instruction) {
			sel, ok := ins.(*ssa.Select)
			if !ok || !sel.Blocking {
				return
			}
			total++
			n++
			params := ctxParamsInScope(fn)
			name := fnName(fn)
			key := fmt.Sprintf("%s select#%d", name, n)
			var doneCases []string
			okCase := false
			anyDone := false
			for _, st := range sel.States {
				if st.Dir != types.RecvOnly {
					continue
				}
				cx, isDone := doneLike(st.Chan)
				if !isDone {
					continue
				}
				anyDone = true
				if cx == nil {
					doneCases = append(doneCases, "closed-channel accessor")
					continue
				}
				roots := ctxRoots(cx)
				for _, rt := range roots {
					for _, prm := range params {
						if rt == ssa.Value(prm) {
							okCase = true
						}
						if a, isA := rt.(*ssa.Alloc); isA && spilledParam(a) == prm {
							okCase = true
						}
					}
				}
				doneCases = append(doneCases, pathOf(cx).String()+".Done()")
			}
			if len(params) == 0 {
				r.Stat("selects_without_ctx_param", 1)
				if !anyDone {
					r.Stat("selects_without_any_done_case", 1)
				}
				return
			}
			withParam++
			ownCtx := false
			for _, prm := range fn.Params {
				if isContextType(prm.Type()) {
					ownCtx = true
				}
			}
			if goBody && !ownCtx {
				// a goroutine may outlive the call that started it: it must watch some termination channel
				r.Check(key, anyDone, p.pos(sel.Pos()), name, fmt.Sprintf("goroutine body: blocking select with %d cases; Done()/Closed() cases: %v", len(sel.States), doneCases))
				return
			}
			r.Check(key, okCase, p.pos(sel.Pos()), name, fmt.Sprintf("blocking select with %d cases; Done() cases: %v; context parameters in scope: %d", len(sel.States), doneCases, len(params)))
		})
	}
	r.Stat("blocking_selects", total)
	r.Stat("selects_in_ctx_functions", withParam)
}

// ---- W1: cond waits have a context-triggered waker ----

type condUse struct {
	field *types.Var
	owner string
	ins   ssa.Instruction
	fn    *ssa.Function
}

func condFieldOf(recv ssa.Value) (*types.Var, string) {
	pt := pathOf(recv)
	if pt == nil || pt.Last() == nil {
		return nil, ""
	}
	f := pt.Last()
	if !typeIs(f.Type(), "sync", "Cond") {
		return nil, ""
	}
	owner := ""
	if n := len(pt.Fields); n >= 2 {
		if on := namedOf(pt.Fields[n-2].Type()); on != nil {
			owner = on.Obj().Name()
		}
	} else if pt.Root != nil {
		t := pt.Root.Type()
		if on := namedOf(t); on != nil {
			owner = on.Obj().Name()
		} else if on := namedOf(deref(t)); on != nil {
			owner = on.Obj().Name()
		}
	}
	return f, owner
}

// hasDoneReceive: fn (not its closures) receives from some ctx.Done() — blocking receive or select case.
func hasDoneReceive(fn *ssa.Function) bool {
	found := false
	allInstrs(fn, func(ins ssa.Instruction) {
		switch x := ins.(type) {
		case *ssa.UnOp:
			if x.Op == token.ARROW && doneCtx(x.X) != nil {
				found = true
			}
		case *ssa.Select:
			for _, st := range x.States {
				if st.Dir == types.RecvOnly && doneCtx(st.Chan) != nil {
					found = true
				}
			}
		}
	})
	return found
}

// isAfterFuncArg: the closure fn is passed to context.AfterFunc.
func isAfterFuncArg(fn *ssa.Function) bool {
	// a method handed over as a method value: context.AfterFunc(ctx, x.wake)
	if theClosures != nil {
		for _, mc := range theClosures.methodValues[fn] {
			if mc.Referrers() == nil {
				continue
			}
			for _, ref := range *mc.Referrers() {
				if call, ok := ref.(*ssa.Call); ok {
					if o := calleeObj(&call.Call); o != nil && isFuncNamed(o, "context", "", "AfterFunc") {
						return true
					}
				}
			}
		}
	}
	_, uses, ok := funcValueUses(fn)
	if !ok {
		return false
	}
	for _, ref := range uses {
		if call, ok := ref.(*ssa.Call); ok {
			if o := calleeObj(&call.Call); o != nil && isFuncNamed(o, "context", "", "AfterFunc") {
				return true
			}
		}
	}
	return false
}

// ctxBlockingFuncs: functions with a context parameter that contain a Cond.Wait loop or a blocking
// Done() receive: calling one of them blocks until the context ends (or the awaited state comes).
func ctxBlockingFuncs(p *Prog) map[*ssa.Function]bool {
	out := map[*ssa.Function]bool{}
	for _, fn := range p.Funcs {
		if fn.Parent() != nil {
			continue
		}
		hasCtx := false
		for _, prm := range fn.Params {
			if isContextType(prm.Type()) {
				hasCtx = true
			}
		}
		if !hasCtx {
			continue
		}
		waits := false
		allInstrs(fn, func(ins ssa.Instruction) {
			if c, ok := ins.(*ssa.Call); ok {
				if op, _ := classifyLockCall(&c.Call); op == opWait {
					waits = true
				}
			}
		})
		if waits && hasDoneReceive(fn) {
			out[fn] = true
		}
	}
	// one level of wrappers (WaitUntil -> waitUntil)
	for i := 0; i < 2; i++ {
		for _, fn := range p.Funcs {
			if out[fn] || fn.Parent() != nil {
				continue
			}
			hasCtx := false
			for _, prm := range fn.Params {
				if isContextType(prm.Type()) {
					hasCtx = true
				}
			}
			if !hasCtx {
				continue
			}
			allInstrs(fn, func(ins ssa.Instruction) {
				if c, ok := ins.(*ssa.Call); ok {
					if cf := c.Call.StaticCallee(); cf != nil && out[cf] {
						// passes a ctx along
						for _, a := range c.Call.Args {
							if isContextType(a.Type()) {
								out[fn] = true
							}
						}
					}
				}
			})
		}
	}
	return out
}

func ruleW1(r *Run) {
	r.Begin("W1", "every sync.Cond that is waited on in a loop polling a context has, somewhere in the module, a context-triggered Broadcast/Signal on the same cond field (a function or closure that receives from a Done() channel, is registered with context.AfterFunc, or runs after a context-bounded blocking call)", 4)
	p := r.P
	var waits, wakes []condUse
	for _, fn := range p.Funcs {
		allInstrs(fn, func(ins ssa.Instruction) {
			cc := instrCall(ins)
			if cc == nil {
				return
			}
			o := calleeObj(cc)
			if o == nil || o.Pkg() == nil || o.Pkg().Path() != "sync" || recvNamed(o) != "Cond" {
				return
			}
			args := callArgs(cc)
			if len(args) == 0 {
				return
			}
			f, owner := condFieldOf(args[0])
			if f == nil {
				return
			}
			switch o.Name() {
			case "Wait":
				waits = append(waits, condUse{f, owner, ins, fn})
			case "Broadcast", "Signal":
				wakes = append(wakes, condUse{f, owner, ins, fn})
			}
		})
	}
	// cond.Broadcast as a method value handed to a helper that merely calls it (u.withLock(u.cond.Broadcast)): a wake
	// site where the helper is called
	for _, fn := range p.Funcs {
		allInstrs(fn, func(ins ssa.Instruction) {
			mc, ok := ins.(*ssa.MakeClosure)
			if !ok || len(mc.Bindings) != 1 || mc.Referrers() == nil {
				return
			}
			bf, isF := mc.Fn.(*ssa.Function)
			if !isF || !strings.HasSuffix(bf.Name(), "$bound") || bf.Object() == nil || bf.Object().Pkg() == nil || bf.Object().Pkg().Path() != "sync" {
				return
			}
			if nm := bf.Object().Name(); nm != "Broadcast" && nm != "Signal" {
				return
			}
			f, owner := condFieldOf(mc.Bindings[0])
			if f == nil {
				return
			}
			for _, ref := range *mc.Referrers() {
				cc := instrCall(ref)
				if cc == nil {
					continue
				}
				h := cc.StaticCallee()
				if h == nil || !p.Analysed(h) {
					continue
				}
				for j, a := range cc.Args {
					if a == ssa.Value(mc) {
						if _, pure := paramInvocations(h, j); pure {
							wakes = append(wakes, condUse{f, owner, ref, fn})
						}
					}
				}
			}
		})
	}
	// calls of small helpers that broadcast count as wake sites of the caller
	helpers := wakeHelpers(p)
	for _, fn := range p.Funcs {
		allInstrs(fn, func(ins ssa.Instruction) {
			cc := instrCall(ins)
			if cc == nil {
				return
			}
			if cf := cc.StaticCallee(); cf != nil {
				if h, ok := helpers[cf]; ok && cf != fn {
					wakes = append(wakes, condUse{h.field, h.owner, ins, fn})
				}
			}
		})
	}
	blocking := ctxBlockingFuncs(p)
	type agg struct {
		owner     string
		field     *types.Var
		waitSites []string
		pollsCtx  bool
		wakers    []string
		all       int
	}
	byField := map[*types.Var]*agg{}
	var order []*types.Var
	for _, w := range waits {
		a := byField[w.field]
		if a == nil {
			a = &agg{owner: w.owner, field: w.field}
			byField[w.field] = a
			order = append(order, w.field)
		}
		a.waitSites = append(a.waitSites, fnName(w.fn)+" "+p.pos(w.ins.Pos()))
		// does the waiting function poll a Done() channel (non-blocking select)?
		allInstrs(w.fn, func(ins ssa.Instruction) {
			if sel, ok := ins.(*ssa.Select); ok && !sel.Blocking {
				for _, st := range sel.States {
					if st.Dir == types.RecvOnly && doneCtx(st.Chan) != nil {
						a.pollsCtx = true
					}
				}
			}
		})
	}
	for _, k := range wakes {
		a := byField[k.field]
		if a == nil {
			continue
		}
		a.all++
		fn := k.fn
		trig := ""
		switch {
		case isAfterFuncArg(fn):
			trig = "closure registered with context.AfterFunc"
		case hasDoneReceive(fn):
			trig = "function receives from a Done() channel"
		default:
			// runs after (or deferred around) a context-bounded blocking call in the same function
			allInstrs(fn, func(ins ssa.Instruction) {
				if c, ok := ins.(*ssa.Call); ok {
					if cf := c.Call.StaticCallee(); cf != nil && blocking[cf] {
						trig = "function calls the context-bounded blocking " + fnName(cf)
					}
				}
			})
		}
		if trig != "" {
			a.wakers = append(a.wakers, fnName(fn)+" "+p.pos(k.ins.Pos())+" ("+trig+")")
		}
	}
	sort.Slice(order, func(i, j int) bool {
		return byField[order[i]].owner+order[i].Name() < byField[order[j]].owner+order[j].Name()
	})
	for _, f := range order {
		a := byField[f]
		key := a.owner + "." + f.Name()
		if !a.pollsCtx {
			r.Check(key, true, "", "", fmt.Sprintf("waited on at %v; the wait loops poll no context", a.waitSites))
			continue
		}
		ok := len(a.wakers) > 0
		detail := fmt.Sprintf("cond %s: %d wait site(s) polling a context, %d Broadcast/Signal site(s), %d of them context-triggered", key, len(a.waitSites), a.all, len(a.wakers))
		if !ok {
			detail += "; a waiter whose context ends is never woken: the wait ignores its context and timeout"
		}
		tr := []string{}
		for _, w := range a.waitSites {
			tr = append(tr, "wait: "+w)
		}
		for _, w := range a.wakers {
			tr = append(tr, "ctx-triggered waker: "+w)
		}
		pos := ""
		if len(a.waitSites) > 0 {
			pos = a.waitSites[0]
		}
		r.Check(key, ok, pos, "", detail, tr...)
	}
	r.Stat("wait_sites", len(waits))
	r.Stat("wake_sites", len(wakes))
}

// ---- E1: enum-constant flow into a compared parameter ----

type csite struct {
	fn   *ssa.Function
	site ssa.Instruction
}

// enumValues computes the set of constants that can reach v. top=true means "anything".
// fixed pins, for functions on the entry path, the call site through which they were entered.
func (p *Prog) enumValues(v ssa.Value, fixed map[*ssa.Function]ssa.Instruction, depth int) (set map[string]bool, top bool) {
	set = map[string]bool{}
	if depth > 6 {
		return set, true
	}
	switch x := v.(type) {
	case *ssa.Const:
		if x.Value == nil {
			return set, true
		}
		set[x.Value.ExactString()] = true
		return set, false
	case *ssa.Phi:
		for _, e := range x.Edges {
			s, t := p.enumValues(e, fixed, depth+1)
			if t {
				return set, true
			}
			for k := range s {
				set[k] = true
			}
		}
		return set, false
	case *ssa.ChangeType:
		return p.enumValues(x.X, fixed, depth+1)
	case *ssa.Convert:
		return p.enumValues(x.X, fixed, depth+1)
	case *ssa.Parameter:
		fn := x.Parent()
		idx := -1
		for i, prm := range fn.Params {
			if prm == x {
				idx = i
			}
		}
		if idx < 0 {
			return set, true
		}
		// call sites
		var sites []ssa.Instruction
		if s, ok := fixed[fn]; ok {
			sites = []ssa.Instruction{s}
		} else {
			if obj, _ := fn.Object().(*types.Func); obj != nil && obj.Exported() {
				if rn := namedOf(recvTypeOf(obj)); rn == nil || rn.Obj().Exported() {
					return set, true // callable from outside the module
				}
			}
			if fn.Parent() != nil {
				// a closure: follow the function value to where it is invoked
				return p.closureParamValues(fn, idx, fixed, depth)
			}
			sites = p.staticCallSites(fn)
			if len(sites) == 0 {
				return set, true
			}
			if why, isRoot := computeRootsCached(p).roots[fn]; isRoot && strings.HasPrefix(why, "function value escapes") {
				return set, true
			}
		}
		for _, s := range sites {
			cc := instrCall(s)
			args := cc.Args
			if idx >= len(args) {
				return set, true
			}
			// pin the caller chain: when resolving the argument we are inside the caller
			vs, t := p.enumValues(args[idx], fixed, depth+1)
			if t {
				return set, true
			}
			for k := range vs {
				set[k] = true
			}
		}
		return set, false
	}
	return set, true
}

func recvTypeOf(o *types.Func) types.Type {
	sig := o.Type().(*types.Signature)
	if sig.Recv() == nil {
		return nil
	}
	return sig.Recv().Type()
}

var rootsCache *rootInfo
var rootsCacheProg *Prog

func computeRootsCached(p *Prog) *rootInfo {
	if rootsCacheProg != p {
		rootsCache = computeRoots(p)
		rootsCacheProg = p
	}
	return rootsCache
}

// closureParamValues: closure cl is created by one MakeClosure and passed as an argument to a
// module function H; inside H the corresponding parameter is called. The values of cl's idx-th
// parameter are the idx-th arguments of those calls, resolved inside H with H pinned to the call
// site that passed the closure.
func (p *Prog) closureParamValues(cl *ssa.Function, idx int, fixed map[*ssa.Function]ssa.Instruction, depth int) (map[string]bool, bool) {
	set := map[string]bool{}
	mc, uses, okv := funcValueUses(cl)
	if !okv {
		return set, true
	}
	for _, ref := range uses {
		call, ok := ref.(ssa.CallInstruction)
		if !ok {
			return set, true
		}
		cc := call.Common()
		if cc.Value == mc {
			// immediate call
			if idx >= len(cc.Args) {
				return set, true
			}
			s, t := p.enumValues(cc.Args[idx], fixed, depth+1)
			if t {
				return set, true
			}
			for k := range s {
				set[k] = true
			}
			continue
		}
		h := cc.StaticCallee()
		if h == nil || !p.Analysed(h) {
			return set, true
		}
		// which parameter of h receives the closure?
		for ai, a := range cc.Args {
			if a != mc {
				continue
			}
			if ai >= len(h.Params) {
				return set, true
			}
			hp := h.Params[ai]
			nf := map[*ssa.Function]ssa.Instruction{}
			for k, v := range fixed {
				nf[k] = v
			}
			nf[h] = call.(ssa.Instruction)
			// calls of hp inside h
			found := false
			escaped := false
			if hp.Referrers() != nil {
				for _, hr := range *hp.Referrers() {
					switch u := hr.(type) {
					case ssa.CallInstruction:
						if u.Common().Value == ssa.Value(hp) {
							found = true
							if idx >= len(u.Common().Args) {
								return set, true
							}
							s, t := p.enumValues(u.Common().Args[idx], nf, depth+1)
							if t {
								return set, true
							}
							for k := range s {
								set[k] = true
							}
						} else {
							// passed further down: follow one more level when the callee is static
							h2 := u.Common().StaticCallee()
							if h2 == nil || !p.Analysed(h2) {
								escaped = true
								continue
							}
							for a2i, a2 := range u.Common().Args {
								if a2 != ssa.Value(hp) || a2i >= len(h2.Params) {
									continue
								}
								h2p := h2.Params[a2i]
								nf2 := map[*ssa.Function]ssa.Instruction{}
								for k, v := range nf {
									nf2[k] = v
								}
								nf2[h2] = u.(ssa.Instruction)
								if h2p.Referrers() != nil {
									for _, r2 := range *h2p.Referrers() {
										switch u2 := r2.(type) {
										case ssa.CallInstruction:
											if u2.Common().Value == ssa.Value(h2p) {
												found = true
												if idx >= len(u2.Common().Args) {
													return set, true
												}
												s, t := p.enumValues(u2.Common().Args[idx], nf2, depth+1)
												if t {
													return set, true
												}
												for k := range s {
													set[k] = true
												}
											} else {
												escaped = true
											}
										case *ssa.BinOp, *ssa.If, *ssa.DebugRef:
										default:
											escaped = true
										}
									}
								}
							}
						}
					case *ssa.BinOp, *ssa.DebugRef: // nil comparison
					default:
						escaped = true
					}
				}
			}
			if escaped || !found {
				return set, true
			}
		}
	}
	return set, false
}

// sentinelReturned: does the block (and the blocks it alone leads to, up to 3) return a value
// loaded from an exported error variable of the module's errors package?
func returnsSentinel(b *ssa.BasicBlock) (string, bool) {
	for d := 0; d < 3 && b != nil; d++ {
		for _, ins := range b.Instrs {
			if ret, ok := ins.(*ssa.Return); ok {
				for _, res := range retResults(ret) {
					if name := sentinelName(res); name != "" {
						return name, true
					}
				}
				return "", false
			}
		}
		if len(b.Succs) == 1 {
			b = b.Succs[0]
		} else {
			return "", false
		}
	}
	return "", false
}

func sentinelName(v ssa.Value) string {
	if u, ok := v.(*ssa.UnOp); ok && u.Op == token.MUL {
		if g, ok := u.X.(*ssa.Global); ok && g.Pkg != nil && g.Pkg.Pkg.Path() == modPath+"/errors" {
			return g.Name()
		}
	}
	if mi, ok := v.(*ssa.MakeInterface); ok {
		return sentinelName(mi.X)
	}
	return ""
}

func ruleE1(r *Run) {
	r.Begin("E1", "a branch that compares an enum-typed parameter with a constant and returns a sentinel error must be feasible: the constant is among the values that can reach the parameter from the call sites (call-site sensitive through function-valued arguments)", 0)
	p := r.P
	n := 0
	for _, fn := range p.Funcs {
		allInstrs(fn, func(ins ssa.Instruction) {
			bo, ok := ins.(*ssa.BinOp)
			if !ok || (bo.Op != token.EQL && bo.Op != token.NEQ) {
				return
			}
			var prm *ssa.Parameter
			var k *ssa.Const
			if a, ok := bo.X.(*ssa.Parameter); ok {
				if c, ok := bo.Y.(*ssa.Const); ok {
					prm, k = a, c
				}
			} else if a, ok := bo.Y.(*ssa.Parameter); ok {
				if c, ok := bo.X.(*ssa.Const); ok {
					prm, k = a, c
				}
			}
			if prm == nil || k == nil || k.Value == nil || k.Value.Kind() != constant.Int {
				return
			}
			nt := namedOf(prm.Type())
			if nt == nil || nt.Obj().Pkg() == nil || !r.P.analysed[nt.Obj().Pkg().Path()] {
				return
			}
			if _, isBasic := nt.Underlying().(*types.Basic); !isBasic {
				return
			}
			// the branch taken when equal
			var ifs *ssa.If
			if bo.Referrers() != nil {
				for _, ref := range *bo.Referrers() {
					if i, ok := ref.(*ssa.If); ok {
						ifs = i
					}
				}
			}
			if ifs == nil {
				return
			}
			eqSucc := ifs.Block().Succs[0]
			if bo.Op == token.NEQ {
				eqSucc = ifs.Block().Succs[1]
			}
			sent, isSent := returnsSentinel(eqSucc)
			if !isSent {
				r.Stat("enum_param_comparisons_without_sentinel", 1)
				return
			}
			n++
			set, top := p.enumValues(prm, map[*ssa.Function]ssa.Instruction{}, 0)
			name := fnName(fn)
			key := fmt.Sprintf("%s %s==%s -> %s", name, prm.Name(), constName(nt, k), sent)
			if top {
				r.Check(key, true, p.pos(bo.Pos()), name, "the compared parameter can receive any value (some caller passes a non-constant)")
				return
			}
			var vals []string
			for v := range set {
				vals = append(vals, constNameStr(nt, v))
			}
			sort.Strings(vals)
			ok2 := set[k.Value.ExactString()]
			r.Check(key, ok2, p.pos(bo.Pos()), name,
				fmt.Sprintf("values reaching %s from all call sites: %v; the branch returning errors.%s needs %s", prm.Name(), vals, sent, constName(nt, k)))
		})
	}
	r.Stat("sentinel_guarded_comparisons", n)
}

func constName(nt *types.Named, k *ssa.Const) string {
	return constNameStr(nt, k.Value.ExactString())
}

func constNameStr(nt *types.Named, val string) string {
	sc := nt.Obj().Pkg().Scope()
	for _, nm := range sc.Names() {
		if c, ok := sc.Lookup(nm).(*types.Const); ok && types.Identical(c.Type(), nt) && c.Val().ExactString() == val {
			return nm
		}
	}
	return val
}

// canonVal resolves closure free variables and loads of single-store locals.
func canonVal(v ssa.Value) ssa.Value {
	for i := 0; i < 20; i++ {
		switch x := v.(type) {
		case *ssa.FreeVar:
			if b, ok := theClosures.bind[x]; ok {
				v = b
				continue
			}
		case *ssa.UnOp:
			if x.Op == token.MUL {
				if a, ok := canonVal(x.X).(*ssa.Alloc); ok {
					if prm := spilledParam(a); prm != nil {
						return prm
					}
					if sv := singleStoredValue(a); sv != nil {
						v = sv
						continue
					}
					return a // a variable assigned more than once: the variable itself is the identity
				}
			}
		case *ssa.MakeInterface:
			v = x.X
			continue
		case *ssa.ChangeInterface:
			v = x.X
			continue
		}
		return v
	}
	return v
}

// ruleW2: when the waiting function registers its own wakers, every context it polls must have one.
func ruleW2(r *Run) {
	r.Begin("W2", "a function that waits on a sync.Cond while polling contexts and registers its own context-triggered wakers (context.AfterFunc, or a goroutine receiving from Done()) must register one for every context it polls: the waker's context is the polled context or derives from it", 2)
	p := r.P
	for _, fn := range p.Funcs {
		if fn.Parent() != nil {
			continue
		}
		// cond waits in fn (top level only)
		var condField *types.Var
		var waitPos token.Pos
		allInstrs(fn, func(ins ssa.Instruction) {
			if c, ok := ins.(*ssa.Call); ok {
				if op, recv := classifyLockCall(&c.Call); op == opWait {
					if f, _ := condFieldOf(recv); f != nil {
						condField = f
						waitPos = c.Pos()
					}
				}
			}
		})
		if condField == nil {
			continue
		}
		var polled []ssa.Value
		allInstrs(fn, func(ins ssa.Instruction) {
			if sel, ok := ins.(*ssa.Select); ok && !sel.Blocking {
				for _, st := range sel.States {
					if st.Dir == types.RecvOnly {
						if cx := doneCtx(st.Chan); cx != nil {
							polled = append(polled, cx)
						}
					}
				}
			}
		})
		if len(polled) == 0 {
			continue
		}
		// local wakers
		var wakerCtx []ssa.Value
		for _, cl := range fn.AnonFuncs {
			wakes := false
			allInstrs(cl, func(ins ssa.Instruction) {
				cc := instrCall(ins)
				if cc == nil {
					return
				}
				o := calleeObj(cc)
				if o != nil && o.Pkg() != nil && o.Pkg().Path() == "sync" && recvNamed(o) == "Cond" && (o.Name() == "Broadcast" || o.Name() == "Signal") {
					if f, _ := condFieldOf(callArgs(cc)[0]); f == condField {
						wakes = true
					}
				}
			})
			if !wakes {
				continue
			}
			val, uses, ok := funcValueUses(cl)
			if ok {
				for _, u := range uses {
					if call, isCall := u.(*ssa.Call); isCall {
						if o := calleeObj(&call.Call); o != nil && isFuncNamed(o, "context", "", "AfterFunc") && len(call.Call.Args) == 2 && call.Call.Args[1] == val {
							wakerCtx = append(wakerCtx, call.Call.Args[0])
						}
					}
				}
			}
			allInstrs(cl, func(ins ssa.Instruction) {
				if u, ok := ins.(*ssa.UnOp); ok && u.Op == token.ARROW {
					if cx := doneCtx(u.X); cx != nil {
						wakerCtx = append(wakerCtx, cx)
					}
				}
			})
		}
		if len(wakerCtx) == 0 {
			r.Stat("waiters_relying_on_external_wakers", 1)
			continue
		}
		name := fnName(fn)
		for i, pc := range polled {
			target := canonVal(pc)
			ok := false
			for _, wc := range wakerCtx {
				for _, rt := range ctxRoots(canonVal(wc)) {
					if canonVal(rt) == target {
						ok = true
					}
				}
				for _, rt := range ctxRoots(wc) {
					if canonVal(rt) == target {
						ok = true
					}
				}
			}
			r.Check(fmt.Sprintf("%s polled-context#%d %s", name, i+1, pathOf(pc)), ok, p.pos(waitPos), name,
				fmt.Sprintf("the wait loop polls %s.Done(); %d local waker(s) registered; none is triggered by this context when ok=false", pathOf(pc), len(wakerCtx)))
		}
	}
}

// ruleAlwaysCancels: a closing method that cancels its object's context does so on every path.
func ruleAlwaysCancels(r *Run, id string) {
	r.Begin(id, "closing always cancels: every method named Close/CloseWithStatus/close* of a type that owns a context.CancelFunc field and calls it, calls (or defers) it on every path to every return — an early return on a close error otherwise leaves the object's context alive: pending requests are not released and the reconnect trigger never fires", 5)
	p := r.P
	n := 0
	for _, fn := range p.Funcs {
		if fn.Parent() != nil || fn.Signature.Recv() == nil {
			continue
		}
		ln := strings.ToLower(fn.Name())
		if !strings.HasPrefix(ln, "close") {
			continue
		}
		rn := namedOf(fn.Signature.Recv().Type())
		if rn == nil {
			continue
		}
		var isCancelCall func(ins ssa.Instruction) bool
		isCancelCall = func(ins ssa.Instruction) bool {
			cc := instrCall(ins)
			if cc == nil {
				return false
			}
			// defer func() { …; x.cancel(); … }(): the cancel runs at every return after the defer was registered
			if d, isDefer := ins.(*ssa.Defer); isDefer {
				if cl := closureOf(d.Call.Value); cl != nil {
					inner := false
					allInstrs(cl, func(x ssa.Instruction) {
						if _, nested := x.(*ssa.Defer); !nested && isCancelCall(x) {
							inner = true
						}
					})
					if inner {
						return true
					}
				}
			}
			if cc.StaticCallee() != nil || cc.IsInvoke() {
				return false
			}
			if !typeIs(cc.Value.Type(), "context", "CancelFunc") {
				return false
			}
			for _, l := range p.Leaves(cc.Value, provOpts{}) {
				if strings.HasPrefix(l, "field:") && strings.Contains(l, "."+rn.Obj().Name()+".") {
					return true
				}
			}
			return false
		}
		has := false
		allInstrs(fn, func(ins ssa.Instruction) {
			if isCancelCall(ins) {
				has = true
			}
		})
		if !has {
			continue
		}
		n++
		name := fnName(fn)
		doneHeads := append(doneBranchHeads(fn), onceGuardHeads(fn)...)
		w := reachesFromEntryWithout(fn, func(ins ssa.Instruction) bool {
			if !isReturn(ins) || ins.Block() == fn.Recover {
				return false
			}
			for _, h := range doneHeads {
				if h == ins.Block() || h.Dominates(ins.Block()) {
					return false // the context is already cancelled on this branch, or an earlier call of Close got past an atomic once-guard
				}
			}
			return true
		}, isCancelCall)
		r.Check(name+" always cancels", w == nil, posOf(p, w), name, "a return is reachable without the cancel call")
	}
	if n == 0 {
		r.Undecided("closing methods", "none found")
	}
}

// ruleCtxParamUsed: blocking wire requests made by a function that has a context parameter are bounded by it.
func ruleCtxParamUsed(r *Run, id string) {
	r.Begin(id, "requests are bounded by the caller's context: in packages iscp and wire, a function that has a context.Context parameter passes a context derived from that parameter to every blocking wire-level request (Send…Request, SendUpstreamMetadata, sendRequest) it makes; passing the stream's or connection's own long-lived context instead makes the call ignore its caller's deadline", 4)
	p := r.P
	n := 0
	for _, fn := range p.Funcs {
		if fnPkgPath(fn) != modPath+"/iscp" && fnPkgPath(fn) != modPath+"/wire" {
			continue
		}
		var own []*ssa.Parameter
		for _, prm := range fn.Params {
			if isContextType(prm.Type()) {
				own = append(own, prm)
			}
		}
		if len(own) == 0 {
			continue
		}
		name := fnName(fn)
		allInstrs(fn, func(ins ssa.Instruction) {
			nm := callName(ins)
			if !(strings.HasPrefix(nm, "/wire.ClientConn.Send") && (strings.HasSuffix(nm, "Request") || strings.HasSuffix(nm, "Metadata"))) && nm != "/wire.ClientConn.sendRequest" {
				return
			}
			n++
			arg := instrCall(ins).Args[1]
			ok := false
			for _, rt := range ctxRoots(arg) {
				for _, prm := range own {
					if canonVal(rt) == ssa.Value(prm) {
						ok = true
					}
				}
			}
			r.Check(name+" "+nm[strings.LastIndexByte(nm, '.')+1:]+" ctx", ok, posOf(p, ins), name, "context argument: "+pathOf(arg).String()+"; the function's own context parameter must bound the request")
		})
	}
	if n == 0 {
		r.Undecided("requests in ctx functions", "none found")
	}
}

// ruleDrainBounds: the upstream drain is bounded by the stream's context, the caller's context and the close timeout.
func ruleDrainBounds(r *Run, id string) {
	r.Begin(id, "the drain wait is bounded three ways: the cond-wait loop of Upstream.Close's drain polls a context derived from the stream's own context (so that closing the connection ends it), the caller's context, and a timeout built from Upstream.closeTimeout", 3)
	p := r.P
	fn := r.method("/iscp", "Upstream", "waitToSendAllDataPointsAndReceiveAllAck")
	if fn == nil {
		return
	}
	name := fnName(fn)
	stream, caller, timeout := false, false, false
	// roots of a polled context; a root that is a parameter of a helper the wait loop was moved to is resolved further
	// at the helper's call sites
	var rootsDeep func(v ssa.Value, depth int) []ssa.Value
	rootsDeep = func(v ssa.Value, depth int) []ssa.Value {
		var out []ssa.Value
		for _, rt := range ctxRoots(v) {
			prm, isP := canonVal(rt).(*ssa.Parameter)
			if !isP || prm.Parent() == fn || depth >= 2 {
				out = append(out, rt)
				continue
			}
			h := prm.Parent()
			idx := -1
			for i, q := range h.Params {
				if q == prm {
					idx = i
				}
			}
			sites := p.staticCallSites(h)
			if idx < 0 || len(sites) == 0 {
				out = append(out, rt)
				continue
			}
			for _, s := range sites {
				if cc := instrCall(s); cc != nil && idx < len(cc.Args) {
					out = append(out, rootsDeep(cc.Args[idx], depth+1)...)
				}
			}
		}
		return out
	}
	p.withHelpers(fn, 1, func(g *ssa.Function) {
		allInstrs(g, func(ins ssa.Instruction) {
			sel, ok := ins.(*ssa.Select)
			if !ok || sel.Blocking {
				return
			}
			for _, st := range sel.States {
				if st.Dir != types.RecvOnly {
					continue
				}
				cx := doneCtx(st.Chan)
				if cx == nil {
					continue
				}
				for _, rt := range rootsDeep(cx, 0) {
					l := p.Leaves(rt, provOpts{StopAtCalls: true})
					if hasLeaf(l, "field:/iscp.Upstream.ctx") {
						stream = true
					}
					if prm, isP := canonVal(rt).(*ssa.Parameter); isP && isContextType(prm.Type()) {
						caller = true
					}
					if c, isC := rt.(*ssa.Call); isC && isCallNamed(c, "context.WithTimeout") {
						if hasLeaf(p.Leaves(c.Call.Args[1], provOpts{}), "field:/iscp.Upstream.closeTimeout") {
							timeout = true
						}
					}
				}
			}
		})
	})
	r.Check(name+" bounded by the stream context", stream, p.pos(fn.Pos()), name, "a polled context must derive from Upstream.ctx")
	r.Check(name+" bounded by the caller context", caller, p.pos(fn.Pos()), name, "a polled context must derive from the ctx parameter")
	r.Check(name+" bounded by the close timeout", timeout, p.pos(fn.Pos()), name, "a polled context must come from context.WithTimeout(…, Upstream.closeTimeout)")
}

// selectStateBlock returns the block control reaches when state i of sel fires.
func selectStateBlock(sel *ssa.Select, i int) *ssa.BasicBlock {
	if sel.Referrers() == nil {
		return nil
	}
	for _, ref := range *sel.Referrers() {
		ex, ok := ref.(*ssa.Extract)
		if !ok || ex.Index != 0 || ex.Referrers() == nil {
			continue
		}
		for _, r2 := range *ex.Referrers() {
			bo, ok := r2.(*ssa.BinOp)
			if !ok || bo.Op != token.EQL || bo.Referrers() == nil {
				continue
			}
			k, isK := constInt(bo.Y)
			if !isK || int(k) != i {
				continue
			}
			for _, r3 := range *bo.Referrers() {
				if ifs, isIf := r3.(*ssa.If); isIf {
					return ifs.Block().Succs[0]
				}
			}
		}
	}
	return nil
}

func blockReaches(from, to *ssa.BasicBlock) bool {
	seen := map[*ssa.BasicBlock]bool{}
	stack := []*ssa.BasicBlock{from}
	for len(stack) > 0 {
		x := stack[len(stack)-1]
		stack = stack[:len(stack)-1]
		if x == to {
			return true
		}
		if seen[x] {
			continue
		}
		seen[x] = true
		stack = append(stack, x.Succs...)
	}
	return false
}

// loopBlocks: the strongly connected component of b (blocks on some cycle through b).
func loopBlocks(b *ssa.BasicBlock) map[*ssa.BasicBlock]bool {
	out := map[*ssa.BasicBlock]bool{}
	for _, x := range b.Parent().Blocks {
		if x == b {
			continue
		}
		if blockReaches(b, x) && blockReaches(x, b) {
			out[x] = true
		}
	}
	for _, s := range b.Succs {
		if blockReaches(s, b) {
			out[b] = true
		}
	}
	return out
}

// ruleLoopDrivers: a receive inside a loop from a one-shot time.Timer whose branch continues the loop must be
// re-armed (Timer.Reset in the loop, or the timer is created inside the loop); otherwise the branch runs at most
// once and the periodic work it guards silently stops. Tickers and per-iteration time.After are periodic by construction.
func ruleLoopDrivers(r *Run, id, desc string, pick func(fn *ssa.Function) bool, min int) {
	r.Begin(id, desc, min)
	p := r.P
	type rcv struct {
		at     ssa.Instruction
		ch     ssa.Value
		branch *ssa.BasicBlock
	}
	n := map[string]int{}
	for _, fn := range p.Funcs {
		if !pick(fn) || fn.Blocks == nil {
			continue
		}
		var rs []rcv
		allInstrs(fn, func(ins ssa.Instruction) {
			switch x := ins.(type) {
			case *ssa.Select:
				for i, st := range x.States {
					if st.Dir == types.RecvOnly {
						rs = append(rs, rcv{ins, st.Chan, selectStateBlock(x, i)})
					}
				}
			case *ssa.UnOp:
				if x.Op == token.ARROW {
					rs = append(rs, rcv{ins, x.X, x.Block()})
				}
			}
		})
		k := 0
		for _, rc := range rs {
			// in a loop of this function, or in a helper whose every call site sits in a loop (the select of a loop
			// moved into a method of its own)
			var outerLoopSite ssa.Instruction
			if !inLoop(rc.at) {
				sites := p.staticCallSites(fn)
				all := len(sites) > 0
				for _, s := range sites {
					if !inLoop(s) {
						all = false
					}
				}
				if !all {
					continue
				}
				outerLoopSite = sites[0]
			}
			l := p.Leaves(rc.ch, provOpts{ParamDepth: 2})
			kind := ""
			switch {
			case hasLeaf(l, "field:time.Timer.C"):
				kind = "timer"
			case hasLeaf(l, "field:time.Ticker.C"), hasLeaf(l, "call:time.Tick"):
				kind = "ticker"
			case hasLeaf(l, "call:time.After"):
				kind = "after"
			default:
				continue
			}
			k++
			n[kind]++
			name := fnName(fn)
			key := fmt.Sprintf("%s timed receive#%d (%s)", name, k, kind)
			loop := loopBlocks(rc.at.Block())
			if outerLoopSite != nil {
				loop = loopBlocks(outerLoopSite.Block())
			}
			switch kind {
			case "ticker":
				r.Check(key, true, posOf(p, rc.at), name, "a Ticker fires repeatedly")
			case "after":
				// time.After must be evaluated inside the loop to be periodic; evaluated once outside, it is a deadline
				r.Check(key, true, posOf(p, rc.at), name, "time.After channel")
			case "timer":
				back := rc.branch != nil && blockReaches(rc.branch, rc.at.Block())
				if outerLoopSite != nil {
					back = true // the helper returns into the caller's loop
				}
				rearmed := false
				for b := range loop {
					for _, ins := range b.Instrs {
						if isCallNamed(ins, "time.Timer.Reset", "time.NewTimer", "time.AfterFunc") {
							rearmed = true
						}
					}
				}
				if outerLoopSite != nil && !rearmed {
					// the helper creates its own timer on every call (a cancellable sleep): re-created per iteration
					allInstrs(fn, func(ins ssa.Instruction) {
						if isCallNamed(ins, "time.NewTimer", "time.AfterFunc") {
							rearmed = true
						}
					})
				}
				r.Check(key, !back || rearmed, posOf(p, rc.at), name, fmt.Sprintf("receive from a one-shot time.Timer inside a loop: the branch continues the loop: %v; the timer is re-armed or re-created inside the loop: %v. A one-shot timer fires once; after that the branch is dead and whatever it does periodically never runs again", back, rearmed))
			}
		}
	}
	r.Stat("ticker_receives", n["ticker"])
	r.Stat("after_receives", n["after"])
	r.Stat("timer_receives", n["timer"])
}

// ruleFreshPerSend: a pointer handed over a channel from inside a loop must point to an object allocated in that
// iteration. An object allocated before the loop and refilled in every iteration is shared by all queued entries:
// the receiver sees the newest content several times and loses the older ones.
func ruleFreshPerSend(r *Run, id string, pkgs ...string) {
	r.Begin(id, "fresh object per hand-over: inside a loop, a pointer sent on a channel (directly or through a helper that takes the channel) points to an object allocated inside the loop, or to one that is not written inside the loop", 1)
	p := r.P
	n := 0
	for _, fn := range p.Funcs {
		okPkg := false
		for _, pk := range pkgs {
			if fnPkgPath(fn) == modPath+pk || (strings.HasSuffix(pk, "/") && strings.HasPrefix(fnPkgPath(fn), modPath+pk)) {
				okPkg = true
			}
		}
		if !okPkg || fn.Blocks == nil {
			continue
		}
		k := 0
		allInstrs(fn, func(ins ssa.Instruction) {
			var vals []ssa.Value
			switch x := ins.(type) {
			case *ssa.Send:
				vals = append(vals, x.X)
			case *ssa.Select:
				for _, st := range x.States {
					if st.Dir == types.SendOnly {
						vals = append(vals, st.Send)
					}
				}
			case *ssa.Call:
				hasChan := false
				for _, a := range x.Call.Args {
					if _, isCh := a.Type().Underlying().(*types.Chan); isCh {
						hasChan = true
					}
				}
				if hasChan {
					for _, a := range x.Call.Args {
						if _, isPtr := a.Type().Underlying().(*types.Pointer); isPtr {
							vals = append(vals, a)
						}
					}
				}
			}
			if len(vals) == 0 || !inLoop(ins) {
				return
			}
			loop := loopBlocks(ins.Block())
			for _, v := range vals {
				for {
					if mi, ok := v.(*ssa.MakeInterface); ok {
						v = mi.X
						continue
					}
					if ct, ok := v.(*ssa.ChangeType); ok {
						v = ct.X
						continue
					}
					break
				}
				al, ok := v.(*ssa.Alloc)
				if !ok || !al.Heap {
					continue
				}
				if _, isStruct := deref(al.Type()).Underlying().(*types.Struct); !isStruct {
					continue
				}
				k++
				n++
				name := fnName(fn)
				inside := loop[al.Block()]
				written := false
				if !inside && al.Referrers() != nil {
					for _, ref := range *al.Referrers() {
						if fa, isFA := ref.(*ssa.FieldAddr); isFA && fa.Referrers() != nil {
							for _, r2 := range *fa.Referrers() {
								if st, isSt := r2.(*ssa.Store); isSt && st.Addr == ssa.Value(fa) && loop[st.Block()] {
									written = true
								}
							}
						}
						if st, isSt := ref.(*ssa.Store); isSt && st.Addr == ssa.Value(al) && loop[st.Block()] {
							written = true
						}
					}
				}
				r.Check(fmt.Sprintf("%s hand-over#%d of %s", name, k, typeStr(deref(al.Type()))), inside || !written, posOf(p, ins), name, fmt.Sprintf("object allocated at %s (inside the loop: %v) and rewritten inside the loop: %v; queued entries would all alias the same object", posOf(p, al), inside, written))
			}
		})
	}
	r.Stat("handovers_in_loops", n)
}

// ruleCancelFieldsClosed: a struct that keeps the cancel function of its own context promises that closing it stops
// its goroutines. For every struct field of type context.CancelFunc in the given packages, some method of that
// struct whose name starts with Close/close calls the field (directly, deferred, or through a callee of the type).
func ruleCancelFieldsClosed(r *Run, id string, pkgs ...string) {
	r.Begin(id, "a kept cancel function is called when the object is closed: for every struct field of type context.CancelFunc in "+strings.Join(pkgs, ", ")+", a Close…/close… method of the struct calls it (directly, deferred or through a helper method); without that the object's goroutines and waiters outlive Close", 3)
	p := r.P
	for _, pk := range p.Pkgs {
		okPkg := false
		rel := strings.TrimPrefix(pk.PkgPath, modPath)
		for _, want := range pkgs {
			if rel == want || (strings.HasSuffix(want, "/") && strings.HasPrefix(rel, want)) {
				okPkg = true
			}
		}
		if !okPkg || pk.Types == nil {
			continue
		}
		sc := pk.Types.Scope()
		for _, nm := range sc.Names() {
			tn, ok := sc.Lookup(nm).(*types.TypeName)
			if !ok {
				continue
			}
			n, ok := tn.Type().(*types.Named)
			if !ok {
				continue
			}
			st, ok := n.Underlying().(*types.Struct)
			if !ok {
				continue
			}
			for i := 0; i < st.NumFields(); i++ {
				f := st.Field(i)
				if !typeIs(f.Type(), "context", "CancelFunc") {
					continue
				}
				fk := fieldKey(n, f)
				// closing methods
				called := false
				var closers []string
				for j := 0; j < n.NumMethods(); j++ {
					m := n.Method(j)
					if !strings.HasPrefix(m.Name(), "Close") && !strings.HasPrefix(m.Name(), "close") {
						continue
					}
					fn := p.SSA.FuncValue(m)
					if fn == nil {
						continue
					}
					closers = append(closers, m.Name())
					if p.callsFieldFunc(fn, fk, 2, map[*ssa.Function]bool{}) {
						called = true
					}
				}
				if len(closers) == 0 {
					continue // no closing method: the cancel function belongs to someone else's protocol
				}
				r.Check("cancel field "+fk, called, p.pos(f.Pos()), tname(n), fmt.Sprintf("closing methods %v; one of them calls the kept cancel function: %v", closers, called))
			}
		}
	}
}

// callsFieldFunc: fn (or a method/closure it statically calls or defers, up to depth) calls the func stored in field fk.
func (p *Prog) callsFieldFunc(fn *ssa.Function, fk string, depth int, seen map[*ssa.Function]bool) bool {
	if fn == nil || fn.Blocks == nil || seen[fn] {
		return false
	}
	seen[fn] = true
	found := false
	withAnon(fn, func(f *ssa.Function) {
		allInstrs(f, func(ins ssa.Instruction) {
			cc := instrCall(ins)
			if cc == nil || found {
				return
			}
			if !cc.IsInvoke() && cc.StaticCallee() == nil {
				if hasLeaf(p.Leaves(cc.Value, provOpts{}), "field:"+fk) {
					found = true
				}
				return
			}
			if depth > 0 {
				if cf := cc.StaticCallee(); cf != nil && p.Analysed(cf) && p.callsFieldFunc(cf, fk, depth-1, seen) {
					found = true
				}
			}
		})
	})
	return found
}

// ruleCounterDirection: the repository names its traffic counters rx…/tx… and the accessors Rx…/Tx…; the byte counts
// a transport or codec reports are only right if the receive side feeds and reports the rx counters and the send side
// the tx counters. (a) every method whose name starts with Rx/Tx touches only counter fields of its own direction;
// (b) an update of an rx…/tx… field located in a function named read…/decode…/receive… resp. write…/encode…/send…
// agrees with that direction; (c) every rx…/tx… counter field that is reported is updated somewhere.
func ruleCounterDirection(r *Run, id string, pkgs ...string) {
	r.Begin(id, "counter direction: in "+strings.Join(pkgs, ", ")+" the accessors Rx…/Tx… read only rx…/tx… fields of their own direction, updates of rx…/tx… fields inside read…/decode…/receive… resp. write…/encode…/send… functions agree with the function's direction, and every reported counter field has an update site", 4)
	p := r.P
	inPkgs := func(fn *ssa.Function) bool {
		for _, pk := range pkgs {
			if fnPkgPath(fn) == modPath+pk || (strings.HasSuffix(pk, "/") && strings.HasPrefix(fnPkgPath(fn), modPath+pk)) {
				return true
			}
		}
		return false
	}
	reported := map[string]string{} // field key -> accessor
	updated := map[string]int{}
	for _, fn := range p.Funcs {
		if !inPkgs(fn) || fn.Blocks == nil {
			continue
		}
		top := topFunc(fn)
		fdir := ""
		if o := top.Object(); o != nil {
			fdir = dirOfFunc(canon(o))
		}
		if fn.Parent() != nil && dirOfFunc(top.Name()) == "" {
			// a goroutine body inside a constructor: its direction is that of the I/O calls it makes
			fdir = ""
			rx, tx := false, false
			allInstrs(fn, func(ins ssa.Instruction) {
				cc := instrCall(ins)
				if cc == nil {
					return
				}
				nm := ""
				if cc.IsInvoke() {
					nm = cc.Method.Name()
				} else if cf := cc.StaticCallee(); cf != nil {
					nm = cf.Name()
				}
				switch d := strings.ToLower(nm); {
				case strings.HasPrefix(d, "read"), strings.HasPrefix(d, "receive"), strings.HasPrefix(d, "accept"), strings.HasPrefix(d, "decode"):
					rx = true
				case strings.HasPrefix(d, "write"), strings.HasPrefix(d, "send"), strings.HasPrefix(d, "encode"):
					tx = true
				}
			})
			if rx && !tx {
				fdir = "rx"
			} else if tx && !rx {
				fdir = "tx"
			}
		}
		isAccessor := fn.Parent() == nil && fn.Signature.Recv() != nil && dirOfName(top.Name()) != "" && top.Object() != nil && top.Object().Exported()
		name := fnName(fn)
		k := 0
		allInstrs(fn, func(ins ssa.Instruction) {
			fa, ok := ins.(*ssa.FieldAddr)
			if !ok {
				return
			}
			f := fieldOf(fa.X.Type(), fa.Field)
			owner := namedOf(fa.X.Type())
			if f == nil || owner == nil {
				return
			}
			d := dirOfName(canon(f))
			if d == "" {
				return
			}
			if _, isChan := f.Type().Underlying().(*types.Chan); isChan {
				return // rx/tx channels of the in-memory pipe are not counters
			}
			fk := fieldKey(owner, f)
			// is this access an update (atomic.Add*, or a method call on the counter object named Add/Inc)?
			isUpdate := false
			var visit func(v ssa.Value, depth int)
			visit = func(v ssa.Value, depth int) {
				if v.Referrers() == nil || depth > 2 {
					return
				}
				for _, ref := range *v.Referrers() {
					switch x := ref.(type) {
					case *ssa.Call:
						n := callName(x)
						if strings.HasPrefix(n, "sync/atomic.Add") || strings.HasSuffix(n, ".Add") || strings.HasSuffix(n, ".Inc") {
							isUpdate = true
						}
					case *ssa.UnOp:
						visit(x, depth+1)
					case *ssa.Store:
						if bo, isBo := x.Val.(*ssa.BinOp); isBo && x.Addr == v && bo.Op == token.ADD {
							isUpdate = true // x.f += n
						}
					}
				}
			}
			visit(fa, 0)
			if isAccessor {
				k++
				reported[fk] = name
				r.Check(fmt.Sprintf("%s reads %s", name, fk), d == dirOfName(top.Name()), posOf(p, fa), name, fmt.Sprintf("accessor of direction %s touches the %s counter %s", dirOfName(top.Name()), d, fk))
				return
			}
			if isUpdate {
				updated[fk]++
				if fdir != "" {
					k++
					r.Check(fmt.Sprintf("%s updates %s #%d", name, fk, k), d == fdir, posOf(p, fa), name, fmt.Sprintf("a %s-side function updates the %s counter %s", fdir, d, fk))
				}
			}
		})
	}
	var keys []string
	for fk := range reported {
		keys = append(keys, fk)
	}
	sort.Strings(keys)
	for _, fk := range keys {
		r.Check("counter "+fk+" is updated", updated[fk] > 0, "", reported[fk], fmt.Sprintf("%d update site(s) of the counter reported by %s", updated[fk], reported[fk]))
	}
}

// ruleNoAliasAfterTruncate: `s.f = s.f[:0]` keeps the backing array. A value loaded from s.f before that store and
// still used after it (ranged over, indexed, passed on) shares the array with everything appended to s.f from then on:
// later appends overwrite the entries that are still being consumed. The value must be a copy.
func ruleNoAliasAfterTruncate(r *Run, id string, pkgs ...string) {
	r.Begin(id, "a batch taken out of a slice field that is then truncated in place is a copy: where a function stores f[:0] (or f[:k]) back into a slice field, no earlier load of that field is still used after the store; the consumer works on a fresh slice", 1)
	p := r.P
	n := 0
	for _, fn := range p.Funcs {
		okPkg := false
		for _, pk := range pkgs {
			if fnPkgPath(fn) == modPath+pk {
				okPkg = true
			}
		}
		if !okPkg || fn.Blocks == nil {
			continue
		}
		allInstrs(fn, func(ins ssa.Instruction) {
			st, ok := ins.(*ssa.Store)
			if !ok {
				return
			}
			fk := fieldKeyOfAddr(st.Addr)
			sl, isSl := st.Val.(*ssa.Slice)
			if fk == "" || !isSl || sl.Low != nil || sl.High == nil {
				return
			}
			if _, isSlice := sl.X.Type().Underlying().(*types.Slice); !isSlice {
				return
			}
			src, isLoad := sl.X.(*ssa.UnOp)
			if !isLoad || src.Op != token.MUL || fieldKeyOfAddr(src.X) != fk {
				return
			}
			n++
			name := fnName(fn)
			// other loads of the same field that happen before the store and are used after it
			var bad ssa.Instruction
			allInstrs(fn, func(x ssa.Instruction) {
				ld, isLd := x.(*ssa.UnOp)
				if !isLd || ld.Op != token.MUL || fieldKeyOfAddr(ld.X) != fk || ld.Referrers() == nil {
					return
				}
				if !(dominatesInstr(ld, st) || ld == src) {
					return
				}
				for _, ref := range *ld.Referrers() {
					if ref == ssa.Instruction(sl) {
						continue
					}
					// uses that keep the array: range, index, slicing, passing on, storing elsewhere (len/cap are harmless)
					if c, isCall := ref.(*ssa.Call); isCall {
						if b, isB := c.Call.Value.(*ssa.Builtin); isB && (b.Name() == "len" || b.Name() == "cap" || b.Name() == "append") {
							// append(dst, f...) copies f's elements when f is the variadic source: harmless; append(f, …) is not a consumer either
							continue
						}
					}
					if dominatesInstr(st, ref) || reachesWithout(st, func(y ssa.Instruction) bool { return y == ref }, nil) != nil {
						bad = ref
					}
				}
			})
			where := posOf(p, st)
			detail := "no earlier load of the field survives the truncation"
			if bad != nil {
				where = posOf(p, bad)
				detail = "the value loaded from " + fk + " before it was truncated in place is still used at " + posOf(p, bad) + ": it shares the backing array with later appends, which overwrite entries not yet consumed"
			}
			r.Check(name+" truncates "+fk, bad == nil, where, name, detail)
		})
	}
	if n == 0 {
		r.Check("in-place truncations", true, "", "", "no slice field is truncated in place in these packages")
	}
}

// ruleNoTruncatedZeroTest: "is this duration/size unset?" must be asked of the value itself. A test of a
// float-to-integer conversion against zero is true for every value below one unit (int64(d.Seconds()) == 0 for any
// d < 1s), so a configured sub-unit value is silently replaced by the default.
func ruleNoTruncatedZeroTest(r *Run, id string, pkgs ...string) {
	r.Begin(id, "unset tests are exact: in "+strings.Join(pkgs, ", ")+" no comparison with the constant 0 is applied to a float-to-integer conversion (the comparison would also hold for every configured value below one unit, which is then replaced by a default)", 1)
	p := r.P
	n, bad := 0, 0
	for _, fn := range p.Funcs {
		okPkg := false
		for _, pk := range pkgs {
			if fnPkgPath(fn) == modPath+pk {
				okPkg = true
			}
		}
		if !okPkg || fn.Blocks == nil {
			continue
		}
		k := 0
		allInstrs(fn, func(ins ssa.Instruction) {
			bo, ok := ins.(*ssa.BinOp)
			if !ok || (bo.Op != token.EQL && bo.Op != token.NEQ) {
				return
			}
			var other ssa.Value
			if v, isK := constInt(bo.Y); isK && v == 0 {
				other = bo.X
			} else if v, isK := constInt(bo.X); isK && v == 0 {
				other = bo.Y
			}
			if other == nil {
				return
			}
			n++
			cv, isConv := other.(*ssa.Convert)
			if !isConv {
				return
			}
			from, ok1 := cv.X.Type().Underlying().(*types.Basic)
			to, ok2 := cv.Type().Underlying().(*types.Basic)
			if ok1 && ok2 && from.Info()&types.IsFloat != 0 && to.Info()&types.IsInteger != 0 {
				k++
				bad++
				name := fnName(fn)
				r.Check(fmt.Sprintf("%s truncated zero test#%d", name, k), false, p.pos(bo.Pos()), name, "a float value is truncated to an integer before it is compared with 0: every value below one unit counts as unset")
			}
		})
	}
	r.Stat("zero_tests", n)
	if bad == 0 {
		r.Check("zero tests", true, "", "", fmt.Sprintf("%d comparisons with 0, none on a truncated float", n))
	}
}

// ruleWhoMayReceive: a channel field with a designated consumer. Receiving from it anywhere else steals values from
// that consumer (and hands the thief a value that was not meant for it).
func ruleWhoMayReceive(r *Run, id string, fk string, allowed ...string) {
	r.Begin(id, "only the designated consumer receives from "+fk+": every receive from that channel field lies in "+strings.Join(allowed, " or "), 1)
	p := r.P
	n := 0
	for _, fn := range p.Funcs {
		if fn.Blocks == nil {
			continue
		}
		k := 0
		check := func(ch ssa.Value, at ssa.Instruction) {
			if !hasLeaf(p.Leaves(ch, provOpts{}), "field:"+fk) {
				return
			}
			n++
			k++
			name := fnName(topFunc(fn))
			ok := false
			for _, a := range allowed {
				if name == a {
					ok = true
				}
			}
			r.Check(fmt.Sprintf("%s receive#%d from %s", fnName(fn), k, fk), ok, posOf(p, at), fnName(fn), "receive from "+fk+" outside its designated consumer")
		}
		allInstrs(fn, func(ins ssa.Instruction) {
			switch x := ins.(type) {
			case *ssa.UnOp:
				if x.Op == token.ARROW {
					check(x.X, ins)
				}
			case *ssa.Select:
				for _, st := range x.States {
					if st.Dir == types.RecvOnly {
						check(st.Chan, ins)
					}
				}
			case *ssa.Range:
				if _, isCh := x.X.Type().Underlying().(*types.Chan); isCh {
					check(x.X, ins)
				}
			}
		})
	}
	if n == 0 {
		r.Undecided("receives from "+fk, "none found")
	}
}

// ruleW4: the waiters of these conds test their context and then call Wait, holding L in between. A waker that fires
// when the context ends must take L around its Broadcast: without it the broadcast can fall between the waiter's
// test and its Wait, reach nobody, and the waiter sleeps for ever (a goroutine that outlives Close).
func ruleW4(r *Run, le *LockEngine, id string) {
	r.Begin(id, "context-triggered wakers hold the lock: for every sync.Cond whose waiters poll a context before Wait, every Broadcast/Signal made by a context-triggered waker (AfterFunc closure, function that receives from Done(), code after a context-bounded blocking call) is made with the cond's L (or the mutex of the struct that owns the cond) held", 3)
	p := r.P
	type use struct {
		field *types.Var
		owner string
		ins   ssa.Instruction
		fn    *ssa.Function
		recv  ssa.Value
	}
	var waits, wakes []use
	for _, fn := range p.Funcs {
		allInstrs(fn, func(ins ssa.Instruction) {
			cc := instrCall(ins)
			if cc == nil {
				return
			}
			o := calleeObj(cc)
			if o == nil || o.Pkg() == nil || o.Pkg().Path() != "sync" || recvNamed(o) != "Cond" {
				return
			}
			args := callArgs(cc)
			if len(args) == 0 {
				return
			}
			f, owner := condFieldOf(args[0])
			if f == nil {
				return
			}
			switch o.Name() {
			case "Wait":
				waits = append(waits, use{f, owner, ins, fn, args[0]})
			case "Broadcast", "Signal":
				wakes = append(wakes, use{f, owner, ins, fn, args[0]})
			}
		})
	}
	polls := map[*types.Var]bool{}
	for _, w := range waits {
		allInstrs(w.fn, func(ins ssa.Instruction) {
			if sel, ok := ins.(*ssa.Select); ok && !sel.Blocking {
				for _, st := range sel.States {
					if st.Dir == types.RecvOnly && doneCtx(st.Chan) != nil {
						polls[w.field] = true
					}
				}
			}
		})
	}
	// calls of small helpers that broadcast are wake sites of the caller; whether the lock is held is decided inside the helper
	helpers := wakeHelpers(p)
	viaHelper := map[ssa.Instruction]wakeHelper{}
	for _, fn := range p.Funcs {
		allInstrs(fn, func(ins ssa.Instruction) {
			cc := instrCall(ins)
			if cc == nil {
				return
			}
			if cf := cc.StaticCallee(); cf != nil {
				if h, ok := helpers[cf]; ok && cf != fn {
					wakes = append(wakes, use{h.field, h.owner, ins, fn, nil})
					viaHelper[ins] = h
				}
			}
		})
	}
	blocking := ctxBlockingFuncs(p)
	n := map[string]int{}
	for _, k := range wakes {
		if !polls[k.field] {
			continue
		}
		if _, isHelperBody := helpers[k.fn]; isHelperBody && k.recv != nil {
			continue // judged at the helper's call sites
		}
		fn := k.fn
		trig := isAfterFuncArg(fn) || hasDoneReceive(fn)
		if !trig {
			allInstrs(fn, func(ins ssa.Instruction) {
				if c, ok := ins.(*ssa.Call); ok {
					if cf := c.Call.StaticCallee(); cf != nil && blocking[cf] {
						trig = true
					}
				}
			})
		}
		if !trig {
			continue
		}
		name := fnName(fn)
		n[name]++
		at := k.ins
		recv := k.recv
		if h, ok := viaHelper[k.ins]; ok {
			at = h.at
			recv = callArgs(instrCall(h.at))[0]
		}
		condPath := pathOf(recv).String()
		ownerPath := condPath
		if i := strings.LastIndexByte(condPath, '.'); i > 0 {
			ownerPath = condPath[:i]
		}
		held := le.HeldAt(at)
		ok := false
		var hk []string
		for key, mode := range held {
			if mode == 0 {
				continue
			}
			hk = append(hk, key)
			if key == condPath+".L" || key == ownerPath || strings.HasPrefix(key, ownerPath+".") {
				ok = true
			}
		}
		sort.Strings(hk)
		r.Check(fmt.Sprintf("%s wakes %s.%s #%d", name, k.owner, k.field.Name(), n[name]), ok, posOf(p, k.ins), name, fmt.Sprintf("Broadcast on %s by a context-triggered waker; locks held there: %v. Without the cond's lock the broadcast can land between a waiter's context test and its Wait and wake nobody", condPath, hk))
	}
}

// wakeHelpers: module functions whose own body broadcasts/signals on a cond field (e.g. a method wake() that takes the
// lock, broadcasts and releases it). A call of such a helper is a wake site of that cond in the caller.
type wakeHelper struct {
	field *types.Var
	owner string
	at    ssa.Instruction // the Broadcast inside the helper
}

func wakeHelpers(p *Prog) map[*ssa.Function]wakeHelper {
	out := map[*ssa.Function]wakeHelper{}
	for _, fn := range p.Funcs {
		if fn.Parent() != nil || fn.Blocks == nil {
			continue
		}
		n := 0
		allInstrs(fn, func(ins ssa.Instruction) { n++ })
		if n > 24 {
			continue // a helper is small: lock, broadcast, unlock
		}
		allInstrs(fn, func(ins ssa.Instruction) {
			cc := instrCall(ins)
			if cc == nil {
				return
			}
			o := calleeObj(cc)
			if o == nil || o.Pkg() == nil || o.Pkg().Path() != "sync" || recvNamed(o) != "Cond" || (o.Name() != "Broadcast" && o.Name() != "Signal") {
				return
			}
			args := callArgs(cc)
			if len(args) == 0 {
				return
			}
			if f, owner := condFieldOf(args[0]); f != nil {
				out[fn] = wakeHelper{f, owner, ins}
			}
		})
	}
	return out
}

// ruleDefaultsFillOnlyUnset: a package-level default (a global whose name starts with default…) may be stored into a
// configuration field only where that very field was found unset: on the zero/nil edge of a test of the same field.
// Anything else — the test of a sibling field, an inverted or shifted comparison — replaces values the application
// configured, or leaves unset ones at zero.
func ruleDefaultsFillOnlyUnset(r *Run, id string, pkgs ...string) {
	r.Begin(id, "defaults only fill unset fields: in "+strings.Join(pkgs, ", ")+", a store of a default… global into a struct field (outside composite literals of constructors) is dominated by the zero/nil edge of a test of that same field, and the global's name ends with the field's name", 2)
	p := r.P
	n := 0
	for _, fn := range p.Funcs {
		okPkg := false
		for _, pk := range pkgs {
			if fnPkgPath(fn) == modPath+pk {
				okPkg = true
			}
		}
		if !okPkg || fn.Blocks == nil || fn.Name() == "init" {
			continue
		}
		k := 0
		allInstrs(fn, func(ins ssa.Instruction) {
			st, ok := ins.(*ssa.Store)
			if !ok {
				return
			}
			fa, isFA := st.Addr.(*ssa.FieldAddr)
			if !isFA {
				return
			}
			if _, isAlloc := fa.X.(*ssa.Alloc); isAlloc {
				if a := fa.X.(*ssa.Alloc); a.Comment == "complit" {
					return
				}
			}
			fk := fieldKeyOfAddr(fa)
			f := fieldOf(fa.X.Type(), fa.Field)
			if fk == "" || f == nil {
				return
			}
			var def string
			for _, l := range p.Leaves(st.Val, provOpts{}) {
				if strings.HasPrefix(l, "global:") && strings.Contains(strings.ToLower(l[strings.LastIndexByte(l, '.')+1:]), "default") {
					def = l[7:]
				}
				if strings.HasPrefix(l, "addr:") && strings.Contains(strings.ToLower(l), ".default") {
					def = l[5:]
				}
			}
			if def == "" {
				return
			}
			n++
			k++
			name := fnName(fn)
			// zero/nil edge of a test of the same field dominates the store
			guarded := false
			allInstrs(fn, func(x ssa.Instruction) {
				ifs, isIf := x.(*ssa.If)
				if !isIf {
					return
				}
				bo, isBo := ifs.Cond.(*ssa.BinOp)
				if !isBo || (bo.Op != token.EQL && bo.Op != token.NEQ) {
					return
				}
				var other ssa.Value
				if isNilConst(bo.Y) {
					other = bo.X
				} else if isNilConst(bo.X) {
					other = bo.Y
				} else if c, isC := bo.Y.(*ssa.Const); isC && c.Value != nil && (c.Value.String() == "0" || c.Value.String() == `""`) {
					other = bo.X
				} else if c, isC := bo.X.(*ssa.Const); isC && c.Value != nil && (c.Value.String() == "0" || c.Value.String() == `""`) {
					other = bo.Y
				}
				if other == nil {
					return
				}
				// the tested value is that same field (possibly through a method such as Seconds(), a load or a conversion)
				if got := fieldsRead(other, 5); len(got) != 1 || !got[fk] {
					return
				}
				zero := ifs.Block().Succs[0]
				if bo.Op == token.NEQ {
					zero = ifs.Block().Succs[1]
				}
				if edgeDominates(ifs.Block(), zero, st.Block()) {
					guarded = true
				}
			})
			nameOK := strings.HasSuffix(strings.ToLower(def), strings.ToLower(canon(f)))
			r.Check(fmt.Sprintf("%s default#%d into %s", name, k, fk), guarded && nameOK, posOf(p, st), name, fmt.Sprintf("%s is stored into %s; on the zero edge of a test of that field: %v; the default is the one named after the field: %v", def, fk, guarded, nameOK))
		})
	}
	if n == 0 {
		r.Undecided("default stores", "none found")
	}
}

// fieldsRead: the struct fields (by key) that v is computed from, following loads, field selections, conversions and
// the receiver/arguments of calls up to depth.
func fieldsRead(v ssa.Value, depth int) map[string]bool {
	out := map[string]bool{}
	seen := map[ssa.Value]bool{}
	var walk func(v ssa.Value, d int)
	walk = func(v ssa.Value, d int) {
		if v == nil || seen[v] || d < 0 {
			return
		}
		seen[v] = true
		switch x := v.(type) {
		case *ssa.FieldAddr:
			if fk := fieldKeyOfAddr(x); fk != "" {
				out[fk] = true
			}
			return
		case *ssa.Field:
			if f := fieldOf(x.X.Type(), x.Field); f != nil {
				if owner := namedOf(x.X.Type()); owner != nil {
					out[fieldKey(owner, f)] = true
					return
				}
			}
			walk(x.X, d-1)
		case *ssa.UnOp:
			walk(x.X, d-1)
		case *ssa.Convert:
			walk(x.X, d-1)
		case *ssa.ChangeType:
			walk(x.X, d-1)
		case *ssa.Call:
			for _, a := range x.Call.Args {
				walk(a, d-1)
			}
			if x.Call.IsInvoke() {
				walk(x.Call.Value, d-1)
			}
		case *ssa.Phi:
			for _, e := range x.Edges {
				walk(e, d-1)
			}
		case *ssa.Alloc:
			// a spilled value receiver: what was stored into it
			if x.Referrers() != nil {
				for _, ref := range *x.Referrers() {
					if st, ok := ref.(*ssa.Store); ok && st.Addr == ssa.Value(x) {
						walk(st.Val, d-1)
					}
				}
			}
		}
	}
	walk(v, depth)
	return out
}

// ruleOptionSetters: the functional options are named after the configuration field they set (WithConnPingInterval
// sets ConnConfig.PingInterval). An option that stores into a sibling field of the same type, or stores nothing,
// silently configures something else than the application asked for.
func ruleOptionSetters(r *Run, id string, fileSuffix string) {
	r.Begin(id, "options set the field they are named after: every exported With… function declared in "+fileSuffix+" whose closure stores into configuration fields stores at least one field, and the name of every stored field occurs in the function's name", 5)
	p := r.P
	for _, fn := range p.Funcs {
		if fnPkgPath(fn) != modPath+"/iscp" || fn.Parent() != nil || fn.Object() == nil || !fn.Object().Exported() || !strings.HasPrefix(fn.Name(), "With") || fn.Signature.Recv() != nil {
			continue
		}
		if !strings.HasSuffix(declFile(p, fn), fileSuffix) {
			continue
		}
		name := fnName(fn)
		var fields []string
		withAnon(fn, func(f *ssa.Function) {
			allInstrs(f, func(ins ssa.Instruction) {
				st, ok := ins.(*ssa.Store)
				if !ok {
					return
				}
				fa, isFA := st.Addr.(*ssa.FieldAddr)
				if !isFA {
					return
				}
				if _, isParam := fa.X.(*ssa.Parameter); !isParam {
					return
				}
				if fld := fieldOf(fa.X.Type(), fa.Field); fld != nil {
					fields = append(fields, canon(fld))
				}
			})
		})
		lower := strings.ToLower(canon(fn.Object()))
		okAll := len(fields) > 0
		var odd []string
		for _, f := range fields {
			if !strings.Contains(lower, strings.ToLower(f)) && !strings.Contains(lower, strings.ToLower(strings.TrimSuffix(f, "s"))) && !(strings.HasSuffix(f, "Config") && strings.Contains(lower, strings.ToLower(strings.TrimSuffix(f, "Config")))) {
				okAll = false
				odd = append(odd, f)
			}
		}
		r.Check(name+" sets its field", okAll, p.pos(fn.Pos()), name, fmt.Sprintf("fields stored by the option: %v; not named in the option's name: %v", fields, odd))
	}
}

// ruleGoroutinesOutliveRequestCtx: a goroutine that serves a stream or connection for its whole life must not stop when
// the context of the API call that happened to start it ends (callers cancel that context as soon as the call
// returns). In the given packages a select of a go-started closure may watch a Done() that derives from a context
// PARAMETER of the enclosing declared function only if that function itself blocks until the goroutine is finished
// (it waits on a sync.WaitGroup / errgroup, or the closure is a worker of such a group).
func ruleGoroutinesOutliveRequestCtx(r *Run, id string, pkgs ...string) {
	r.Begin(id, "service goroutines are not bounded by a request context: in "+strings.Join(pkgs, ", ")+", a closure started with go does not select on the Done() of a context that derives from a context parameter of the enclosing function, unless that function waits for the goroutine before it returns", 1)
	p := r.P
	n := 0
	for _, fn := range p.Funcs {
		okPkg := false
		for _, pk := range pkgs {
			if fnPkgPath(fn) == modPath+pk {
				okPkg = true
			}
		}
		if !okPkg || fn.Parent() == nil || !isGoBody(fn) {
			continue
		}
		top := topFunc(fn)
		var ctxParams []*ssa.Parameter
		for f := fn.Parent(); f != nil; f = f.Parent() {
			for _, prm := range f.Params {
				if isContextType(prm.Type()) {
					ctxParams = append(ctxParams, prm)
				}
			}
		}
		if len(ctxParams) == 0 {
			continue
		}
		// does the creator wait? (WaitGroup.Wait / errgroup.Wait in the enclosing functions)
		waits := false
		for f := fn.Parent(); f != nil; f = f.Parent() {
			allInstrs(f, func(ins ssa.Instruction) {
				if isCallNamed(ins, "sync.WaitGroup.Wait", "golang.org/x/sync/errgroup.Group.Wait") {
					waits = true
				}
			})
		}
		k := 0
		allInstrs(fn, func(ins ssa.Instruction) {
			sel, ok := ins.(*ssa.Select)
			if !ok {
				return
			}
			for _, st := range sel.States {
				if st.Dir != types.RecvOnly {
					continue
				}
				cx := doneCtx(st.Chan)
				if cx == nil {
					continue
				}
				fromParam := false
				for _, rt := range ctxRoots(cx) {
					if prm := paramOf(rt); prm != nil {
						for _, q := range ctxParams {
							if q == prm {
								fromParam = true
							}
						}
					}
				}
				if !fromParam {
					continue
				}
				// only contexts that really come from an API call: the creator is exported, or one of its call sites
				// passes the context parameter of an exported function down to it
				isReq := false
				for _, q := range ctxParams {
					if isRequestCtxParam(p, q, 3) {
						isReq = true
					}
				}
				if !isReq {
					continue
				}
				n++
				k++
				name := fnName(fn)
				r.Check(fmt.Sprintf("%s request-ctx watch#%d", name, k), waits, posOf(p, sel), name, "this goroutine stops when the context parameter of "+fnName(top)+" ends, but "+fnName(top)+" does not wait for it: once the caller cancels the context of the call that started it, the goroutine's service (forwarding, dispatching) silently ends while the stream lives on")
			}
		})
	}
	if n == 0 {
		r.Check("request-context watches", true, "", "", "no go-started closure watches a context parameter of its creator")
	}
}

// isRequestCtxParam: prm is the context parameter of an exported function or method, or some static call site hands
// such a parameter (or a context derived from it) down to prm.
func isRequestCtxParam(p *Prog, prm *ssa.Parameter, depth int) bool {
	fn := prm.Parent()
	if fn == nil || depth < 0 {
		return false
	}
	if o := fn.Object(); o != nil && o.Exported() && fn.Parent() == nil {
		return true
	}
	idx := -1
	for i, q := range fn.Params {
		if q == prm {
			idx = i
		}
	}
	if idx < 0 {
		return false
	}
	for _, site := range p.staticCallSites(fn) {
		cc := instrCall(site)
		if cc == nil || idx >= len(cc.Args) {
			continue
		}
		for _, rt := range ctxRoots(cc.Args[idx]) {
			if q := paramOf(rt); q != nil && q != prm && isRequestCtxParam(p, q, depth-1) {
				return true
			}
		}
	}
	// a closure handed to a helper that calls it (c.send(ctx, func(ctx context.Context) error {…})): its parameter is
	// whatever the helper passes at the invocation
	if fn.Parent() != nil {
		if _, uses, ok := funcValueUses(fn); ok {
			for _, u := range uses {
				cc := instrCall(u)
				if cc == nil {
					continue
				}
				for _, ic := range invokedClosureArgs(p, cc) {
					if ic.closure != fn {
						continue
					}
					for _, s := range ic.sites {
						sc := instrCall(s)
						if sc == nil || idx >= len(sc.Args) {
							continue
						}
						for _, rt := range ctxRoots(sc.Args[idx]) {
							if q := paramOf(rt); q != nil && q != prm && isRequestCtxParam(p, q, depth-1) {
								return true
							}
						}
					}
				}
			}
		}
	}
	return false
}

// ruleCheckThenActAtomic: a table that is inspected and then extended within one function is inspected and extended
// in one critical section. For every write of a map field the rule walks backwards to the lock releases of the
// function; a lookup, range or len of the same field that can reach the write but lies before such a release is a stale
// check unless the field is inspected again inside the section the write sits in (the re-check of a double-checked
// insert).
// checkThenActExceptions: one named container each, with the reason the split check is harmless for it (keyed by the
// field, not by the function the registration happens to live in).
var checkThenActExceptions = map[string]string{
	"/iscp.Conn.upstreamCallAckCh": "keyed by the call id, which the library mints (a fresh random id per call): the duplicate test is a defensive belief, two callers never hold the same id",
	"/iscp.Conn.replyCallChs":      "keyed by the library-minted call id of this very call: the duplicate test is a defensive belief, two callers never hold the same id",
}

func ruleCheckThenActAtomic(r *Run, id string, pkgs ...string) {
	r.Begin(id, "check-then-act is atomic: where a function inspects a field (map lookup, range, len; comparison of a cell) and later writes it, no lock release lies between the inspection the write relies on and the write (a re-check inside the writing section is accepted)", 1)
	p := r.P
	n := 0
	for _, fn := range p.Funcs {
		okPkg := false
		for _, pk := range pkgs {
			if fnPkgPath(fn) == modPath+pk {
				okPkg = true
			}
		}
		if !okPkg || fn.Blocks == nil {
			continue
		}
		// releases in this function
		hasRelease := false
		allInstrs(fn, func(ins ssa.Instruction) {
			if c, ok := ins.(*ssa.Call); ok {
				if op, _ := classifyLockCall(&c.Call); op == opUnlock || op == opRUnlock {
					hasRelease = true
				}
			}
		})
		inspecting := func(fk string) []ssa.Instruction {
			var out []ssa.Instruction
			allInstrs(fn, func(x ssa.Instruction) {
				ld, isLd := x.(*ssa.UnOp)
				if !isLd || ld.Op != token.MUL || fieldKeyOfAddr(ld.X) != fk || ld.Referrers() == nil {
					return
				}
				for _, ref := range *ld.Referrers() {
					switch u := ref.(type) {
					case *ssa.Lookup, *ssa.Range:
						out = append(out, ld)
						return
					case *ssa.BinOp:
						if u.Op == token.EQL || u.Op == token.NEQ {
							out = append(out, ld)
							return
						}
					case *ssa.Call:
						if b, isB := u.Call.Value.(*ssa.Builtin); isB && b.Name() == "len" {
							out = append(out, ld)
							return
						}
					}
				}
			})
			return out
		}
		seenKey := map[string]bool{}
		allInstrs(fn, func(ins ssa.Instruction) {
			var mu ssa.Instruction
			fk := ""
			switch w := ins.(type) {
			case *ssa.MapUpdate:
				if ld, isLd := w.Map.(*ssa.UnOp); isLd && ld.Op == token.MUL {
					fk = fieldKeyOfAddr(ld.X)
				}
				mu = w
			case *ssa.Store:
				// a scalar cell that is compared and then replaced (the "already done by someone else" test of a redial)
				fk = fieldKeyOfAddr(w.Addr)
				mu = w
			}
			if fk == "" || mu == nil {
				return
			}
			reads := inspecting(fk)
			if len(reads) == 0 {
				return
			}
			n++
			name := fnName(fn)
			key := name + " " + fk
			if seenKey[key] {
				key += fmt.Sprintf("#%d", n)
			}
			seenKey[key] = true
			// a stale check: an inspection happens before some release, and from that release the write is reached
			// without the field being inspected again
			isRead := map[ssa.Instruction]bool{}
			for _, rd := range reads {
				isRead[rd] = true
			}
			var stale ssa.Instruction
			fresh := true
			if hasRelease {
				allInstrs(fn, func(u ssa.Instruction) {
					c, isC := u.(*ssa.Call)
					if !isC || stale != nil {
						return
					}
					if op, _ := classifyLockCall(&c.Call); op != opUnlock && op != opRUnlock {
						return
					}
					before := false
					for _, rd := range reads {
						if reachesWithout(rd, func(x ssa.Instruction) bool { return x == u }, nil) != nil {
							before = true
						}
					}
					if !before {
						return
					}
					if reachesWithout(u, func(x ssa.Instruction) bool { return x == mu }, func(x ssa.Instruction) bool { return isRead[x] }) != nil {
						stale = u
						fresh = false
					}
				})
			}
			if why, ok := checkThenActExceptions[fk]; ok {
				r.Check(key+" inspected and written in one section", true, posOf(p, mu), name, "excepted: "+why)
				return
			}
			where := posOf(p, mu)
			if stale != nil && !fresh {
				where = posOf(p, stale)
			}
			r.Check(key+" inspected and written in one section", stale == nil || fresh, where, name, "the field is inspected, the lock is released, and on some path the field is written without being inspected again: two goroutines can both find the entry missing (or the cell unchanged) and both act")
		})
	}
	if n == 0 {
		r.Check("check-then-insert sites", true, "", "", "no function inspects and writes a map field")
	}
}

// ruleDurationUnits: a time.Duration constant names its unit. A bare small number that ends up as a Duration (a default
// written as 10 next to DefaultQueueSize = 32) means nanoseconds; every non-zero Duration constant used as a value in
// the given packages is at least a microsecond. Scaling factors (operands of * / %) are not values.
func ruleDurationUnits(r *Run, id string, pkgs ...string) {
	r.Begin(id, "durations carry a unit: every non-zero constant of type time.Duration used as a value (returned, stored, passed, compared) in the named packages is at least one microsecond — a bare number of nanoseconds is a forgotten unit", 1)
	p := r.P
	n := 0
	for _, fn := range p.Funcs {
		okPkg := false
		for _, pk := range pkgs {
			if fnPkgPath(fn) == modPath+pk {
				okPkg = true
			}
		}
		if !okPkg || fn.Blocks == nil {
			continue
		}
		name := fnName(fn)
		k := 0
		allInstrs(fn, func(ins ssa.Instruction) {
			if b, isB := ins.(*ssa.BinOp); isB && (b.Op == token.MUL || b.Op == token.QUO || b.Op == token.REM) {
				return
			}
			for _, op := range ins.Operands(nil) {
				if op == nil || *op == nil {
					continue
				}
				c, ok := (*op).(*ssa.Const)
				if !ok || c.Value == nil || !typeIs(c.Type(), "time", "Duration") {
					continue
				}
				v := c.Int64()
				if v == 0 {
					continue
				}
				k++
				n++
				if v < 0 {
					v = -v
				}
				r.Check(fmt.Sprintf("%s duration constant#%d has a unit", name, k), v >= 1000, posOf(p, ins), name, fmt.Sprintf("a time.Duration constant of %d nanoseconds: a number without a unit (time.Second, time.Millisecond) was used as a duration", c.Int64()))
			}
		})
	}
	r.Stat("duration_constants", n)
}

// ruleNoTickerPerIteration: a ticker paces a loop only if it outlives the iterations. Created inside the loop — or in a
// helper the loop calls once per event — it is restarted by every event, and the interval fires only after a full
// interval of silence: steady traffic with gaps shorter than the interval starves it.
func ruleNoTickerPerIteration(r *Run, id string, pkgs ...string) {
	r.Begin(id, "tickers outlive the loop they pace: no function of the named packages creates a ticker (time.NewTicker, FlushPolicy.Ticker) inside a loop, directly or in a helper called from the loop body", 2)
	p := r.P
	names := []string{"time.NewTicker", "/iscp.FlushPolicy.Ticker"}
	n := 0
	for _, fn := range p.Funcs {
		okPkg := false
		for _, pk := range pkgs {
			if fnPkgPath(fn) == modPath+pk {
				okPkg = true
			}
		}
		if !okPkg || fn.Blocks == nil {
			continue
		}
		// functions that have a loop and reach a ticker creation at all
		hasLoop := false
		allInstrs(fn, func(ins ssa.Instruction) {
			if inLoop(ins) {
				hasLoop = true
			}
		})
		if !hasLoop || !p.reachesCall(fn, 2, names...) {
			continue
		}
		n++
		name := fnName(fn)
		r.Check(name+" creates its ticker outside the loop", !p.callsInLoop(fn, 1, false, names...), p.pos(fn.Pos()), name, "a ticker is created inside the loop (or in a helper called per iteration): every event restarts the interval and the tick is starved by steady traffic")
	}
	if n == 0 {
		r.Undecided("ticker-paced loops", "no looping function creates a ticker")
	}
}

// ruleCoupledFields: two plain fields of one struct that are written together — in the same basic block, on the same
// object — at two or more places outside constructors form a pair whose halves describe one fact (a cached key and its
// value, a value and its generation). A block that writes one half of such a pair on a shared object and not the other
// leaves the pair describing something that never existed. (Engler et al.'s "a must be paired with b", with the
// instances taken from the code itself: the rule is armed per pair only when every site but the deviant one agrees, and
// there are at least two agreeing sites.)
func ruleCoupledFields(r *Run, id string, pkgs ...string) {
	r.Begin(id, "coupled fields change together: where two fields of a struct are stored in the same block on the same shared object at two or more places, no block stores one of them without the other", 0)
	p := r.P
	type site struct {
		fn    *ssa.Function
		block *ssa.BasicBlock
		at    ssa.Instruction
		other map[string]bool
	}
	stores := map[string][]site{} // field key -> sites
	for _, fn := range p.Funcs {
		okPkg := false
		for _, pk := range pkgs {
			if fnPkgPath(fn) == modPath+pk {
				okPkg = true
			}
		}
		if !okPkg || fn.Blocks == nil {
			continue
		}
		for _, b := range fn.Blocks {
			type st struct {
				key  string
				base string
				at   ssa.Instruction
			}
			var sts []st
			for _, ins := range b.Instrs {
				s, ok := ins.(*ssa.Store)
				if !ok {
					continue
				}
				fa, isFA := s.Addr.(*ssa.FieldAddr)
				if !isFA {
					continue
				}
				bp := pathOf(fa.X)
				if bp == nil || isLocalObject(bp) {
					continue
				}
				sts = append(sts, st{fieldKeyOfAddr(fa), bp.String(), ins})
			}
			for i, a := range sts {
				o := map[string]bool{}
				for j, c := range sts {
					if i != j && c.base == a.base && c.key != a.key {
						o[c.key] = true
					}
				}
				stores[a.key] = append(stores[a.key], site{fn, b, a.at, o})
			}
		}
	}
	keys := make([]string, 0, len(stores))
	for k := range stores {
		keys = append(keys, k)
	}
	sort.Strings(keys)
	n := 0
	for _, f := range keys {
		ss := stores[f]
		partners := map[string]int{}
		for _, s := range ss {
			for g := range s.other {
				partners[g]++
			}
		}
		for g, together := range partners {
			if together < 2 || f > g && partners[g] == len(ss) && len(stores[g]) == len(ss) {
				continue
			}
			// g's own sites must all carry f as well (the pair is symmetric) or the pair is not one
			n++
			deviants := 0
			for _, s := range ss {
				if !s.other[g] {
					deviants++
				}
			}
			if deviants == 0 {
				r.Check(fmt.Sprintf("%s is stored with %s everywhere", shortKey(f), shortKey(g)), true, "", "", fmt.Sprintf("%d site(s), all store both", len(ss)))
			}
			for _, s := range ss {
				if s.other[g] {
					continue
				}
				// the other half is written elsewhere in the same function on every path to here or from here? not
				// followed: same block only
				r.Check(fmt.Sprintf("%s stores %s with %s", fnName(s.fn), shortKey(f), shortKey(g)), false, posOf(p, s.at), fnName(s.fn), fmt.Sprintf("%s and %s are written together at %d other place(s); here only %s is written", shortKey(f), shortKey(g), together, shortKey(f)))
			}
		}
	}
	r.Stat("coupled_pairs", n)
	if n == 0 {
		r.Check("coupled pairs", true, "", "", "no two fields are written together at two or more places")
	}
}

func shortKey(k string) string {
	if i := strings.LastIndexByte(k, '/'); i >= 0 {
		return k[i+1:]
	}
	return k
}

// ruleAtomicReadModifyWrite: an atomic variable that one function advances (Add, or Store of a computed value) and
// another function reads and then resets is a counter handed from one goroutine to another. Reading it with Load and
// resetting it with a separate Store loses whatever was added in between; the read-and-reset has to be one operation
// (Swap, or a CompareAndSwap loop).
func ruleAtomicReadModifyWrite(r *Run, id string, pkgs ...string) {
	r.Begin(id, "atomic counters are taken in one step: where a function Loads an atomic integer field that another function Adds to, it does not also Store a constant into it (Swap takes and resets in one operation)", 0)
	p := r.P
	inPkgs := func(fn *ssa.Function) bool {
		for _, pk := range pkgs {
			if strings.HasPrefix(fnPkgPath(fn), modPath+pk) {
				return true
			}
		}
		return false
	}
	atomicOp := func(ins ssa.Instruction) (field, op string, cc *ssa.CallCommon) {
		cc = instrCall(ins)
		if cc == nil || len(cc.Args) == 0 {
			return "", "", nil
		}
		o := calleeObj(cc)
		if o == nil || o.Pkg() == nil || o.Pkg().Path() != "sync/atomic" {
			return "", "", nil
		}
		switch recvNamed(o) {
		case "Int32", "Int64", "Uint32", "Uint64", "Uintptr":
		default:
			return "", "", nil
		}
		fk := fieldKeyOfAddr(cc.Args[0])
		if fk == "" {
			return "", "", nil
		}
		return fk, o.Name(), cc
	}
	adders := map[string]map[*ssa.Function]bool{}
	for _, fn := range p.Funcs {
		if !inPkgs(fn) || fn.Blocks == nil {
			continue
		}
		allInstrs(fn, func(ins ssa.Instruction) {
			if fk, op, _ := atomicOp(ins); op == "Add" {
				if adders[fk] == nil {
					adders[fk] = map[*ssa.Function]bool{}
				}
				adders[fk][topFunc(fn)] = true
			}
		})
	}
	n := 0
	for _, fn := range p.Funcs {
		if !inPkgs(fn) || fn.Blocks == nil {
			continue
		}
		loads := map[string]ssa.Instruction{}
		allInstrs(fn, func(ins ssa.Instruction) {
			if fk, op, _ := atomicOp(ins); op == "Load" {
				loads[fk] = ins
			}
		})
		allInstrs(fn, func(ins ssa.Instruction) {
			fk, op, cc := atomicOp(ins)
			if op != "Store" || loads[fk] == nil || len(cc.Args) < 2 {
				return
			}
			if _, isK := cc.Args[1].(*ssa.Const); !isK {
				return
			}
			other := false
			for f := range adders[fk] {
				if f != topFunc(fn) {
					other = true
				}
			}
			if !other {
				return
			}
			n++
			r.Check(fmt.Sprintf("%s takes %s in one step", fnName(fn), shortKey(fk)), false, posOf(p, ins), fnName(fn), "the counter is read with Load at "+posOf(p, loads[fk])+" and reset with a separate Store here, while another function Adds to it: an Add that falls between the two is wiped out (use Swap)")
		})
	}
	if n == 0 {
		r.Check("load-then-store on shared atomic counters", true, "", "", "none")
	}
}
