package main

import (
	"go/ast"
	"go/constant"
	"go/token"
	"go/types"
	"golang.org/x/tools/go/ast/astutil"
	"sort"
	"strings"

	"golang.org/x/tools/go/packages"
)

// typeSwitchTable is the finite map extracted from one type switch: case type -> named types
// of the composite literals constructed in the case body.
type typeSwitchTable struct {
	Fn       *ast.FuncDecl
	Pos      token.Pos
	Subject  types.Type // static type of the switched expression
	Cases    map[*types.Named][]*types.Named
	CasePos  map[*types.Named]token.Pos
	Default  bool
	DefaultE bool // default clause returns a non-nil error / panics
}

func namedPtr(t types.Type) *types.Named { return namedOf(t) }

// collectTypeSwitches extracts all type switches of a package.
func collectTypeSwitches(pk *packages.Package) []*typeSwitchTable {
	var out []*typeSwitchTable
	for _, f := range pk.Syntax {
		for _, d := range f.Decls {
			fd, ok := d.(*ast.FuncDecl)
			if !ok || fd.Body == nil {
				continue
			}
			ast.Inspect(fd.Body, func(n ast.Node) bool {
				ts, ok := n.(*ast.TypeSwitchStmt)
				if !ok {
					return true
				}
				t := &typeSwitchTable{Fn: fd, Pos: ts.Pos(), Cases: map[*types.Named][]*types.Named{}, CasePos: map[*types.Named]token.Pos{}}
				// subject expression
				var subj ast.Expr
				switch a := ts.Assign.(type) {
				case *ast.AssignStmt:
					if ta, ok := a.Rhs[0].(*ast.TypeAssertExpr); ok {
						subj = ta.X
					}
				case *ast.ExprStmt:
					if ta, ok := a.X.(*ast.TypeAssertExpr); ok {
						subj = ta.X
					}
				}
				if subj != nil {
					t.Subject = pk.TypesInfo.TypeOf(subj)
				}
				for _, cl := range ts.Body.List {
					cc := cl.(*ast.CaseClause)
					if cc.List == nil {
						t.Default = true
						t.DefaultE = bodyRejects(pk, cc.Body)
						continue
					}
					var constructed []*types.Named
					for _, st := range cc.Body {
						ast.Inspect(st, func(m ast.Node) bool {
							if cl, ok := m.(*ast.CompositeLit); ok {
								if nn := namedPtr(pk.TypesInfo.TypeOf(cl)); nn != nil {
									constructed = append(constructed, nn)
								}
							}
							// a helper of the module called in the body: its (non-error) result types count as constructed
							if call, ok := m.(*ast.CallExpr); ok {
								var fobj types.Object
								switch f := call.Fun.(type) {
								case *ast.Ident:
									fobj = pk.TypesInfo.ObjectOf(f)
								case *ast.SelectorExpr:
									fobj = pk.TypesInfo.ObjectOf(f.Sel)
								}
								if fn, ok := fobj.(*types.Func); ok && fn.Pkg() != nil && fn.Pkg() == pk.Types {
									res := fn.Type().(*types.Signature).Results()
									for i := 0; i < res.Len(); i++ {
										if nn := namedPtr(res.At(i).Type()); nn != nil && nn.Obj().Name() != "error" {
											constructed = append(constructed, nn)
										}
									}
								}
							}
							return true
						})
					}
					for _, e := range cc.List {
						ct := pk.TypesInfo.TypeOf(e)
						if nn := namedPtr(ct); nn != nil {
							t.Cases[nn] = constructed
							t.CasePos[nn] = cc.Pos()
						}
					}
				}
				out = append(out, t)
				return true
			})
		}
	}
	return out
}

// bodyRejects: the clause body returns a non-nil last result (error) or panics.
func bodyRejects(pk *packages.Package, body []ast.Stmt) bool {
	rej := false
	for _, st := range body {
		ast.Inspect(st, func(n ast.Node) bool {
			switch x := n.(type) {
			case *ast.ReturnStmt:
				if len(x.Results) > 0 {
					last := x.Results[len(x.Results)-1]
					if id, ok := last.(*ast.Ident); !ok || id.Name != "nil" {
						rej = true
					}
				}
			case *ast.CallExpr:
				if id, ok := x.Fun.(*ast.Ident); ok && id.Name == "panic" {
					rej = true
				}
			}
			return true
		})
	}
	return rej
}

// enumSwitchTable: switch on an enum-typed tag whose clauses return a constant of another enum type.
type enumSwitchTable struct {
	Fn       *ast.FuncDecl
	Pos      token.Pos
	TagType  *types.Named
	ResType  *types.Named
	Map      map[string]string // tag const value -> result const value (ExactString)
	Names    map[string]string // tag value -> first constant name used in the case
	Default  bool
	DefaultE bool
}

func collectEnumSwitches(pk *packages.Package) []*enumSwitchTable {
	var out []*enumSwitchTable
	for _, f := range pk.Syntax {
		for _, d := range f.Decls {
			fd, ok := d.(*ast.FuncDecl)
			if !ok || fd.Body == nil {
				continue
			}
			ast.Inspect(fd.Body, func(n ast.Node) bool {
				sw, ok := n.(*ast.SwitchStmt)
				if !ok || sw.Tag == nil {
					return true
				}
				tt := namedPtr(pk.TypesInfo.TypeOf(sw.Tag))
				if tt == nil {
					return true
				}
				if b, ok := tt.Underlying().(*types.Basic); !ok || b.Info()&types.IsInteger == 0 {
					return true
				}
				t := &enumSwitchTable{Fn: fd, Pos: sw.Pos(), TagType: tt, Map: map[string]string{}, Names: map[string]string{}}
				for _, cl := range sw.Body.List {
					cc := cl.(*ast.CaseClause)
					if cc.List == nil {
						t.Default = true
						t.DefaultE = bodyRejects(pk, cc.Body)
						continue
					}
					// returned constant
					var res constant.Value
					var resT *types.Named
					for _, st := range cc.Body {
						if rs, ok := st.(*ast.ReturnStmt); ok && len(rs.Results) > 0 {
							tv := pk.TypesInfo.Types[rs.Results[0]]
							if tv.Value != nil {
								res = tv.Value
								resT = namedPtr(tv.Type)
							}
						}
					}
					if res == nil {
						continue
					}
					if t.ResType == nil {
						t.ResType = resT
					}
					for _, e := range cc.List {
						tv := pk.TypesInfo.Types[e]
						if tv.Value == nil {
							continue
						}
						k := tv.Value.ExactString()
						t.Map[k] = res.ExactString()
						if _, ok := t.Names[k]; !ok {
							t.Names[k] = types.ExprString(e)
						}
					}
				}
				if len(t.Map) >= 2 && t.ResType != nil {
					out = append(out, t)
				}
				return true
			})
		}
	}
	return out
}

// enumUniverse: distinct constant values of named type nt declared in its package -> a name.
func enumUniverse(nt *types.Named) map[string]string {
	out := map[string]string{}
	sc := nt.Obj().Pkg().Scope()
	names := sc.Names()
	sort.Strings(names)
	for _, nm := range names {
		c, ok := sc.Lookup(nm).(*types.Const)
		if !ok || !types.Identical(c.Type(), nt) {
			continue
		}
		k := c.Val().ExactString()
		if _, seen := out[k]; !seen {
			out[k] = nm
		}
	}
	return out
}

// structLiteral describes one keyed composite literal.
type structLit struct {
	Pos    token.Pos
	Fn     *ast.FuncDecl
	Type   *types.Named
	Keyed  map[string]bool
	Empty  bool
	Holder types.Object // variable the literal (or its address) is assigned to, if any
	// Guards: for every enclosing if statement, the condition and whether the literal sits in its then-branch
	Guards []litGuard
}

type litGuard struct {
	Cond ast.Expr
	Then bool
}

func collectStructLits(pk *packages.Package, want func(*types.Named) bool) []*structLit {
	var out []*structLit
	for _, f := range pk.Syntax {
		for _, d := range f.Decls {
			fd, ok := d.(*ast.FuncDecl)
			if !ok || fd.Body == nil {
				continue
			}
			holder := map[*ast.CompositeLit]types.Object{}
			ast.Inspect(fd.Body, func(n ast.Node) bool {
				as, ok := n.(*ast.AssignStmt)
				if !ok {
					return true
				}
				for i, rhs := range as.Rhs {
					if i >= len(as.Lhs) {
						break
					}
					e := rhs
					if u, ok := e.(*ast.UnaryExpr); ok && u.Op == token.AND {
						e = u.X
					}
					if cl, ok := e.(*ast.CompositeLit); ok {
						if id, ok := as.Lhs[i].(*ast.Ident); ok {
							if o := pk.TypesInfo.ObjectOf(id); o != nil {
								holder[cl] = o
							}
						}
					}
				}
				return true
			})
			ast.Inspect(fd.Body, func(n ast.Node) bool {
				cl, ok := n.(*ast.CompositeLit)
				if !ok {
					return true
				}
				nt := namedPtr(pk.TypesInfo.TypeOf(cl))
				if nt == nil {
					return true
				}
				if _, isStruct := nt.Underlying().(*types.Struct); !isStruct || !want(nt) {
					return true
				}
				sl := &structLit{Pos: cl.Pos(), Fn: fd, Type: nt, Keyed: map[string]bool{}, Empty: len(cl.Elts) == 0, Holder: holder[cl]}
				if path, _ := astutil.PathEnclosingInterval(f, cl.Pos(), cl.End()); len(path) > 0 {
					for i := 1; i < len(path); i++ {
						if is, isIf := path[i].(*ast.IfStmt); isIf {
							sl.Guards = append(sl.Guards, litGuard{Cond: is.Cond, Then: path[i-1] == ast.Node(is.Body)})
						}
					}
				}
				for _, e := range cl.Elts {
					if kv, ok := e.(*ast.KeyValueExpr); ok {
						if id, ok := kv.Key.(*ast.Ident); ok {
							sl.Keyed[id.Name] = true
						}
					}
				}
				out = append(out, sl)
				return true
			})
		}
	}
	return out
}

// lateAssigned: fields assigned as holder.F = … in fn, or in a same-package callee that receives holder.
func lateAssigned(pk *packages.Package, fd *ast.FuncDecl, holder types.Object) map[string]bool {
	return lateAssignedDepth(pk, fd, holder, 0)
}

func findFuncDecl(pk *packages.Package, fn *types.Func) *ast.FuncDecl {
	for _, f := range pk.Syntax {
		for _, d := range f.Decls {
			if fd, ok := d.(*ast.FuncDecl); ok && pk.TypesInfo.Defs[fd.Name] == types.Object(fn) {
				return fd
			}
		}
	}
	return nil
}

func lateAssignedDepth(pk *packages.Package, fd *ast.FuncDecl, holder types.Object, depth int) map[string]bool {
	out := map[string]bool{}
	if holder == nil || fd == nil || fd.Body == nil {
		return out
	}
	if depth < 2 {
		ast.Inspect(fd.Body, func(n ast.Node) bool {
			call, ok := n.(*ast.CallExpr)
			if !ok {
				return true
			}
			id, ok := call.Fun.(*ast.Ident)
			if !ok {
				return true
			}
			fn, ok := pk.TypesInfo.ObjectOf(id).(*types.Func)
			if !ok || fn.Pkg() != pk.Types {
				return true
			}
			for i, a := range call.Args {
				if aid, ok := a.(*ast.Ident); ok && pk.TypesInfo.ObjectOf(aid) == holder {
					cd := findFuncDecl(pk, fn)
					if cd == nil || cd.Type.Params == nil {
						continue
					}
					// the i-th parameter object
					idx := 0
					for _, fld := range cd.Type.Params.List {
						for _, nm := range fld.Names {
							if idx == i {
								for k := range lateAssignedDepth(pk, cd, pk.TypesInfo.Defs[nm], depth+1) {
									out[k] = true
								}
							}
							idx++
						}
					}
				}
			}
			return true
		})
	}
	ast.Inspect(fd.Body, func(n ast.Node) bool {
		as, ok := n.(*ast.AssignStmt)
		if !ok {
			return true
		}
		for _, l := range as.Lhs {
			if se, ok := l.(*ast.SelectorExpr); ok {
				if id, ok := se.X.(*ast.Ident); ok && pk.TypesInfo.ObjectOf(id) == holder {
					out[se.Sel.Name] = true
				}
			}
		}
		return true
	})
	return out
}

// fieldPair: in a keyed literal of struct Dst, field DstField is computed from field SrcField of struct Src.
type fieldPair struct {
	Src, Dst           *types.Named
	SrcField, DstField string
	Unit               string // "s", "ms", "ns" or ""
	Pos                token.Pos
	Fn                 string
}

// collectFieldPairs extracts, from every keyed struct literal of the package, which source struct fields
// each destination field is computed from (selectors on protocol structs inside the value expression).
func collectFieldPairs(pk *packages.Package, isProto func(*types.Named) bool) []fieldPair {
	var out []fieldPair
	for _, f := range pk.Syntax {
		for _, d := range f.Decls {
			fd, ok := d.(*ast.FuncDecl)
			if !ok || fd.Body == nil {
				continue
			}
			ast.Inspect(fd.Body, func(n ast.Node) bool {
				cl, ok := n.(*ast.CompositeLit)
				if !ok {
					return true
				}
				dst := namedPtr(pk.TypesInfo.TypeOf(cl))
				if dst == nil || !isProto(dst) {
					return true
				}
				if _, isStruct := dst.Underlying().(*types.Struct); !isStruct {
					return true
				}
				for _, e := range cl.Elts {
					kv, ok := e.(*ast.KeyValueExpr)
					if !ok {
						continue
					}
					kid, ok := kv.Key.(*ast.Ident)
					if !ok {
						continue
					}
					unit := unitOf(pk, kv.Value)
					ast.Inspect(kv.Value, func(m ast.Node) bool {
						if _, isLit := m.(*ast.CompositeLit); isLit {
							return false // nested literal: its own pairs
						}
						se, ok := m.(*ast.SelectorExpr)
						if !ok {
							return true
						}
						sel := pk.TypesInfo.Selections[se]
						if sel == nil || sel.Kind() != types.FieldVal {
							return true
						}
						src := namedPtr(sel.Recv())
						if src == nil || !isProto(src) {
							return true
						}
						out = append(out, fieldPair{Src: src, Dst: dst, SrcField: se.Sel.Name, DstField: kid.Name, Unit: unit, Pos: kv.Pos(), Fn: fd.Name.Name})
						return true
					})
				}
				return true
			})
		}
	}
	return out
}

// unitOf: the time unit applied in an expression: x.Seconds() / x.Milliseconds() / x.UnixNano(),
// or time.Duration(x) * time.Second / time.Millisecond, time.Unix(0, x).
func unitOf(pk *packages.Package, e ast.Expr) string { return unitOfDepth(pk, e, 0) }

var funcDeclCache = map[*packages.Package]map[types.Object]*ast.FuncDecl{}

// funcDeclsOf indexes the function declarations of a package by their object.
func funcDeclsOf(pk *packages.Package) map[types.Object]*ast.FuncDecl {
	if m, ok := funcDeclCache[pk]; ok {
		return m
	}
	m := map[types.Object]*ast.FuncDecl{}
	for _, f := range pk.Syntax {
		for _, d := range f.Decls {
			if fd, ok := d.(*ast.FuncDecl); ok && fd.Body != nil {
				if o := pk.TypesInfo.Defs[fd.Name]; o != nil {
					m[o] = fd
				}
			}
		}
	}
	funcDeclCache[pk] = m
	return m
}

func unitOfDepth(pk *packages.Package, e ast.Expr, depth int) string {
	unit := ""
	ast.Inspect(e, func(n ast.Node) bool {
		switch x := n.(type) {
		case *ast.CallExpr:
			// a conversion helper of the same package whose body is one return statement (secondsToDuration(x)):
			// the unit is the one its returned expression applies
			if depth < 2 {
				var id *ast.Ident
				switch f := x.Fun.(type) {
				case *ast.Ident:
					id = f
				case *ast.SelectorExpr:
					id = f.Sel
				}
				if id != nil {
					if fd := funcDeclsOf(pk)[pk.TypesInfo.Uses[id]]; fd != nil && len(fd.Body.List) == 1 {
						if rs, isRet := fd.Body.List[0].(*ast.ReturnStmt); isRet && len(rs.Results) == 1 {
							if u := unitOfDepth(pk, rs.Results[0], depth+1); u != "" {
								unit = u
							}
						}
					}
				}
			}
			if se, ok := x.Fun.(*ast.SelectorExpr); ok {
				switch se.Sel.Name {
				case "Seconds":
					unit = "s"
				case "Milliseconds":
					unit = "ms"
				case "Microseconds":
					unit = "us"
				case "Nanoseconds", "UnixNano":
					unit = "ns"
				case "UnixMilli":
					unit = "ms"
				case "Unix":
					// time.Unix(sec, nsec): which argument carries the value?
					if id, ok := se.X.(*ast.Ident); ok && id.Name == "time" && len(x.Args) == 2 {
						isZero := func(a ast.Expr) bool { b, ok := a.(*ast.BasicLit); return ok && b.Value == "0" }
						switch {
						case isZero(x.Args[0]) && !isZero(x.Args[1]):
							unit = "ns"
						case !isZero(x.Args[0]) && isZero(x.Args[1]):
							unit = "s"
						}
					} else if len(x.Args) == 0 {
						unit = "s" // t.Unix()
					}
				}
			}
		case *ast.BinaryExpr:
			if x.Op == token.MUL {
				for _, side := range []ast.Expr{x.X, x.Y} {
					if se, ok := side.(*ast.SelectorExpr); ok {
						if id, ok := se.X.(*ast.Ident); ok && id.Name == "time" {
							switch se.Sel.Name {
							case "Second":
								unit = "s"
							case "Millisecond":
								unit = "ms"
							case "Microsecond":
								unit = "us"
							case "Nanosecond":
								unit = "ns"
							}
						}
					}
				}
			}
		}
		return true
	})
	return unit
}

// nameMismatch: in a keyed literal, `Dst.g: x.f` where x's struct also has a field named g of the same type
// as f — the same-named field was available and a different one was used.
type nameMismatch struct {
	Fn       string
	Dst      *types.Named
	DstField string
	Src      *types.Named
	SrcField string
	Pos      token.Pos
}

func normField(s string) string {
	s = strings.ToLower(s)
	s = strings.ReplaceAll(s, "_", "")
	return s
}

func collectNameAgreement(pk *packages.Package) (checked int, bad []nameMismatch) {
	for _, f := range pk.Syntax {
		for _, d := range f.Decls {
			fd, ok := d.(*ast.FuncDecl)
			if !ok || fd.Body == nil {
				continue
			}
			ast.Inspect(fd.Body, func(n ast.Node) bool {
				cl, ok := n.(*ast.CompositeLit)
				if !ok {
					return true
				}
				dst := namedPtr(pk.TypesInfo.TypeOf(cl))
				if dst == nil {
					return true
				}
				if _, isStruct := dst.Underlying().(*types.Struct); !isStruct {
					return true
				}
				for _, e := range cl.Elts {
					kv, ok := e.(*ast.KeyValueExpr)
					if !ok {
						continue
					}
					kid, ok := kv.Key.(*ast.Ident)
					if !ok {
						continue
					}
					// value: a plain selector chain x.f (possibly wrapped in a conversion T(x.f))
					val := kv.Value
					if call, isCall := val.(*ast.CallExpr); isCall && len(call.Args) == 1 {
						if tv, ok := pk.TypesInfo.Types[call.Fun]; ok && tv.IsType() {
							val = call.Args[0]
						}
					}
					// …or dereferenced / parenthesised: *x.f, (x.f)
					for {
						if st, isStar := val.(*ast.StarExpr); isStar {
							val = st.X
							continue
						}
						if pe, isParen := val.(*ast.ParenExpr); isParen {
							val = pe.X
							continue
						}
						break
					}
					se, ok := val.(*ast.SelectorExpr)
					if !ok {
						continue
					}
					sel := pk.TypesInfo.Selections[se]
					if sel == nil || sel.Kind() != types.FieldVal {
						continue
					}
					src := namedPtr(sel.Recv())
					if src == nil {
						continue
					}
					sst, ok := src.Underlying().(*types.Struct)
					if !ok {
						continue
					}
					// only plain data structs (every field exported): stateful objects legitimately have
					// several same-typed fields with different roles
					plain := sst.NumFields() > 0
					for i := 0; i < sst.NumFields(); i++ {
						if !sst.Field(i).Exported() {
							plain = false
						}
					}
					// …or configuration structs (name ends in Config), whose exported fields are plain data even when
					// the struct carries a few unexported extras
					isConfig := strings.HasSuffix(src.Obj().Name(), "Config") && ast.IsExported(se.Sel.Name)
					if !plain && !isConfig {
						continue
					}
					checked++
					if normField(se.Sel.Name) == normField(kid.Name) {
						continue
					}
					// does src have a field named like the destination, with the type of the field used?
					for i := 0; i < sst.NumFields(); i++ {
						sf := sst.Field(i)
						if !plain && !sf.Exported() {
							continue
						}
						if normField(sf.Name()) == normField(kid.Name) && types.Identical(sf.Type(), sel.Type()) {
							bad = append(bad, nameMismatch{Fn: fd.Name.Name, Dst: dst, DstField: kid.Name, Src: src, SrcField: se.Sel.Name, Pos: kv.Pos()})
						}
					}
				}
				return true
			})
		}
	}
	return
}

// enumSwitchPartition: how a switch over an enum groups the constants into clauses.
type enumSwitchPartition struct {
	Fn      string
	Pos     token.Pos
	TagType *types.Named
	Canon   string
}

func collectEnumPartitions(pk *packages.Package) []*enumSwitchPartition {
	var out []*enumSwitchPartition
	for _, f := range pk.Syntax {
		for _, d := range f.Decls {
			fd, ok := d.(*ast.FuncDecl)
			if !ok || fd.Body == nil {
				continue
			}
			ast.Inspect(fd.Body, func(n ast.Node) bool {
				sw, ok := n.(*ast.SwitchStmt)
				if !ok || sw.Tag == nil {
					return true
				}
				tt := namedPtr(pk.TypesInfo.TypeOf(sw.Tag))
				if tt == nil {
					return true
				}
				var groups []string
				for _, cl := range sw.Body.List {
					cc := cl.(*ast.CaseClause)
					if cc.List == nil {
						continue
					}
					var names []string
					for _, e := range cc.List {
						if tv := pk.TypesInfo.Types[e]; tv.Value != nil {
							names = append(names, tv.Value.ExactString())
						}
					}
					sort.Strings(names)
					groups = append(groups, "{"+strings.Join(names, ",")+"}")
				}
				sort.Strings(groups)
				out = append(out, &enumSwitchPartition{Fn: fd.Name.Name, Pos: sw.Pos(), TagType: tt, Canon: strings.Join(groups, "")})
				return true
			})
		}
	}
	return out
}

// ---- counter direction ----

func dirOfName(s string) string {
	l := strings.ToLower(s)
	switch {
	case strings.HasPrefix(l, "rx"):
		return "rx"
	case strings.HasPrefix(l, "tx"):
		return "tx"
	}
	return ""
}

func dirOfFunc(s string) string {
	l := strings.ToLower(s)
	switch {
	case strings.HasPrefix(l, "read"), strings.HasPrefix(l, "decode"), strings.HasPrefix(l, "receive"):
		return "rx"
	case strings.HasPrefix(l, "write"), strings.HasPrefix(l, "encode"), strings.HasPrefix(l, "send"):
		return "tx"
	}
	return dirOfName(s)
}
