package main

import (
	"fmt"
	"go/token"
	"go/types"
	"sort"
	"strings"

	"golang.org/x/tools/go/ssa"
)

func init() {
	register(&PropSpec{
		ID:          "C20",
		Explanation: "Structural necessary conditions for 'Flush is a barrier and policies cut where they promise'. P1: the policy installed by each exported flush-policy option has exactly the promised trigger table (none: never/never; interval: ticker(Interval)/never; size: never/size > BufferSize; interval-or-size: both; immediate: never/always). P2: in the flush loop the size test is evaluated on the payload size after the write was added, under the stream mutex, and the cut is called exactly on its true edge. P3: the flush loop answers an explicit flush with the result of a cut it has just performed, and Flush returns nil only with that answer. P4: State() takes its snapshot with the stream mutex held. P5: the cut is dominated by the empty-buffer test.",
		NotDecided:  []string{"the conservation identity of State()", "interval timing", "barrier semantics under concurrent Flush callers", "a zero-point write producing a chunk with an empty group"},
		Assumptions: []string{"policies are identified through the exported option constructors that install them"},
		Rules: func(r *Run) {
			le := newLockEngine(r.P)
			ruleC20P1(r)
			cut := findCut(r)
			if cut == nil {
				return
			}
			ruleC20P2(r, le, cut)
			ruleC20P3(r, cut)
			ruleFlushRendezvous(r, "P6")
			ruleC20P4(r, le)
			ruleC20P5(r, cut)
			ruleC01R2(r, cut) // registered under id R2: every cut, whatever triggered it, resets the size the policy is asked about
			ruleC20P7(r)
			ruleOptionSetters(r, "P8", "upstream_options.go")
			ruleC20P9(r)
			ruleNoTickerPerIteration(r, "P10", "/iscp", "/wire")
			ruleC20P11(r)
			r.borrow("C01", func() { ruleC01R8(r) }) // the send buffer owns its slices (a snapshot of buffered points must not change under the caller)
		},
	})
}

// classify IsFlush / Ticker of a concrete policy type
func classifyIsFlush(p *Prog, n *types.Named, depth int) string {
	fn := p.methodOf(n, "IsFlush")
	if fn == nil || fn.Blocks == nil || depth > 3 {
		return "?"
	}
	var results []string
	allInstrs(fn, func(ins ssa.Instruction) {
		ret, ok := ins.(*ssa.Return)
		if !ok || len(ret.Results) != 1 {
			return
		}
		switch v := ret.Results[0].(type) {
		case *ssa.Const:
			results = append(results, "const:"+v.Value.ExactString())
		case *ssa.BinOp:
			// size > p.<field>
			x, y := v.X, v.Y
			op := v.Op
			if _, isParam := y.(*ssa.Parameter); isParam {
				x, y = y, x
				switch op {
				case token.GTR:
					op = token.LSS
				case token.LSS:
					op = token.GTR
				case token.GEQ:
					op = token.LEQ
				case token.LEQ:
					op = token.GEQ
				}
			}
			if prm, isParam := x.(*ssa.Parameter); isParam && prm == fn.Params[len(fn.Params)-1] {
				yl := p.Leaves(y, provOpts{})
				fld := ""
				for _, l := range yl {
					if strings.HasPrefix(l, "field:") {
						fld = l[strings.LastIndexByte(l, '.')+1:]
					}
				}
				results = append(results, fmt.Sprintf("size %s %s", op, fld))
			} else {
				results = append(results, "binop:?")
			}
		case *ssa.Call:
			if o := calleeObj(&v.Call); o != nil && o.Name() == "IsFlush" {
				if cf := v.Call.StaticCallee(); cf != nil && cf.Signature.Recv() != nil {
					if in := namedOf(cf.Signature.Recv().Type()); in != nil {
						// passes its own size argument along?
						if len(v.Call.Args) >= 2 && v.Call.Args[len(v.Call.Args)-1] == ssa.Value(fn.Params[len(fn.Params)-1]) {
							results = append(results, classifyIsFlush(p, in, depth+1))
							return
						}
					}
				}
			}
			results = append(results, "call:?")
		default:
			results = append(results, "other:?")
		}
	})
	results = uniqSorted(results)
	return strings.Join(results, "|")
}

func uniqSorted(s []string) []string {
	sort.Strings(s)
	return uniq(s)
}

func classifyTicker(p *Prog, n *types.Named, depth int) string {
	fn := p.methodOf(n, "Ticker")
	if fn == nil || fn.Blocks == nil || depth > 3 {
		return "?"
	}
	var results []string
	allInstrs(fn, func(ins ssa.Instruction) {
		ret, ok := ins.(*ssa.Return)
		if !ok || len(ret.Results) != 2 {
			return
		}
		// delegation: both results extracted from one call of Ticker
		if ex, ok := ret.Results[0].(*ssa.Extract); ok {
			if c, ok := ex.Tuple.(*ssa.Call); ok {
				if o := calleeObj(&c.Call); o != nil && o.Name() == "Ticker" {
					if cf := c.Call.StaticCallee(); cf != nil && cf.Signature.Recv() != nil {
						if in := namedOf(cf.Signature.Recv().Type()); in != nil {
							results = append(results, classifyTicker(p, in, depth+1))
							return
						}
					}
				}
			}
		}
		leaves0 := p.Leaves(ret.Results[0], provOpts{WithBase: true})
		var leaves []string
		for _, l := range leaves0 {
			leaves = append(leaves, strings.TrimPrefix(l, "base:"))
		}
		switch {
		case hasLeaf(leaves, "call:time.NewTicker"):
			fld := ""
			for _, l := range leaves {
				if strings.HasPrefix(l, "field:/iscp.") {
					fld = l[strings.LastIndexByte(l, '.')+1:]
				}
			}
			// the channel must be the ticker's C
			okC := hasLeaf(leaves, "field:time.Ticker.C")
			if okC {
				results = append(results, "ticker("+fld+")")
			} else {
				results = append(results, "ticker?("+fld+")")
			}
		default:
			if _, isMk := canonVal(ret.Results[0]).(*ssa.MakeChan); isMk {
				results = append(results, "never")
			} else if cv, isCT := ret.Results[0].(*ssa.ChangeType); isCT {
				if _, isMk := cv.X.(*ssa.MakeChan); isMk {
					results = append(results, "never")
				} else {
					results = append(results, "other:?")
				}
			} else {
				results = append(results, "other:"+joinLeaves(leaves))
			}
		}
	})
	return strings.Join(uniqSorted(results), "|")
}

func ruleC20P1(r *Run) {
	r.Begin("P1", "policy table: the FlushPolicy installed by each exported option has the promised (ticker, size test): None → (never, false); IntervalOnly → (ticker(Interval), false); BufferSizeOnly → (never, size > BufferSize); IntervalOrBufferSize → (ticker(Interval), size > BufferSize); Immediately → (never, true)", 5)
	p := r.P
	want := map[string][2]string{
		"WithUpstreamFlushPolicyNone":                 {"never", "const:false"},
		"WithUpstreamFlushPolicyIntervalOnly":         {"ticker(Interval)", "const:false"},
		"WithUpstreamFlushPolicyBufferSizeOnly":       {"never", "size > BufferSize"},
		"WithUpstreamFlushPolicyIntervalOrBufferSize": {"ticker(Interval)", "size > BufferSize"},
		"WithUpstreamFlushPolicyImmediately":          {"never", "const:true"},
	}
	var names []string
	for k := range want {
		names = append(names, k)
	}
	sort.Strings(names)
	for _, name := range names {
		fn := p.Func("/iscp", name)
		if fn == nil {
			r.Undecided("anchor "+name, "exported flush-policy option not found")
			continue
		}
		// the policy type: alloc of a type implementing FlushPolicy stored into UpstreamConfig.FlushPolicy inside fn or its closure
		var pol *types.Named
		withAnon(fn, func(f *ssa.Function) {
			allInstrs(f, func(ins ssa.Instruction) {
				st, ok := ins.(*ssa.Store)
				if !ok || fieldKeyOfAddr(st.Addr) != "/iscp.UpstreamConfig.FlushPolicy" {
					return
				}
				v := st.Val
				if mi, ok := v.(*ssa.MakeInterface); ok {
					v = mi.X
				}
				if n := namedOf(v.Type()); n != nil {
					pol = n
				}
			})
		})
		if pol == nil {
			r.Check(name, false, p.pos(fn.Pos()), name, "the option does not install a concrete FlushPolicy")
			continue
		}
		tick := classifyTicker(p, pol, 0)
		isf := classifyIsFlush(p, pol, 0)
		w := want[name]
		// parameter wiring: the option's arguments reach the policy's fields
		r.Check(name, tick == w[0] && isf == w[1], p.pos(fn.Pos()), name, fmt.Sprintf("installs %s: ticker=%s (want %s), size test=%s (want %s)", pol.Obj().Name(), tick, w[0], isf, w[1]))
	}
	// option arguments reach the policy fields
	for _, chk := range []struct{ opt, field, param string }{
		{"WithUpstreamFlushPolicyIntervalOnly", "/iscp.flushPolicyIntervalOnly.Interval", "interval"},
		{"WithUpstreamFlushPolicyBufferSizeOnly", "/iscp.flushPolicyBufferSizeOnly.BufferSize", "bufferSize"},
		{"WithUpstreamFlushPolicyIntervalOrBufferSize", "/iscp.flushPolicyIntervalOnly.Interval", "interval"},
		{"WithUpstreamFlushPolicyIntervalOrBufferSize", "/iscp.flushPolicyBufferSizeOnly.BufferSize", "bufferSize"},
	} {
		fn := p.Func("/iscp", chk.opt)
		if fn == nil {
			continue
		}
		found, ok := false, false
		var got []string
		withAnon(fn, func(f *ssa.Function) {
			allInstrs(f, func(ins ssa.Instruction) {
				if st, isSt := ins.(*ssa.Store); isSt && fieldKeyOfAddr(st.Addr) == chk.field {
					found = true
					got = p.Leaves(st.Val, provOpts{})
					for _, l := range got {
						if strings.HasPrefix(l, "param:") && strings.HasSuffix(l, "#"+chk.param) {
							ok = true
						}
					}
				}
			})
		})
		if !found {
			continue // the policy may be built differently; P1's classification already pins the behaviour
		}
		r.Check(chk.opt+" wires "+chk.param, ok, p.pos(fn.Pos()), chk.opt, fmt.Sprintf("%s <- [%s]", chk.field, joinLeaves(got)))
	}
}

func ruleC20P2(r *Run, le *LockEngine, cut *cutInfo) {
	r.Begin("P2", "trigger on the updated size: in the flush loop, FlushPolicy.IsFlush is given sendBufferPayloadSize after the write's payload size was added to it, with the stream mutex held; the cut is called on the true edge of that test and not on its false edge", 4)
	p := r.P
	calls := p.moduleCalls("/iscp.FlushPolicy.IsFlush")
	var sites []ssa.Instruction
	for _, c := range calls {
		if recvTypeName(c.Parent()) == "Upstream" {
			sites = append(sites, c)
		}
	}
	if len(sites) != 1 {
		r.Check("IsFlush site", false, "", "", fmt.Sprintf("%d call sites of FlushPolicy.IsFlush in Upstream methods (want 1)", len(sites)))
		return
	}
	c := sites[0]
	fn := c.Parent()
	name := fnName(fn)
	leaves := p.Leaves(instrCall(c).Args[0], provOpts{})
	r.Check(name+" IsFlush on payload size", hasLeaf(leaves, "field:"+fkPayload) && len(leavesWithin(leaves, []string{"field:" + fkPayload, "param:*"})) == 0, posOf(p, c), name, "IsFlush argument derives from ["+joinLeaves(leaves)+"]")
	// an add to sendBufferPayloadSize dominates the IsFlush call, and adds the write's payload size
	// (a direct store, or a call to a helper that stores the field on all of its paths)
	var add ssa.Value
	allInstrs(fn, func(ins ssa.Instruction) {
		if v, ok := p.resetsField(ins, fkPayload); ok && dominatesInstr(ins, c) {
			add = v
		}
	})
	okAdd := false
	detail := "no store to sendBufferPayloadSize dominates the test"
	if add != nil {
		al := p.Leaves(add, provOpts{})
		okAdd = hasLeaf(al, "field:"+fkPayload) && hasLeaf(al, "call:/iscp.DataPointGroup.payloadSize")
		detail = "the dominating store writes [" + joinLeaves(al) + "] (old size + the group's payloadSize())"
	}
	r.Check(name+" size updated before the test", okAdd, posOf(p, c), name, detail)
	h := le.HeldAt(c)
	mu := upstreamMuKey(fn)
	r.Check(name+" test under lock", h[mu] == modeW, posOf(p, c), name, fmt.Sprintf("locks held at the test: %v", h))
	// cut on the true edge only: the tests of the IsFlush result, here or — when a helper hands the flag straight back
	// (bufferDataPoints(dpg) bool) — at the helper's call sites
	cv, _ := c.(ssa.Value)
	tests, complete := p.testsOf(fn, cv, 0)
	if len(tests) == 0 || !complete {
		r.Check(name+" cut on the true edge", false, posOf(p, c), name, "the result of IsFlush does not decide a branch (directly, or as the unchanged result of a helper at all its call sites)")
		return
	}
	cutOnTrue, cutOnFalse := true, false
	for _, ifs := range tests {
		tSucc, fSucc := ifs.Block().Succs[0], ifs.Block().Succs[1]
		// a negated test (if !flag) swaps the edges
		if u, isU := ifs.Cond.(*ssa.UnOp); isU && u.Op == token.NOT {
			tSucc, fSucc = fSucc, tSucc
		}
		onT, onF := false, false
		allInstrs(ifs.Block().Parent(), func(ins ssa.Instruction) {
			if cc, ok := ins.(*ssa.Call); ok && cc.Call.StaticCallee() == cut.Fn {
				if edgeDominates(ifs.Block(), tSucc, ins.Block()) {
					onT = true
				}
				if edgeDominates(ifs.Block(), fSucc, ins.Block()) {
					onF = true
				}
			}
		})
		if !onT {
			cutOnTrue = false
		}
		if onF {
			cutOnFalse = true
		}
	}
	r.Check(name+" cut on the true edge", cutOnTrue && !cutOnFalse, posOf(p, tests[0]), name, fmt.Sprintf("cut reached on the true edge: %v; on the false edge: %v", cutOnTrue, cutOnFalse))
}

func ruleC20P3(r *Run, cut *cutInfo) {
	r.Begin("P3", "barrier: the flush loop sends on the explicit-flush result channel only the result of a cut performed for that request; Flush returns nil only by returning what it received from that channel; Flush hands its own done channel to the loop", 3)
	p := r.P
	// sends on explicitlyFlushResultCh
	n := 0
	for _, fn := range p.Funcs {
		if recvTypeName(fn) != "Upstream" {
			continue
		}
		allInstrs(fn, func(ins ssa.Instruction) {
			var ch, val ssa.Value
			switch x := ins.(type) {
			case *ssa.Send:
				ch, val = x.Chan, x.X
			case *ssa.Select:
				for _, st := range x.States {
					if st.Dir == types.SendOnly && hasLeaf(p.Leaves(st.Chan, provOpts{}), "field:/iscp.Upstream.explicitlyFlushResultCh") {
						ch, val = st.Chan, st.Send
					}
				}
			}
			if ch == nil || !hasLeaf(p.Leaves(ch, provOpts{}), "field:/iscp.Upstream.explicitlyFlushResultCh") {
				return
			}
			n++
			name := fnName(fn)
			// the value is the result of a call of the cut evaluated in this iteration
			okVal := false
			if c, ok := val.(*ssa.Call); ok && c.Call.StaticCallee() == cut.Fn && dominatesInstr(c, ins) {
				okVal = true
			}
			r.Check(name+" answers with the cut's result", okVal, posOf(p, ins), name, "value sent on explicitlyFlushResultCh: "+val.String())
		})
	}
	if n == 0 {
		r.Check("explicit flush answered", false, "", "", "nothing is ever sent on explicitlyFlushResultCh")
	}
	fl := r.method("/iscp", "Upstream", "Flush")
	if fl == nil {
		return
	}
	name := fnName(fl)
	okRet := true
	var bad []string
	nilViaRecv := false
	allInstrs(fl, func(ins ssa.Instruction) {
		ret, ok := ins.(*ssa.Return)
		if !ok {
			return
		}
		l := p.Leaves(ret.Results[0], provOpts{})
		if hasLeaf(l, "const:nil") {
			okRet = false
			bad = append(bad, posOf(p, ret)+": returns a literal nil")
		}
		if hasLeaf(l, "recvfrom:/iscp.Upstream.explicitlyFlushResultCh") || hasLeaf(l, "select") {
			nilViaRecv = true
		}
	})
	r.Check(name+" nil only from the loop's answer", okRet && nilViaRecv, p.pos(fl.Pos()), name, fmt.Sprintf("literal-nil returns: %v; a return of the value received from the result channel exists: %v", bad, nilViaRecv))
	// the request carries Flush's own ctx.Done()
	okReq := false
	allInstrs(fl, func(ins ssa.Instruction) {
		if sel, ok := ins.(*ssa.Select); ok {
			for _, st := range sel.States {
				if st.Dir == types.SendOnly && hasLeaf(p.Leaves(st.Chan, provOpts{}), "field:/iscp.Upstream.explicitlyFlushCh") {
					if doneCtx(st.Send) != nil {
						okReq = true
					}
				}
			}
		}
	})
	r.Check(name+" request carries its done channel", okReq, p.pos(fl.Pos()), name, "the value sent on explicitlyFlushCh must be the caller context's Done() channel so the loop can abandon the answer")
}

func ruleC20P4(r *Run, le *LockEngine) {
	r.Begin("P4", "snapshot under lock: every function that copies the send buffer and aliases into an UpstreamState reads them with the stream mutex held (directly or by all its static callers)", 1)
	p := r.P
	st := r.method("/iscp", "Upstream", "State")
	if st == nil {
		return
	}
	name := fnName(st)
	mu := upstreamMuKey(st)
	ok := false
	allInstrs(st, func(ins ssa.Instruction) {
		if c, isCall := ins.(*ssa.Call); isCall {
			if cf := c.Call.StaticCallee(); cf != nil && p.Analysed(cf) && recvTypeName(cf) == "Upstream" {
				if _, held := le.HeldAt(ins)[mu]; held {
					ok = true
				}
			}
		}
		if u, isU := ins.(*ssa.UnOp); isU && u.Op == token.MUL && fieldKeyOfAddr(u.X) == fkSendBuffer {
			if _, held := le.HeldAt(ins)[mu]; held {
				ok = true
			}
		}
	})
	r.Check(name+" under lock", ok, p.pos(st.Pos()), name, "State() must read the buffer (or call the helper that does) while holding the stream mutex")
}

func ruleC20P5(r *Run, cut *cutInfo) {
	r.Begin("P5", "no cut of an empty buffer: the chunk construction is dominated by the false edge of a test len(sendBuffer) == 0 whose true edge returns", 1)
	p := r.P
	fn := cut.Fn
	name := fnName(fn)
	ok := false
	allInstrs(fn, func(ins ssa.Instruction) {
		ifs, isIf := ins.(*ssa.If)
		if !isIf {
			return
		}
		bo, isBo := ifs.Cond.(*ssa.BinOp)
		if !isBo {
			return
		}
		var lenSide, other ssa.Value = bo.X, bo.Y
		if _, isC := bo.X.(*ssa.Const); isC {
			lenSide, other = bo.Y, bo.X
		}
		k, isK := constInt(other)
		c, isCall := lenSide.(*ssa.Call)
		if !isK || !isCall {
			return
		}
		b, isB := c.Call.Value.(*ssa.Builtin)
		if !isB || b.Name() != "len" {
			return
		}
		if !hasLeaf(p.Leaves(c.Call.Args[0], provOpts{}), "field:"+fkSendBuffer) {
			return
		}
		var nonEmpty *ssa.BasicBlock
		switch {
		case bo.Op == token.EQL && k == 0:
			nonEmpty = ifs.Block().Succs[1]
		case bo.Op == token.NEQ && k == 0, bo.Op == token.GTR && k == 0:
			nonEmpty = ifs.Block().Succs[0]
		case bo.Op == token.LEQ && k == 0, bo.Op == token.LSS && k == 1:
			nonEmpty = ifs.Block().Succs[1]
		case bo.Op == token.GEQ && k == 1:
			nonEmpty = ifs.Block().Succs[0]
		}
		if nonEmpty != nil && edgeDominates(ifs.Block(), nonEmpty, cut.Build.Block()) {
			ok = true
		}
	})
	r.Check(name+" empty-buffer guard", ok, posOf(p, cut.Build), name, "the chunk construction must be reachable only when len(sendBuffer) != 0 (an empty cut burns a sequence number and sends an empty chunk)")
}

// ruleC20P7: accepted means accepted. Once the hand-over of a write to the flush loop has happened the call must
// report success: the points are in the buffer and will be cut. Reporting an error for them makes every account of
// accepted versus buffered and sent points wrong.
func ruleC20P7(r *Run) {
	r.Begin("P7", "a handed-over write reports success: in WriteDataPoints every return reachable from the select branch that sent the group to the flush loop returns a nil error, and the Done() branches return a non-nil one", 2)
	p := r.P
	fn := r.method("/iscp", "Upstream", "WriteDataPoints")
	if fn == nil {
		return
	}
	name := fnName(fn)
	found := false
	allInstrs(fn, func(ins ssa.Instruction) {
		sel, ok := ins.(*ssa.Select)
		if !ok {
			return
		}
		for i, st := range sel.States {
			sb := selectStateBlock(sel, i)
			if sb == nil {
				continue
			}
			if st.Dir == types.SendOnly && hasLeaf(p.Leaves(st.Chan, provOpts{}), "field:/iscp.Upstream.dpgCh") {
				found = true
				okAll := true
				var at ssa.Instruction = sel
				for _, b := range fn.Blocks {
					if !(b == sb || sb.Dominates(b)) {
						continue
					}
					if ret, isRet := b.Instrs[len(b.Instrs)-1].(*ssa.Return); isRet {
						rs := retResults(ret)
						if len(rs) == 0 || !isNilConst(rs[len(rs)-1]) {
							okAll = false
							at = ret
						}
					}
				}
				// the branch may also fall through to a shared return: follow unconditional jumps
				if ret := firstReturnFromAny(sb); ret != nil {
					rs := retResults(ret)
					if len(rs) == 0 || !isNilConst(rs[len(rs)-1]) {
						okAll = false
						at = ret
					}
				}
				r.Check(name+" accepted write returns nil", okAll, posOf(p, at), name, "after the group was handed to the flush loop the call returns something other than the nil constant")
			}
			if st.Dir == types.RecvOnly {
				if _, isDone := doneLike(st.Chan); isDone {
					if ret := firstReturnFrom(sb); ret != nil {
						r.Check(fmt.Sprintf("%s done branch#%d returns an error", name, i), nonNilErrReturn(ret), posOf(p, ret), name, "a write refused because a context ended must not report success")
					}
				}
			}
		}
	})
	if !found {
		r.Undecided(name+" hand-over", "no select sends on Upstream.dpgCh")
	}
}

// firstReturnFromAny follows unconditional jumps (joins included) to the first return.
func firstReturnFromAny(b *ssa.BasicBlock) *ssa.Return {
	for d := 0; d < 6 && b != nil; d++ {
		for _, ins := range b.Instrs {
			if ret, ok := ins.(*ssa.Return); ok {
				return ret
			}
		}
		if len(b.Succs) != 1 {
			return nil
		}
		b = b.Succs[0]
	}
	return nil
}

// ruleC20P9: a snapshot has as many elements as what it copies. A slice made with the capacity of its source as its
// length carries the spare room of the source's backing array as zero elements — points nobody wrote.
func ruleC20P9(r *Run) {
	r.Begin("P9", "snapshots do not invent elements: in package iscp no slice is made with a length taken from cap() of another slice (a copy is sized by len; spare capacity belongs in make's third argument)", 1)
	p := r.P
	n := 0
	for _, fn := range p.Funcs {
		if fnPkgPath(fn) != modPath+"/iscp" || fn.Blocks == nil {
			continue
		}
		name := fnName(fn)
		k := 0
		allInstrs(fn, func(ins ssa.Instruction) {
			mk, ok := ins.(*ssa.MakeSlice)
			if !ok {
				return
			}
			if _, isK := mk.Len.(*ssa.Const); isK {
				return
			}
			k++
			n++
			fromCap := false
			var walk func(v ssa.Value, d int)
			walk = func(v ssa.Value, d int) {
				if d > 4 {
					return
				}
				switch x := v.(type) {
				case *ssa.Call:
					if b, isB := x.Call.Value.(*ssa.Builtin); isB && b.Name() == "cap" {
						fromCap = true
					}
				case *ssa.Convert:
					walk(x.X, d+1)
				case *ssa.BinOp:
					walk(x.X, d+1)
					walk(x.Y, d+1)
				case *ssa.Phi:
					for _, e := range x.Edges {
						walk(e, d+1)
					}
				}
			}
			walk(mk.Len, 0)
			r.Check(fmt.Sprintf("%s make#%d sized by len", name, k), !fromCap, posOf(p, mk), name, "the length of the new slice is the capacity of another one: the copy carries zero elements for the unused room of the source's backing array")
		})
	}
	r.Stat("sized_makes", n)
}

// ruleC20P11: "no chunk is ever cut empty". flush decides by the number of buffered data ids, and the flush loop makes
// an entry for the data id of every group it is handed; a group without points must therefore never be handed over:
// the hand-over in WriteDataPoints lies on the "has points" edge of a test of len(points).
func ruleC20P11(r *Run) {
	r.Begin("P11", "no entry without points: the hand-over to the flush loop in (*Upstream).WriteDataPoints is dominated by the non-empty edge of a test of the number of points written", 1)
	p := r.P
	w := r.method("/iscp", "Upstream", "WriteDataPoints")
	if w == nil {
		return
	}
	name := fnName(w)
	var hand ssa.Instruction
	allInstrs(w, func(ins ssa.Instruction) {
		switch x := ins.(type) {
		case *ssa.Send:
			if hasLeaf(p.Leaves(x.Chan, provOpts{}), "field:/iscp.Upstream.dpgCh") {
				hand = ins
			}
		case *ssa.Select:
			for _, st := range x.States {
				if st.Dir == types.SendOnly && hasLeaf(p.Leaves(st.Chan, provOpts{}), "field:/iscp.Upstream.dpgCh") {
					hand = ins
				}
			}
		}
	})
	if hand == nil {
		r.Undecided(name+" hand-over", "no send on Upstream.dpgCh in WriteDataPoints")
		return
	}
	ok := false
	allInstrs(w, func(ins ssa.Instruction) {
		ifs, isIf := ins.(*ssa.If)
		if !isIf {
			return
		}
		bo, isBo := ifs.Cond.(*ssa.BinOp)
		if !isBo {
			return
		}
		c, isC := bo.X.(*ssa.Call)
		if !isC {
			return
		}
		if b, isB := c.Call.Value.(*ssa.Builtin); !isB || b.Name() != "len" {
			return
		}
		if _, isP := canonVal(c.Call.Args[0]).(*ssa.Parameter); !isP {
			return
		}
		k, isK := constInt(bo.Y)
		if !isK {
			return
		}
		var nonEmpty *ssa.BasicBlock
		switch {
		case bo.Op == token.EQL && k == 0, bo.Op == token.LSS && k == 1, bo.Op == token.LEQ && k == 0:
			nonEmpty = ifs.Block().Succs[1]
		case bo.Op == token.NEQ && k == 0, bo.Op == token.GTR && k == 0, bo.Op == token.GEQ && k == 1:
			nonEmpty = ifs.Block().Succs[0]
		}
		if nonEmpty != nil && edgeDominates(ifs.Block(), nonEmpty, hand.Block()) {
			ok = true
		}
	})
	r.Check(name+" hands over only groups with points", ok, posOf(p, hand), name, "a write without points is handed to the flush loop, which makes a buffer entry for its data id; flush counts entries, not points, and cuts a chunk that holds one empty group")
}
