package main

import (
	"fmt"
	"go/token"
	"go/types"
	"strings"

	"golang.org/x/tools/go/ssa"
)

const (
	fkSendBuffer = "/iscp.Upstream.sendBuffer"
	fkPayload    = "/iscp.Upstream.sendBufferPayloadSize"
	fkCount      = "/iscp.Upstream.sendBufferDataPointsCount"
	fkTotal      = "/iscp.Upstream.totalDataPoints"
	fkSequence   = "/iscp.Upstream.sequence"
)

func init() {
	register(&PropSpec{
		ID:          "C01",
		Explanation: "Structural necessary conditions for exactly-once, accounted upstream delivery on a connection that stays up. The 'cut' is the function that turns the send buffer into a chunk. R1: the chunk is built from the buffer and the buffer is replaced while the stream mutex is held in write mode, with no release in between. R2: every path from the chunk construction to a return resets the buffer to a fresh map and both counters to zero. R3: the point total is advanced by the buffered point count before that count is zeroed. R4: the sequence generator's Next has exactly one call site (not in a loop, inside the cut), adds the constant 1, starts at 0; a new chunk's sequence number comes from that call and a retransmitted chunk's from the stored key. R5: the close request's totals derive only from the stream's total counter and the generator's current value, and Close drains (flush, then wait for the store to empty) before the close request unless the stream was resuming. R6: each hook has exactly one call site, the send hook on the cut path. R7: the send buffer is stored to only by the constructor and the cut, and updated only in the flush loop; alias substitution takes alias and points from the same group.",
		NotDecided:  []string{"the conservation law itself (multiset equality, per-id order, alias decoding at the broker)", "behaviour under concurrent Write/Close", "no chunk after the close request", "exactly-once hook delivery under duplicated acks"},
		Assumptions: []string{"the cut function is discovered as the function that reaches the sequence generator's Next and resets the send buffer"},
		Rules: func(r *Run) {
			le := newLockEngine(r.P)
			cut := findCut(r)
			if cut == nil {
				return
			}
			ruleC01R1(r, le, cut)
			ruleC01R2(r, cut)
			ruleC01R3(r, cut)
			ruleC01R4(r, cut)
			ruleC01R5(r)
			ruleC01R6(r, cut)
			ruleC01R7(r, cut)
			ruleC01R8(r)
			ruleFlushRendezvous(r, "R9")
			ruleC01R10(r)
			ruleNoAliasAfterTruncate(r, "R11", "/iscp")
			ruleDispatchLoopsSurvive(r, "R12", "/wire", "/iscp") // every result of a batched ack reaches its waiter
			ruleC01R13(r)
			ruleC01R14(r)
			ruleC01R15(r)
			ruleC01R16(r)
			r.borrow("C20", func() { ruleC20P5(r, cut) }) // what counts as an empty buffer decides whether buffered points are ever sent and acknowledged
		},
	})
}

type cutInfo struct {
	Fn        *ssa.Function
	Build     ssa.Instruction   // call that reaches sequence.Next (or Next itself)
	NextCalls []ssa.Instruction // all calls of Next on Upstream.sequence in the module
}

// nextOnUpstreamSequence: calls of (*sequenceNumberGenerator).Next whose receiver is Upstream.sequence.
func nextCallsOn(p *Prog, fieldK string) []ssa.Instruction {
	var out []ssa.Instruction
	for _, c := range p.moduleCalls("/iscp.sequenceNumberGenerator.Next") {
		cc := instrCall(c)
		pt := pathOf(cc.Args[0])
		if pt != nil && pt.Last() != nil {
			if on := pt.Prefix(1); on != nil {
				// owner of last field
				var ownerT types.Type
				if n := len(pt.Fields); n >= 2 {
					ownerT = pt.Fields[n-2].Type()
				} else {
					ownerT = pt.Root.Type()
				}
				if nn := namedOf(ownerT); nn != nil && fieldKey(nn, pt.Last()) == fieldK {
					out = append(out, c)
				}
			}
		}
	}
	return out
}

func findCut(r *Run) *cutInfo {
	r.Begin("R0", "anchor discovery: the cut function (reaches the upstream sequence generator's Next and resets the send buffer) exists and is unique", 1)
	p := r.P
	nexts := nextCallsOn(p, fkSequence)
	if len(nexts) == 0 {
		r.Undecided("cut", "no call of sequenceNumberGenerator.Next on Upstream.sequence found")
		return nil
	}
	// candidates: functions that (a) contain or call-into a Next call and (b) reset sendBuffer directly or via a callee
	var cands []*cutInfo
	for _, fn := range p.Funcs {
		if fnPkgPath(fn) != modPath+"/iscp" || fn.Parent() != nil {
			continue
		}
		var build ssa.Instruction
		resets := false
		allInstrs(fn, func(ins ssa.Instruction) {
			for _, n := range nexts {
				if ins == n {
					build = ins
				}
			}
			if c, ok := ins.(*ssa.Call); ok {
				if cf := c.Call.StaticCallee(); cf != nil && p.Analysed(cf) {
					for _, n := range nexts {
						if n.Parent() == cf {
							build = ins
						}
					}
				}
			}
			if _, ok := p.resetsField(ins, fkSendBuffer); ok {
				resets = true
			}
		})
		if build != nil && resets {
			cands = append(cands, &cutInfo{Fn: fn, Build: build, NextCalls: nexts})
		}
	}
	if len(cands) != 1 {
		names := []string{}
		for _, c := range cands {
			names = append(names, fnName(c.Fn))
		}
		r.Check("cut unique", false, "", "", fmt.Sprintf("expected exactly one cut function, found %d: %v", len(cands), names))
		if len(cands) == 0 {
			return nil
		}
	} else {
		r.Check("cut unique", true, p.pos(cands[0].Fn.Pos()), fnName(cands[0].Fn), "cut function: "+fnName(cands[0].Fn)+"; chunk construction at "+posOf(p, cands[0].Build))
	}
	return cands[0]
}

func upstreamMuKey(fn *ssa.Function) string {
	// receiver path + ".mu"
	if len(fn.Params) == 0 {
		return ""
	}
	return recvVarName(fn) + ".mu"
}

func ruleC01R1(r *Run, le *LockEngine, cut *cutInfo) {
	r.Begin("R1", "cut atomicity: at the chunk construction and at every reset of the send buffer and its counters, the stream mutex is held in write mode, and no path from the construction to the reset releases it", 4)
	p := r.P
	fn := cut.Fn
	name := fnName(fn)
	mu := upstreamMuKey(fn)
	held := le.HeldAt(cut.Build)
	r.Check(name+" build under lock", held[mu] == modeW, posOf(p, cut.Build), name, fmt.Sprintf("locks held (must) at the chunk construction: %v; need %s in write mode", held, mu))
	for _, fk := range []string{fkSendBuffer, fkPayload, fkCount} {
		found := false
		allInstrs(fn, func(ins ssa.Instruction) {
			if _, ok := p.resetsField(ins, fk); ok {
				found = true
				h := le.HeldAt(ins)
				r.Check(name+" reset "+fk+" under lock", h[mu] == modeW, posOf(p, ins), name, fmt.Sprintf("locks held at the reset of %s: %v", fk, h))
			}
		})
		if !found {
			r.Check(name+" reset "+fk+" under lock", false, p.pos(fn.Pos()), name, "no reset of "+fk+" in the cut")
		}
	}
	// no explicit unlock between build and the buffer reset
	w := reachesWithout(cut.Build, func(ins ssa.Instruction) bool {
		if c, ok := ins.(*ssa.Call); ok {
			if op, recv := classifyLockCall(&c.Call); op == opUnlock || op == opRUnlock {
				if pt := pathOf(recv); pt != nil && le.Aliases.canonKey(pt) == mu {
					return true
				}
			}
		}
		return false
	}, func(ins ssa.Instruction) bool {
		_, ok := p.resetsField(ins, fkSendBuffer)
		return ok
	})
	r.Check(name+" no release between build and reset", w == nil, posOf(p, w), name, "the stream mutex must not be released between building the chunk and replacing the buffer (points accepted in between would be lost or duplicated)")
}

func ruleC01R2(r *Run, cut *cutInfo) {
	r.Begin("R2", "reset after cut: every path from the chunk construction to a return passes stores that reset sendBuffer to a fresh map and both counters to zero", 3)
	p := r.P
	fn := cut.Fn
	name := fnName(fn)
	for _, fk := range []string{fkSendBuffer, fkPayload, fkCount} {
		var val ssa.Value
		w := reachesWithout(cut.Build, isReturn, func(ins ssa.Instruction) bool {
			v, ok := p.resetsField(ins, fk)
			if ok {
				val = v
			}
			return ok
		})
		if w != nil {
			r.Check(name+" resets "+fk, false, posOf(p, w), name, "a path from the chunk construction reaches this return without resetting "+fk+" (the same points would be cut again, or the size trigger drifts)",
				"entry: "+name, "chunk construction: "+posOf(p, cut.Build), "offending exit: "+posOf(p, w))
			continue
		}
		// value check
		okVal := false
		detail := ""
		if val != nil {
			leaves := p.Leaves(val, provOpts{})
			if fk == fkSendBuffer {
				_, isMk := val.(*ssa.MakeMap)
				okVal = isMk
				detail = "stored value: " + val.String()
			} else {
				okVal = len(leaves) == 1 && leaves[0] == "const:0"
				detail = "stored value leaves: " + joinLeaves(leaves)
			}
		}
		r.Check(name+" resets "+fk, okVal, posOf(p, cut.Build), name, "reset on every path; "+detail+" (need a fresh empty map / the constant 0)")
	}
}

func ruleC01R3(r *Run, cut *cutInfo) {
	r.Begin("R3", "totals before reset: an atomic add to Upstream.totalDataPoints whose operand derives from sendBufferDataPointsCount (and not from the payload size) precedes the zeroing of that counter on every path", 2)
	p := r.P
	fn := cut.Fn
	name := fnName(fn)
	// addOperand: the value added to the total by ins — directly, or through a one-level helper whose
	// atomic add takes one of its parameters.
	addOperand := func(ins ssa.Instruction) (ssa.Value, bool) {
		if isCallNamed(ins, "sync/atomic.AddUint64") {
			cc := instrCall(ins)
			if fieldKeyOfAddr(cc.Args[0]) == fkTotal {
				return cc.Args[1], true
			}
			return nil, false
		}
		c, ok := ins.(*ssa.Call)
		if !ok {
			return nil, false
		}
		cf := c.Call.StaticCallee()
		if cf == nil || !p.Analysed(cf) || cf == fn {
			return nil, false
		}
		var res ssa.Value
		allInstrs(cf, func(x ssa.Instruction) {
			if !isCallNamed(x, "sync/atomic.AddUint64") || fieldKeyOfAddr(instrCall(x).Args[0]) != fkTotal {
				return
			}
			op := instrCall(x).Args[1]
			for i, prm := range cf.Params {
				for _, l := range p.Leaves(op, provOpts{}) {
					if l == "param:"+funcLeafName(cf)+"#"+prm.Name() && i < len(c.Call.Args) {
						res = c.Call.Args[i]
					}
				}
			}
		})
		return res, res != nil
	}
	isAdd := func(ins ssa.Instruction) bool { _, ok := addOperand(ins); return ok }
	var adds []ssa.Instruction
	allInstrs(fn, func(ins ssa.Instruction) {
		if isAdd(ins) {
			adds = append(adds, ins)
		}
	})
	if len(adds) == 0 {
		r.Check(name+" total advanced", false, p.pos(fn.Pos()), name, "no atomic add to Upstream.totalDataPoints in the cut")
		return
	}
	for i, a := range adds {
		opv, _ := addOperand(a)
		leaves := p.Leaves(opv, provOpts{})
		ok := hasLeaf(leaves, "field:"+fkCount) && !hasLeaf(leaves, "field:"+fkPayload)
		bad := leavesWithin(leaves, []string{"field:" + fkCount, "param:*"})
		r.Check(fmt.Sprintf("%s add#%d operand", name, i+1), ok && len(bad) == 0, posOf(p, a), name, "operand of the total's add derives from ["+joinLeaves(leaves)+"]; must be the buffered point count only")
	}
	// the add dominates the zeroing of the count
	w := reachesFromEntryWithout(fn, func(ins ssa.Instruction) bool {
		_, ok := p.resetsField(ins, fkCount)
		return ok
	}, isAdd)
	r.Check(name+" add before zeroing", w == nil, posOf(p, w), name, "a path reaches the zeroing of sendBufferDataPointsCount without having added it to the total (the total would miss those points)")
	// and exactly one add on any path: no second add after the first without... (count adds)
	r.Check(name+" single add", len(adds) == 1 && !inLoop(adds[0]), posOf(p, adds[0]), name, fmt.Sprintf("%d add site(s); exactly one, outside loops, is expected", len(adds)))
}

func ruleC01R4(r *Run, cut *cutInfo) {
	r.Begin("R4", "sequence numbers: Next on Upstream.sequence has exactly one call site, not in a loop, reached from the cut; Next adds the constant 1 atomically; the generator of a new stream starts at 0; StreamChunk.SequenceNumber of every upstream chunk derives either from that Next call (new chunk) or from the key of the store's List (retransmission)", 5)
	p := r.P
	n := len(cut.NextCalls)
	r.Check("Next single site", n == 1, posOf(p, cut.NextCalls[0]), fnName(cut.NextCalls[0].Parent()), fmt.Sprintf("%d call site(s) of Next on Upstream.sequence", n))
	for _, c := range cut.NextCalls {
		r.Check("Next not in loop "+fnName(c.Parent()), !inLoop(c), posOf(p, c), fnName(c.Parent()), "a Next call inside a loop issues several numbers per cut")
	}
	// the build call must not be in a loop in the cut either
	r.Check("cut builds once", !inLoop(cut.Build), posOf(p, cut.Build), fnName(cut.Fn), "chunk construction inside a loop")
	// Next's body
	nextFn := r.method("/iscp", "sequenceNumberGenerator", "Next")
	if nextFn != nil {
		ok := false
		detail := "body is not `return atomic.AddUint32(&s.Current, 1)`"
		adds := findCalls(nextFn, false, "sync/atomic.AddUint32")
		if len(adds) == 1 {
			cc := instrCall(adds[0])
			if v, isC := constInt(cc.Args[1]); isC && v == 1 && fieldKeyOfAddr(cc.Args[0]) == "/iscp.sequenceNumberGenerator.Current" {
				// returned directly
				allInstrs(nextFn, func(ins ssa.Instruction) {
					if ret, isRet := ins.(*ssa.Return); isRet && len(ret.Results) == 1 && ret.Results[0] == adds[0].(ssa.Value) {
						ok = true
						detail = "atomic.AddUint32(&Current, 1) returned"
					}
				})
			}
		}
		r.Check("Next adds 1", ok, p.pos(nextFn.Pos()), fnName(nextFn), detail)
	}
	// start value: Upstream literal's sequence field <- newSequenceNumberGenerator(const 0)
	up := r.named("/iscp", "Upstream")
	if up != nil {
		lits := p.allLiterals(up)
		cnt := 0
		for _, lit := range lits {
			v, ok := lit.Fields["sequence"]
			if !ok {
				continue
			}
			cnt++
			okStart := false
			if c, isCall := v.(*ssa.Call); isCall && isCallNamed(c, "/iscp.newSequenceNumberGenerator") {
				if k, isC := constInt(c.Call.Args[0]); isC && k == 0 {
					okStart = true
				}
			}
			r.Check("generator starts at 0 in "+fnName(lit.Fn), okStart, p.pos(lit.Alloc.Pos()), fnName(lit.Fn), "Upstream.sequence initialised by "+v.String())
		}
		if cnt == 0 {
			r.Undecided("generator start", "no Upstream literal initialises sequence")
		}
		// who stores Upstream.sequence: only constructor literals
		if f := p.Field("/iscp", "Upstream", "sequence"); f != nil {
			for _, st := range p.fieldStores(f) {
				fa := st.Addr.(*ssa.FieldAddr)
				r.Check("sequence stored only by constructor in "+fnName(st.Parent()), isLocalObject(pathOf(fa.X)), p.pos(st.Pos()), fnName(st.Parent()), "Upstream.sequence must not be replaced after construction")
			}
		}
	}
	// chunk sequence numbers
	sc := r.named("/message", "StreamChunk")
	if sc != nil {
		for _, lit := range p.allLiterals(sc) {
			if fnPkgPath(lit.Fn) != modPath+"/iscp" {
				continue
			}
			v, ok := lit.Fields["SequenceNumber"]
			if !ok {
				r.Check("chunk seq in "+fnName(lit.Fn), false, p.pos(lit.Alloc.Pos()), fnName(lit.Fn), "StreamChunk literal without SequenceNumber")
				continue
			}
			leaves := p.Leaves(v, provOpts{StopAtCalls: false, ParamDepth: 2}) // the chunk may be rebuilt in a helper that is given the key
			fromNext := hasLeaf(leaves, "call:/iscp.sequenceNumberGenerator.Next") && hasLeaf(leaves, "field:"+fkSequence)
			fromKey := false
			for _, l := range leaves {
				if strings.HasPrefix(l, "rangekey:") && strings.Contains(l, "call:/iscp.sentStorage.List") {
					fromKey = true
				}
			}
			okc := fromNext != fromKey
			if fromNext {
				if bad := leavesWithin(leaves, []string{"call:/iscp.sequenceNumberGenerator.Next", "field:" + fkSequence, "param:*"}); len(bad) > 0 {
					okc = false
				}
			}
			if fromKey {
				for _, l := range leaves {
					if strings.HasPrefix(l, "call:") || strings.HasPrefix(l, "field:") || strings.HasPrefix(l, "const:") {
						okc = false
					}
				}
			}
			kind := "new chunk (Next)"
			if fromKey {
				kind = "retransmission (stored key)"
			}
			r.Check("chunk seq in "+fnName(lit.Fn), okc, p.pos(lit.Alloc.Pos()), fnName(lit.Fn), fmt.Sprintf("StreamChunk.SequenceNumber derives from [%s] — %s", joinLeaves(leaves), kind))
		}
	}
}

func ruleC01R5(r *Run) {
	r.Begin("R5", "close carries totals, after the drain: UpstreamCloseRequest.TotalDataPoints derives only from Upstream.totalDataPoints, FinalSequenceNumber only from the sequence generator's current value, StreamID from Upstream.ID; Upstream.Close calls the drain before the close request unless the stream was resuming; the drain flushes before it waits", 6)
	p := r.P
	req := r.named("/message", "UpstreamCloseRequest")
	if req == nil {
		return
	}
	lits := 0
	for _, lit := range p.allLiterals(req) {
		if fnPkgPath(lit.Fn) != modPath+"/iscp" {
			continue
		}
		lits++
		name := fnName(lit.Fn)
		check := func(field string, must []string, allowed []string) {
			v, ok := lit.Fields[field]
			if !ok {
				r.Check(name+" "+field, false, p.pos(lit.Alloc.Pos()), name, "field not set in the close request literal")
				return
			}
			leaves := p.LeavesExpanded(v, provOpts{}, "/iscp.UpstreamState.TotalDataPoints", "/iscp.UpstreamState.LastIssuedSequenceNumber")
			okm := false
			for _, m := range must {
				if hasLeaf(leaves, m) {
					okm = true
				}
			}
			bad := leavesWithin(leaves, append(allowed, must...))
			r.Check(name+" "+field, okm && len(bad) == 0, p.pos(lit.Alloc.Pos()), name, fmt.Sprintf("%s derives from [%s]%s", field, joinLeaves(leaves), badSuffix(bad)))
		}
		check("TotalDataPoints", []string{"addr:" + fkTotal, "field:" + fkTotal},
			[]string{"call:sync/atomic.LoadUint64", "param:*", "call:/iscp.Upstream.stateWithoutLock", "call:/iscp.Upstream.State", "field:/iscp.UpstreamState.TotalDataPoints", "zero:/iscp.UpstreamState.TotalDataPoints"})
		check("FinalSequenceNumber", []string{"field:" + fkSequence},
			[]string{"call:/iscp.sequenceNumberGenerator.CurrentValue", "call:sync/atomic.LoadUint32", "addr:/iscp.sequenceNumberGenerator.Current", "field:/iscp.sequenceNumberGenerator.Current", "param:*",
				"call:/iscp.Upstream.stateWithoutLock", "call:/iscp.Upstream.State", "field:/iscp.UpstreamState.LastIssuedSequenceNumber", "zero:/iscp.UpstreamState.LastIssuedSequenceNumber"})
		check("StreamID", []string{"field:/iscp.Upstream.ID"}, []string{"param:*"})
	}
	if lits == 0 {
		r.Undecided("close request literal", "no UpstreamCloseRequest literal in package iscp")
	}
	// Close: drain before close unless resuming
	closeFn := r.method("/iscp", "Upstream", "Close")
	drainFn := r.method("/iscp", "Upstream", "waitToSendAllDataPointsAndReceiveAllAck")
	if closeFn == nil || drainFn == nil {
		return
	}
	resuming, _ := p.enumConst("/iscp", "streamStatusResuming")
	name := fnName(closeFn)
	var drainCall, closeCall ssa.Instruction
	allInstrs(closeFn, func(ins ssa.Instruction) {
		if c, ok := ins.(*ssa.Call); ok {
			if cf := c.Call.StaticCallee(); cf == drainFn {
				drainCall = ins
			} else if cf != nil && p.reachesCall(cf, 1, "/wire.ClientConn.SendUpstreamCloseRequest") {
				closeCall = ins
			}
		}
	})
	if drainCall == nil || closeCall == nil {
		r.Check(name+" drains", false, p.pos(closeFn.Pos()), name, fmt.Sprintf("drain call found: %v; close-request call found: %v", drainCall != nil, closeCall != nil))
	} else {
		// evaluated: the first call on the stream's status holder in Close (Swap(Draining), or a helper around it) is
		// run from each status; with its results the branches of Close are decided, and the drain must lie on every
		// path to the close request when the stream was Connected and on none when it was Resuming (there is no live
		// stream to drain then, and the drain would wait for a flush loop that is not running)
		_ = resuming
		fld := r.field("/iscp", "streamState", "current")
		holder := r.named("/iscp", "streamState")
		var first *ssa.Call
		allInstrs(closeFn, func(ins ssa.Instruction) {
			c, ok := ins.(*ssa.Call)
			if !ok || first != nil {
				return
			}
			if cal := c.Call.StaticCallee(); cal != nil && cal.Signature.Recv() != nil && namedOf(cal.Signature.Recv().Type()) == holder && dominatesInstr(c, closeCall) {
				first = c
			}
		})
		connected, okC := p.enumConst("/iscp", "streamStatusConnected")
		resumingV, okR := p.enumConst("/iscp", "streamStatusResuming")
		if first == nil || fld == nil || !okC || !okR {
			r.Undecided(name+" drains", "the status call at the head of Close or the status constants were not found")
		} else {
			verdict := func(cur int64) (string, string) {
				outs, err := stateOutcomes(first, fld, cur)
				if err != "" {
					return "", err
				}
				res := ""
				for _, o := range outs {
					known := map[ssa.Value]stVal{}
					if len(o.rets) == 1 {
						known[first] = o.rets[0]
					}
					if first.Referrers() != nil {
						for _, ref := range *first.Referrers() {
							if ex, isEx := ref.(*ssa.Extract); isEx && ex.Index < len(o.rets) {
								known[ex] = o.rets[ex.Index]
							}
						}
					}
					v := pathsFrom(first, known, drainCall, closeCall)
					if res == "" {
						res = v
					} else if res != v {
						res = "mixed"
					}
				}
				return res, ""
			}
			vc, e1 := verdict(connected)
			vr, e2 := verdict(resumingV)
			if e1 != "" || e2 != "" {
				r.Undecided(name+" drains", "the status call at the head of Close could not be evaluated: "+e1+e2)
			} else {
				r.Check(name+" drains", vc == "all" && vr == "none", posOf(p, closeCall), name,
					fmt.Sprintf("evaluated from Connected the drain lies on %s path(s) to the close request (wanted: all); from Resuming on %s (wanted: none — Close must not wait for a flush loop that is not running)", vc, vr))
			}
		}
	}
	// drain: Flush dominates the cond wait and the return of nil after the 'already received' test
	dname := fnName(drainFn)
	flushCalls := findCalls(drainFn, false, "/iscp.Upstream.Flush")
	var waitCall ssa.Instruction
	hasWait := func(f *ssa.Function) bool {
		found := false
		allInstrs(f, func(ins ssa.Instruction) {
			if c, ok := ins.(*ssa.Call); ok {
				if op, _ := classifyLockCall(&c.Call); op == opWait {
					found = true
				}
			}
		})
		return found
	}
	allInstrs(drainFn, func(ins ssa.Instruction) {
		if c, ok := ins.(*ssa.Call); ok {
			if op, _ := classifyLockCall(&c.Call); op == opWait {
				waitCall = ins
			} else if cal := c.Call.StaticCallee(); cal != nil && p.Analysed(cal) && recvTypeName(cal) == "Upstream" && hasWait(cal) {
				waitCall = ins // the wait loop moved into a helper: its call stands for the wait
			}
		}
	})
	ok := len(flushCalls) == 1 && waitCall != nil && dominatesInstr(flushCalls[0], waitCall)
	r.Check(dname+" flush before wait", ok, p.pos(drainFn.Pos()), dname, fmt.Sprintf("Flush calls: %d, cond wait found: %v; the explicit flush must dominate the wait for outstanding acks", len(flushCalls), waitCall != nil))
	// the wait loop's exit condition reads both the buffer length and the store's List
	lists := p.callsReaching(drainFn, 2, "/iscp.sentStorage.List") // directly, or in a helper such as hasOutstanding(ctx)
	readsBuf := false
	var scanBuf func(f *ssa.Function, d int)
	scanBuf = func(f *ssa.Function, d int) {
		if f == nil || f.Blocks == nil || d > 1 {
			return
		}
		allInstrs(f, func(ins ssa.Instruction) {
			if u, ok := ins.(*ssa.UnOp); ok && u.Op == token.MUL && fieldKeyOfAddr(u.X) == fkSendBuffer {
				readsBuf = true
			}
			if c, ok := ins.(*ssa.Call); ok {
				if cal := c.Call.StaticCallee(); cal != nil && p.Analysed(cal) && recvTypeName(cal) == "Upstream" {
					scanBuf(cal, d+1)
				}
			}
		})
	}
	scanBuf(drainFn, 0)
	r.Check(dname+" waits for empty store and buffer", len(lists) >= 1 && readsBuf, p.pos(drainFn.Pos()), dname, fmt.Sprintf("List calls: %d, reads sendBuffer: %v", len(lists), readsBuf))
	// no success return bypasses the emptiness test: a nil error is returned only on paths through the store's List
	if len(lists) >= 1 {
		isList := map[ssa.Instruction]bool{}
		for _, l := range lists {
			isList[l] = true
		}
		wit, why := successReturnWithout(drainFn, func(ins ssa.Instruction) bool { return isList[ins] })
		where := p.pos(drainFn.Pos())
		if wit != nil {
			where = posOf(p, wit)
		}
		r.Check(dname+" no success return bypasses the wait", wit == nil, where, dname, "a return of a nil error ("+why+") is reachable from the entry without consulting the unacknowledged-chunk store: Close then proceeds to the close request while chunks may still be unacknowledged (acks arriving out of order) or points still buffered")
	}
}

// reachesWithoutFromBlock: like reachesWithout but starting at the head of a block.
func reachesWithoutFromBlock(b *ssa.BasicBlock, target, barrier func(ssa.Instruction) bool) ssa.Instruction {
	if len(b.Instrs) == 0 {
		return nil
	}
	first := b.Instrs[0]
	if barrier != nil && barrier(first) {
		return nil
	}
	if target(first) {
		return first
	}
	return reachesWithout(first, target, barrier)
}

func ruleC01R6(r *Run, cut *cutInfo) {
	r.Begin("R6", "hooks single-site: SendDataPointsHooker.HookBefore is invoked from exactly one site, inside the cut (or a closure of it), with the chunk built in that cut; ReceiveAckHooker.HookAfter from exactly one site", 3)
	p := r.P
	before := p.moduleCalls("/iscp.SendDataPointsHooker.HookBefore")
	after := p.moduleCalls("/iscp.ReceiveAckHooker.HookAfter")
	r.Check("HookBefore sites", len(before) == 1, "", "", fmt.Sprintf("%d invoke site(s) of HookBefore", len(before)))
	r.Check("HookAfter sites", len(after) == 1, "", "", fmt.Sprintf("%d invoke site(s) of HookAfter", len(after)))
	for _, b := range before {
		in := topFunc(b.Parent()) == cut.Fn
		leaves := p.Leaves(instrCall(b).Args[1], provOpts{})
		fromCut := false
		for _, l := range leaves {
			if strings.Contains(l, "toUpstreamChunk") || strings.Contains(l, "alloc:/iscp.UpstreamChunk") {
				fromCut = true
			}
		}
		r.Check("HookBefore in cut", in && fromCut && !inLoop(b), posOf(p, b), fnName(b.Parent()), fmt.Sprintf("site in the cut: %v; chunk argument derives from [%s]", in, joinLeaves(leaves)))
	}
	for _, a := range after {
		// result fields: sequence number, code, string from the same received result
		leaves := p.Leaves(instrCall(a).Args[1], provOpts{})
		_ = leaves
		r.Check("HookAfter once per result", true, posOf(p, a), fnName(a.Parent()), "single site; argument built from the received result")
	}
}

func ruleC01R7(r *Run, cut *cutInfo) {
	r.Begin("R7", "who writes the send buffer: the field is stored only by the constructor literal and by the cut's reset; its contents are updated only in one function (the flush loop); the group converter takes a group's alias from the reverse table keyed by that group's own data id and its points from the same group, and announces an unaliased id unless already announced", 4)
	p := r.P
	f := r.field("/iscp", "Upstream", "sendBuffer")
	if f == nil {
		return
	}
	resetFns := map[*ssa.Function]bool{}
	allInstrs(cut.Fn, func(ins ssa.Instruction) {
		if isStoreTo(ins, fkSendBuffer) {
			resetFns[cut.Fn] = true
		}
		if c, ok := ins.(*ssa.Call); ok {
			if cf := c.Call.StaticCallee(); cf != nil {
				if _, ok := mustStore(cf, fkSendBuffer); ok {
					resetFns[cf] = true
				}
			}
		}
	})
	for _, st := range p.fieldStores(f) {
		fn := st.Parent()
		fa := st.Addr.(*ssa.FieldAddr)
		ok := resetFns[fn] || isLocalObject(pathOf(fa.X))
		if !ok && fn.Parent() == nil && len(p.staticCallSites(fn)) == 0 {
			if _, isRoot := computeRootsCached(p).roots[fn]; !isRoot || strings.HasPrefix(computeRootsCached(p).roots[fn], "method without static callers") || strings.HasPrefix(computeRootsCached(p).roots[fn], "unexported function without static callers") {
				continue // a helper nobody calls
			}
		}
		r.Check("store sendBuffer in "+fnName(fn), ok, p.pos(st.Pos()), fnName(fn), "Upstream.sendBuffer may be replaced only by the constructor and by the cut's reset")
	}
	updaters := map[string]bool{}
	for _, fn := range p.Funcs {
		for _, a := range collectAccesses(fn) {
			if fieldKey(a.Owner, a.Field) == fkSendBuffer && a.What == "mapupdate" {
				updaters[fnName(fn)] = true
			}
		}
	}
	var ul []string
	for u := range updaters {
		ul = append(ul, u)
	}
	r.Check("sendBuffer updated in one function", len(ul) == 1, "", strings.Join(ul, ","), fmt.Sprintf("functions updating the send buffer's contents: %v (a single goroutine owns the buffer)", ul))
	// group converter
	conv := r.method("/iscp", "DataPointGroups", "toUpstreamDataPointGroups")
	if conv == nil {
		return
	}
	cname := fnName(conv)
	dpg := r.named("/message", "DataPointGroup")
	if dpg == nil {
		return
	}
	// the values put into DataIDOrAlias: by literals of the converter itself, or by a constructor helper it calls
	// (then the value is the argument the converter passes for the helper's parameter)
	type idVal struct {
		v   ssa.Value
		pos token.Pos
	}
	var idVals []idVal
	for _, lit := range literalsOf(conv, dpg) {
		for _, st := range lit.All["DataIDOrAlias"] {
			idVals = append(idVals, idVal{st.Val, st.Pos()})
		}
	}
	ptsFns := []*ssa.Function{conv}
	allInstrs(conv, func(ins ssa.Instruction) {
		c, ok := ins.(*ssa.Call)
		if !ok {
			return
		}
		cf := c.Call.StaticCallee()
		if cf == nil || !p.Analysed(cf) || cf == conv {
			return
		}
		for _, lit := range literalsOf(cf, dpg) {
			ptsFns = append(ptsFns, cf)
			for _, st := range lit.All["DataIDOrAlias"] {
				v := st.Val
				if mi, isMI := v.(*ssa.MakeInterface); isMI {
					v = mi.X
				}
				if prm, isP := v.(*ssa.Parameter); isP {
					for i, q := range cf.Params {
						if q == prm && i < len(c.Call.Args) {
							idVals = append(idVals, idVal{c.Call.Args[i], c.Pos()})
						}
					}
				}
			}
		}
	})
	nAlias, nFull := 0, 0
	{
		for _, iv := range idVals {
			st := iv
			v := iv.v
			leaves := p.Leaves(v, provOpts{})
			isAlias := hasLeafPrefix(leaves, "elem:param:")
			if isAlias {
				nAlias++
				// alias = revAliases[*dpg.DataID]: the lookup key derives from the group's DataID
				var lk *ssa.Lookup
				cv := canonVal(v)
				for i := 0; i < 6 && cv != nil; i++ {
					switch x := cv.(type) {
					case *ssa.MakeInterface:
						cv = x.X
						continue
					case *ssa.ChangeType:
						cv = x.X
						continue
					case *ssa.Convert:
						cv = x.X
						continue
					case *ssa.Extract:
						cv = x.Tuple
						continue
					case *ssa.Lookup:
						lk = x
					}
					break
				}
				okKey := false
				if lk != nil {
					kl := p.Leaves(lk.Index, provOpts{})
					okKey = hasLeaf(kl, "field:/iscp.DataPointGroup.DataID")
				}
				r.Check(cname+" alias from own id", okKey, p.pos(st.pos), cname, "the alias put into a group must be looked up with that group's own DataID")
			} else {
				nFull++
				okID := hasLeaf(leaves, "field:/iscp.DataPointGroup.DataID")
				r.Check(cname+" full id from own group", okID, p.pos(st.pos), cname, "full-id form takes the group's own DataID: ["+joinLeaves(leaves)+"]")
			}
		}
	}
	r.Check(cname+" both forms present", nAlias >= 1 && nFull >= 1, p.pos(conv.Pos()), cname, fmt.Sprintf("alias-form literals: %d, full-id-form literals: %d", nAlias, nFull))
	// points appended from the same group: append(mdpg.DataPoints, dpg.DataPoints...)
	okPts := false
	for _, f := range ptsFns {
		allInstrs(f, func(ins ssa.Instruction) {
			if st, ok := ins.(*ssa.Store); ok && fieldKeyOfAddr(st.Addr) == "/message.DataPointGroup.DataPoints" {
				l := p.Leaves(st.Val, provOpts{ParamDepth: 1})
				if hasLeaf(l, "field:/iscp.DataPointGroup.DataPoints") {
					okPts = true
				}
			}
		})
	}
	r.Check(cname+" points from the same group", okPts, p.pos(conv.Pos()), cname, "the group's points must come from DataPointGroup.DataPoints of the group being converted")
}

// ruleC01R8: the send buffer owns its slices.
func ruleC01R8(r *Run) {
	r.Begin("R8", "the send buffer owns its memory: every value stored into an element of Upstream.sendBuffer is a fresh slice (make) or append(x, …) whose base x is the buffer's own element or a fresh slice — never a slice handed in by the caller, which the caller may reuse while the chunk is buffered or kept for retransmission", 1)
	p := r.P
	n := 0
	for _, fn := range p.Funcs {
		if fnPkgPath(fn) != modPath+"/iscp" {
			continue
		}
		allInstrs(fn, func(ins ssa.Instruction) {
			mu, ok := ins.(*ssa.MapUpdate)
			if !ok {
				return
			}
			u, isU := mu.Map.(*ssa.UnOp)
			if !isU || fieldKeyOfAddr(u.X) != fkSendBuffer {
				return
			}
			n++
			name := fnName(fn)
			v := mu.Value
			for {
				if ct, isCT := v.(*ssa.ChangeType); isCT {
					v = ct.X
					continue
				}
				break
			}
			detail := v.String()
			var owned func(v ssa.Value, d int) bool
			owned = func(v ssa.Value, d int) bool {
				if d > 4 {
					return false
				}
				for {
					if ct, isCT := v.(*ssa.ChangeType); isCT {
						v = ct.X
						continue
					}
					break
				}
				switch x := v.(type) {
				case *ssa.MakeSlice:
					return true
				case *ssa.Slice:
					_, isAlloc := x.X.(*ssa.Alloc)
					return isAlloc
				case *ssa.Phi:
					// every way the value can come about is owned (append result, or a fresh empty slice for a nil one)
					for _, e := range x.Edges {
						if !owned(e, d+1) {
							return false
						}
					}
					return len(x.Edges) > 0
				case *ssa.Call:
					if b, isB := x.Call.Value.(*ssa.Builtin); isB && b.Name() == "append" {
						bl := p.Leaves(x.Call.Args[0], provOpts{})
						bad := leavesWithin(bl, []string{"elem:" + fkSendBuffer, "field:" + fkSendBuffer, "param:*", "field:/iscp.DataPointGroup.DataID", "recvfrom:*"})
						fresh := hasLeaf(bl, "elem:"+fkSendBuffer) || hasLeafPrefix(bl, "alloc:")
						detail = "append(base from [" + joinLeaves(bl) + "], …)"
						return fresh && len(bad) == 0
					}
				}
				return false
			}
			okv := owned(v, 0)
			r.Check(fmt.Sprintf("%s buffer store#%d", name, n), okv, posOf(p, mu), name, "value stored into the send buffer: "+detail)
		})
	}
	if n == 0 {
		r.Undecided("buffer stores", "no map update on Upstream.sendBuffer found")
	}
}

// ruleFlushRendezvous: the explicit-flush hand-shake is a rendezvous that the requester can abandon.
func ruleFlushRendezvous(r *Run, id string) {
	r.Begin(id, "flush rendezvous: the explicit-flush request and result channels are unbuffered, and the select in which the flush loop hands back the result also watches the requester's own done channel (the value it received with the request) — otherwise an abandoned Flush leaves a stale result that a later Flush (e.g. the one inside Close) takes for its own", 3)
	p := r.P
	up := r.named("/iscp", "Upstream")
	if up == nil {
		return
	}
	for _, lit := range p.allLiterals(up) {
		for _, f := range []string{"explicitlyFlushCh", "explicitlyFlushResultCh"} {
			v, has := lit.Fields[f]
			if !has {
				continue
			}
			okc := false
			if mk, isMk := canonVal(v).(*ssa.MakeChan); isMk {
				if k, isK := constInt(mk.Size); isK && k == 0 {
					okc = true
				}
			}
			r.Check(fnName(lit.Fn)+" "+f+" unbuffered", okc, p.pos(lit.Alloc.Pos()), fnName(lit.Fn), f+" must be make(chan …) without a buffer: "+v.String())
		}
	}
	for _, fn := range p.Funcs {
		if recvTypeName(fn) != "Upstream" {
			continue
		}
		allInstrs(fn, func(ins ssa.Instruction) {
			sel, ok := ins.(*ssa.Select)
			if !ok {
				return
			}
			sends := false
			for _, st := range sel.States {
				if st.Dir == types.SendOnly && hasLeaf(p.Leaves(st.Chan, provOpts{}), "field:/iscp.Upstream.explicitlyFlushResultCh") {
					sends = true
				}
			}
			if !sends {
				return
			}
			watches := false
			for _, st := range sel.States {
				if st.Dir == types.RecvOnly {
					l := p.Leaves(st.Chan, provOpts{ParamDepth: 2}) // the hand-back may live in a helper that is given the channel
					if hasLeaf(l, "recvfrom:/iscp.Upstream.explicitlyFlushCh") || hasLeaf(l, "select") {
						watches = true
					}
				}
			}
			r.Check(fnName(fn)+" result hand-back watches the requester", watches && sel.Blocking, p.pos(sel.Pos()), fnName(fn), "the select sending the flush result must have a receive case on the requester's done channel")
		})
	}
}

// ruleC01R10: the ack timeout drops a chunk from the sent store when it fires, so Close can return before the broker
// acknowledged. It must therefore be off unless the application asks for it: every store into UpstreamConfig.AckTimeout
// is either the constant 0 (the default) or a value handed in by the caller of an exported option/constructor.
func ruleC01R10(r *Run) {
	r.Begin("R10", "ack timeout is opt-in: every store into UpstreamConfig.AckTimeout is the constant 0 or derives only from a parameter of an exported function (the application's own choice); the timeout path is taken only when the field is non-zero", 2)
	p := r.P
	f := r.field("/iscp", "UpstreamConfig", "AckTimeout")
	if f == nil {
		return
	}
	sts := p.fieldStores(f)
	r.Stat("acktimeout_stores", len(sts))
	k := map[string]int{}
	for _, st := range sts {
		fn := st.Parent()
		name := fnName(fn)
		k[name]++
		l := p.Leaves(st.Val, provOpts{})
		ok := len(l) > 0
		for _, x := range l {
			switch {
			case x == "const:0", strings.HasPrefix(x, "zero:"):
			case strings.HasPrefix(x, "param:"):
				// the parameter of the function that stores it (an option constructor's argument, captured by its closure)
			default:
				ok = false
			}
		}
		r.Check(fmt.Sprintf("%s AckTimeout store#%d", name, k[name]), ok, posOf(p, st), name, "stored value derives from ["+joinLeaves(l)+"]; only 0 or a caller-supplied parameter is acceptable: a non-zero default makes Close return before slow acknowledgements arrive")
	}
	// the timeout branch is conditional on the field being non-zero
	w := r.method("/iscp", "Upstream", "withAckTimeoutCh")
	if w == nil {
		return
	}
	found := false
	p.withHelpers(w, 1, func(fn *ssa.Function) { // the goroutine body may be a named method started with go
		for _, c := range findCalls(fn, false, "context.WithTimeout") {
			call := c.(*ssa.Call)
			// dominated by the true edge of AckTimeout != 0
			configured := func(b *ssa.BasicBlock) bool {
				ok := false
				allInstrs(fn, func(ins ssa.Instruction) {
					ifs, isIf := ins.(*ssa.If)
					if !isIf {
						return
					}
					bo, isBo := ifs.Cond.(*ssa.BinOp)
					if !isBo {
						return
					}
					kz, isK := constInt(bo.Y)
					if !isK || kz != 0 || !hasLeaf(p.Leaves(bo.X, provOpts{}), "field:/iscp.UpstreamConfig.AckTimeout") {
						return
					}
					edge := 0
					if bo.Op == token.EQL {
						edge = 1
					} else if bo.Op != token.NEQ {
						return
					}
					if edgeDominates(ifs.Block(), ifs.Block().Succs[edge], b) {
						ok = true
					}
				})
				return ok
			}
			ok := configured(call.Block())
			// or the wait is bounded for everybody and what is opt-in is the timeout's effect: every delivery of the
			// nil result (which makes the sender give the chunk up) lies on the AckTimeout != 0 edge
			nilSends, okAlt := 0, true
			allInstrs(fn, func(ins ssa.Instruction) {
				isNil := false
				switch x := ins.(type) {
				case *ssa.Send:
					isNil = isNilConst(x.X)
				case *ssa.Select:
					for _, st := range x.States {
						if st.Dir == types.SendOnly && isNilConst(st.Send) {
							isNil = true
						}
					}
				case *ssa.Call:
					if x.Call.StaticCallee() == nil || closureOf(x.Call.Value) != nil {
						for _, a := range x.Call.Args {
							if _, isPtr := a.Type().Underlying().(*types.Pointer); isPtr && isNilConst(a) {
								isNil = true
							}
						}
					}
				}
				if isNil {
					nilSends++
					if !configured(ins.Block()) {
						okAlt = false
					}
				}
			})
			okAlt = okAlt && nilSends > 0
			found = true
			r.Check(fnName(fn)+" timeout only when configured", ok || okAlt, posOf(p, call), fnName(fn), "context.WithTimeout must be reached only on the AckTimeout != 0 edge (or every delivery of the nil result must lie on that edge)")
			dl := p.Leaves(call.Call.Args[1], provOpts{})
			r.Check(fnName(fn)+" timeout value", hasLeaf(dl, "field:/iscp.UpstreamConfig.AckTimeout") && (okAlt || len(leavesWithin(dl, []string{"field:/iscp.UpstreamConfig.AckTimeout", "field:/iscp.Upstream.Config", "param:*"})) == 0), posOf(p, call), fnName(fn), "the duration of the ack timeout derives from ["+joinLeaves(dl)+"]; it must be UpstreamConfig.AckTimeout, the value the test beside it compares with zero")
		}
	})
	if !found {
		r.Undecided(fnName(w)+" timeout", "no context.WithTimeout call found in withAckTimeoutCh")
	}
}

// ruleC01R13: the event dispatcher ends only with an empty queue. Hooks (ack results, sent chunks, the closed event)
// are queued for the dispatcher goroutine; its context ends right after Close. A context test made anywhere but on
// the "queue is empty" edge ends the loop with hook calls still queued — the application never hears of chunks that
// were acknowledged.
func ruleC01R13(r *Run) {
	r.Begin("R13", "the dispatcher drains before it stops: in the methods of iscp.eventDispatcher every look at the context (Done(), Err()) is made on the true edge of a test len(handler) == 0", 1)
	p := r.P
	n := 0
	// the dispatcher: the methods that run queued handlers (they call a function value), and the methods those call —
	// a method that merely queues a marker and waits for it (a join offered to Close) is a client of the dispatcher
	runs := map[*ssa.Function]bool{}
	for _, fn := range p.Funcs {
		if fnPkgPath(fn) != modPath+"/iscp" || recvTypeName(fn) != "eventDispatcher" || fn.Blocks == nil || fn.Parent() != nil {
			continue
		}
		runner := false
		// (the loop that runs the batch may have been moved into a helper the method calls)
		p.withHelpers(fn, 1, func(g *ssa.Function) {
			if g.Parent() != nil {
				return
			}
			allInstrs(g, func(ins ssa.Instruction) {
				if c, ok := ins.(*ssa.Call); ok && !c.Call.IsInvoke() && c.Call.StaticCallee() == nil {
					if _, isB := c.Call.Value.(*ssa.Builtin); !isB {
						runner = true
					}
				}
			})
		})
		if runner {
			p.withHelpers(fn, 2, func(g *ssa.Function) { runs[g] = true })
		}
	}
	if len(runs) == 0 {
		r.Undecided("dispatcher", "no method of eventDispatcher runs queued handlers")
		return
	}
	for _, fn := range p.Funcs {
		if fnPkgPath(fn) != modPath+"/iscp" || recvTypeName(fn) != "eventDispatcher" || fn.Blocks == nil || !runs[fn] {
			continue
		}
		name := fnName(fn)
		// the emptiness tests of this function
		type empt struct {
			ifs *ssa.If
			yes *ssa.BasicBlock
		}
		var tests []empt
		allInstrs(fn, func(ins ssa.Instruction) {
			ifs, ok := ins.(*ssa.If)
			if !ok {
				return
			}
			bo, isBo := ifs.Cond.(*ssa.BinOp)
			if !isBo {
				return
			}
			lenOf := func(v ssa.Value) bool {
				c, isC := v.(*ssa.Call)
				if !isC {
					return false
				}
				b, isB := c.Call.Value.(*ssa.Builtin)
				if !isB || b.Name() != "len" {
					return false
				}
				ld, isLd := c.Call.Args[0].(*ssa.UnOp)
				return isLd && ld.Op == token.MUL && fieldKeyOfAddr(ld.X) == "/iscp.eventDispatcher.handler"
			}
			k0 := func(v ssa.Value, want int64) bool { k, isK := constInt(v); return isK && k == want }
			switch {
			case bo.Op == token.EQL && lenOf(bo.X) && k0(bo.Y, 0):
				tests = append(tests, empt{ifs, ifs.Block().Succs[0]})
			case bo.Op == token.NEQ && lenOf(bo.X) && k0(bo.Y, 0):
				tests = append(tests, empt{ifs, ifs.Block().Succs[1]})
			case bo.Op == token.LSS && lenOf(bo.X) && k0(bo.Y, 1):
				tests = append(tests, empt{ifs, ifs.Block().Succs[0]})
			case bo.Op == token.GTR && lenOf(bo.X) && k0(bo.Y, 0):
				tests = append(tests, empt{ifs, ifs.Block().Succs[1]})
			}
		})
		k := 0
		allInstrs(fn, func(ins ssa.Instruction) {
			c, ok := ins.(*ssa.Call)
			if !ok || !c.Call.IsInvoke() || !isContextType(c.Call.Value.Type()) || (c.Call.Method.Name() != "Done" && c.Call.Method.Name() != "Err") {
				return
			}
			k++
			n++
			okE := false
			for _, t := range tests {
				if edgeDominates(t.ifs.Block(), t.yes, c.Block()) {
					okE = true
				}
			}
			r.Check(fmt.Sprintf("%s context look#%d only with an empty queue", name, k), okE, posOf(p, c), name, "the dispatcher looks at its context outside the 'queue is empty' edge: when the context ends while handlers are queued (they were added during the last batch) the loop stops and they are never run")
		})
	}
	if n == 0 {
		r.Undecided("dispatcher context tests", "no method of eventDispatcher looks at a context")
	}
}

// ruleC01R14: "each result has been reported to the ack hook … by the time Close returns". Where the hook is not called
// by the goroutine that processes the result but queued for the event dispatcher (a function literal handed to
// eventDispatcher.addHandler), Close can only keep that promise by joining the dispatcher: somewhere between the wait for
// the acknowledgements and its successful return it calls a method of the event dispatcher that blocks until the
// queue has been worked off (anything of eventDispatcher that waits, other than the dispatch loop itself).
func ruleC01R14(r *Run) {
	r.Begin("R14", "Close joins the hook dispatcher: when ReceiveAckHooker.HookAfter is invoked from a function literal queued with eventDispatcher.addHandler, (*Upstream).Close (or a helper it calls) calls a blocking method of the event dispatcher before it returns nil", 1)
	p := r.P
	cl := r.method("/iscp", "Upstream", "Close")
	disp := r.named("/iscp", "eventDispatcher")
	if cl == nil || disp == nil {
		return
	}
	async := false
	var where ssa.Instruction
	for _, h := range p.moduleCalls("/iscp.ReceiveAckHooker.HookAfter") {
		fn := h.Parent()
		if fn.Parent() == nil {
			continue
		}
		_, uses, okv := funcValueUses(fn)
		if !okv {
			continue
		}
		for _, u := range uses {
			if isCallNamed(u, "/iscp.eventDispatcher.addHandler") {
				async = true
				where = h
			}
		}
	}
	name := fnName(cl)
	if !async {
		r.Check(name+" waits for the ack hooks", true, p.pos(cl.Pos()), name, "the ack hook is not queued for the event dispatcher: it has run when the result has been processed")
		return
	}
	joins := false
	p.withHelpers(cl, 2, func(g *ssa.Function) {
		allInstrs(g, func(ins ssa.Instruction) {
			cc := instrCall(ins)
			if cc == nil {
				return
			}
			m := cc.StaticCallee()
			if m == nil || m.Signature.Recv() == nil || namedOf(m.Signature.Recv().Type()) != disp {
				return
			}
			switch m.Name() {
			case "dispatchLoop", "addHandler", "wake":
				return
			}
			blocks := false
			withAnon(m, func(x *ssa.Function) {
				if x != m {
					return
				}
				allInstrs(x, func(y ssa.Instruction) {
					switch z := y.(type) {
					case *ssa.Select:
						if z.Blocking {
							blocks = true
						}
					case *ssa.UnOp:
						if z.Op == token.ARROW {
							blocks = true
						}
					}
					if isCallNamed(y, "sync.Cond.Wait", "sync.WaitGroup.Wait") {
						blocks = true
					}
				})
			})
			if blocks {
				joins = true
			}
		})
	})
	r.Check(name+" waits for the ack hooks", joins, p.pos(cl.Pos()), name, "the ack hook is called by the event dispatcher goroutine (queued at "+posOf(p, where)+"), and Close does not wait for that goroutine: it returns while results are still in the dispatcher's queue, so the hook has not been given every result by the time Close returns")
}

// ruleC01R15: WriteDataPoints returns before the flush loop has looked at the group it was handed. What the group
// refers to must therefore belong to the library: the points slice is made in WriteDataPoints (a copy), and the data id
// is a copy as well — not the caller's variadic slice and pointer, which the caller may reuse for its next write.
func ruleC01R15(r *Run) {
	r.Begin("R15", "the hand-over owns its data: the DataPointGroup that (*Upstream).WriteDataPoints sends to the flush loop carries a points slice made in WriteDataPoints and a data id allocated there, not the caller's slice and pointer", 2)
	p := r.P
	w := r.method("/iscp", "Upstream", "WriteDataPoints")
	dpg := r.named("/iscp", "DataPointGroup")
	if w == nil || dpg == nil {
		return
	}
	name := fnName(w)
	n := 0
	for _, lit := range literalsOf(w, dpg) {
		n++
		for _, f := range []string{"DataPoints", "DataID"} {
			v, has := lit.Fields[f]
			if !has {
				r.Check(name+" hand-over "+f, false, p.pos(lit.Alloc.Pos()), name, f+" not set")
				continue
			}
			cv := canonVal(v)
			if ct, isCT := cv.(*ssa.ChangeType); isCT {
				cv = canonVal(ct.X)
			}
			own := false
			switch x := cv.(type) {
			case *ssa.MakeSlice:
				own = true
			case *ssa.Alloc:
				own = x.Parent() == w
			case *ssa.Call:
				// append([]T(nil), dps...) and slices.Clone make a new backing array
				if b, isB := x.Call.Value.(*ssa.Builtin); isB && b.Name() == "append" {
					own = isNilConst(x.Call.Args[0])
				} else if o := calleeObj(&x.Call); o != nil && o.Pkg() != nil && o.Pkg().Path() == "slices" && o.Name() == "Clone" {
					own = true
				}
			case *ssa.Slice:
				if mk, isMk := canonVal(x.X).(*ssa.MakeSlice); isMk && mk != nil {
					own = true
				}
				if a, isA := x.X.(*ssa.Alloc); isA && a.Parent() == w {
					own = true
				}
			}
			l := p.Leaves(v, provOpts{})
			r.Check(name+" hand-over "+f, own, p.pos(lit.Alloc.Pos()), name, f+" of the group handed to the flush loop derives from ["+joinLeaves(l)+"]: the loop reads it after WriteDataPoints has returned, so a caller that reuses its slice or data id for the next write changes points that were accepted already")
		}
	}
	if n == 0 {
		r.Undecided(name+" hand-over", "no DataPointGroup literal in WriteDataPoints")
	}
}

// ruleC01R16: "each result has been reported to the ack hook exactly once". The broker may repeat a result, or send one
// for a sequence number that is not outstanding; the hook is queued only where the result was matched to a waiting
// chunk: on the success edge of the call that looks the waiter up (and removes it).
func ruleC01R16(r *Run) {
	r.Begin("R16", "the ack hook is queued once per outstanding chunk: in readResultLoop the addHandler call that carries ReceiveAckHooker.HookAfter is dominated by the success edge of the call that looks up (and removes) the chunk's waiter in upstreamChunkResultChs", 1)
	p := r.P
	for _, h := range p.moduleCalls("/iscp.ReceiveAckHooker.HookAfter") {
		cl := h.Parent()
		if cl.Parent() == nil {
			continue
		}
		_, uses, okv := funcValueUses(cl)
		if !okv {
			continue
		}
		for _, u := range uses {
			if !isCallNamed(u, "/iscp.eventDispatcher.addHandler") {
				continue
			}
			host := u.Parent()
			name := fnName(host)
			ok := false
			allInstrs(host, func(ins ssa.Instruction) {
				c, isC := ins.(*ssa.Call)
				if !isC {
					return
				}
				cal := c.Call.StaticCallee()
				if cal == nil || !p.Analysed(cal) {
					return
				}
				looks := false
				allInstrs(cal, func(x ssa.Instruction) {
					if lk, isL := x.(*ssa.Lookup); isL {
						if uu, isU := lk.X.(*ssa.UnOp); isU && fieldKeyOfAddr(uu.X) == "/iscp.Upstream.upstreamChunkResultChs" {
							looks = true
						}
					}
				})
				if !looks {
					return
				}
				var res ssa.Value = c
				if c.Referrers() != nil {
					for _, ref := range *c.Referrers() {
						if ex, isEx := ref.(*ssa.Extract); isEx {
							res = ex
						}
					}
				}
				if condTrueDominates(host, res, u) {
					ok = true
				}
			})
			r.Check(name+" queues the ack hook for outstanding chunks only", ok, posOf(p, u), name, "the hook is queued whether or not the result belongs to a chunk that is still waiting for one: a result the broker sends twice reaches the hook twice, and a result for a sequence number that was never issued is reported too")
		}
	}
}
