package main

import (
	"fmt"
	"go/token"
	"go/types"
	"os"
	"os/exec"
	"sort"
	"strings"

	"golang.org/x/tools/go/callgraph"
	"golang.org/x/tools/go/callgraph/cha"
	"golang.org/x/tools/go/callgraph/vta"
	"golang.org/x/tools/go/packages"
	"golang.org/x/tools/go/ssa"
	"golang.org/x/tools/go/ssa/ssautil"
)

const modPath = "github.com/aptpod/iscp-go"

// Config names one build configuration of /repo.
type Config struct {
	Name   string
	Tags   string
	GOARCH string
}

// Prog is the loaded, type-checked, SSA-lowered program.
type Prog struct {
	Cfg      Config
	Dir      string
	Fset     *token.FileSet
	All      []*packages.Package          // module packages (incl. excluded ones)
	Pkgs     []*packages.Package          // analysed packages
	ByPath   map[string]*packages.Package // every loaded package by path
	SSA      *ssa.Program
	SSAPkg   map[string]*ssa.Package
	Funcs    []*ssa.Function // every function with a body in analysed packages (incl. anonymous)
	funcSet  map[*ssa.Function]bool
	cg       *callgraph.Graph
	analysed map[string]bool
}

func excludedPkg(path string) bool {
	rel := strings.TrimPrefix(path, modPath)
	if strings.HasPrefix(rel, "/examples") {
		return true
	}
	if strings.HasSuffix(rel, "mock") {
		return true
	}
	if rel == "/internal/testdata" {
		return true
	}
	return false
}

func goEnv(cfg Config) []string {
	env := []string{}
	for _, kv := range os.Environ() {
		k := kv
		if i := strings.IndexByte(kv, '='); i >= 0 {
			k = kv[:i]
		}
		switch k {
		case "GOFLAGS", "GOPROXY", "GOTOOLCHAIN", "GOWORK", "GOSUMDB", "GOARCH", "GOOS", "CGO_ENABLED":
			continue
		}
		env = append(env, kv)
	}
	env = append(env, "GOFLAGS=-mod=mod", "GOPROXY=off", "GOTOOLCHAIN=auto", "GOWORK=off", "CGO_ENABLED=0")
	if cfg.GOARCH != "" {
		env = append(env, "GOARCH="+cfg.GOARCH)
	}
	return env
}

// toolchainOK reports whether `go list` works in dir with env.
func toolchainOK(dir string, env []string) bool {
	cmd := exec.Command("go", "list", "-m")
	cmd.Dir = dir
	cmd.Env = env
	return cmd.Run() == nil
}

func loadProg(dir string, cfg Config) (*Prog, error) {
	env := goEnv(cfg)
	if !toolchainOK(dir, env) {
		// fallback: the newer pre-installed toolchain, used locally
		env2 := []string{}
		for _, kv := range env {
			if strings.HasPrefix(kv, "GOTOOLCHAIN=") {
				continue
			}
			if strings.HasPrefix(kv, "PATH=") {
				kv = "PATH=/opt/veriftools/go1.26.8/bin:" + strings.TrimPrefix(kv, "PATH=")
			}
			env2 = append(env2, kv)
		}
		env2 = append(env2, "GOTOOLCHAIN=local")
		if !toolchainOK(dir, env2) {
			return nil, fmt.Errorf("no usable go toolchain for %s", dir)
		}
		env = env2
	}
	fset := token.NewFileSet()
	pc := &packages.Config{
		Mode:  packages.LoadAllSyntax,
		Dir:   dir,
		Env:   env,
		Fset:  fset,
		Tests: false,
	}
	if cfg.Tags != "" {
		pc.BuildFlags = []string{"-tags=" + cfg.Tags}
	}
	initial, err := packages.Load(pc, "./...")
	if err != nil {
		return nil, fmt.Errorf("packages.Load: %w", err)
	}
	if len(initial) == 0 {
		return nil, fmt.Errorf("no packages loaded from %s", dir)
	}
	p := &Prog{Cfg: cfg, Dir: dir, Fset: fset, ByPath: map[string]*packages.Package{}, SSAPkg: map[string]*ssa.Package{}, funcSet: map[*ssa.Function]bool{}, analysed: map[string]bool{}}
	var errs []string
	packages.Visit(initial, nil, func(pk *packages.Package) {
		p.ByPath[pk.PkgPath] = pk
		if strings.HasPrefix(pk.PkgPath, modPath) {
			for _, e := range pk.Errors {
				errs = append(errs, e.Error())
			}
		}
	})
	if len(errs) > 0 {
		sort.Strings(errs)
		if len(errs) > 10 {
			errs = errs[:10]
		}
		return nil, fmt.Errorf("type/load errors in module packages: %s", strings.Join(errs, "; "))
	}
	for _, pk := range initial {
		if !strings.HasPrefix(pk.PkgPath, modPath) {
			continue
		}
		p.All = append(p.All, pk)
		if !excludedPkg(pk.PkgPath) {
			p.Pkgs = append(p.Pkgs, pk)
			p.analysed[pk.PkgPath] = true
		}
	}
	sort.Slice(p.Pkgs, func(i, j int) bool { return p.Pkgs[i].PkgPath < p.Pkgs[j].PkgPath })
	if len(p.Pkgs) < 20 {
		return nil, fmt.Errorf("only %d analysed packages loaded (expected >= 20)", len(p.Pkgs))
	}
	prog, _ := ssautil.AllPackages(initial, ssa.InstantiateGenerics)
	prog.Build()
	p.SSA = prog
	for _, sp := range prog.AllPackages() {
		p.SSAPkg[sp.Pkg.Path()] = sp
	}
	for fn := range ssautil.AllFunctions(prog) {
		if fn.Blocks == nil {
			continue
		}
		pk := fnPkgPath(fn)
		if p.analysed[pk] {
			p.Funcs = append(p.Funcs, fn)
			p.funcSet[fn] = true
		}
	}
	sort.Slice(p.Funcs, func(i, j int) bool {
		a, b := p.Funcs[i], p.Funcs[j]
		if a.String() != b.String() {
			return a.String() < b.String()
		}
		return a.Pos() < b.Pos()
	})
	computeRenames(p)
	return p, nil
}

// fnPkgPath returns the package path a function belongs to (following
// anonymous-function parents and generic origins).
func fnPkgPath(fn *ssa.Function) string {
	for f := fn; f != nil; f = f.Parent() {
		if f.Pkg != nil {
			return f.Pkg.Pkg.Path()
		}
		if o := f.Origin(); o != nil && o.Pkg != nil {
			return o.Pkg.Pkg.Path()
		}
		if f.Object() != nil && f.Object().Pkg() != nil {
			return f.Object().Pkg().Path()
		}
	}
	return ""
}

// CG builds (once) the VTA call graph.
func (p *Prog) CG() *callgraph.Graph {
	if p.cg == nil {
		all := ssautil.AllFunctions(p.SSA)
		p.cg = vta.CallGraph(all, cha.CallGraph(p.SSA))
	}
	return p.cg
}

// Analysed reports whether fn belongs to an analysed package.
func (p *Prog) Analysed(fn *ssa.Function) bool { return fn != nil && p.funcSet[fn] }

func (p *Prog) pos(pos token.Pos) string {
	if !pos.IsValid() {
		return "-"
	}
	ps := p.Fset.Position(pos)
	f := ps.Filename
	if strings.HasPrefix(f, p.Dir+"/") {
		f = strings.TrimPrefix(f, p.Dir+"/")
	}
	return fmt.Sprintf("%s:%d", f, ps.Line)
}

// relFile returns the file of pos relative to the repo dir.
func (p *Prog) relFile(pos token.Pos) string {
	s := p.pos(pos)
	if i := strings.LastIndexByte(s, ':'); i >= 0 {
		return s[:i]
	}
	return s
}

// ---- object lookup (anchors) ----

func (p *Prog) pkgTypes(path string) *types.Package {
	if pk, ok := p.ByPath[modPath+path]; ok {
		return pk.Types
	}
	if pk, ok := p.ByPath[path]; ok {
		return pk.Types
	}
	return nil
}

// Named looks up a named type "pkgrel.Type" e.g. "/iscp.Upstream".
func (p *Prog) Named(pkg, name string) *types.Named {
	tp := p.pkgTypes(pkg)
	if tp == nil {
		return nil
	}
	o := tp.Scope().Lookup(name)
	if o == nil {
		return nil
	}
	n, _ := o.Type().(*types.Named)
	return n
}

// Field finds field f of struct type pkg.name.
func (p *Prog) Field(pkg, typ, field string) *types.Var {
	n := p.Named(pkg, typ)
	if n == nil {
		return nil
	}
	st, ok := n.Underlying().(*types.Struct)
	if !ok {
		return nil
	}
	for i := 0; i < st.NumFields(); i++ {
		if st.Field(i).Name() == field {
			return st.Field(i)
		}
	}
	if nw, ok := renamedOld[pkg+"."+typ+"."+field]; ok {
		for i := 0; i < st.NumFields(); i++ {
			if st.Field(i).Name() == nw {
				return st.Field(i)
			}
		}
	}
	return nil
}

// Method finds the ssa function for method pkg.(typ).name (pointer or value receiver).
func (p *Prog) Method(pkg, typ, name string) *ssa.Function {
	n := p.Named(pkg, typ)
	if n == nil {
		return nil
	}
	if nw, ok := renamedOld[pkg+"."+typ+"."+name]; ok {
		name = nw
	}
	for _, t := range []types.Type{types.NewPointer(n), n} {
		sel := p.SSA.MethodSets.MethodSet(t).Lookup(n.Obj().Pkg(), name)
		if sel != nil {
			fn := p.SSA.MethodValue(sel)
			if fn != nil && fn.Synthetic != "" {
				// wrapper for promoted/value method: find the declared one
				if m, ok := sel.Obj().(*types.Func); ok {
					if f := p.SSA.FuncValue(m); f != nil {
						return f
					}
				}
			}
			if fn != nil {
				return fn
			}
		}
	}
	// the method may have become a function of the package that takes the former receiver as its first parameter
	// (decodeFrom(t *Transport, rd) for (t *Transport) decodeFrom(rd)): the same subject
	if f := p.Func(pkg, name); f != nil && f.Blocks != nil && len(f.Params) > 0 && f.Signature.Recv() == nil {
		if namedOf(deref(f.Params[0].Type())) == n {
			return f
		}
	}
	return nil
}

// Func finds package-level function pkg.name.
func (p *Prog) Func(pkg, name string) *ssa.Function {
	sp := p.SSAPkg[modPath+pkg]
	if sp == nil {
		sp = p.SSAPkg[pkg]
	}
	if sp == nil {
		return nil
	}
	if f := sp.Func(name); f != nil {
		return f
	}
	if nw, ok := renamedOld[strings.TrimPrefix(pkg, modPath)+"."+name]; ok {
		return sp.Func(nw)
	}
	return nil
}

// FuncObj finds the types.Func for a package-level function or method "Type.Method".
func (p *Prog) FuncObj(pkg, name string) *types.Func {
	tp := p.pkgTypes(pkg)
	if tp == nil {
		return nil
	}
	if i := strings.IndexByte(name, '.'); i >= 0 {
		o := tp.Scope().Lookup(name[:i])
		if o == nil {
			return nil
		}
		obj, _, _ := types.LookupFieldOrMethod(o.Type(), true, tp, name[i+1:])
		f, _ := obj.(*types.Func)
		return f
	}
	f, _ := tp.Scope().Lookup(name).(*types.Func)
	return f
}

// fnName gives a stable readable name for an SSA function: pkgrel.(Recv).Name$1
func fnName(fn *ssa.Function) string {
	if fn == nil {
		return "<nil>"
	}
	s := canonFnString(fn, fn.String())
	s = strings.ReplaceAll(s, modPath+"/", "")
	s = strings.ReplaceAll(s, modPath, "iscp-go")
	return s
}

// topFunc returns the outermost enclosing declared function.
func topFunc(fn *ssa.Function) *ssa.Function {
	for fn.Parent() != nil {
		fn = fn.Parent()
	}
	return fn
}
