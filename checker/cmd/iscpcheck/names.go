package main

import (
	_ "embed"
	"encoding/json"
	"fmt"
	"go/types"
	"regexp"
	"sort"
	"strings"

	"golang.org/x/tools/go/ssa"
)

// Rename following. The rule tables name fields, methods and functions of the repository. A maintainer renaming an
// unexported identifier changes nothing about behaviour, so the checker follows such renames instead of losing its
// anchors: baseline_names.json records, per struct, the (name, type) of every field and, per type and package, the
// (name, signature) of every method and function as of the tree the tables were confirmed on. When a baseline name
// is missing and exactly one new name of the identical type/signature appeared in the same struct / method set /
// package, the new identifier is treated as the old one: every key the checker renders uses the baseline name.
// Nothing else is inferred (two candidates, or a changed type, leave the anchor unresolved and the rule undecided).

//go:embed baseline_names.json
var baselineNamesJSON []byte

type baselineNames struct {
	Structs map[string][][2]string `json:"structs"` // "/pkg.Type" -> [name, type]
	Methods map[string][][2]string `json:"methods"` // "/pkg.Type" -> [name, signature]
	Funcs   map[string][][2]string `json:"funcs"`   // "/pkg" -> [name, signature]
}

var (
	renamedObj  = map[types.Object]string{} // current object -> baseline name
	renamedOld  = map[string]string{}       // "/pkg.Type.old" or "/pkg.old" -> current name
	renameNotes []string
)

func canon(o types.Object) string {
	if n, ok := renamedObj[o]; ok {
		return n
	}
	return o.Name()
}

func relPkg(pk *types.Package) string {
	if pk == nil {
		return ""
	}
	return strings.TrimPrefix(pk.Path(), modPath)
}

func sigStr(f *types.Func) string {
	sig := f.Type().(*types.Signature)
	anon := func(t *types.Tuple) *types.Tuple {
		var vs []*types.Var
		for i := 0; i < t.Len(); i++ {
			vs = append(vs, types.NewVar(0, nil, "", t.At(i).Type()))
		}
		return types.NewTuple(vs...)
	}
	return typeStr(types.NewSignatureType(nil, nil, nil, anon(sig.Params()), anon(sig.Results()), sig.Variadic()))
}

// currentNames snapshots the module's names (used both to write the baseline and to compare against it).
func currentNames(p *Prog) (*baselineNames, map[string]types.Object) {
	b := &baselineNames{Structs: map[string][][2]string{}, Methods: map[string][][2]string{}, Funcs: map[string][][2]string{}}
	objs := map[string]types.Object{}
	for _, pk := range p.All {
		if excludedPkg(pk.PkgPath) || pk.Types == nil {
			continue
		}
		rel := relPkg(pk.Types)
		sc := pk.Types.Scope()
		for _, nm := range sc.Names() {
			switch o := sc.Lookup(nm).(type) {
			case *types.Func:
				b.Funcs[rel] = append(b.Funcs[rel], [2]string{nm, sigStr(o)})
				objs[rel+"."+nm] = o
			case *types.TypeName:
				n, ok := o.Type().(*types.Named)
				if !ok || o.IsAlias() {
					continue
				}
				key := rel + "." + nm
				if st, isSt := n.Underlying().(*types.Struct); isSt {
					for i := 0; i < st.NumFields(); i++ {
						f := st.Field(i)
						b.Structs[key] = append(b.Structs[key], [2]string{f.Name(), typeStr(f.Type())})
						objs[key+"."+f.Name()] = f
					}
				}
				for i := 0; i < n.NumMethods(); i++ {
					m := n.Method(i)
					b.Methods[key] = append(b.Methods[key], [2]string{m.Name(), sigStr(m)})
					objs[key+"#"+m.Name()] = m
				}
			}
		}
	}
	return b, objs
}

func matchRenames(scope string, sep string, base, cur [][2]string, objs map[string]types.Object) {
	curSet := map[string]string{}
	for _, c := range cur {
		curSet[c[0]] = c[1]
	}
	baseSet := map[string]string{}
	for _, c := range base {
		baseSet[c[0]] = c[1]
	}
	var missing, added [][2]string
	for _, c := range base {
		if _, ok := curSet[c[0]]; !ok {
			missing = append(missing, c)
		}
	}
	for _, c := range cur {
		if _, ok := baseSet[c[0]]; !ok {
			added = append(added, c)
		}
	}
	for _, m := range missing {
		var cands [][2]string
		for _, a := range added {
			if a[1] == m[1] {
				cands = append(cands, a)
			}
		}
		// and the candidate must not be wanted by another missing name of the same type
		rivals := 0
		for _, m2 := range missing {
			if m2[1] == m[1] {
				rivals++
			}
		}
		if len(cands) == 1 && rivals == 1 {
			if o := objs[scope+sep+cands[0][0]]; o != nil {
				renamedObj[o] = m[0]
				k := scope + "." + m[0]
				renamedOld[k] = cands[0][0]
				renameNotes = append(renameNotes, fmt.Sprintf("%s%s%s is followed as the renamed %s (same type %s)", scope, sep, cands[0][0], m[0], m[1]))
			}
		}
	}
}

// computeRenames fills the rename tables for the loaded program.
func computeRenames(p *Prog) {
	renamedObj = map[types.Object]string{}
	renamedOld = map[string]string{}
	renameNotes = nil
	var base baselineNames
	if err := json.Unmarshal(baselineNamesJSON, &base); err != nil || len(base.Structs) == 0 {
		return
	}
	cur, objs := currentNames(p)
	for k, b := range base.Structs {
		if c, ok := cur.Structs[k]; ok {
			matchRenames(k, ".", b, c, objs)
		}
	}
	for k, b := range base.Methods {
		if c, ok := cur.Methods[k]; ok {
			matchRenames(k, "#", b, c, objs)
		}
	}
	for k, b := range base.Funcs {
		if c, ok := cur.Funcs[k]; ok {
			matchRenames(k, ".", b, c, objs)
		}
	}
	sort.Strings(renameNotes)
}

// canonFnString rewrites the declared name inside an ssa function's String() to its baseline name.
func canonFnString(fn *ssa.Function, s string) string {
	if len(renamedObj) == 0 || fn == nil {
		return s
	}
	top := topFunc(fn)
	o := top.Object()
	if o == nil {
		return s
	}
	old, ok := renamedObj[o]
	if !ok {
		return s
	}
	re := regexp.MustCompile(`\.` + regexp.QuoteMeta(o.Name()) + `(\$|$)`)
	return re.ReplaceAllString(s, "."+old+"${1}")
}

func writeBaselineNames(p *Prog) {
	b, _ := currentNames(p)
	for _, m := range []map[string][][2]string{b.Structs, b.Methods, b.Funcs} {
		for k := range m {
			sort.Slice(m[k], func(i, j int) bool { return m[k][i][0] < m[k][j][0] })
		}
	}
	out, _ := json.MarshalIndent(b, "", " ")
	fmt.Println(string(out))
}
