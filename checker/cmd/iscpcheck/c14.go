package main

import (
	"fmt"
	"go/token"
	"go/types"
	"sort"
	"strings"

	"golang.org/x/tools/go/ssa"
)

func init() {
	register(&PropSpec{
		ID:          "C14",
		Explanation: "Structural necessary conditions for 'datagram messages are reassembled exactly or not at all'. B1: the header fields the sender writes (offset range, width, big-endian, role) are exactly the ones the receiver reads, and the payload starts at the header length on both sides. B2: every slice/index of the received datagram is dominated by a length guard whose minimal accepted length equals the header length (neither laxer nor stricter), and the segment index is compared with the slot array's length before indexing. B3: the sender refuses a segment count beyond the 16-bit field before narrowing. B4: the completion counter is incremented only for a slot that was empty. B5: each transport owning a reassembly buffer runs an expiry goroutine; Receive refreshes the expiry time and RemoveExpired deletes only expired entries. B6: the sequence number of every datagram message comes from an atomic add of 1 evaluated in that call. B7: the slot array's length is computed without 16-bit wrap-around.",
		NotDecided:  []string{"correctness over permutations, losses and interleavings", "expiry timing", "sequence-number wrap-around"},
		Rules: func(r *Run) {
			ruleC14B1B2(r)
			ruleC14B3(r)
			ruleC14B4(r)
			ruleC14B5(r)
			ruleC14B6(r)
			ruleLoopDrivers(r, "B7", "the expiry sweep stays periodic: in the transports and the segment package every receive inside a loop from a time source is a Ticker, a time.After, or a Timer that is re-armed inside the loop when its branch continues the loop", func(fn *ssa.Function) bool {
				return strings.HasPrefix(fnPkgPath(fn), modPath+"/transport/") || fnPkgPath(fn) == modPath+"/internal/segment"
			}, 2)
			ruleNoSwallowedErrors(r, "B8", 3, true, "/internal/segment", "/transport/quic", "/transport/webtransport")
			ruleC14B9(r)
			ruleDurationUnits(r, "B10", "/transport/quic", "/transport/webtransport", "/internal/segment")
			le14 := newLockEngine(r.P)
			ruleLockPairingFor(r, le14, "B11", "a malformed datagram never leaves the reassembly mutex held: every function of package internal/segment that takes a lock releases it on every path", func(fn *ssa.Function) bool {
				return fnPkgPath(fn) == modPath+"/internal/segment" && (le14.Info(fn).Events > 0 || len(le14.Info(fn).Reports) > 0)
			}, 2)
		},
	})
}

type hdrField struct {
	lo, hi int64
	width  int
	role   string
	pos    token.Pos
}

// headerAccesses finds binary.BigEndian.{Put,}UintN calls on constant sub-slices of a byte slice.
func headerAccesses(p *Prog, fn *ssa.Function, write bool) []hdrField {
	var out []hdrField
	allInstrs(fn, func(ins ssa.Instruction) {
		cc := instrCall(ins)
		if cc == nil {
			return
		}
		o := calleeObj(cc)
		if o == nil || o.Pkg() == nil || o.Pkg().Path() != "encoding/binary" {
			return
		}
		name := o.Name()
		isPut := strings.HasPrefix(name, "PutUint")
		if isPut != write || (!isPut && !strings.HasPrefix(name, "Uint")) {
			return
		}
		// must be the big-endian order
		if recvNamed(o) != "bigEndian" {
			out = append(out, hdrField{lo: -1, hi: -1, role: "not big endian: " + recvNamed(o), pos: ins.Pos()})
			return
		}
		width := 0
		fmt.Sscanf(strings.TrimPrefix(strings.TrimPrefix(name, "Put"), "Uint"), "%d", &width)
		args := callArgs(cc)
		sl, ok := args[1].(*ssa.Slice)
		if !ok {
			return
		}
		lo, hi := int64(0), int64(-1)
		if sl.Low != nil {
			lo, _ = constInt(sl.Low)
		}
		if sl.High != nil {
			hi, _ = constInt(sl.High)
		}
		role := ""
		if write {
			// the role of the written value is that of the parameter it comes from, determined by how the
			// caller's loop feeds that parameter (not by the parameter's name)
			v := args[2]
			for {
				if cv, ok := v.(*ssa.Convert); ok {
					v = cv.X
					continue
				}
				break
			}
			if prm, ok := v.(*ssa.Parameter); ok {
				role = paramRole(p, fn, prm)
			}
		}
		out = append(out, hdrField{lo: lo, hi: hi, width: width, role: role, pos: ins.Pos()})
	})
	sort.Slice(out, func(i, j int) bool { return out[i].lo < out[j].lo })
	return out
}

func ruleC14B1B2(r *Run) {
	r.Begin("B1", "header layout agreement: the sender writes u32 at [0:4] (sequence), u16 at [4:6] (max index), u16 at [6:8] (index), big endian, after which the payload is appended; the receiver reads exactly the same offsets and widths, uses [0:4] as the buffer key, [4:6] for the slot count and [6:8] as the slot index, and takes the payload from the header length on", 8)
	p := r.P
	snd := r.function("/internal/segment", "send")
	rcv := r.method("/internal/segment", "ReadBuffers", "Receive")
	if snd == nil || rcv == nil {
		return
	}
	// Receive may only take the lock and hand the datagram to the method that does the work (receiveLocked), which in
	// turn may have helpers that are given the datagram: they are read together
	rcv = receiveMain(p, rcv)
	w := headerAccesses(p, snd, true)
	var rd []hdrField
	for g := range datagramFuncs(p, rcv) {
		rd = append(rd, headerAccesses(p, g, false)...)
	}
	key := func(h hdrField) string { return fmt.Sprintf("[%d:%d]u%d", h.lo, h.hi, h.width) }
	ws, rs := map[string]hdrField{}, map[string]hdrField{}
	for _, h := range w {
		ws[key(h)] = h
	}
	for _, h := range rd {
		rs[key(h)] = h
	}
	for k, h := range ws {
		_, ok := rs[k]
		r.Check("writer field "+k+" read", ok && h.hi-h.lo == int64(h.width/8), p.pos(h.pos), fnName(snd), fmt.Sprintf("sender writes %s (role %s); receiver reads the same range and width: %v", k, h.role, ok))
	}
	for k, h := range rs {
		_, ok := ws[k]
		r.Check("reader field "+k+" written", ok, p.pos(h.pos), fnName(rcv), fmt.Sprintf("receiver reads %s; sender writes the same range and width: %v", k, ok))
	}
	// roles on the sender: [0:4]=seqNum, [4:6]=maxIdx, [6:8]=segIdx by parameter order of send(wr, seqNum, segIdx, maxIdx, payload)
	roleAt := map[int64]string{}
	for _, h := range w {
		roleAt[h.lo] = h.role
	}
	// roles on the receiver
	rroles := map[int64]string{}
	for g := range datagramFuncs(p, rcv) {
		allInstrs(g, func(ins ssa.Instruction) {
			c, ok := ins.(*ssa.Call)
			if !ok {
				return
			}
			o := calleeObj(&c.Call)
			if o == nil || o.Pkg() == nil || o.Pkg().Path() != "encoding/binary" || !strings.HasPrefix(o.Name(), "Uint") {
				return
			}
			sl, ok := callArgs(&c.Call)[1].(*ssa.Slice)
			if !ok {
				return
			}
			lo := int64(0)
			if sl.Low != nil {
				lo, _ = constInt(sl.Low)
			}
			// how is the value used?
			use := classifyHeaderUse(c)
			rroles[lo] = use
		})
	}
	wantW := map[int64]string{0: "seqNum", 4: "maxIdx", 6: "segIdx"}
	wantR := map[int64]string{0: "key", 4: "count", 6: "index"}
	for off, wr := range wantW {
		r.Check(fmt.Sprintf("role of offset %d", off), roleAt[off] == wr && rroles[off] == wantR[off], p.pos(snd.Pos()), "segment", fmt.Sprintf("offset %d: sender writes %q (want %q); receiver uses it as %q (want %q)", off, roleAt[off], wr, rroles[off], wantR[off]))
	}
	// header length on both sides
	hdrW := int64(-1)
	allInstrs(snd, func(ins ssa.Instruction) {
		if mk, ok := ins.(*ssa.MakeSlice); ok {
			if k, isK := constInt(mk.Len); isK {
				hdrW = k
			}
		}
	})
	hdrR := int64(-1)
	allInstrs(rcv, func(ins ssa.Instruction) {
		if sl, ok := ins.(*ssa.Slice); ok && sl.High == nil && sl.Low != nil && canonVal(sl.X) == ssa.Value(rcv.Params[1]) {
			if k, isK := constInt(sl.Low); isK {
				hdrR = k
			}
		}
	})
	maxHi := int64(0)
	for _, h := range w {
		if h.hi > maxHi {
			maxHi = h.hi
		}
	}
	r.Check("header length agrees", hdrW == hdrR && hdrW == maxHi && hdrW > 0, p.pos(snd.Pos()), "segment", fmt.Sprintf("sender allocates a %d-byte header, its last field ends at %d, receiver takes the payload from offset %d", hdrW, maxHi, hdrR))
	// maxPayloadSize = maxDatagramFrameSize - header
	okInit := false
	if sp := p.SSAPkg[modPath+"/internal/segment"]; sp != nil {
		if init := sp.Func("init"); init != nil {
			allInstrs(init, func(ins ssa.Instruction) {
				if st, ok := ins.(*ssa.Store); ok {
					if g, isG := st.Addr.(*ssa.Global); isG && g.Name() == "maxPayloadSize" {
						if bo, isBo := st.Val.(*ssa.BinOp); isBo && bo.Op == token.SUB {
							if k, isK := constInt(bo.Y); isK && k == hdrW {
								okInit = true
							}
						}
						if k, isK := constInt(st.Val); isK && k > 0 {
							okInit = true // constant-folded; checked against the frame size below
						}
					}
				}
			})
		}
	}
	r.Check("payload size leaves room for the header", okInit, "", "segment", "maxPayloadSize must be the datagram frame size minus the header length")

	// ---- B2 ----
	r.Begin("B2", "guarded parsing: every constant slice of the received datagram in Receive is dominated by the accepting edge of a test on len(datagram) whose minimal accepted length is exactly the header length; in add the slot index is compared with len(slots) before the slot is indexed", 2)
	prm := rcv.Params[1]
	// length guard
	minAccepted := int64(-1)
	var acceptSucc *ssa.BasicBlock
	var guardIf *ssa.If
	allInstrs(rcv, func(ins ssa.Instruction) {
		ifs, ok := ins.(*ssa.If)
		if !ok {
			return
		}
		bo, ok := ifs.Cond.(*ssa.BinOp)
		if !ok {
			return
		}
		c, isCall := bo.X.(*ssa.Call)
		if !isCall {
			return
		}
		b, isB := c.Call.Value.(*ssa.Builtin)
		if !isB || b.Name() != "len" || canonVal(c.Call.Args[0]) != ssa.Value(prm) {
			return
		}
		k, isK := constInt(bo.Y)
		if !isK {
			return
		}
		switch bo.Op {
		case token.LSS: // len < k -> reject
			minAccepted, acceptSucc = k, ifs.Block().Succs[1]
		case token.LEQ:
			minAccepted, acceptSucc = k+1, ifs.Block().Succs[1]
		case token.GEQ:
			minAccepted, acceptSucc = k, ifs.Block().Succs[0]
		case token.GTR:
			minAccepted, acceptSucc = k+1, ifs.Block().Succs[0]
		}
		guardIf = ifs
	})
	name := fnName(rcv)
	if guardIf == nil {
		r.Check(name+" length guard", false, p.pos(rcv.Pos()), name, "no test of len(datagram) against a constant: a datagram shorter than the header panics inside the receive goroutine, whose recover re-panics")
	} else {
		r.Check(name+" length guard", minAccepted == hdrW, posOf(p, guardIf), name, fmt.Sprintf("minimal accepted datagram length is %d, header length is %d (a header-only datagram is a valid empty segment; anything shorter is malformed)", minAccepted, hdrW))
		// rejecting edge returns without error and without touching the buffers
		n, okAll := 0, true
		allInstrs(rcv, func(ins ssa.Instruction) {
			sl, ok := ins.(*ssa.Slice)
			if !ok || canonVal(sl.X) != ssa.Value(prm) {
				return
			}
			n++
			if !edgeDominates(guardIf.Block(), acceptSucc, sl.Block()) {
				okAll = false
			}
		})
		// slices made by a helper that is handed the datagram: guarded when the call of the helper is
		for g, dp := range datagramFuncs(p, rcv) {
			if g == rcv {
				continue
			}
			cnt := 0
			allInstrs(g, func(ins ssa.Instruction) {
				if sl, ok := ins.(*ssa.Slice); ok && canonVal(sl.X) == ssa.Value(dp) {
					cnt++
				}
			})
			if cnt == 0 {
				continue
			}
			n += cnt
			for _, site := range p.staticCallSites(g) {
				if site.Parent() == rcv && !edgeDominates(guardIf.Block(), acceptSucc, site.Block()) {
					okAll = false
				}
			}
		}
		r.Check(name+" slices guarded", okAll && n >= 4, posOf(p, guardIf), name, fmt.Sprintf("%d slices of the datagram, all dominated by the accepting edge of the length test: %v", n, okAll))
	}
	add := r.method("/internal/segment", "ReadBuffer", "add")
	if add != nil {
		aname := fnName(add)
		ok := false
		var idx *ssa.IndexAddr
		allInstrs(add, func(ins ssa.Instruction) {
			if ia, isIA := ins.(*ssa.IndexAddr); isIA && hasLeaf(p.Leaves(ia.X, provOpts{}), "field:/internal/segment.ReadBuffer.Msgs") {
				if idx == nil {
					idx = ia
				}
			}
		})
		if idx != nil {
			allInstrs(add, func(ins ssa.Instruction) {
				ifs, isIf := ins.(*ssa.If)
				if !isIf {
					return
				}
				bo, isBo := ifs.Cond.(*ssa.BinOp)
				if !isBo {
					return
				}
				// len(b.Msgs) <= segIdx  (reject)   or  segIdx >= len(b.Msgs)
				lenSide, idxSide := bo.X, bo.Y
				op := bo.Op
				if _, isPrm := bo.X.(*ssa.Parameter); isPrm {
					lenSide, idxSide = bo.Y, bo.X
					switch op {
					case token.GEQ:
						op = token.LEQ
					case token.GTR:
						op = token.LSS
					}
				}
				c, isCall := lenSide.(*ssa.Call)
				if !isCall || canonVal(idxSide) != canonVal(idx.Index) {
					return
				}
				if b, isB := c.Call.Value.(*ssa.Builtin); !isB || b.Name() != "len" {
					return
				}
				if op == token.LEQ && edgeDominates(ifs.Block(), ifs.Block().Succs[1], idx.Block()) {
					ok = true
				}
			})
		}
		r.Check(aname+" index guard", ok, p.pos(add.Pos()), aname, "the slot array must be indexed only on the edge where len(slots) > index (an index beyond the announced count is discarded)")
	}
}

// classifyHeaderUse: how the receiver uses a header value: map key, slot count (make), slot index (passed to add).
func classifyHeaderUse(c *ssa.Call) string {
	seen := map[ssa.Value]bool{}
	var uses []string
	var walk func(v ssa.Value, d int)
	walk = func(v ssa.Value, d int) {
		if v == nil || seen[v] || d > 6 || v.Referrers() == nil {
			return
		}
		seen[v] = true
		for _, ref := range *v.Referrers() {
			switch x := ref.(type) {
			case *ssa.Lookup:
				if x.Index == v {
					uses = append(uses, "key")
				}
			case *ssa.MapUpdate:
				if x.Key == v {
					uses = append(uses, "key")
				}
			case *ssa.MakeSlice:
				uses = append(uses, "count")
			case *ssa.Call:
				if cf := x.Call.StaticCallee(); cf != nil && cf.Name() == "add" {
					uses = append(uses, "index")
				} else if b, isB := x.Call.Value.(*ssa.Builtin); isB && b.Name() == "delete" {
					uses = append(uses, "key")
				} else if cf != nil && cf.Blocks != nil && cf.Pkg == c.Parent().Pkg {
					// handed to a helper of the package (newReadBuffer(n)): what the helper does with the parameter
					for i, a := range x.Call.Args {
						if a == v && i < len(cf.Params) {
							walk(cf.Params[i], d+1)
						}
					}
				}
			case *ssa.Convert:
				walk(x, d+1)
			case *ssa.BinOp:
				walk(x, d+1)
			case *ssa.ChangeType:
				walk(x, d+1)
			}
		}
	}
	walk(c, 0)
	sort.Strings(uses)
	uses = uniq(uses)
	return strings.Join(uses, "+")
}

func ruleC14B3(r *Run) {
	r.Begin("B3", "oversize refused before narrowing: in SendTo the conversions of the segment index and count to uint16 are dominated by the rejecting test count > MaxUint16 whose true edge returns an error wrapping the invalid-message sentinel; the slot count in Receive is computed without 16-bit wrap-around", 3)
	p := r.P
	st := r.function("/internal/segment", "SendTo")
	if st == nil {
		return
	}
	name := fnName(st)
	var guard *ssa.If
	allInstrs(st, func(ins ssa.Instruction) {
		ifs, ok := ins.(*ssa.If)
		if !ok {
			return
		}
		bo, ok := ifs.Cond.(*ssa.BinOp)
		if !ok {
			return
		}
		if k, isK := constInt(bo.Y); isK && ((bo.Op == token.GTR && k == 65535) || (bo.Op == token.GEQ && k == 65536)) {
			// true edge returns an error wrapping the sentinel
			for _, x := range ifs.Block().Succs[0].Instrs {
				if ret, isRet := x.(*ssa.Return); isRet {
					rs := retResults(ret)
					l := p.Leaves(rs[len(rs)-1], provOpts{})
					if hasLeaf(l, "global:/transport.ErrInvalidMessage") || hasLeaf(l, "global:/errors.ErrMalformedMessage") {
						guard = ifs
					}
				}
			}
		}
	})
	r.Check(name+" refuses oversize", guard != nil, p.pos(st.Pos()), name, "a message needing more than 65535+1 segments must be refused with the invalid-message error")
	if guard != nil {
		n, okAll := 0, true
		allInstrs(st, func(ins ssa.Instruction) {
			cv, ok := ins.(*ssa.Convert)
			if !ok {
				return
			}
			if b, isB := cv.Type().Underlying().(*types.Basic); isB && b.Kind() == types.Uint16 {
				n++
				if !edgeDominates(guard.Block(), guard.Block().Succs[1], cv.Block()) {
					okAll = false
				}
			}
		})
		r.Check(name+" narrowing guarded", okAll && n >= 2, posOf(p, guard), name, fmt.Sprintf("%d conversions to uint16, all on the accepting edge of the range test: %v", n, okAll))
	}
	// B7: slot count without wrap
	rcv := p.Method("/internal/segment", "ReadBuffers", "Receive")
	if rcv != nil {
		rcv = receiveMain(p, rcv)
		ok := true
		detail := ""
		found := false
		p.withHelpers(rcv, 1, func(g *ssa.Function) {
			allInstrs(g, func(ins ssa.Instruction) {
				mk, isMk := ins.(*ssa.MakeSlice)
				if !isMk {
					return
				}
				if _, is2D := mk.Type().Underlying().(*types.Slice).Elem().Underlying().(*types.Slice); !is2D {
					return
				}
				found = true
				// walk the length expression: any BinOp ADD computed in a type narrower than int is a wrap hazard
				var walk func(v ssa.Value, d int)
				walk = func(v ssa.Value, d int) {
					if d > 5 {
						return
					}
					switch x := v.(type) {
					case *ssa.Parameter:
						// the count is computed by the caller of the helper
						if origins, _ := p.originsThroughParams(x, 0); len(origins) > 0 {
							for _, o := range origins {
								if o != ssa.Value(x) {
									walk(o, d+1)
								}
							}
						}
					case *ssa.Convert:
						walk(x.X, d+1)
					case *ssa.BinOp:
						if b, isB := x.Type().Underlying().(*types.Basic); isB && (b.Kind() == types.Uint16 || b.Kind() == types.Uint8 || b.Kind() == types.Int16 || b.Kind() == types.Int8) && x.Op == token.ADD {
							ok = false
							detail = fmt.Sprintf("the slot count is computed as %s in %s arithmetic at %s: the maximal index 65535 (which the sender accepts) wraps to a zero-length array and the message can never be reassembled", x.String(), b.Name(), p.pos(x.Pos()))
						}
						walk(x.X, d+1)
						walk(x.Y, d+1)
					}
				}
				walk(mk.Len, 0)
			})
		})
		r.Check(fnName(rcv)+" slot count without wrap-around", ok && found, p.pos(rcv.Pos()), fnName(rcv), "slot count = max index + 1 computed in int. "+detail)
	}
}

func ruleC14B4(r *Run) {
	r.Begin("B4", "completion counts distinct indices: in add the increment of the segment counter is dominated by the edge on which the addressed slot was still empty (nil)", 1)
	p := r.P
	add := r.method("/internal/segment", "ReadBuffer", "add")
	if add == nil {
		return
	}
	name := fnName(add)
	var inc *ssa.Store
	for _, st := range storesIn(add, "/internal/segment.ReadBuffer.SegCount") {
		inc = st
	}
	if inc == nil {
		r.Check(name+" counts", false, p.pos(add.Pos()), name, "no increment of SegCount")
		return
	}
	ok := false
	allInstrs(add, func(ins ssa.Instruction) {
		ifs, isIf := ins.(*ssa.If)
		if !isIf {
			return
		}
		bo, isBo := ifs.Cond.(*ssa.BinOp)
		if !isBo || !(bo.Op == token.NEQ || bo.Op == token.EQL) || !isNilConst(bo.Y) {
			return
		}
		l := p.Leaves(bo.X, provOpts{})
		if !hasLeaf(l, "elem:/internal/segment.ReadBuffer.Msgs") {
			return
		}
		empty := ifs.Block().Succs[1]
		if bo.Op == token.EQL {
			empty = ifs.Block().Succs[0]
		}
		if edgeDominates(ifs.Block(), empty, inc.Block()) {
			ok = true
		}
	})
	r.Check(name+" counts distinct slots", ok, posOf(p, inc), name, "SegCount++ must happen only when the slot was empty; a repeated segment would otherwise complete a message that still has a hole")
}

func ruleC14B5(r *Run) {
	r.Begin("B5", "expiry is wired: every transport constructor that creates a segment.ReadBuffers starts a goroutine that calls RemoveExpired inside a loop; Receive sets ExpiredAt from the clock plus ReadBufferExpiry; RemoveExpired deletes under the test now.After(ExpiredAt)", 4)
	p := r.P
	rb := r.named("/internal/segment", "ReadBuffers")
	if rb == nil {
		return
	}
	n := 0
	for _, lit := range p.allLiterals(rb) {
		fn := lit.Fn
		if fnPkgPath(fn) == modPath+"/internal/segment" {
			continue
		}
		n++
		name := fnName(fn)
		ok := false
		// goroutines started by the constructor: closures or named functions/methods, followed through static calls
		withAnon(fn, func(f *ssa.Function) {
			allInstrs(f, func(ins ssa.Instruction) {
				g, isGo := ins.(*ssa.Go)
				if !isGo {
					return
				}
				body := g.Call.StaticCallee()
				if body == nil {
					body = closureOf(g.Call.Value)
				}
				if body != nil && p.callsInLoop(body, 2, false, "/internal/segment.ReadBuffers.RemoveExpired") {
					ok = true
				}
			})
		})
		r.Check(name+" expiry goroutine", ok, p.pos(lit.Alloc.Pos()), name, "the constructor must start a goroutine calling RemoveExpired in a loop, otherwise incomplete messages are never forgotten")
	}
	if n == 0 {
		r.Undecided("transports owning ReadBuffers", "none found")
	}
	rcv := p.Method("/internal/segment", "ReadBuffers", "Receive")
	if rcv != nil {
		rcv = receiveMain(p, rcv)
		ok := false
		for _, st := range storesIn(rcv, "/internal/segment.ReadBuffer.ExpiredAt") {
			l := p.Leaves(st.Val, provOpts{})
			if hasLeaf(l, "call:time.Time.Add") && hasLeaf(l, "field:/internal/segment.ReadBuffers.ReadBufferExpiry") && hasLeaf(l, "global:/internal/segment.timeNow") {
				ok = true
			}
		}
		r.Check(fnName(rcv)+" refreshes expiry", ok, p.pos(rcv.Pos()), fnName(rcv), "ExpiredAt = timeNow().Add(ReadBufferExpiry) on every received segment")
	}
	rm := p.Method("/internal/segment", "ReadBuffers", "RemoveExpired")
	if rm != nil {
		ok := false
		allInstrs(rm, func(ins ssa.Instruction) {
			c, isCall := ins.(*ssa.Call)
			if !isCall {
				return
			}
			if b, isB := c.Call.Value.(*ssa.Builtin); isB && b.Name() == "delete" {
				// dominated by the true edge of now.After(v.ExpiredAt)
				allInstrs(rm, func(x ssa.Instruction) {
					ifs, isIf := x.(*ssa.If)
					if !isIf {
						return
					}
					if ac, isAC := ifs.Cond.(*ssa.Call); isAC && isCallNamed(ac, "time.Time.After") {
						al := p.Leaves(ac.Call.Args[1], provOpts{})
						if hasLeaf(al, "field:/internal/segment.ReadBuffer.ExpiredAt") && edgeDominates(ifs.Block(), ifs.Block().Succs[0], c.Block()) {
							ok = true
						}
					}
				})
			}
		})
		r.Check(fnName(rm)+" deletes only expired", ok, p.pos(rm.Pos()), fnName(rm), "delete only on the edge now.After(entry.ExpiredAt)")
	}
}

func ruleC14B6(r *Run) {
	r.Begin("B6", "fresh sequence number per message: the sequence argument of every segment.SendTo call is directly the result of atomic.AddUint32(&transport.sequenceNumber, 1) — the counter of the Transport, one per connection — evaluated for that call; the counter starts at MaxUint32 so that the first number is 0", 4)
	p := r.P
	sites := p.moduleCalls("/internal/segment.SendTo")
	for i, s := range sites {
		fn := s.Parent()
		name := fnName(fn)
		arg := instrCall(s).Args[1]
		ok := false
		detail := arg.String()
		if c, isCall := arg.(*ssa.Call); isCall && isCallNamed(c, "sync/atomic.AddUint32") {
			// the counter belongs to the connection (the Transport): all handles obtained from AsUnreliable() and
			// WriteUnreliable share one reassembly map at the peer, so they share one numbering
			if k, isK := constInt(c.Call.Args[1]); isK && k == 1 && strings.HasSuffix(fieldKeyOfAddr(c.Call.Args[0]), ".Transport.sequenceNumber") && dominatesInstr(c, s) {
				ok = true
			}
		}
		r.Check(fmt.Sprintf("%s SendTo#%d sequence", name, i+1), ok, posOf(p, s), name, "sequence argument: "+detail+"; a load-then-store lets two messages share a number and their segments get mixed")
	}
	if len(sites) < 2 {
		r.Undecided("SendTo call sites", fmt.Sprintf("%d found", len(sites)))
	}
	for _, pkg := range []string{"/transport/quic", "/transport/webtransport"} {
		tn := p.Named(pkg, "Transport")
		if tn == nil {
			continue
		}
		for _, lit := range p.allLiterals(tn) {
			if v, has := lit.Fields["sequenceNumber"]; has {
				k, isK := constInt(v)
				r.Check(fnName(lit.Fn)+" sequence start", isK && k == 4294967295, p.pos(lit.Alloc.Pos()), fnName(lit.Fn), "sequenceNumber must start at MaxUint32 (first issued number 0)")
			}
		}
	}
}

// callsInLoop: fn (or a static callee up to depth) calls one of names from inside a loop.
func (p *Prog) callsInLoop(fn *ssa.Function, depth int, looped bool, names ...string) bool {
	if fn == nil || fn.Blocks == nil {
		return false
	}
	found := false
	allInstrs(fn, func(ins ssa.Instruction) {
		c, ok := ins.(*ssa.Call)
		if !ok || found {
			return
		}
		l := looped || inLoop(c)
		if isCallNamed(c, names...) {
			if l {
				found = true
			}
			return
		}
		if depth > 0 {
			if cf := c.Call.StaticCallee(); cf != nil && p.Analysed(cf) && p.callsInLoop(cf, depth-1, l, names...) {
				found = true
			}
		}
	})
	return found
}

// paramRole classifies a parameter of the segment writer by the argument its looping caller passes: the 32-bit
// value is the message's sequence number; of the 16-bit values, the one that changes inside the caller's loop
// (it derives from a phi of a loop block) is the segment index, the loop-invariant one the maximal index.
func paramRole(p *Prog, fn *ssa.Function, prm *ssa.Parameter) string {
	idx := -1
	for i, q := range fn.Params {
		if q == prm {
			idx = i
		}
	}
	if idx < 0 {
		return ""
	}
	if b, ok := prm.Type().Underlying().(*types.Basic); ok && b.Kind() == types.Uint32 {
		return "seqNum"
	}
	for _, site := range p.staticCallSites(fn) {
		if !inLoop(site) {
			continue
		}
		cc := instrCall(site)
		if idx >= len(cc.Args) {
			continue
		}
		loop := loopBlocks(site.Block())
		varies := false
		seen := map[ssa.Value]bool{}
		var walk func(v ssa.Value)
		walk = func(v ssa.Value) {
			if v == nil || seen[v] {
				return
			}
			seen[v] = true
			if ph, ok := v.(*ssa.Phi); ok && loop[ph.Block()] {
				varies = true
				return
			}
			if ins, ok := v.(ssa.Instruction); ok {
				for _, op := range ins.Operands(nil) {
					if *op != nil {
						walk(*op)
					}
				}
			}
		}
		walk(cc.Args[idx])
		if varies {
			return "segIdx"
		}
		return "maxIdx"
	}
	return ""
}

// ruleC14B9: the header of every segment announces maxSegIdx; the receiver completes the message only when all
// maxSegIdx+1 segments have arrived. In the sender's loop over the segment indices no iteration may therefore leave
// the loop or move on without writing its segment (an empty last segment included), except by returning an error.
func ruleC14B9(r *Run) {
	r.Begin("B9", "every announced segment is sent: in SendTo's loop over the segment indices, neither the next iteration nor the code after the loop is reachable from the loop body without passing the call that writes the segment", 1)
	p := r.P
	st := r.function("/internal/segment", "SendTo")
	snd := r.function("/internal/segment", "send")
	if st == nil || snd == nil {
		return
	}
	name := fnName(st)
	var inLoopCall *ssa.Call
	allInstrs(st, func(ins ssa.Instruction) {
		if c, ok := ins.(*ssa.Call); ok && c.Call.StaticCallee() == snd && inLoop(c) {
			inLoopCall = c
		}
	})
	if inLoopCall == nil {
		r.Check(name+" sends inside the loop", false, p.pos(st.Pos()), name, "no call of the segment writer inside a loop")
		return
	}
	loop := loopBlocks(inLoopCall.Block())
	// loop header: the block of the loop that has a predecessor outside the loop
	var header *ssa.BasicBlock
	for b := range loop {
		for _, pr := range b.Preds {
			if !loop[pr] {
				header = b
			}
		}
	}
	if header == nil {
		r.Undecided(name+" loop header", "not found")
		return
	}
	// body entry: the successor of the header that stays in the loop
	var body *ssa.BasicBlock
	for _, s := range header.Succs {
		if loop[s] && s != header {
			body = s
		}
	}
	if body == nil {
		r.Undecided(name+" loop body", "not found")
		return
	}
	w := reachesWithoutFromBlock(body, func(x ssa.Instruction) bool {
		if x.Block() == header && x == header.Instrs[0] {
			return true // next iteration
		}
		if !loop[x.Block()] {
			if ret, isRet := x.(*ssa.Return); isRet {
				rs := retResults(ret)
				return len(rs) > 0 && isNilConst(rs[len(rs)-1]) // leaving the loop successfully
			}
		}
		return false
	}, func(x ssa.Instruction) bool { return x == ssa.Instruction(inLoopCall) })
	where := posOf(p, inLoopCall)
	detail := "every path through the loop body writes its segment"
	if w != nil {
		where = posOf(p, w)
		detail = "from the loop body " + posOf(p, w) + " is reached without writing the segment of this iteration: the headers already sent announce a segment that never arrives, so the receiver never completes the message"
	}
	r.Check(name+" writes every segment", w == nil, where, name, detail)
	// as many iterations as announced: the test that ends the loop compares the segment index with the very value the
	// headers carry as the last segment index (plus a constant at most) — "until nothing is left" sends one segment
	// fewer than announced when the payload is an exact multiple of the segment size
	var maxArg ssa.Value
	for i, prm := range snd.Params {
		if strings.Contains(strings.ToLower(prm.Name()), "max") && i < len(inLoopCall.Call.Args) {
			maxArg = inLoopCall.Call.Args[i]
		}
	}
	if maxArg == nil {
		r.Undecided(name+" announced count", "the writer's parameter that carries the last segment index was not identified")
		return
	}
	var strip func(v ssa.Value, d int) ssa.Value
	strip = func(v ssa.Value, d int) ssa.Value {
		if d > 4 {
			return v
		}
		switch x := v.(type) {
		case *ssa.Convert:
			return strip(x.X, d+1)
		case *ssa.ChangeType:
			return strip(x.X, d+1)
		case *ssa.BinOp:
			if x.Op == token.ADD || x.Op == token.SUB {
				if _, isK := x.Y.(*ssa.Const); isK {
					return strip(x.X, d+1)
				}
			}
		}
		return canonVal(v)
	}
	want := strip(maxArg, 0)
	okBound := false
	for b := range loop {
		ifs, isIf := b.Instrs[len(b.Instrs)-1].(*ssa.If)
		if !isIf {
			continue
		}
		leaves := false
		for _, sc := range b.Succs {
			if !loop[sc] {
				leaves = true
			}
		}
		bo, isBo := ifs.Cond.(*ssa.BinOp)
		if !leaves || !isBo {
			continue
		}
		if strip(bo.X, 0) == want || strip(bo.Y, 0) == want {
			okBound = true
		}
	}
	r.Check(name+" runs once per announced segment", okBound, posOf(p, inLoopCall), name, "the loop's exit test must compare the segment index with the last segment index that every header announces; a test on what is left of the payload ends one iteration early for exact multiples of the segment size")
}

// receiveMain: the function that does the work of fn — fn itself, or the unexported method whose results fn returns as
// they are after taking a lock (Receive -> receiveLocked), as long as fn itself does not parse anything.
func receiveMain(p *Prog, fn *ssa.Function) *ssa.Function {
	for i := 0; i < 2; i++ {
		parses := false
		allInstrs(fn, func(ins ssa.Instruction) {
			if cc := instrCall(ins); cc != nil {
				if o := calleeObj(cc); o != nil && o.Pkg() != nil && o.Pkg().Path() == "encoding/binary" {
					parses = true
				}
			}
		})
		if parses {
			return fn
		}
		g := tailCallee(p, fn)
		if g == nil || len(g.Params) != len(fn.Params) {
			return fn
		}
		fn = g
	}
	return fn
}

// datagramFuncs: fn and the unexported functions of its package that fn hands its datagram parameter (the second
// parameter) to, each with the parameter that holds the datagram there.
func datagramFuncs(p *Prog, fn *ssa.Function) map[*ssa.Function]*ssa.Parameter {
	out := map[*ssa.Function]*ssa.Parameter{}
	if len(fn.Params) < 2 {
		return out
	}
	out[fn] = fn.Params[1]
	allInstrs(fn, func(ins ssa.Instruction) {
		c, ok := ins.(*ssa.Call)
		if !ok {
			return
		}
		g := c.Call.StaticCallee()
		if g == nil || !p.Analysed(g) || g.Pkg != fn.Pkg || (g.Object() != nil && g.Object().Exported()) {
			return
		}
		for i, a := range c.Call.Args {
			if canonVal(a) == ssa.Value(fn.Params[1]) && i < len(g.Params) {
				out[g] = g.Params[i]
			}
		}
	})
	return out
}
