package main

import (
	"fmt"
	"go/token"
	"go/types"
	"sort"
	"strings"

	"golang.org/x/tools/go/ssa"
)

func init() {
	register(&PropSpec{
		ID:          "C07",
		Explanation: "Structural necessary conditions for stream isolation on a shared connection. R1: in every implementation of the unacknowledged-chunk store, each mutation of the per-connection map is keyed by the stream id (and sequence number) parameters; replacing the whole map is allowed only in a constructor. R2: in the wire connection's close paths every delete on a routing table is keyed by the closing request's stream id or by the alias looked up with it, and every dispatch loop looks up by the incoming message's own alias and sends only on the channel it found. R3: the store's Clear is reachable only on the non-reliable resume branch and only with the stream's own id.",
		NotDecided:  []string{"non-interference as a relational property over pairs of histories", "isolation inside the broker"},
		Assumptions: []string{"value provenance is computed intraprocedurally over SSA with parameters followed one call level"},
		Rules: func(r *Run) {
			ruleC07R1(r)
			ruleC07R2(r)
			ruleC07R3(r)
			ruleDispatchLoopsSurvive(r, "R4", "/wire", "/iscp")
			ruleC07R5(r)
			ruleC07R6(r, newLockEngine(r.P))
			ruleC07R7(r)
			r.borrow("C08", func() { ruleD1(r) }) // a reply abandoned by one stream must not stall the router of all
		},
	})
}

// paramLeaf builds the provenance leaf of a parameter of fn.
func paramLeaf(fn *ssa.Function, name string) string {
	return "param:" + funcLeafName(fn) + "#" + name
}

func ruleC07R1(r *Run) {
	r.Begin("R1", "every mutation of a sentStorage implementation's per-connection map is keyed by the method's stream-id parameter (inner maps additionally by the sequence parameter); assigning the whole field happens only in constructors", 3)
	p := r.P
	ifaceN := r.named("/iscp", "sentStorage")
	if ifaceN == nil {
		return
	}
	iface := ifaceN.Underlying().(*types.Interface)
	impls := p.implementers(iface, false)
	if len(impls) == 0 {
		r.Undecided("implementers", "no implementation of sentStorage found")
		return
	}
	r.Stat("implementations", len(impls))
	for _, n := range impls {
		st, ok := n.Underlying().(*types.Struct)
		if !ok {
			continue
		}
		// map-typed fields of the implementation
		mapFields := map[string]bool{}
		for i := 0; i < st.NumFields(); i++ {
			if _, isMap := st.Field(i).Type().Underlying().(*types.Map); isMap {
				mapFields[fieldKey(n, st.Field(i))] = true
			}
		}
		if len(mapFields) == 0 {
			continue
		}
		for i := 0; i < iface.NumMethods(); i++ {
			mname := iface.Method(i).Name()
			fn := p.methodOf(n, mname)
			if fn == nil || fn.Blocks == nil {
				continue
			}
			// stream id / sequence parameters by type
			var idParam, seqParam *ssa.Parameter
			for _, prm := range fn.Params[1:] {
				if typeIs(prm.Type(), "github.com/google/uuid", "UUID") {
					idParam = prm
				} else if b, ok := prm.Type().Underlying().(*types.Basic); ok && b.Kind() == types.Uint32 {
					seqParam = prm
				}
			}
			name := fnName(fn)
			// the method and the closures it hands to helpers (x.locked(func(){…}))
			var accs []Access
			withAnon(fn, func(f *ssa.Function) { accs = append(accs, collectAccesses(f)...) })
			sameParam := func(v ssa.Value, prm *ssa.Parameter) bool {
				return canonVal(v) == ssa.Value(prm) || paramOf(v) == prm
			}
			for _, a := range accs {
				fk := fieldKey(a.Owner, a.Field)
				if !mapFields[fk] || !a.Write {
					continue
				}
				switch a.What {
				case "store":
					r.Check(name+" assigns "+a.Field.Name(), false, p.pos(a.Ins.Pos()), name,
						fmt.Sprintf("method %s replaces the whole per-connection map %s: every other stream's unacknowledged chunks are lost", mname, fk))
				case "mapupdate", "delete":
					var mp, key ssa.Value
					if mu, ok := a.Ins.(*ssa.MapUpdate); ok {
						mp, key = mu.Map, mu.Key
					} else if c, ok := a.Ins.(*ssa.Call); ok {
						mp, key = c.Call.Args[0], c.Call.Args[1]
					}
					// outer or inner map?
					inner := false
					var outerKey ssa.Value
					switch m := mp.(type) {
					case *ssa.Lookup:
						inner = true
						outerKey = m.Index
					case *ssa.Extract:
						if l, ok := m.Tuple.(*ssa.Lookup); ok {
							inner = true
							outerKey = l.Index
						}
					}
					okKey := true
					why := ""
					if idParam == nil {
						okKey = false
						why = "method has no stream-id parameter"
					} else if !inner {
						if !sameParam(key, idParam) {
							okKey = false
							why = "outer map mutated with a key that is not the stream-id parameter"
						}
					} else {
						if !sameParam(outerKey, idParam) {
							okKey = false
							why = "inner map selected with a key that is not the stream-id parameter"
						}
						if seqParam != nil && !sameParam(key, seqParam) {
							okKey = false
							why = "inner map mutated with a key that is not the sequence parameter"
						}
					}
					r.Check(fmt.Sprintf("%s %s %s", name, a.What, a.Field.Name()), okKey, p.pos(a.Ins.Pos()), name,
						fmt.Sprintf("%s on %s keyed by the method's own stream id/sequence parameters %s", a.What, fk, why))
				default:
					r.Check(fmt.Sprintf("%s %s %s", name, a.What, a.Field.Name()), false, p.pos(a.Ins.Pos()), name, "unrecognised mutation form of the per-connection map")
				}
			}
		}
	}
}

func ruleC07R2(r *Run) {
	r.Begin("R2", "routing tables of the wire connection: deletes are keyed by the closing request's stream id or the alias looked up with it; dispatch loops look up by the incoming message's StreamIDAlias and send only on the channel found", 12)
	p := r.P
	tables := map[string]bool{}
	for _, t := range []struct{ typ, f string }{
		{"clientUpstreams", "acks"}, {"clientUpstreams", "aliases"}, {"clientUpstreams", "messageWriters"},
		{"clientDownstreams", "dps"}, {"clientDownstreams", "dpsUnreliable"}, {"clientDownstreams", "ackCompletes"},
		{"clientDownstreams", "metadata"}, {"clientDownstreams", "aliases"},
	} {
		if r.field("/wire", t.typ, t.f) != nil {
			tables["/wire."+t.typ+"."+t.f] = true
		}
	}
	ndel, nlookup := 0, 0
	inserts := map[string]int{}
	deletes := map[string]int{}
	defer func() {
		var ks []string
		for fk := range tables {
			ks = append(ks, fk)
		}
		sort.Strings(ks)
		for _, fk := range ks {
			r.Check("table "+fk+" has a registration site", inserts[fk] > 0, "", "wire", fmt.Sprintf("%d map update(s) insert into %s outside constructors; a table that is only looked up and deleted from routes nothing", inserts[fk], fk))
			r.Check("table "+fk+" has a removal site", deletes[fk] > 0, "", "wire", fmt.Sprintf("%d delete(s) on %s: a closed stream's entry must leave the table (the alias can be assigned to another stream later)", deletes[fk], fk))
		}
	}()
	for _, fn := range p.Funcs {
		if fnPkgPath(fn) != modPath+"/wire" {
			continue
		}
		name := fnName(fn)
		for _, a := range collectAccesses(fn) {
			fk := fieldKey(a.Owner, a.Field)
			if !tables[fk] {
				continue
			}
			if a.What == "mapupdate" {
				inserts[fk]++
			}
			if a.What == "delete" {
				ndel++
				deletes[fk]++
				c := a.Ins.(*ssa.Call)
				key := c.Call.Args[1]
				leaves := p.Leaves(key, provOpts{ParamDepth: 2})
				isAliasTable := strings.HasSuffix(fk, ".aliases")
				var bad []string
				if isAliasTable {
					bad = leavesWithin(leaves, []string{"field:/message.UpstreamCloseRequest.StreamID", "field:/message.DownstreamCloseRequest.StreamID", "param:*"})
				} else {
					bad = leavesWithin(leaves, []string{"elem:/wire.clientUpstreams.aliases", "elem:/wire.clientDownstreams.aliases",
						"field:/message.UpstreamCloseRequest.StreamID", "field:/message.DownstreamCloseRequest.StreamID", "field:/wire.ClientConn.upstreams", "field:/wire.ClientConn.downstreams", "param:*"})
					if !hasLeafPrefix(leaves, "elem:/wire.client") {
						bad = append(bad, "key is not the alias looked up for the closing stream")
					}
				}
				// the key (or, for an alias key, the key of the alias lookup) must be the close request's StreamID
				idLeaves := leaves
				if !isAliasTable {
					idLeaves = nil
					kv := canonVal(key)
					if ex, ok := kv.(*ssa.Extract); ok {
						kv = ex.Tuple
					}
					if l, ok := kv.(*ssa.Lookup); ok {
						idLeaves = p.Leaves(l.Index, provOpts{ParamDepth: 2})
						// the alias of a stream that is not registered is the zero value, which is a valid alias of
						// another stream: the lookup must be the comma-ok form and the delete confined to its found edge
						found := false
						if l.CommaOk {
							allInstrs(fn, func(x ssa.Instruction) {
								ifs, isIf := x.(*ssa.If)
								if !isIf {
									return
								}
								cond := ifs.Cond
								neg := false
								if u, isU := cond.(*ssa.UnOp); isU && u.Op == token.NOT {
									cond, neg = u.X, true
								}
								ex, isEx := cond.(*ssa.Extract)
								if !isEx || ex.Index != 1 || ex.Tuple != ssa.Value(l) {
									return
								}
								okEdge := ifs.Block().Succs[0]
								if neg {
									okEdge = ifs.Block().Succs[1]
								}
								if edgeDominates(ifs.Block(), okEdge, c.Block()) {
									found = true
								}
							})
						}
						if !found {
							bad = append(bad, "the alias used as key comes from a lookup whose not-found case is not excluded (a missing stream yields alias 0, which belongs to another stream)")
						}
					}
				}
				if !hasLeafPrefix(idLeaves, "field:/message.") || !strings.HasSuffix(strings.Join(idLeaves, " "), "") {
					bad = append(bad, "key does not derive from the close request's StreamID")
				} else {
					okID := false
					for _, l := range idLeaves {
						if strings.HasSuffix(l, "CloseRequest.StreamID") {
							okID = true
						}
					}
					if !okID {
						bad = append(bad, "alias looked up with something other than the close request's StreamID")
					}
				}
				// a delete guarded by a membership test of the same table sits on the found edge
				allInstrs(fn, func(x ssa.Instruction) {
					ifs, isIf := x.(*ssa.If)
					if !isIf {
						return
					}
					ex, isEx := ifs.Cond.(*ssa.Extract)
					if !isEx || ex.Index != 1 {
						return
					}
					lk, isLk := ex.Tuple.(*ssa.Lookup)
					if !isLk || !lk.CommaOk || !hasLeaf(p.Leaves(lk.X, provOpts{}), "field:"+fk) {
						return
					}
					if edgeDominates(ifs.Block(), ifs.Block().Succs[1], c.Block()) && !edgeDominates(ifs.Block(), ifs.Block().Succs[0], c.Block()) {
						bad = append(bad, "the delete runs only on the not-found edge of the membership test at "+posOf(p, ifs)+": the entry of the closing stream is never removed")
					}
				})
				r.Check(name+" delete "+fk, len(bad) == 0, p.pos(a.Ins.Pos()), name,
					fmt.Sprintf("delete on %s keyed by [%s]%s", fk, joinLeaves(leaves), badSuffix(bad)))
			}
		}
		// dispatch loops: functions ranging over a msg channel field and looking up a table by msg.StreamIDAlias
		allInstrs(fn, func(ins ssa.Instruction) {
			var lk *ssa.Lookup
			if l, ok := ins.(*ssa.Lookup); ok {
				lk = l
			}
			if lk == nil {
				return
			}
			src := ""
			if u, ok := lk.X.(*ssa.UnOp); ok {
				src = fieldKeyOfAddr(u.X)
			}
			if !tables[src] || strings.HasSuffix(src, ".aliases") {
				return
			}
			// only loops fed by a received message: key derives from a message field
			leaves := p.Leaves(lk.Index, provOpts{})
			if !hasLeafPrefix(leaves, "field:/message.") {
				return
			}
			if !strings.Contains(name, "Loop") && !hasLeafPrefix(leaves, "rangeval:") && !hasLeaf(leaves, "recv") {
				// lookups in request paths (SendUpstreamChunk etc.)
			}
			nlookup++
			okKey := false
			for _, l := range leaves {
				if strings.HasSuffix(l, ".StreamIDAlias") && strings.HasPrefix(l, "field:/message.") {
					okKey = true
				}
			}
			r.Check(name+" lookup "+src, okKey, p.pos(lk.Pos()), name, fmt.Sprintf("routing-table lookup on %s keyed by [%s]; must be the message's own StreamIDAlias", src, joinLeaves(leaves)))
		})
		// a slow or dead stream must not stall the others: per-alias deliveries never block
		allInstrs(fn, func(ins ssa.Instruction) {
			if s, ok := ins.(*ssa.Send); ok {
				l := p.Leaves(s.Chan, provOpts{})
				for _, x := range l {
					if strings.HasPrefix(x, "elem:/wire.clientUpstreams.") || strings.HasPrefix(x, "elem:/wire.clientDownstreams.") {
						r.Check(name+" non-blocking delivery", false, p.pos(s.Pos()), name, "plain blocking send on a per-alias channel taken from "+strings.TrimPrefix(x, "elem:")+": a backlog on one stream head-of-line blocks every other stream of the connection")
					}
				}
			}
			if sel, ok := ins.(*ssa.Select); ok && sel.Blocking && !timerBounded(sel) {
				for _, st := range sel.States {
					if st.Dir != types.SendOnly {
						continue
					}
					for _, x := range p.Leaves(st.Chan, provOpts{}) {
						if strings.HasPrefix(x, "elem:/wire.clientUpstreams.") || strings.HasPrefix(x, "elem:/wire.clientDownstreams.") {
							r.Check(name+" non-blocking delivery", false, p.pos(sel.Pos()), name, "blocking select sends on a per-alias channel taken from "+strings.TrimPrefix(x, "elem:"))
						}
					}
				}
			}
		})
		// sends in dispatch loops go to the channel just looked up
		if strings.HasPrefix(fn.Name(), "read") && strings.HasSuffix(fn.Name(), "Loop") {
			allInstrs(fn, func(ins ssa.Instruction) {
				sel, ok := ins.(*ssa.Select)
				if !ok {
					return
				}
				for _, st := range sel.States {
					if st.Dir != types.SendOnly {
						continue
					}
					leaves := p.Leaves(st.Chan, provOpts{})
					if !hasLeafPrefix(leaves, "elem:/wire.client") {
						continue
					}
					// channel comes from a table lookup: the lookup's comma-ok must guard the send
					okGuard := false
					if ex, isEx := st.Chan.(*ssa.Extract); isEx {
						if l, isL := ex.Tuple.(*ssa.Lookup); isL && l.CommaOk && l.Referrers() != nil {
							for _, ref := range *l.Referrers() {
								if ex2, ok := ref.(*ssa.Extract); ok && ex2.Index == 1 {
									if condTrueDominates(fn, ex2, sel) {
										okGuard = true
									}
								}
							}
						}
					}
					r.Check(name+" send-on-found", okGuard, p.pos(sel.Pos()), name, "dispatch send must use the channel found by a comma-ok lookup, on the found edge only")
					r.Check(name+" non-blocking delivery", !sel.Blocking || timerBounded(sel), p.pos(sel.Pos()), name, "per-alias delivery uses a select with a default case (or one bounded by a one-shot timer)")
				}
			})
		}
	}
	r.Stat("deletes", ndel)
	r.Stat("lookups", nlookup)
}

func badSuffix(bad []string) string {
	if len(bad) == 0 {
		return ""
	}
	return "; not allowed: " + strings.Join(bad, ", ")
}

// ruleC07R3 / C02.R5: Clear only on the non-reliable branch, with the stream's own id.
func ruleC07R3(r *Run) {
	r.Begin("R3", "sentStorage.Clear is called only with the stream's own id and is unreachable on the branch where the stream's QoS is reliable; List (retransmission) is called with the stream's own id", 2)
	ruleClearOnlyNonReliable(r)
}

func ruleClearOnlyNonReliable(r *Run) {
	p := r.P
	reliable, ok := p.enumConst("/message", "QoSReliable")
	if !ok {
		r.Undecided("anchor message.QoSReliable", "constant not found")
		return
	}
	clears := p.moduleCalls("/iscp.sentStorage.Clear")
	lists := p.moduleCalls("/iscp.sentStorage.List")
	nonImpl := 0
	for _, c := range append(clears, lists...) {
		fn := c.Parent()
		// skip delegating implementations (wrapper stores)
		if fn.Signature.Recv() != nil {
			if rn := namedOf(fn.Signature.Recv().Type()); rn != nil && strings.Contains(rn.Obj().Name(), "Storage") {
				continue
			}
		}
		nonImpl++
		cc := instrCall(c)
		args := cc.Args
		isClear := isCallNamed(c, "/iscp.sentStorage.Clear")
		what := "List"
		if isClear {
			what = "Clear"
		}
		name := fnName(fn)
		// id argument
		idLeaves := p.Leaves(args[1], provOpts{})
		bad := leavesWithin(idLeaves, []string{"field:/iscp.Upstream.ID", "param:*"})
		if !hasLeaf(idLeaves, "field:/iscp.Upstream.ID") {
			bad = append(bad, "stream id argument does not derive from Upstream.ID")
		}
		r.Check(name+" "+what+" id", len(bad) == 0, p.pos(c.Pos()), name, fmt.Sprintf("%s called with stream id from [%s]%s", what, joinLeaves(idLeaves), badSuffix(bad)))
		if !isClear {
			continue
		}
		// find the If on Config.QoS == QoSReliable in the same function
		var qosIf *ssa.If
		var relSucc *ssa.BasicBlock
		allInstrs(fn, func(ins ssa.Instruction) {
			ifs, ok := ins.(*ssa.If)
			if !ok {
				return
			}
			bo, ok := ifs.Cond.(*ssa.BinOp)
			if !ok {
				return
			}
			var other ssa.Value
			if v, ok := constInt(bo.Y); ok && v == reliable {
				other = bo.X
			} else if v, ok := constInt(bo.X); ok && v == reliable {
				other = bo.Y
			}
			if other == nil {
				return
			}
			if !hasLeafPrefix(p.Leaves(other, provOpts{}), "field:/iscp.UpstreamConfig.QoS") {
				return
			}
			qosIf = ifs
			if bo.Op.String() == "==" {
				relSucc = ifs.Block().Succs[0]
			} else {
				relSucc = ifs.Block().Succs[1]
			}
		})
		if qosIf == nil {
			r.Check(name+" Clear branch", false, p.pos(c.Pos()), name, "Clear is not guarded by a test of the stream's QoS against QoSReliable")
			continue
		}
		// Clear must be unreachable from the reliable successor, and dominated by the If
		reach := reachesWithoutBlock(relSucc, c.Block())
		r.Check(name+" Clear branch", !reach, p.pos(c.Pos()), name,
			fmt.Sprintf("Clear reachable on the branch where QoS == QoSReliable: %v", reach))
	}
	r.Stat("clear_or_list_call_sites", nonImpl)
}

// reachesWithoutBlock: is block `to` reachable from block `from` (inclusive)?
func reachesWithoutBlock(from, to *ssa.BasicBlock) bool {
	seen := map[*ssa.BasicBlock]bool{}
	stack := []*ssa.BasicBlock{from}
	for len(stack) > 0 {
		b := stack[len(stack)-1]
		stack = stack[:len(stack)-1]
		if b == to {
			return true
		}
		if seen[b] {
			continue
		}
		seen[b] = true
		stack = append(stack, b.Succs...)
	}
	return false
}

// ruleDispatchLoopsSurvive: a loop that ranges over a channel of incoming messages serves every stream of the
// connection; one message it cannot route must not end it. Inside the loop body a return is allowed only on a
// branch entered through a receive from a Done()/Closed()-like channel (shutdown).
func ruleDispatchLoopsSurvive(r *Run, id string, pkgs ...string) {
	r.Begin(id, "dispatch loops survive unroutable messages: in every function that ranges over a channel of incoming messages, no return is reachable inside the loop body except on a branch entered by receiving from a Done()/Closed() channel; an unknown alias or a full subscriber is skipped with continue", 6)
	p := r.P
	n := 0
	for _, fn := range p.Funcs {
		okPkg := false
		for _, pk := range pkgs {
			if fnPkgPath(fn) == modPath+pk {
				okPkg = true
			}
		}
		if !okPkg || fn.Blocks == nil {
			continue
		}
		// range over channel: a comma-ok receive whose ok decides the loop, located in a block that is part of a cycle
		allInstrs(fn, func(ins ssa.Instruction) {
			u, ok := ins.(*ssa.UnOp)
			if !ok || u.Op != token.ARROW || !u.CommaOk || !inLoop(u) || u.Block().Comment != "rangechan.loop" {
				return
			}
			var body *ssa.BasicBlock
			if ifs, isIf := u.Block().Instrs[len(u.Block().Instrs)-1].(*ssa.If); isIf {
				body = ifs.Block().Succs[0]
			}
			if body == nil {
				return
			}
			n++
			nb := 0
			name := fnName(fn)
			// shutdown branches in the body
			var shut []*ssa.BasicBlock
			for _, b := range fn.Blocks {
				if !(b == body || body.Dominates(b)) {
					continue
				}
				for _, x := range b.Instrs {
					if sel, isSel := x.(*ssa.Select); isSel {
						for i, st := range sel.States {
							if st.Dir != types.RecvOnly {
								continue
							}
							if _, isDone := doneLike(st.Chan); isDone {
								if sb := selectStateBlock(sel, i); sb != nil {
									shut = append(shut, sb)
								}
							}
						}
					}
				}
			}
			k := 0
			bad := 0
			for _, b := range fn.Blocks {
				if !(b == body || body.Dominates(b)) {
					continue
				}
				ret, isRet := b.Instrs[len(b.Instrs)-1].(*ssa.Return)
				if !isRet {
					continue
				}
				k++
				okRet := false
				for _, sb := range shut {
					if sb == b || sb.Dominates(b) {
						okRet = true
					}
				}
				if !okRet {
					bad++
				}
				r.Check(fmt.Sprintf("%s return#%d inside the message loop", name, k), okRet, posOf(p, ret), name, "a return inside the body of the loop over "+u.X.Name()+" ends dispatch for every stream of the connection; only a shutdown branch (receive from Done()/Closed()) may do that")
			}
			r.Check(name+" loop over incoming messages", bad == 0, posOf(p, u), name, fmt.Sprintf("%d return(s) inside the loop body, %d not on a shutdown branch", k, bad))
			// a batch carried by one message is handled to its end: an inner loop over a slice of the received message is
			// left only through its header (an element that cannot be routed is skipped, not the rest of the batch)
			for _, h := range fn.Blocks {
				if !(body.Dominates(h)) || !(h.Comment == "rangeindex.loop" || h.Comment == "rangeiter.loop") {
					continue
				}
				inner := naturalLoop(h)
				fromMsg := false
				for b := range inner {
					for _, x := range b.Instrs {
						var base ssa.Value
						switch y := x.(type) {
						case *ssa.IndexAddr:
							base = y.X
						case *ssa.Index:
							base = y.X
						case *ssa.Next:
							if rg, isR := y.Iter.(*ssa.Range); isR {
								base = rg.X
							}
						}
						if base != nil && derivesFrom(base, u, 0) {
							fromMsg = true
						}
					}
				}
				if !fromMsg {
					continue
				}
				var leak *ssa.BasicBlock
				for b := range inner {
					if b == h {
						continue
					}
					onShutdown := false
					for _, sb := range shut {
						if sb == b || sb.Dominates(b) {
							onShutdown = true
						}
					}
					for _, sc := range b.Succs {
						if !inner[sc] && !onShutdown {
							leak = b
						}
					}
				}
				where := posOf(p, h.Instrs[len(h.Instrs)-1])
				if leak != nil {
					where = posOf(p, leak.Instrs[len(leak.Instrs)-1])
				}
				nb++
				r.Check(fmt.Sprintf("%s batch loop#%d handles every element", name, nb), leak == nil, where, name, "the loop over the elements of one received message is left from inside its body (break or return): the elements after the first one that could not be handled are dropped")
			}
		})
	}
	r.Stat("range_over_channel_loops", n)
}

// ruleC07R5: a registration in a routing table of the wire connection is not skipped and installs a channel of its own.
// A new holder of an alias that found an entry and kept it would inherit the previous holder's channel together with
// whatever is still queued in it.
func ruleC07R5(r *Run) {
	r.Begin("R5", "a routing-table registration installs a fresh channel and is never skipped: where a /wire function stores a channel into a routing table, the channel is made in that function and no successful return bypasses the store (finding an entry already present is an error, not a reason to keep it)", 5)
	p := r.P
	for _, fn := range p.Funcs {
		if fnPkgPath(fn) != modPath+"/wire" || fn.Blocks == nil {
			continue
		}
		name := fnName(fn)
		seen := map[string]int{}
		allInstrs(fn, func(ins ssa.Instruction) {
			mu, ok := ins.(*ssa.MapUpdate)
			if !ok {
				return
			}
			if _, isCh := mu.Value.Type().Underlying().(*types.Chan); !isCh {
				return
			}
			fk := ""
			if ld, isLd := mu.Map.(*ssa.UnOp); isLd && ld.Op == token.MUL {
				fk = fieldKeyOfAddr(ld.X)
			}
			if fk == "" {
				// a nested table (metadata[alias][node]): name it by the field the outer map was looked up in
				if lk, isLk := mu.Map.(*ssa.Lookup); isLk {
					if l2, is2 := lk.X.(*ssa.UnOp); is2 && l2.Op == token.MUL {
						fk = fieldKeyOfAddr(l2.X)
					}
				}
			}
			if fk == "" {
				return
			}
			seen[fk]++
			key := name + " registers in " + fk
			if seen[fk] > 1 {
				key += fmt.Sprintf("#%d", seen[fk])
			}
			_, fresh := canonVal(mu.Value).(*ssa.MakeChan)
			if _, isPrm := canonVal(mu.Value).(*ssa.Parameter); isPrm {
				// a registration helper: fresh when every caller hands in a channel it has just made
				origins, complete := p.originsThroughParams(mu.Value, 0)
				fresh = complete && len(origins) > 0
				for _, o := range origins {
					if _, isMk := o.(*ssa.MakeChan); !isMk {
						fresh = false
					}
				}
			}
			if ld, isLd := mu.Value.(*ssa.UnOp); isLd && ld.Op == token.MUL && !fresh {
				// a variable shared with the enclosing function (the registration sits in a closure): made fresh when a
				// store of a new channel into that variable dominates the registration
				allInstrs(fn, func(x ssa.Instruction) {
					if st, isSt := x.(*ssa.Store); isSt && st.Addr == ld.X && dominatesInstr(st, mu) {
						if _, isMk := st.Val.(*ssa.MakeChan); isMk {
							fresh = true
						}
					}
				})
			}
			isMu := func(x ssa.Instruction) bool { return x == ssa.Instruction(mu) }
			var bypass ssa.Instruction
			if returnsError(fn) {
				bypass, _ = successReturnWithout(fn, isMu)
			} else {
				bypass = reachesFromEntryWithout(fn, isReturn, isMu)
			}
			where := posOf(p, mu)
			if bypass != nil {
				where = posOf(p, bypass)
			}
			r.Check(key, fresh && bypass == nil, where, name, fmt.Sprintf("the stored channel is made here: %v; a successful return that bypasses the registration: %v (the new holder would keep the previous holder's channel and its queued messages)", fresh, bypass != nil))
		})
	}
}

// naturalLoop returns the blocks of the natural loop with header h (h and every block that reaches a back edge to h
// without leaving h's dominance).
func naturalLoop(h *ssa.BasicBlock) map[*ssa.BasicBlock]bool {
	loop := map[*ssa.BasicBlock]bool{h: true}
	var stack []*ssa.BasicBlock
	for _, t := range h.Preds {
		if h.Dominates(t) && !loop[t] {
			loop[t] = true
			stack = append(stack, t)
		}
	}
	for len(stack) > 0 {
		b := stack[len(stack)-1]
		stack = stack[:len(stack)-1]
		for _, pr := range b.Preds {
			if !loop[pr] && h.Dominates(pr) {
				loop[pr] = true
				stack = append(stack, pr)
			}
		}
	}
	return loop
}

// derivesFrom: v is src or is read out of src (field, element, slice, tuple component, merged value).
func derivesFrom(v, src ssa.Value, depth int) bool {
	if depth > 10 || v == nil {
		return false
	}
	if v == src {
		return true
	}
	switch x := v.(type) {
	case *ssa.UnOp:
		return derivesFrom(x.X, src, depth+1)
	case *ssa.Field:
		return derivesFrom(x.X, src, depth+1)
	case *ssa.FieldAddr:
		return derivesFrom(x.X, src, depth+1)
	case *ssa.Extract:
		return derivesFrom(x.Tuple, src, depth+1)
	case *ssa.Slice:
		return derivesFrom(x.X, src, depth+1)
	case *ssa.Index:
		return derivesFrom(x.X, src, depth+1)
	case *ssa.IndexAddr:
		return derivesFrom(x.X, src, depth+1)
	case *ssa.Phi:
		for _, e := range x.Edges {
			if derivesFrom(e, src, depth+1) {
				return true
			}
		}
	}
	return false
}

// ruleC07R6: the routing tables of the wire connection are shared by every stream; their locks are held for table
// operations only. A transport write (or read) made while such a lock is held keeps the lock for as long as the link
// stalls: every open, resume and close of any other stream then waits for the write lock, and — sync.RWMutex queues
// new readers behind a waiting writer — so does every other stream's send and the ack router.
func ruleC07R6(r *Run, le *LockEngine) {
	r.Begin("R6", "no transport I/O under a routing-table lock: in package wire no interface call of Write/WriteUnreliable/Read is made while the mutex of clientUpstreams, clientDownstreams or the reply table (ClientConn.mu) is held", 5)
	p := r.P
	tableLocks := map[*types.Var]string{}
	for _, g := range guardTable {
		if !strings.HasPrefix(g.Owner, "/wire.") || len(g.Lock) != 1 {
			continue
		}
		i := strings.LastIndexByte(g.Owner, '.')
		if f := p.Field(g.Owner[:i], g.Owner[i+1:], g.Lock[0]); f != nil {
			tableLocks[f] = g.Owner + "." + g.Lock[0]
		}
	}
	if len(tableLocks) == 0 {
		r.Undecided("table locks", "no lock of a wire routing table resolved")
		return
	}
	io := map[string]bool{"Write": true, "WriteUnreliable": true, "Read": true, "ReadUnreliable": true}
	for _, fn := range p.Funcs {
		if fnPkgPath(fn) != modPath+"/wire" || fn.Blocks == nil {
			continue
		}
		name := fnName(fn)
		fi := le.Info(fn)
		k := 0
		allInstrs(fn, func(ins ssa.Instruction) {
			c, ok := ins.(*ssa.Call)
			if !ok || !c.Call.IsInvoke() || !io[c.Call.Method.Name()] {
				return
			}
			k++
			bad := ""
			for key := range le.HeldAt(c) {
				if f := fi.keyField[key]; f != nil {
					if nm, isT := tableLocks[f]; isT {
						bad = nm
					}
				}
			}
			r.Check(fmt.Sprintf("%s %s#%d outside the table locks", name, c.Call.Method.Name(), k), bad == "", posOf(p, c), name, "the transport call is made while "+bad+" is held: a stalled link keeps the routing table locked for every stream of the connection")
		})
	}
}

// ruleC07R7: one alias per downstream. The alias a stream acknowledges and resumes under is the one it subscribed and
// opened with: the value stored in Downstream.idAlias when the stream is created is the result of the same
// AliasGenerator.Next() call that feeds the open request, not a later reading of the shared generator (another
// stream opened in between has moved it on).
func ruleC07R7(r *Run) {
	r.Begin("R7", "one alias per downstream: where package iscp creates a Downstream, idAlias derives from a call of AliasGenerator.Next (through helper results and parameters) and from no other reading of the connection's shared generator; DownstreamOpenRequest.DesiredStreamIDAlias derives from Next as well", 2)
	p := r.P
	d := r.named("/iscp", "Downstream")
	if d == nil {
		return
	}
	n := 0
	for _, lit := range p.allLiterals(d) {
		if fnPkgPath(lit.Fn) != modPath+"/iscp" {
			continue
		}
		v, has := lit.Fields["idAlias"]
		if !has {
			continue
		}
		n++
		name := fnName(lit.Fn)
		l := p.Leaves(v, provOpts{IntoCallees: true, ParamDepth: 1})
		// the alias may travel from the helper that issued it in a small result struct: expand fields of unexported
		// struct types of package iscp by what is stored into them
		var carriers []string
		for _, x := range l {
			if strings.HasPrefix(x, "field:/iscp.") {
				rest := strings.TrimPrefix(x, "field:/iscp.")
				if rest != "" && rest[0] >= 'a' && rest[0] <= 'z' {
					carriers = append(carriers, strings.TrimPrefix(x, "field:"))
				}
			}
		}
		if len(carriers) > 0 {
			l = p.LeavesExpanded(v, provOpts{IntoCallees: true, ParamDepth: 1}, carriers...)
		}
		okNext := hasLeaf(l, "call:/wire.AliasGenerator.Next")
		other := ""
		for _, x := range l {
			if strings.HasPrefix(x, "call:/wire.AliasGenerator.") && x != "call:/wire.AliasGenerator.Next" {
				other = x
			}
		}
		r.Check(name+" idAlias is the issued alias", okNext && other == "", p.pos(lit.Alloc.Pos()), name, "idAlias <- ["+joinLeaves(l)+"]: the alias must be the very value Next() returned for this stream ("+other+" reads the generator shared by all streams of the connection at a later moment)")
	}
	req := r.named("/message", "DownstreamOpenRequest")
	if req != nil {
		for _, lit := range p.allLiterals(req) {
			if fnPkgPath(lit.Fn) != modPath+"/iscp" {
				continue
			}
			if v, has := lit.Fields["DesiredStreamIDAlias"]; has {
				n++
				name := fnName(lit.Fn)
				l := p.Leaves(v, provOpts{IntoCallees: true, ParamDepth: 1})
				r.Check(name+" requests the issued alias", hasLeaf(l, "call:/wire.AliasGenerator.Next"), p.pos(lit.Alloc.Pos()), name, "DesiredStreamIDAlias <- ["+joinLeaves(l)+"]")
			}
		}
	}
	if n == 0 {
		r.Undecided("Downstream construction", "no Downstream literal with idAlias in package iscp")
	}
}

// timerBounded: the select has a receive case on a one-shot timer (time.After, or the C of a *time.Timer): it waits for
// a bounded time only.
func timerBounded(sel *ssa.Select) bool {
	for _, st := range sel.States {
		if st.Dir != types.RecvOnly {
			continue
		}
		v := st.Chan
		if c, ok := v.(*ssa.Call); ok {
			if o := calleeObj(&c.Call); o != nil && o.Pkg() != nil && o.Pkg().Path() == "time" && o.Name() == "After" {
				return true
			}
		}
		if u, ok := v.(*ssa.UnOp); ok && u.Op == token.MUL {
			if fa, isFA := u.X.(*ssa.FieldAddr); isFA {
				if pt, isP := fa.X.Type().Underlying().(*types.Pointer); isP {
					if n, isN := pt.Elem().(*types.Named); isN && n.Obj().Pkg() != nil && n.Obj().Pkg().Path() == "time" && n.Obj().Name() == "Timer" {
						return true
					}
				}
			}
		}
	}
	return false
}
