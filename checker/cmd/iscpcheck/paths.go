package main

import (
	"go/token"
	"go/types"
	"strings"

	"golang.org/x/tools/go/ssa"
)

// Path is an access path root.f.g… of an SSA value. Loads (pointer
// dereferences) and interface/type conversions are transparent.
type Path struct {
	Root   ssa.Value    // Parameter, FreeVar (resolved to the parent's value when bound), Global, Alloc, or other
	Fields []*types.Var // field selectors applied in order
	Elem   []bool       // Elem[i]: an index/lookup was applied after Fields[i-1] (i=0: on the root)
}

func (p *Path) String() string {
	if p == nil {
		return "?"
	}
	var sb strings.Builder
	sb.WriteString(rootName(p.Root))
	if len(p.Elem) > 0 && p.Elem[0] {
		sb.WriteString("[]")
	}
	for i, f := range p.Fields {
		sb.WriteByte('.')
		sb.WriteString(canon(f)) // baseline name of a renamed field (see names.go)
		if i+1 < len(p.Elem) && p.Elem[i+1] {
			sb.WriteString("[]")
		}
	}
	return sb.String()
}

func rootName(v ssa.Value) string {
	switch r := v.(type) {
	case *ssa.Parameter:
		return r.Name()
	case *ssa.FreeVar:
		return r.Name()
	case *ssa.Global:
		return r.Pkg.Pkg.Name() + "." + r.Name()
	case *ssa.Alloc:
		if r.Comment != "" {
			return r.Comment
		}
		return "alloc"
	case *ssa.Call:
		if c := r.Call.StaticCallee(); c != nil {
			return "call:" + c.Name()
		}
		return "call"
	case nil:
		return "?"
	}
	return "val:" + v.Name()
}

// closureBinding maps a FreeVar of an anonymous function to the value bound
// by the (unique) MakeClosure in the parent, when there is exactly one.
type closureInfo struct {
	bind map[*ssa.FreeVar]ssa.Value
	site map[*ssa.Function]*ssa.MakeClosure
	// methodValues: declared method -> the MakeClosure instructions that create a bound method value of it (x.m used as a value)
	methodValues map[*ssa.Function][]*ssa.MakeClosure
}

func buildClosureInfo(p *Prog) *closureInfo {
	ci := &closureInfo{bind: map[*ssa.FreeVar]ssa.Value{}, site: map[*ssa.Function]*ssa.MakeClosure{}, methodValues: map[*ssa.Function][]*ssa.MakeClosure{}}
	count := map[*ssa.Function]int{}
	for _, fn := range p.Funcs {
		for _, b := range fn.Blocks {
			for _, ins := range b.Instrs {
				mc, ok := ins.(*ssa.MakeClosure)
				if !ok {
					continue
				}
				cf := mc.Fn.(*ssa.Function)
				count[cf]++
				ci.site[cf] = mc
				if cf.Synthetic != "" && strings.HasSuffix(cf.Name(), "$bound") {
					// bound method wrapper: find the method it forwards to
					for _, wb := range cf.Blocks {
						for _, wi := range wb.Instrs {
							if c, isCall := wi.(*ssa.Call); isCall {
								if m := c.Call.StaticCallee(); m != nil {
									ci.methodValues[m] = append(ci.methodValues[m], mc)
								}
							}
						}
					}
				}
				for i, fv := range cf.FreeVars {
					if i < len(mc.Bindings) {
						ci.bind[fv] = mc.Bindings[i]
					}
				}
			}
		}
	}
	for f, n := range count {
		if n != 1 {
			delete(ci.site, f)
			for _, fv := range f.FreeVars {
				delete(ci.bind, fv)
			}
		}
	}
	return ci
}

var theClosures *closureInfo

// theProg is the program being analysed (set with theClosures; for helpers that have no Prog parameter).
var theProg *Prog

// pathOf computes the access path of v. resolveFree: follow closure free
// variables into the parent function's values.
func pathOf(v ssa.Value) *Path { return pathOfOpt(v, true, 0) }

func pathOfOpt(v ssa.Value, resolveFree bool, depth int) *Path {
	if depth > 40 {
		return nil
	}
	switch x := v.(type) {
	case *ssa.FieldAddr:
		base := pathOfOpt(x.X, resolveFree, depth+1)
		if base == nil {
			return nil
		}
		f := fieldOf(x.X.Type(), x.Field)
		if f == nil {
			return nil
		}
		return base.with(f)
	case *ssa.Field:
		base := pathOfOpt(x.X, resolveFree, depth+1)
		if base == nil {
			return nil
		}
		f := fieldOf(x.X.Type(), x.Field)
		if f == nil {
			return nil
		}
		return base.with(f)
	case *ssa.UnOp:
		if x.Op == token.MUL {
			return pathOfOpt(x.X, resolveFree, depth+1)
		}
		return nil
	case *ssa.MakeInterface:
		return pathOfOpt(x.X, resolveFree, depth+1)
	case *ssa.ChangeType:
		return pathOfOpt(x.X, resolveFree, depth+1)
	case *ssa.ChangeInterface:
		return pathOfOpt(x.X, resolveFree, depth+1)
	case *ssa.TypeAssert:
		return pathOfOpt(x.X, resolveFree, depth+1)
	case *ssa.IndexAddr:
		base := pathOfOpt(x.X, resolveFree, depth+1)
		if base == nil {
			return nil
		}
		return base.elem()
	case *ssa.Index:
		base := pathOfOpt(x.X, resolveFree, depth+1)
		if base == nil {
			return nil
		}
		return base.elem()
	case *ssa.Lookup:
		base := pathOfOpt(x.X, resolveFree, depth+1)
		if base == nil {
			return nil
		}
		return base.elem()
	case *ssa.Extract:
		// comma-ok lookup / type assert
		switch t := x.Tuple.(type) {
		case *ssa.Lookup:
			if x.Index == 0 {
				return pathOfOpt(t, resolveFree, depth+1)
			}
		case *ssa.TypeAssert:
			if x.Index == 0 {
				return pathOfOpt(t.X, resolveFree, depth+1)
			}
		}
		return &Path{Root: v}
	case *ssa.FreeVar:
		if resolveFree && theClosures != nil {
			if b, ok := theClosures.bind[x]; ok {
				return pathOfOpt(b, resolveFree, depth+1)
			}
		}
		return &Path{Root: x}
	case *ssa.Parameter, *ssa.Global:
		return &Path{Root: v}
	case *ssa.Alloc:
		if prm := spilledParam(x); prm != nil {
			return &Path{Root: prm}
		}
		return &Path{Root: x}
	case *ssa.Phi:
		// all edges the same path?
		var first *Path
		for _, e := range x.Edges {
			if e == v {
				continue
			}
			pe := pathOfOpt(e, resolveFree, depth+1)
			if pe == nil {
				return &Path{Root: v}
			}
			if first == nil {
				first = pe
			} else if first.String() != pe.String() {
				return &Path{Root: v}
			}
		}
		if first != nil {
			return first
		}
		return &Path{Root: v}
	}
	return &Path{Root: v}
}

func (p *Path) with(f *types.Var) *Path {
	q := &Path{Root: p.Root}
	q.Fields = append(append([]*types.Var{}, p.Fields...), f)
	q.Elem = append([]bool{}, p.Elem...)
	for len(q.Elem) < len(q.Fields) {
		q.Elem = append(q.Elem, false)
	}
	return q
}

func (p *Path) elem() *Path {
	q := &Path{Root: p.Root}
	q.Fields = append([]*types.Var{}, p.Fields...)
	q.Elem = append([]bool{}, p.Elem...)
	for len(q.Elem) < len(q.Fields)+1 {
		q.Elem = append(q.Elem, false)
	}
	q.Elem[len(q.Fields)] = true
	return q
}

// Last returns the last field of the path or nil.
func (p *Path) Last() *types.Var {
	if p == nil || len(p.Fields) == 0 {
		return nil
	}
	return p.Fields[len(p.Fields)-1]
}

// Prefix returns the path without its last n fields.
func (p *Path) Prefix(n int) *Path {
	if p == nil || len(p.Fields) < n {
		return nil
	}
	q := &Path{Root: p.Root}
	q.Fields = append([]*types.Var{}, p.Fields[:len(p.Fields)-n]...)
	if len(p.Elem) > 0 {
		m := len(q.Fields) + 1
		if m > len(p.Elem) {
			m = len(p.Elem)
		}
		q.Elem = append([]bool{}, p.Elem[:m]...)
	}
	return q
}

func fieldOf(t types.Type, idx int) *types.Var {
	t = deref(t)
	st, ok := t.Underlying().(*types.Struct)
	if !ok || idx >= st.NumFields() {
		return nil
	}
	return st.Field(idx)
}

func deref(t types.Type) types.Type {
	if p, ok := t.Underlying().(*types.Pointer); ok {
		return p.Elem()
	}
	return t
}

// namedOf returns the named type behind pointers.
func namedOf(t types.Type) *types.Named {
	for {
		switch x := t.(type) {
		case *types.Pointer:
			t = x.Elem()
			continue
		case *types.Named:
			return x
		case *types.Alias:
			t = types.Unalias(x)
			continue
		}
		return nil
	}
}

func typeIs(t types.Type, pkg, name string) bool {
	n := namedOf(t)
	if n == nil || n.Obj().Pkg() == nil {
		return false
	}
	return n.Obj().Pkg().Path() == pkg && n.Obj().Name() == name
}

// callee returns the statically known callee of a call (function or method), or nil.
func callee(c *ssa.CallCommon) *ssa.Function {
	return c.StaticCallee()
}

// calleeObj returns the *types.Func called, for static calls and interface invokes.
func calleeObj(c *ssa.CallCommon) *types.Func {
	if c.IsInvoke() {
		return c.Method
	}
	if f := c.StaticCallee(); f != nil {
		if o, ok := f.Object().(*types.Func); ok {
			return o
		}
		if f.Origin() != nil {
			if o, ok := f.Origin().Object().(*types.Func); ok {
				return o
			}
		}
	}
	return nil
}

// isFuncNamed reports whether obj is pkgPath.(recv).name; recv=="" for package funcs.
func isFuncNamed(o *types.Func, pkgPath, recv, name string) bool {
	if o == nil || o.Name() != name {
		return false
	}
	if o.Pkg() == nil || o.Pkg().Path() != pkgPath {
		return false
	}
	sig := o.Type().(*types.Signature)
	if recv == "" {
		return sig.Recv() == nil
	}
	if sig.Recv() == nil {
		return false
	}
	n := namedOf(sig.Recv().Type())
	if n != nil {
		return n.Obj().Name() == recv
	}
	// interface method: receiver type is the interface itself
	return false
}

// recvNamed returns the receiver's named type name of a method object ("" if none).
func recvNamed(o *types.Func) string {
	if o == nil {
		return ""
	}
	sig := o.Type().(*types.Signature)
	if sig.Recv() == nil {
		return ""
	}
	if n := namedOf(sig.Recv().Type()); n != nil {
		return n.Obj().Name()
	}
	return ""
}

// callArgs returns receiver+args for a call, with the receiver first for
// method calls (both static and invoke).
func callArgs(c *ssa.CallCommon) []ssa.Value {
	if c.IsInvoke() {
		return append([]ssa.Value{c.Value}, c.Args...)
	}
	return c.Args
}

// instrCall returns the CallCommon for Call/Go/Defer instructions.
func instrCall(ins ssa.Instruction) *ssa.CallCommon {
	switch x := ins.(type) {
	case *ssa.Call:
		return &x.Call
	case *ssa.Go:
		return &x.Call
	case *ssa.Defer:
		return &x.Call
	}
	return nil
}

// closureOf returns the anonymous function a value denotes (MakeClosure or bare function).
func closureOf(v ssa.Value) *ssa.Function {
	switch x := v.(type) {
	case *ssa.MakeClosure:
		return x.Fn.(*ssa.Function)
	case *ssa.Function:
		return x
	case *ssa.ChangeType:
		return closureOf(x.X)
	case *ssa.MakeInterface:
		return closureOf(x.X)
	}
	return nil
}

// allInstrs iterates over the instructions of fn.
func allInstrs(fn *ssa.Function, f func(ssa.Instruction)) {
	for _, b := range fn.Blocks {
		for _, ins := range b.Instrs {
			f(ins)
		}
	}
}

// withAnon iterates fn and all anonymous functions nested in it.
func withAnon(fn *ssa.Function, f func(*ssa.Function)) {
	f(fn)
	for _, a := range fn.AnonFuncs {
		withAnon(a, f)
	}
}

// spilledParam: go/ssa spills a parameter that is captured by a closure into a heap Alloc
// at function entry. When the Alloc's only store is that spill, the Alloc denotes the parameter.
func spilledParam(a *ssa.Alloc) *ssa.Parameter {
	refs := a.Referrers()
	if refs == nil {
		return nil
	}
	var prm *ssa.Parameter
	stores := 0
	for _, r := range *refs {
		if st, ok := r.(*ssa.Store); ok && st.Addr == a {
			stores++
			if p, ok := st.Val.(*ssa.Parameter); ok {
				prm = p
			}
		}
	}
	if stores == 1 && prm != nil {
		return prm
	}
	return nil
}

// singleStoredValue returns the only value ever stored into a local variable Alloc (nil if
// there are zero or several stores, or its address escapes other than into closures).
func singleStoredValue(a *ssa.Alloc) ssa.Value {
	refs := a.Referrers()
	if refs == nil {
		return nil
	}
	var val ssa.Value
	stores := 0
	for _, r := range *refs {
		if st, ok := r.(*ssa.Store); ok && st.Addr == a {
			stores++
			val = st.Val
		}
	}
	if stores == 1 {
		return val
	}
	return nil
}

// funcValueUses returns, for an anonymous function, the value denoting it (its unique
// MakeClosure, or the bare *ssa.Function when it captures nothing) and the instructions of the
// parent that use that value as an operand. ok=false when the function has several creation sites.
func funcValueUses(cl *ssa.Function) (val ssa.Value, uses []ssa.Instruction, ok bool) {
	if cl.Parent() == nil {
		return nil, nil, false
	}
	if len(cl.FreeVars) > 0 {
		mc := theClosures.site[cl]
		if mc == nil || mc.Referrers() == nil {
			return nil, nil, false
		}
		return mc, append([]ssa.Instruction{}, (*mc.Referrers())...), true
	}
	parent := cl.Parent()
	allInstrs(parent, func(ins ssa.Instruction) {
		var ops []*ssa.Value
		ops = ins.Operands(ops)
		for _, op := range ops {
			if op != nil && *op == ssa.Value(cl) {
				uses = append(uses, ins)
				break
			}
		}
	})
	return cl, uses, true
}

// paramOf resolves a value to the declared parameter it is a copy of, looking through loads of spilled parameters and
// through closure free variables (a closure that uses its parent's parameter). nil if v is not such a copy.
func paramOf(v ssa.Value) *ssa.Parameter {
	for depth := 0; depth < 6 && v != nil; depth++ {
		switch x := v.(type) {
		case *ssa.Parameter:
			return x
		case *ssa.UnOp:
			if x.Op != token.MUL {
				return nil
			}
			v = x.X
		case *ssa.Alloc:
			if prm := spilledParam(x); prm != nil {
				return prm
			}
			return nil
		case *ssa.FreeVar:
			if theClosures == nil {
				return nil
			}
			b, ok := theClosures.bind[x]
			if !ok {
				return nil
			}
			v = b
		case *ssa.ChangeType:
			v = x.X
		default:
			return nil
		}
	}
	return nil
}
