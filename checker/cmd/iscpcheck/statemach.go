package main

import (
	"fmt"
	"go/constant"
	"go/token"
	"go/types"
	"sort"
	"strings"

	"golang.org/x/tools/go/ssa"
)

// A tiny concrete evaluator for the helper methods of a state holder (iscp.streamState): it executes the SSA of a
// method with constant arguments and a given current value of the status field and returns the status afterwards.
// Only what those helpers use is supported (loads/stores of the status field and of locals, ==, !=, !, if, phi,
// calls to other methods of the same receiver); anything else makes the result unknown and the obligation undecided.

type stVal struct {
	known bool
	v     int64
}

type stEval struct {
	field *types.Var // the status field
	cur   int64
	steps int
	fail  string
	// branches on values the evaluator does not know (a counter compared with a ticket) are resolved by a choice
	// vector; the drivers below enumerate all vectors and keep what every execution agrees on
	choices []bool
	ci      int
}

func (e *stEval) call(fn *ssa.Function, args []stVal) []stVal {
	return e.callWith(fn, args, nil)
}

// callWith evaluates fn; fenv maps parameters of fn that hold a method value of the status holder (a bound method
// handed to a helper such as swapIfIs(mu, e.IsWithoutLock, e.SwapWithoutLock, …)) to that method: a call of such a
// parameter is evaluated as a call of the method on the holder.
func (e *stEval) callWith(fn *ssa.Function, args []stVal, fenv map[ssa.Value]*ssa.Function) []stVal {
	if fn == nil || fn.Blocks == nil || e.fail != "" {
		e.fail = "no body"
		return nil
	}
	holderRecv := fenv == nil // in a helper frame Params[0] is not the holder
	env := map[ssa.Value]stVal{}
	local := map[ssa.Value]stVal{} // Alloc -> stored value
	for i, p := range fn.Params {
		if i < len(args) {
			env[p] = args[i]
		}
	}
	isCurAddr := func(v ssa.Value) bool {
		fa, ok := v.(*ssa.FieldAddr)
		if !ok {
			return false
		}
		st, ok := deref(fa.X.Type()).Underlying().(*types.Struct)
		return ok && holderRecv && st.Field(fa.Field) == e.field && fa.X == ssa.Value(fn.Params[0])
	}
	val := func(v ssa.Value) stVal {
		if k, ok := v.(*ssa.Const); ok {
			if i, isI := constInt(k); isI {
				return stVal{true, i}
			}
			if k.Value != nil && k.Value.Kind() == constant.Bool {
				if k.Value.String() == "true" {
					return stVal{true, 1}
				}
				return stVal{true, 0}
			}
			return stVal{}
		}
		return env[v]
	}
	b := fn.Blocks[0]
	var prev *ssa.BasicBlock
	for {
		var next *ssa.BasicBlock
		for _, ins := range b.Instrs {
			e.steps++
			if e.steps > 2000 {
				e.fail = "step bound"
				return nil
			}
			switch x := ins.(type) {
			case *ssa.Phi:
				for i, pb := range b.Preds {
					if pb == prev {
						env[x] = val(x.Edges[i])
					}
				}
			case *ssa.Alloc:
				// address token; content in local
			case *ssa.FieldAddr, *ssa.Field:
				// address tokens / opaque
			case *ssa.UnOp:
				switch x.Op {
				case token.MUL:
					if isCurAddr(x.X) {
						env[x] = stVal{true, e.cur}
					} else if a, ok := x.X.(*ssa.Alloc); ok {
						env[x] = local[a]
					}
				case token.NOT:
					if v := val(x.X); v.known {
						env[x] = stVal{true, 1 - v.v}
					}
				}
			case *ssa.Store:
				if isCurAddr(x.Addr) {
					v := val(x.Val)
					if !v.known {
						e.fail = "status stored from an unknown value in " + fnName(fn)
						return nil
					}
					e.cur = v.v
				} else if a, ok := x.Addr.(*ssa.Alloc); ok {
					local[a] = val(x.Val)
				}
			case *ssa.BinOp:
				l, r := val(x.X), val(x.Y)
				if l.known && r.known {
					switch x.Op {
					case token.EQL:
						env[x] = stVal{true, b2i(l.v == r.v)}
					case token.NEQ:
						env[x] = stVal{true, b2i(l.v != r.v)}
					}
				}
			case *ssa.ChangeType:
				env[x] = val(x.X)
			case *ssa.Convert:
				env[x] = val(x.X)
			case *ssa.Call:
				// a call of a parameter that holds a method value of the holder
				if m, isBound := fenv[x.Call.Value]; isBound && m != nil {
					as := []stVal{{}}
					for _, a := range x.Call.Args {
						as = append(as, val(a))
					}
					rs := e.call(m, as)
					if e.fail != "" {
						return nil
					}
					if len(rs) == 1 {
						env[x] = rs[0]
					}
					continue
				}
				// a helper that is handed method values of the holder (and possibly its lock): evaluated with them bound
				if cal0 := x.Call.StaticCallee(); cal0 != nil && cal0.Blocks != nil && holderRecv && len(fn.Params) > 0 && theProg != nil {
					sub := map[ssa.Value]*ssa.Function{}
					for i, a := range x.Call.Args {
						mc, isMC := a.(*ssa.MakeClosure)
						if !isMC || len(mc.Bindings) != 1 || mc.Bindings[0] != ssa.Value(fn.Params[0]) || i >= len(cal0.Params) {
							continue
						}
						if bf, isF := mc.Fn.(*ssa.Function); isF && strings.HasSuffix(bf.Name(), "$bound") {
							if mo, isFn := bf.Object().(*types.Func); isFn {
								if m := theProg.SSA.FuncValue(mo); m != nil && m.Blocks != nil {
									sub[cal0.Params[i]] = m
								}
							}
						}
					}
					if len(sub) > 0 {
						var as []stVal
						for _, a := range x.Call.Args {
							as = append(as, val(a))
						}
						rs := e.callWith(cal0, as, sub)
						if e.fail != "" {
							return nil
						}
						if len(rs) == 1 {
							env[x] = rs[0]
						}
						continue
					}
				}
				cal := x.Call.StaticCallee()
				if cal != nil && holderRecv && cal.Signature.Recv() != nil && len(x.Call.Args) > 0 && x.Call.Args[0] == ssa.Value(fn.Params[0]) && cal.Blocks != nil &&
					types.Identical(cal.Signature.Recv().Type(), fn.Signature.Recv().Type()) {
					var as []stVal
					for _, a := range x.Call.Args {
						as = append(as, val(a))
					}
					rs := e.call(cal, as)
					if e.fail != "" {
						return nil
					}
					if len(rs) == 1 {
						env[x] = rs[0]
					}
				}
				// other calls (Lock, Unlock, Broadcast) do not touch the status — unless the holder itself, or a method
				// value / function literal bound to it, is handed to them: what such a callee does with the status is
				// not evaluated, and saying "unchanged" would be a guess
				if cal == nil || !(cal.Signature.Recv() != nil && len(x.Call.Args) > 0 && x.Call.Args[0] == ssa.Value(fn.Params[0])) {
					for i, a := range x.Call.Args {
						if i == 0 && cal != nil && cal.Signature.Recv() != nil {
							continue
						}
						if mc, isMC := a.(*ssa.MakeClosure); isMC {
							for _, bnd := range mc.Bindings {
								if bnd == ssa.Value(fn.Params[0]) {
									e.fail = "a function value bound to the status holder is handed to " + callName(x) + " in " + fnName(fn)
									return nil
								}
							}
						}
					}
				}
			case *ssa.Defer, *ssa.RunDefers, *ssa.DebugRef:
			case *ssa.If:
				c := val(x.Cond)
				if !c.known {
					if e.ci >= len(e.choices) {
						e.choices = append(e.choices, true)
					}
					c = stVal{true, b2i(e.choices[e.ci])}
					e.ci++
				}
				if c.v != 0 {
					next = b.Succs[0]
				} else {
					next = b.Succs[1]
				}
			case *ssa.Jump:
				next = b.Succs[0]
			case *ssa.Return:
				var out []stVal
				for _, rv := range retResults(x) {
					out = append(out, val(rv))
				}
				return out
			case *ssa.Panic:
				e.fail = "panics"
				return nil
			}
		}
		if next == nil {
			e.fail = "fell off a block in " + fnName(fn)
			return nil
		}
		prev, b = b, next
	}
}

func b2i(b bool) int64 {
	if b {
		return 1
	}
	return 0
}

type stOutcome struct {
	ret   stVal   // the single result, when there is exactly one
	rets  []stVal // all results
	after int64
}

// stateOutcomes runs call from status cur under every resolution of its unknown branches.
func stateOutcomes(call *ssa.Call, field *types.Var, cur int64) ([]stOutcome, string) {
	cal := call.Call.StaticCallee()
	if cal == nil {
		return nil, "dynamic call"
	}
	args := []stVal{{}}
	for _, a := range call.Call.Args[1:] {
		if k, ok := constInt(a); ok {
			args = append(args, stVal{true, k})
		} else {
			args = append(args, stVal{})
		}
	}
	var outs []stOutcome
	fail := ""
	var rec func(prefix []bool)
	rec = func(prefix []bool) {
		if fail != "" {
			return
		}
		if len(prefix) > 6 {
			fail = "too many unknown branches"
			return
		}
		e := &stEval{field: field, cur: cur, choices: append([]bool{}, prefix...)}
		rs := e.call(cal, args)
		if e.fail != "" {
			fail = e.fail
			return
		}
		if len(e.choices) > len(prefix) {
			// a branch beyond the prefix was met: explore both of its outcomes
			rec(append(append([]bool{}, prefix...), true))
			rec(append(append([]bool{}, prefix...), false))
			return
		}
		o := stOutcome{after: e.cur, rets: rs}
		if len(rs) == 1 {
			o.ret = rs[0]
		}
		outs = append(outs, o)
	}
	rec(nil)
	if fail != "" {
		return nil, fail
	}
	return outs, ""
}

// stateAfter evaluates call (a method call on a state holder with constant arguments) from status cur; the status
// afterwards must be the same under every resolution of unknown branches.
func stateAfter(call *ssa.Call, field *types.Var, cur int64) (int64, string) {
	outs, err := stateOutcomes(call, field, cur)
	if err != "" {
		return 0, err
	}
	for _, o := range outs[1:] {
		if o.after != outs[0].after {
			return 0, "the resulting status depends on a value the evaluator does not know"
		}
	}
	return outs[0].after, ""
}

// ruleResumeRestoresConnected: the resume method of a stream asserts Resuming on entry; every nil-error return must be
// dominated by a state call that, evaluated from Resuming, leaves Connected — and nothing after it moves the state
// away again. A stream left in Resuming after a successful resume makes Close skip its final flushes (Close treats
// Resuming as "no connection") and blocks writers.
func ruleResumeRestoresConnected(r *Run, id, typ string) {
	r.Begin(id, "resume ends in Connected: in "+typ+".resume every return of a nil error is dominated by a call on the stream's state holder that, executed from the status Resuming (asserted at entry), leaves the status Connected (the helper bodies are evaluated, not matched by name), and no later state call on that path changes it", 2)
	p := r.P
	fn := r.method("/iscp", typ, "resume")
	fld := r.field("/iscp", "streamState", "current")
	if fn == nil || fld == nil {
		return
	}
	resuming, ok1 := p.enumConst("/iscp", "streamStatusResuming")
	connected, ok2 := p.enumConst("/iscp", "streamStatusConnected")
	if !ok1 || !ok2 {
		r.Undecided("status constants", "streamStatusResuming/streamStatusConnected not found")
		return
	}
	name := fnName(fn)
	holder := r.named("/iscp", "streamState")
	type sc struct {
		c     *ssa.Call
		after int64
		err   string
		same  bool
	}
	var calls []sc
	allInstrs(fn, func(ins ssa.Instruction) {
		c, ok := ins.(*ssa.Call)
		if !ok {
			return
		}
		cal := c.Call.StaticCallee()
		if cal == nil || cal.Signature.Recv() == nil || namedOf(cal.Signature.Recv().Type()) != holder {
			return
		}
		a, err := stateAfter(c, fld, resuming)
		b, _ := stateAfter(c, fld, connected)
		calls = append(calls, sc{c, a, err, err == "" && a == resuming && b == connected})
	})
	// entry assertion: some state call is a pure test and its failing edge returns an error
	r.Stat(typ+"_state_calls", len(calls))
	var setters []sc
	for _, c := range calls {
		if c.err != "" {
			r.Undecided(name+" state call "+callName(c.c), c.err)
			continue
		}
		if c.after == connected {
			setters = append(setters, c)
		}
	}
	k := 0
	allInstrs(fn, func(ins ssa.Instruction) {
		ret, ok := ins.(*ssa.Return)
		if !ok {
			return
		}
		rs := retResults(ret)
		if len(rs) == 0 || !isNilConst(rs[len(rs)-1]) {
			return
		}
		k++
		okDom := false
		var by *ssa.Call
		for _, s := range setters {
			if dominatesInstr(s.c, ret) {
				okDom = true
				by = s.c
			}
		}
		detail := "no state call that turns Resuming into Connected dominates this success return"
		if okDom {
			detail = "set by " + callName(by) + " at " + posOf(p, by)
			// nothing after it changes the state away
			for _, c := range calls {
				if c.c != by && dominatesInstr(by, c.c) {
					if a, err := stateAfter(c.c, fld, connected); err != "" || a != connected {
						okDom = false
						detail = "the later state call at " + posOf(p, c.c) + " moves the status away from Connected"
					}
				}
			}
		} else if len(calls) > 0 {
			for _, c := range calls {
				if dominatesInstr(c.c, ret) && c.err == "" && c.after != connected {
					detail += fmt.Sprintf("; %s at %s evaluated from Resuming leaves status %d (Connected is %d)", callName(c.c), posOf(p, c.c), c.after, connected)
				}
			}
		}
		r.Check(fmt.Sprintf("%s success return#%d", name, k), okDom, posOf(p, ret), name, detail)
	})
	if k == 0 {
		r.Undecided(name+" success returns", "none found")
	}
	// entry guard: a test of the status whose failing edge returns an error exists
	guard := false
	for _, c := range calls {
		if c.err == "" && c.after == resuming && c.c.Referrers() != nil {
			guard = true
		}
	}
	r.Check(name+" asserts Resuming", guard, p.pos(fn.Pos()), name, "the entry test on the status (the evaluation above starts from Resuming because of it)")
}

// stateCallResult evaluates a state-holder method call from status cur and returns the call's (single) result and
// the status afterwards, as far as every resolution of unknown branches agrees on them (after is -1 when they do not).
func stateCallResult(call *ssa.Call, field *types.Var, cur int64) (ret stVal, after int64, err string) {
	outs, e := stateOutcomes(call, field, cur)
	if e != "" {
		return stVal{}, 0, e
	}
	ret, after = outs[0].ret, outs[0].after
	for _, o := range outs[1:] {
		if o.ret != ret {
			ret = stVal{}
		}
		if o.after != after {
			after = -1
		}
	}
	return ret, after, ""
}

// ruleFailFastOnlyWhenClosed: an API method of iscp.Conn may refuse a request with ErrConnectionClosed on a test of
// the connection status only when that test implies the terminal status Closed. Refusing while Reconnecting turns an
// outage the library is about to survive into an error for the caller.
func ruleFailFastOnlyWhenClosed(r *Run, id string) {
	r.Begin(id, "fail fast only when closed: in the exported methods of iscp.Conn and in (*Conn).send, a branch that is decided by a connection-status helper (evaluated for each of the three statuses) and immediately returns ErrConnectionClosed is taken only for the status Closed; during Reconnecting requests wait for recovery instead", 2)
	p := r.P
	fld := r.field("/iscp", "connStatus", "current")
	holder := r.named("/iscp", "connStatus")
	closed, ok := p.enumConst("/iscp", "connStatusClosed")
	if fld == nil || holder == nil || !ok {
		if !ok {
			r.Undecided("anchor connStatusClosed", "constant not found")
		}
		return
	}
	names := map[int64]string{}
	for _, nm := range []string{"connStatusConnected", "connStatusReconnecting", "connStatusClosed"} {
		if v, ok := p.enumConst("/iscp", nm); ok {
			names[v] = nm
		}
	}
	if len(names) != 3 {
		r.Undecided("status constants", fmt.Sprintf("%d of 3 found", len(names)))
		return
	}
	sentinelReturn := func(b *ssa.BasicBlock) *ssa.Return {
		for hops := 0; hops < 4 && b != nil; hops++ {
			last := b.Instrs[len(b.Instrs)-1]
			switch x := last.(type) {
			case *ssa.Return:
				rs := retResults(x)
				if len(rs) > 0 && hasLeaf(p.Leaves(rs[len(rs)-1], provOpts{}), "global:/errors.ErrConnectionClosed") {
					return x
				}
				return nil
			case *ssa.Jump:
				// only through blocks without side effects (defer-free tail blocks)
				b = b.Succs[0]
			default:
				return nil
			}
		}
		return nil
	}
	n := 0
	for _, fn := range p.Funcs {
		top := topFunc(fn)
		if fnPkgPath(top) != modPath+"/iscp" || recvTypeName(top) != "Conn" {
			continue
		}
		if !(top.Object() != nil && top.Object().Exported()) && top.Name() != "send" {
			continue
		}
		k := 0
		allInstrs(fn, func(ins ssa.Instruction) {
			ifs, isIf := ins.(*ssa.If)
			if !isIf {
				return
			}
			// peel negations
			v := ifs.Cond
			neg := false
			for {
				if u, isU := v.(*ssa.UnOp); isU && u.Op == token.NOT {
					v, neg = u.X, !neg
					continue
				}
				break
			}
			call, isCall := v.(*ssa.Call)
			if !isCall {
				return
			}
			cal := call.Call.StaticCallee()
			if cal == nil || cal.Signature.Recv() == nil || namedOf(cal.Signature.Recv().Type()) != holder {
				return
			}
			for ei, succ := range ifs.Block().Succs {
				ret := sentinelReturn(succ)
				if ret == nil {
					continue
				}
				// statuses for which this edge is taken
				want := int64(1)
				if ei == 1 {
					want = 0
				}
				if neg {
					want = 1 - want
				}
				var taken []string
				okAll, undecided := true, ""
				for st, nm := range names {
					rv, _, err := stateCallResult(call, fld, st)
					if err != "" || !rv.known {
						undecided = err
						if undecided == "" {
							undecided = "result of " + callName(call) + " not a known constant"
						}
						break
					}
					if rv.v == want {
						taken = append(taken, nm)
						if st != closed {
							okAll = false
						}
					}
				}
				n++
				k++
				name := fnName(fn)
				key := fmt.Sprintf("%s status refusal#%d", name, k)
				if undecided != "" {
					r.Undecided(key, undecided)
					continue
				}
				sort.Strings(taken)
				r.Check(key, okAll, posOf(p, ret), name, fmt.Sprintf("ErrConnectionClosed is returned when %s decides the branch, i.e. for the statuses %v; only connStatusClosed may refuse a request", callName(call), taken))
			}
		})
	}
	r.Stat("status_refusals", n)
}

// pathsFrom walks fn's control flow from the instruction after start, deciding every If whose condition is computable
// from the known values (results of an evaluated state call, constants, ==, !=, !) and exploring both edges of the
// others. It reports, over all explored paths that reach `to`, whether `via` was passed on all of them, on none, or on
// some ("all", "none", "mixed"; "unreached" when `to` is not reached at all).
func pathsFrom(start ssa.Instruction, known map[ssa.Value]stVal, via, to ssa.Instruction) string {
	val := func(v ssa.Value) stVal { return stVal{} }
	var eval func(v ssa.Value, depth int) stVal
	eval = func(v ssa.Value, depth int) stVal {
		if depth > 8 {
			return stVal{}
		}
		if k, ok := known[v]; ok {
			return k
		}
		switch x := v.(type) {
		case *ssa.Const:
			if i, isI := constInt(x); isI {
				return stVal{true, i}
			}
			if x.Value != nil && x.Value.Kind() == constant.Bool {
				return stVal{true, b2i(x.Value.String() == "true")}
			}
		case *ssa.BinOp:
			a, b := eval(x.X, depth+1), eval(x.Y, depth+1)
			if a.known && b.known {
				switch x.Op {
				case token.EQL:
					return stVal{true, b2i(a.v == b.v)}
				case token.NEQ:
					return stVal{true, b2i(a.v != b.v)}
				}
			}
		case *ssa.UnOp:
			if x.Op == token.NOT {
				if a := eval(x.X, depth+1); a.known {
					return stVal{true, b2i(a.v == 0)}
				}
			}
		case *ssa.ChangeType:
			return eval(x.X, depth+1)
		case *ssa.Convert:
			return eval(x.X, depth+1)
		}
		return stVal{}
	}
	_ = val
	sawAll, sawNone, reached := false, false, false
	type state struct {
		b      *ssa.BasicBlock
		i      int
		passed bool
	}
	seen := map[state]bool{}
	var walk func(st state, steps int)
	walk = func(st state, steps int) {
		if steps > 4000 || seen[st] {
			return
		}
		seen[st] = true
		passed := st.passed
		for i := st.i; i < len(st.b.Instrs); i++ {
			ins := st.b.Instrs[i]
			if ins == via {
				passed = true
			}
			if ins == to {
				reached = true
				if passed {
					sawAll = true
				} else {
					sawNone = true
				}
				return
			}
			switch x := ins.(type) {
			case *ssa.Return, *ssa.Panic:
				return
			case *ssa.If:
				c := eval(x.Cond, 0)
				if c.known {
					if c.v != 0 {
						walk(state{st.b.Succs[0], 0, passed}, steps+1)
					} else {
						walk(state{st.b.Succs[1], 0, passed}, steps+1)
					}
				} else {
					walk(state{st.b.Succs[0], 0, passed}, steps+1)
					walk(state{st.b.Succs[1], 0, passed}, steps+1)
				}
				return
			case *ssa.Jump:
				walk(state{st.b.Succs[0], 0, passed}, steps+1)
				return
			}
		}
	}
	walk(state{start.Block(), instrIndex(start) + 1, false}, 0)
	switch {
	case !reached:
		return "unreached"
	case sawAll && sawNone:
		return "mixed"
	case sawAll:
		return "all"
	}
	return "none"
}

// edgeReaches: starting on the control-flow edge from -> succ, can instruction target be reached when booleans and
// small integers are propagated along the path (phi nodes take the value of the edge actually taken, conditions that
// then become constant are decided)? This sees through the flag form of an early exit:
//
//	known := false; for … { if equal { known = true; break } }; if !known { target }
func edgeReaches(from, succ *ssa.BasicBlock, target ssa.Instruction) bool {
	type frame struct {
		prev, b *ssa.BasicBlock
		env     map[ssa.Value]stVal
	}
	var eval func(env map[ssa.Value]stVal, v ssa.Value, depth int) stVal
	eval = func(env map[ssa.Value]stVal, v ssa.Value, depth int) stVal {
		if depth > 8 {
			return stVal{}
		}
		if k, ok := env[v]; ok {
			return k
		}
		switch x := v.(type) {
		case *ssa.Const:
			if i, isI := constInt(x); isI {
				return stVal{true, i}
			}
			if x.Value != nil && x.Value.Kind() == constant.Bool {
				return stVal{true, b2i(x.Value.String() == "true")}
			}
		case *ssa.BinOp:
			a, b := eval(env, x.X, depth+1), eval(env, x.Y, depth+1)
			if a.known && b.known {
				switch x.Op {
				case token.EQL:
					return stVal{true, b2i(a.v == b.v)}
				case token.NEQ:
					return stVal{true, b2i(a.v != b.v)}
				}
			}
		case *ssa.UnOp:
			if x.Op == token.NOT {
				if a := eval(env, x.X, depth+1); a.known {
					return stVal{true, b2i(a.v == 0)}
				}
			}
		}
		return stVal{}
	}
	seen := map[string]bool{}
	steps := 0
	var walk func(f frame) bool
	walk = func(f frame) bool {
		steps++
		if steps > 3000 {
			return true // give up: assume reachable
		}
		// phis take the value of the edge taken
		env := f.env
		copied := false
		for _, ins := range f.b.Instrs {
			phi, isPhi := ins.(*ssa.Phi)
			if !isPhi {
				break
			}
			for i, pr := range f.b.Preds {
				if pr == f.prev && i < len(phi.Edges) {
					if !copied {
						ne := map[ssa.Value]stVal{}
						for k, v := range env {
							ne[k] = v
						}
						env, copied = ne, true
					}
					val := eval(f.env, phi.Edges[i], 0)
					if val.known {
						env[phi] = val
					} else {
						delete(env, phi)
					}
				}
			}
		}
		key := fmt.Sprintf("%d<%d|", f.b.Index, f.prev.Index)
		var ks []string
		for k, v := range env {
			if v.known {
				ks = append(ks, fmt.Sprintf("%s=%d", k.Name(), v.v))
			}
		}
		sort.Strings(ks)
		key += fmt.Sprint(ks)
		if seen[key] {
			return false
		}
		seen[key] = true
		for _, ins := range f.b.Instrs {
			if ins == target {
				return true
			}
			switch x := ins.(type) {
			case *ssa.Return, *ssa.Panic:
				return false
			case *ssa.If:
				c := eval(env, x.Cond, 0)
				if c.known {
					if c.v != 0 {
						return walk(frame{f.b, f.b.Succs[0], env})
					}
					return walk(frame{f.b, f.b.Succs[1], env})
				}
				return walk(frame{f.b, f.b.Succs[0], env}) || walk(frame{f.b, f.b.Succs[1], env})
			case *ssa.Jump:
				return walk(frame{f.b, f.b.Succs[0], env})
			}
		}
		return false
	}
	return walk(frame{from, succ, map[ssa.Value]stVal{}})
}
