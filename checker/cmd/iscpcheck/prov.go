package main

import (
	"fmt"
	"go/token"
	"go/types"
	"sort"
	"strings"

	"golang.org/x/tools/go/ssa"
)

// Leaf kinds are rendered as strings:
//
//	field:/iscp.Upstream.ID           load of a struct field (through a non-local object)
//	elem:/iscp.Downstream.upstreamInfos   element of a map/slice stored in a field
//	const:0 | const:"x" | const:nil
//	global:/iscp.defaultPingTimeout
//	call:/iscp.(*sequenceNumberGenerator).Next   result of a call (args are followed too unless opts.StopAtCalls)
//	param:/iscp.(*Upstream).resume#newConn
//	alloc:<type>                      fresh allocation (new/make/composite literal)
//	func:<name>                       function value
//	rangekey / rangeval:<container leaves>  key or value of a range over a container
//	recv / select                      value received from a channel
type provOpts struct {
	ParamDepth  int  // follow parameters into call sites (0 = stop at the parameter)
	StopAtCalls bool // do not look into call arguments
	IntoCallees bool // follow static callee results into the callee's return values (depth 2)
	NoElem      bool
	WithBase    bool // for field loads through a non-local object also report where the object came from ("base:<leaf>")
}

type prov struct {
	p     *Prog
	opts  provOpts
	seen  map[ssa.Value]bool
	out   map[string]bool
	depth int
}

func typeStr(t types.Type) string {
	s := types.TypeString(t, func(pk *types.Package) string {
		return strings.TrimPrefix(pk.Path(), modPath)
	})
	return s
}

func funcLeafName(f *ssa.Function) string {
	if f == nil {
		return "?"
	}
	s := canonFnString(f, f.String())
	s = strings.ReplaceAll(s, modPath, "")
	return s
}

func objLeafName(o *types.Func) string {
	if o == nil {
		return "?"
	}
	pk := ""
	if o.Pkg() != nil {
		pk = strings.TrimPrefix(o.Pkg().Path(), modPath)
	}
	if rn := recvNamed(o); rn != "" {
		return pk + "." + rn + "." + canon(o)
	}
	sig := o.Type().(*types.Signature)
	if sig.Recv() != nil {
		// interface method
		if n := namedOf(sig.Recv().Type()); n != nil {
			return pk + "." + n.Obj().Name() + "." + canon(o)
		}
		return pk + ".<iface>." + o.Name()
	}
	return pk + "." + canon(o)
}

func fieldLeaf(base types.Type, idx int) string {
	f := fieldOf(base, idx)
	owner := namedOf(base)
	if f == nil {
		return "field:?"
	}
	if owner == nil {
		return "field:<anon>." + f.Name()
	}
	return "field:" + fieldKey(owner, f)
}

// Leaves computes the provenance leaves of v.
func (p *Prog) Leaves(v ssa.Value, opts provOpts) []string {
	pv := &prov{p: p, opts: opts, seen: map[ssa.Value]bool{}, out: map[string]bool{}}
	pv.walk(v, opts.ParamDepth, 0)
	var out []string
	for k := range pv.out {
		out = append(out, k)
	}
	sort.Strings(out)
	return out
}

func (pv *prov) add(s string) { pv.out[s] = true }

// localStructAlloc: is v (a pointer) a local allocation of a struct (composite literal / var)?
func localAlloc(v ssa.Value) *ssa.Alloc {
	a, ok := v.(*ssa.Alloc)
	if !ok {
		return nil
	}
	return a
}

func (pv *prov) storesTo(addr ssa.Value, pd, d int) bool {
	// follow all stores into the same address value (Alloc or FieldAddr of Alloc) within the function
	found := false
	switch a := addr.(type) {
	case *ssa.Alloc:
		if refs := a.Referrers(); refs != nil {
			for _, r := range *refs {
				if st, ok := r.(*ssa.Store); ok && st.Addr == ssa.Value(a) {
					found = true
					pv.walk(st.Val, pd, d+1)
				}
			}
		}
	case *ssa.FieldAddr:
		base := localAlloc(a.X)
		if base == nil {
			return false
		}
		// other FieldAddr instructions on the same alloc and field
		if refs := base.Referrers(); refs != nil {
			for _, r := range *refs {
				fa, ok := r.(*ssa.FieldAddr)
				if !ok || fa.Field != a.Field {
					continue
				}
				if frefs := fa.Referrers(); frefs != nil {
					for _, fr := range *frefs {
						if st, ok := fr.(*ssa.Store); ok && st.Addr == ssa.Value(fa) {
							found = true
							pv.walk(st.Val, pd, d+1)
						}
					}
				}
			}
		}
	}
	return found
}

func (pv *prov) walk(v ssa.Value, pd, d int) {
	if v == nil || d > 60 {
		return
	}
	if pv.seen[v] {
		return
	}
	pv.seen[v] = true
	switch x := v.(type) {
	case *ssa.Const:
		if x.Value == nil {
			pv.add("const:nil")
		} else {
			pv.add("const:" + x.Value.ExactString())
		}
	case *ssa.Global:
		pv.add("global:" + strings.TrimPrefix(x.Pkg.Pkg.Path(), modPath) + "." + x.Name())
	case *ssa.Function:
		pv.add("func:" + funcLeafName(x))
	case *ssa.MakeClosure:
		pv.add("func:" + funcLeafName(x.Fn.(*ssa.Function)))
	case *ssa.Builtin:
		pv.add("builtin:" + x.Name())
	case *ssa.Phi:
		for _, e := range x.Edges {
			pv.walk(e, pd, d+1)
		}
	case *ssa.Convert:
		pv.walk(x.X, pd, d+1)
	case *ssa.ChangeType:
		pv.walk(x.X, pd, d+1)
	case *ssa.ChangeInterface:
		pv.walk(x.X, pd, d+1)
	case *ssa.MakeInterface:
		pv.walk(x.X, pd, d+1)
	case *ssa.TypeAssert:
		pv.walk(x.X, pd, d+1)
	case *ssa.SliceToArrayPointer:
		pv.walk(x.X, pd, d+1)
	case *ssa.BinOp:
		pv.walk(x.X, pd, d+1)
		pv.walk(x.Y, pd, d+1)
	case *ssa.Slice:
		pv.walk(x.X, pd, d+1)
	case *ssa.Extract:
		switch t := x.Tuple.(type) {
		case *ssa.Call:
			pv.call(t, x.Index, pd, d)
		case *ssa.Lookup:
			if x.Index == 0 {
				pv.walk(t, pd, d+1)
			} else {
				pv.add("commaok")
			}
		case *ssa.TypeAssert:
			if x.Index == 0 {
				pv.walk(t.X, pd, d+1)
			} else {
				pv.add("commaok")
			}
		case *ssa.UnOp: // v, ok := <-ch
			if x.Index == 0 {
				pv.walk(t, pd, d+1)
			} else {
				pv.add("commaok")
			}
		case *ssa.Next:
			// range over map/string: index 1 = key, 2 = value
			if rng, ok := t.Iter.(*ssa.Range); ok {
				sub := pv.p.Leaves(rng.X, pv.opts)
				kind := "rangekey"
				if x.Index == 2 {
					kind = "rangeval"
				}
				if x.Index == 0 {
					pv.add("commaok")
				} else {
					pv.add(kind + ":" + strings.Join(sub, "+"))
				}
			}
		case *ssa.Select:
			pv.add("select")
		default:
			pv.walk(x.Tuple, pd, d+1)
		}
	case *ssa.UnOp:
		switch x.Op {
		case token.MUL:
			switch a := x.X.(type) {
			case *ssa.Alloc:
				if prm := spilledParam(a); prm != nil {
					pv.walk(prm, pd, d+1)
					return
				}
				if !pv.storesTo(a, pd, d) {
					pv.add("alloc:" + typeStr(deref(a.Type())))
				}
			case *ssa.FieldAddr:
				if la := localAlloc(a.X); la != nil {
					if pv.storesTo(a, pd, d) {
						return
					}
					if prm := spilledParam(la); prm != nil {
						// a struct parameter spilled to memory: the field is the caller's
						pv.add(fieldLeaf(a.X.Type(), a.Field))
						pv.add("param:" + funcLeafName(prm.Parent()) + "#" + prm.Name())
						return
					}
					if wholeStructStored(la) {
						pv.add(fieldLeaf(a.X.Type(), a.Field))
						return
					}
					pv.add("zero:" + fieldLeaf(a.X.Type(), a.Field)[6:])
					return
				}
				pv.add(fieldLeaf(a.X.Type(), a.Field))
				if pv.opts.WithBase {
					o2 := pv.opts
					o2.WithBase = false
					for _, b := range pv.p.Leaves(a.X, o2) {
						pv.add("base:" + b)
					}
				}
			case *ssa.FreeVar:
				if b, ok := theClosures.bind[a]; ok {
					// captured variable: b is the parent's Alloc
					if al, ok := b.(*ssa.Alloc); ok {
						if prm := spilledParam(al); prm != nil {
							pv.walk(prm, pd, d+1)
							return
						}
						if !pv.storesTo(al, pd, d) {
							pv.add("alloc:" + typeStr(deref(al.Type())))
						}
						return
					}
					pv.walk(b, pd, d+1)
					return
				}
				pv.add("freevar:" + a.Name())
			case *ssa.Global:
				pv.add("global:" + strings.TrimPrefix(a.Pkg.Pkg.Path(), modPath) + "." + a.Name())
			case *ssa.IndexAddr:
				if !pv.opts.NoElem {
					sub := pv.p.Leaves(a.X, pv.opts)
					for _, s := range sub {
						pv.add("elem:" + strings.TrimPrefix(s, "field:"))
					}
				}
			default:
				pv.walk(x.X, pd, d+1)
			}
		case token.ARROW:
			pv.add("recv")
			sub := pv.p.Leaves(x.X, pv.opts)
			for _, s := range sub {
				pv.add("recvfrom:" + strings.TrimPrefix(s, "field:"))
			}
		default:
			pv.walk(x.X, pd, d+1)
		}
	case *ssa.Field:
		pv.add(fieldLeaf(x.X.Type(), x.Field))
		if pv.opts.WithBase {
			o2 := pv.opts
			o2.WithBase = false
			for _, b := range pv.p.Leaves(x.X, o2) {
				pv.add("base:" + b)
			}
		}
	case *ssa.FieldAddr:
		// address of a field (pointer provenance)
		pv.add("addr:" + fieldLeaf(x.X.Type(), x.Field)[6:])
		if localAlloc(x.X) != nil {
			pv.add("alloc:" + typeStr(deref(x.Type())))
		}
	case *ssa.Lookup:
		if !pv.opts.NoElem {
			sub := pv.p.Leaves(x.X, pv.opts)
			for _, s := range sub {
				pv.add("elem:" + strings.TrimPrefix(s, "field:"))
			}
		}
	case *ssa.Index:
		if !pv.opts.NoElem {
			sub := pv.p.Leaves(x.X, pv.opts)
			for _, s := range sub {
				pv.add("elem:" + strings.TrimPrefix(s, "field:"))
			}
		}
	case *ssa.Alloc:
		if prm := spilledParam(x); prm != nil {
			pv.walk(prm, pd, d+1)
			return
		}
		pv.add("alloc:" + typeStr(deref(x.Type())))
		// a local array (variadic arguments, slice literal): the values stored into its elements
		if _, isArr := deref(x.Type()).Underlying().(*types.Array); isArr && x.Referrers() != nil {
			for _, ref := range *x.Referrers() {
				if ia, ok := ref.(*ssa.IndexAddr); ok && ia.Referrers() != nil {
					for _, r2 := range *ia.Referrers() {
						if st, ok := r2.(*ssa.Store); ok && st.Addr == ssa.Value(ia) {
							pv.walk(st.Val, pd, d+1)
						}
					}
				}
			}
		}
	case *ssa.MakeMap, *ssa.MakeSlice, *ssa.MakeChan:
		pv.add("alloc:" + typeStr(v.Type()))
	case *ssa.FreeVar:
		if b, ok := theClosures.bind[x]; ok {
			pv.walk(b, pd, d+1)
			return
		}
		pv.add("freevar:" + x.Name())
	case *ssa.Parameter:
		fn := x.Parent()
		pv.add("param:" + funcLeafName(fn) + "#" + x.Name())
		if pd > 0 {
			idx := -1
			for i, prm := range fn.Params {
				if prm == x {
					idx = i
				}
			}
			for _, s := range pv.p.staticCallSites(fn) {
				cc := instrCall(s)
				if idx >= 0 && idx < len(cc.Args) {
					pv.walk(cc.Args[idx], pd-1, d+1)
				}
			}
		}
	case *ssa.Call:
		pv.call(x, 0, pd, d)
	case *ssa.Next, *ssa.Range:
		pv.add("iter")
	default:
		pv.add("other:" + fmt.Sprintf("%T", v))
	}
}

func (pv *prov) call(c *ssa.Call, resultIdx int, pd, d int) {
	o := calleeObj(&c.Call)
	name := ""
	if o != nil {
		name = objLeafName(o)
	} else if b, ok := c.Call.Value.(*ssa.Builtin); ok {
		name = "builtin." + b.Name()
	} else if cf := closureOf(c.Call.Value); cf != nil {
		name = funcLeafName(cf)
	} else {
		name = "dynamic"
		// the function value itself (e.g. a package-level func variable)
		pv.walk(c.Call.Value, pd, d+1)
	}
	pv.add("call:" + name)
	if pv.opts.IntoCallees {
		var cf *ssa.Function
		if f := c.Call.StaticCallee(); f != nil {
			cf = f
		} else if f := closureOf(c.Call.Value); f != nil {
			cf = f
		}
		if cf != nil && pv.p.Analysed(cf) && d < 30 {
			allInstrs(cf, func(ins ssa.Instruction) {
				if ret, ok := ins.(*ssa.Return); ok && resultIdx < len(ret.Results) {
					pv.walk(ret.Results[resultIdx], pd, d+1)
				}
			})
		}
	}
	if !pv.opts.StopAtCalls {
		for _, a := range c.Call.Args {
			pv.walk(a, pd, d+1)
		}
		if c.Call.IsInvoke() {
			pv.walk(c.Call.Value, pd, d+1)
		}
	}
}

// ---- struct literals ----

// Literal is a composite-literal allocation of a named struct type with the values stored into its fields.
type Literal struct {
	Alloc  *ssa.Alloc
	Type   *types.Named
	Fn     *ssa.Function
	Fields map[string]ssa.Value // field name -> stored value (last store wins)
	Stores map[string]*ssa.Store
	All    map[string][]*ssa.Store // every store per field (a variable assigned in several branches)
}

// literalsOf finds allocations of struct type pkg.name in fn (with the stores to their fields).
func literalsOf(fn *ssa.Function, named *types.Named) []*Literal {
	var out []*Literal
	allInstrs(fn, func(ins ssa.Instruction) {
		a, ok := ins.(*ssa.Alloc)
		if !ok {
			return
		}
		n := namedOf(deref(a.Type()))
		if n == nil || n.Obj() != named.Obj() {
			return
		}
		if _, isPtr := deref(a.Type()).Underlying().(*types.Pointer); isPtr {
			return
		}
		// a variable that receives a whole struct value (a by-value parameter spilled to memory, `x := *p`) is a copy
		// that is then adjusted, not a literal: what it lacks is in the value it was copied from
		if refs := a.Referrers(); refs != nil {
			for _, r := range *refs {
				if st, isSt := r.(*ssa.Store); isSt && st.Addr == ssa.Value(a) {
					if _, isStruct := st.Val.Type().Underlying().(*types.Struct); isStruct {
						return
					}
				}
			}
		}
		lit := &Literal{Alloc: a, Type: n, Fn: fn, Fields: map[string]ssa.Value{}, Stores: map[string]*ssa.Store{}, All: map[string][]*ssa.Store{}}
		// aliases of the allocation inside fn: the Alloc itself and loads of a location (x.f) into which only this
		// allocation is stored in fn — `x.f = &T{}; x.f.g = v` fills the literal through x.f
		holders := []ssa.Value{a}
		if refs := a.Referrers(); refs != nil {
			for _, r := range *refs {
				st, ok := r.(*ssa.Store)
				if !ok || st.Val != ssa.Value(a) {
					continue
				}
				key := pathOf(st.Addr).String()
				if key == "?" {
					continue
				}
				sole := true
				var loads []ssa.Value
				allInstrs(fn, func(x ssa.Instruction) {
					switch y := x.(type) {
					case *ssa.Store:
						if y != st && pathOf(y.Addr).String() == key {
							sole = false
						}
					case *ssa.UnOp:
						if y.Op == token.MUL && y != nil && pathOf(y.X).String() == key {
							if _, isFA := y.X.(*ssa.FieldAddr); isFA {
								loads = append(loads, y)
							}
						}
					}
				})
				if sole {
					holders = append(holders, loads...)
				}
			}
		}
		var refsAll []ssa.Instruction
		for _, h := range holders {
			if rr := h.Referrers(); rr != nil {
				refsAll = append(refsAll, *rr...)
			}
		}
		{
			for _, r := range refsAll {
				fa, ok := r.(*ssa.FieldAddr)
				if !ok {
					continue
				}
				f := fieldOf(a.Type(), fa.Field)
				if f == nil || fa.Referrers() == nil {
					continue
				}
				for _, fr := range *fa.Referrers() {
					if st, ok := fr.(*ssa.Store); ok && st.Addr == ssa.Value(fa) {
						lit.Fields[canon(f)] = st.Val
						lit.Stores[canon(f)] = st
						lit.All[canon(f)] = append(lit.All[canon(f)], st)
					}
				}
			}
		}
		out = append(out, lit)
	})
	return out
}

// allLiterals finds literals of a type in every analysed function.
func (p *Prog) allLiterals(named *types.Named) []*Literal {
	var out []*Literal
	for _, fn := range p.Funcs {
		out = append(out, literalsOf(fn, named)...)
	}
	return out
}

// hasLeaf / leaf-set helpers
func hasLeaf(leaves []string, want string) bool {
	for _, l := range leaves {
		if l == want {
			return true
		}
	}
	return false
}

func hasLeafPrefix(leaves []string, prefix string) bool {
	for _, l := range leaves {
		if strings.HasPrefix(l, prefix) {
			return true
		}
	}
	return false
}

// leavesWithin: every leaf of kinds {field,elem,call,global,param,const(non-trivial)} is in allowed
// (allowed entries may end with '*' for prefix match). Structural leaves (alloc, commaok, recv…) are ignored
// unless listed in strict.
func leavesWithin(leaves []string, allowed []string) (bad []string) {
	for _, l := range leaves {
		kind := l
		if i := strings.IndexByte(l, ':'); i >= 0 {
			kind = l[:i]
		}
		switch kind {
		case "field", "elem", "call", "global", "param", "const", "zero", "recvfrom", "rangekey", "rangeval", "freevar", "addr":
		default:
			continue
		}
		ok := false
		for _, a := range allowed {
			if strings.HasSuffix(a, "*") {
				if strings.HasPrefix(l, strings.TrimSuffix(a, "*")) {
					ok = true
				}
			} else if a == l {
				ok = true
			}
		}
		if !ok {
			bad = append(bad, l)
		}
	}
	return bad
}

// fieldStoreLeaves: union of the provenance leaves of every value stored into the field
// (module-wide), by field key.
func (p *Prog) fieldStoreLeaves(fk string, opts provOpts) []string {
	set := map[string]bool{}
	for _, fn := range p.Funcs {
		allInstrs(fn, func(ins ssa.Instruction) {
			if st, ok := ins.(*ssa.Store); ok && fieldKeyOfAddr(st.Addr) == fk {
				for _, l := range p.Leaves(st.Val, opts) {
					set[l] = true
				}
			}
		})
	}
	var out []string
	for k := range set {
		out = append(out, k)
	}
	sort.Strings(out)
	return out
}

// LeavesExpanded replaces every leaf "field:K" (or "zero:K") with K in expand by the leaves of
// the values stored into K anywhere in the module (one level, then repeated up to depth 3).
func (p *Prog) LeavesExpanded(v ssa.Value, opts provOpts, expand ...string) []string {
	ex := map[string]bool{}
	for _, e := range expand {
		ex[e] = true
	}
	cur := p.Leaves(v, opts)
	for round := 0; round < 3; round++ {
		changed := false
		set := map[string]bool{}
		for _, l := range cur {
			k := ""
			if strings.HasPrefix(l, "field:") {
				k = l[6:]
			} else if strings.HasPrefix(l, "zero:") {
				k = l[5:]
			}
			if k != "" && ex[k] {
				changed = true
				delete(ex, k) // expand each field once
				for _, s := range p.fieldStoreLeaves(k, opts) {
					set[s] = true
				}
				continue
			}
			set[l] = true
		}
		cur = cur[:0]
		for k := range set {
			cur = append(cur, k)
		}
		sort.Strings(cur)
		if !changed {
			break
		}
	}
	return cur
}

// wholeStructStored: the local struct variable is assigned as a whole (copy of another struct value).
func wholeStructStored(a *ssa.Alloc) bool {
	if a.Referrers() == nil {
		return false
	}
	for _, ref := range *a.Referrers() {
		if st, ok := ref.(*ssa.Store); ok && st.Addr == ssa.Value(a) {
			return true
		}
	}
	return false
}
