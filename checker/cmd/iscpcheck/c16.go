package main

import (
	"fmt"
	"go/token"
	"go/types"
	"sort"
	"strings"

	"golang.org/x/tools/go/ssa"
)

func init() {
	register(&PropSpec{
		ID:          "C16",
		Explanation: "Structural necessary conditions for 'end-to-end calls and replies reach exactly the caller they belong to'. E1: the CallID of every UpstreamCall built by the call APIs comes from a fresh random id generated in that invocation; RequestCallID is empty for calls and taken from the request for replies. E2: the ack waiter (and, for call-and-wait, the reply waiter) is registered under its mutex before the call is sent. E3: the ack dispatcher looks up, deletes and delivers by the ack's CallID, the reply dispatcher by RequestCallID; not-found edges deliver to no waiter. E4: channels stored in both waiter tables have capacity ≥ 1. E5: each field of the returned call/reply value derives from the same-named field of the received message.",
		NotDecided:  []string{"behaviour with concurrent callers and permuted acks/replies as histories", "reconnect between call and ack"},
		Rules: func(r *Run) {
			le := newLockEngine(r.P)
			ruleC16E1(r)
			ruleC16E2(r, le)
			ruleC16E3(r, le)
			r.Begin("E4", "non-blocking delivery: every channel stored into Conn.upstreamCallAckCh and Conn.replyCallChs is created with capacity ≥ 1 (the single dispatcher delivers with a plain send)", 2)
			chanCapRule(r, "/iscp.Conn.upstreamCallAckCh", 1)
			chanCapRule(r, "/iscp.Conn.replyCallChs", 1)
			ruleC16E5(r)
			ruleNameAgreement(r, "E7", "/iscp", "/wire")
			ruleErrorDiscipline(r, "E8")
			ruleCloseBeliefs(r, "E9")
			ruleC16E10(r)
			ruleC16E11(r)
			ruleC16E14(r)
			r.borrow("C06", func() { ruleC06R8(r) }) // calls and call acks are handed on with back-pressure, never dropped by the demultiplexer
			ruleWhoMayReceive(r, "E12", "/iscp.Conn.replyCallCh", "(*iscp.Conn).ReceiveReplyCall")
			ruleWhoMayReceive(r, "E13", "/iscp.Conn.downstreamCallCh", "(*iscp.Conn).ReceiveCall")
			ruleLockPairingFor(r, le, "E6", "lock pairing in the call correlation paths: every function touching the waiter tables releases their mutexes on every path", func(fn *ssa.Function) bool {
				for _, a := range collectAccesses(fn) {
					fk := fieldKey(a.Owner, a.Field)
					if fk == "/iscp.Conn.upstreamCallAckCh" || fk == "/iscp.Conn.replyCallChs" {
						return !isLocalObject(a.Base)
					}
				}
				return false
			}, 3)
		},
	})
}

func ruleC16E1(r *Run) {
	r.Begin("E1", "fresh ids: in every function of package iscp that builds a message.UpstreamCall, CallID derives only from a call of the random id source made in that function; RequestCallID is the empty string or the request's RequestCallID", 3)
	p := r.P
	uc := r.named("/message", "UpstreamCall")
	if uc == nil {
		return
	}
	n := 0
	for _, lit := range p.allLiterals(uc) {
		if fnPkgPath(lit.Fn) != modPath+"/iscp" {
			continue
		}
		n++
		name := fnName(lit.Fn)
		v, ok := lit.Fields["CallID"]
		if !ok {
			r.Check(name+" CallID", false, p.pos(lit.Alloc.Pos()), name, "UpstreamCall literal without CallID")
			continue
		}
		l := p.Leaves(v, provOpts{})
		fresh := hasLeaf(l, "global:/iscp.randomString") && hasLeaf(l, "call:dynamic")
		bad := leavesWithin(l, []string{"global:/iscp.randomString", "call:dynamic", "call:github.com/google/uuid.NewString"})
		// the generating call must be in this function and not in a loop
		r.Check(name+" CallID", (fresh || hasLeaf(l, "call:github.com/google/uuid.NewString")) && len(bad) == 0, p.pos(lit.Alloc.Pos()), name, "CallID <- ["+joinLeaves(l)+"]")
		if rv, ok := lit.Fields["RequestCallID"]; ok {
			rl := p.Leaves(rv, provOpts{})
			okr := (len(rl) == 1 && rl[0] == `const:""`) || hasLeaf(rl, "field:/iscp.UpstreamReplyCall.RequestCallID")
			r.Check(name+" RequestCallID", okr && len(leavesWithin(rl, []string{`const:""`, "field:/iscp.UpstreamReplyCall.RequestCallID", "param:*"})) == 0, p.pos(lit.Alloc.Pos()), name, "RequestCallID <- ["+joinLeaves(rl)+"]")
		}
		// payload fields copied from the same-named request fields
		for _, f := range []string{"DestinationNodeID", "Name", "Type", "Payload"} {
			if fv, ok := lit.Fields[f]; ok {
				fl := p.Leaves(fv, provOpts{})
				okf := false
				for _, x := range fl {
					if strings.HasPrefix(x, "field:/iscp.Upstream") && strings.HasSuffix(x, "."+f) {
						okf = true
					}
				}
				r.Check(name+" "+f, okf, p.pos(lit.Alloc.Pos()), name, f+" <- ["+joinLeaves(fl)+"]")
			}
		}
	}
	if n == 0 {
		r.Undecided("UpstreamCall literals", "none found in package iscp")
	}
}

func ruleC16E2(r *Run, le *LockEngine) {
	r.Begin("E2", "register before send: the store into upstreamCallAckCh keyed by the call's CallID dominates the call's transmission; in the call-and-wait API the reply waiter is registered (keyed by the same id that becomes the CallID) before the call is made", 2)
	p := r.P
	// functions that store into upstreamCallAckCh
	for _, table := range []string{"/iscp.Conn.upstreamCallAckCh"} {
		found := false
		for _, fn := range p.Funcs {
			if fnPkgPath(fn) != modPath+"/iscp" || fn.Parent() != nil {
				continue
			}
			var reg *ssa.MapUpdate
			allInstrs(fn, func(ins ssa.Instruction) {
				if mu, ok := ins.(*ssa.MapUpdate); ok {
					if u, isU := mu.Map.(*ssa.UnOp); isU && fieldKeyOfAddr(u.X) == table && !isLocalObject(pathOf(u.X).Prefix(1)) {
						reg = mu
					}
				}
			})
			if reg == nil {
				continue
			}
			found = true
			name := fnName(fn)
			// transmission: a call (possibly inside a closure passed to send) reaching SendUpstreamCall
			var sends []ssa.Instruction
			allInstrs(fn, func(ins ssa.Instruction) {
				cc := instrCall(ins)
				if cc == nil {
					return
				}
				if isCallNamed(ins, "/wire.ClientConn.SendUpstreamCall") {
					sends = append(sends, ins)
					return
				}
				for _, a := range cc.Args {
					if cf := closureOf(a); cf != nil && p.reachesCall(cf, 0, "/wire.ClientConn.SendUpstreamCall") {
						sends = append(sends, ins)
					}
				}
			})
			okDom := len(sends) > 0
			for _, s := range sends {
				if !dominatesInstr(reg, s) {
					okDom = false
				}
			}
			if len(sends) == 0 {
				// the registration lives in a helper of its own: at every call of the helper, the call dominates the
				// transmissions of the calling function
				okDom = p.liftToCallers(reg, func(g *ssa.Function, at ssa.Instruction) bool {
					var ss []ssa.Instruction
					allInstrs(g, func(ins ssa.Instruction) {
						cc := instrCall(ins)
						if cc == nil {
							return
						}
						if isCallNamed(ins, "/wire.ClientConn.SendUpstreamCall") {
							ss = append(ss, ins)
							return
						}
						for _, a := range cc.Args {
							if cf := closureOf(a); cf != nil && p.reachesCall(cf, 0, "/wire.ClientConn.SendUpstreamCall") {
								ss = append(ss, ins)
							}
						}
					})
					sends = append(sends, ss...)
					for _, x := range ss {
						if !dominatesInstr(at, x) {
							return false
						}
					}
					return len(ss) > 0
				}, 0)
			}
			kl := p.Leaves(reg.Key, provOpts{ParamDepth: 2})
			okKey := hasLeaf(kl, "field:/message.UpstreamCall.CallID")
			h := le.HeldAt(reg)
			okLock := h[recvVarName(fn)+".upstreamCallAckMu"] == modeW
			r.Check(name+" ack waiter registered before send", okDom && okKey && okLock, posOf(p, reg), name,
				fmt.Sprintf("registration dominates the %d transmission(s): %v; key from [%s]; locks held: %v", len(sends), okDom, joinLeaves(kl), h))
		}
		if !found {
			r.Undecided("registration into "+table, "no function registers an ack waiter")
		}
	}
	// call-and-wait: the registration into replyCallChs (in the function itself, or in a helper it calls with the id)
	// dominates call(...) and both use the same id
	caw := r.method("/iscp", "Conn", "SendCallAndWaitReplayCall")
	if caw == nil {
		return
	}
	name := fnName(caw)
	var regAt ssa.Instruction
	var idv ssa.Value
	for _, fn := range p.Funcs {
		if fnPkgPath(fn) != modPath+"/iscp" || fn.Parent() != nil {
			continue
		}
		allInstrs(fn, func(ins ssa.Instruction) {
			mu, ok := ins.(*ssa.MapUpdate)
			if !ok {
				return
			}
			u, isU := mu.Map.(*ssa.UnOp)
			if !isU || fieldKeyOfAddr(u.X) != "/iscp.Conn.replyCallChs" || isLocalObject(pathOf(u.X).Prefix(1)) {
				return
			}
			if fn == caw {
				regAt, idv = mu, canonVal(mu.Key)
				return
			}
			prm, isP := canonVal(mu.Key).(*ssa.Parameter)
			if !isP {
				return
			}
			for _, site := range p.staticCallSites(fn) {
				if site.Parent() != caw {
					continue
				}
				args := callArgs(instrCall(site))
				for i, q := range fn.Params {
					if q == prm && i < len(args) {
						regAt, idv = site, canonVal(args[i])
					}
				}
			}
		})
	}
	var callCall ssa.Instruction
	allInstrs(caw, func(ins ssa.Instruction) {
		if c, ok := ins.(*ssa.Call); ok && ins != regAt {
			if cf := c.Call.StaticCallee(); cf != nil && p.Analysed(cf) && p.reachesCall(cf, 1, "/wire.ClientConn.SendUpstreamCall") {
				callCall = ins
			}
		}
	})
	if regAt == nil {
		r.Undecided(name+" reply waiter registration", "no store into replyCallChs in the function or in a helper it hands the id to")
		return
	}
	ok := callCall != nil && dominatesInstr(regAt, callCall)
	same := false
	if ok {
		// the registered id is the value stored in the literal's CallID
		uc := p.Named("/message", "UpstreamCall")
		for _, lit := range literalsOf(caw, uc) {
			if v, has := lit.Fields["CallID"]; has && canonVal(v) == idv {
				same = true
			}
		}
	}
	r.Check(name+" reply waiter registered before the call", ok && same, p.pos(caw.Pos()), name, fmt.Sprintf("the registration dominates the call: %v; registered id is the call's CallID: %v", ok, same))
}

func ruleC16E3(r *Run, le *LockEngine) {
	r.Begin("E3", "dispatch by the same key: the ack dispatcher looks up and deletes upstreamCallAckCh by ack.CallID and delivers that ack on the found channel only; the reply dispatcher does the same on replyCallChs with RequestCallID; delivery happens after the delete and outside the table lock", 2)
	p := r.P
	for _, tc := range []struct{ table, keyField, mu string }{
		{"/iscp.Conn.upstreamCallAckCh", "field:/message.UpstreamCallAck.CallID", "upstreamCallAckMu"},
		{"/iscp.Conn.replyCallChs", "field:/message.DownstreamCall.RequestCallID", "replyCallsChsMu"},
	} {
		// the dispatcher: the function that looks a waiter up in the table and delivers on the channel it found
		var fn *ssa.Function
		var del *ssa.Call
		var lk *ssa.Lookup
		var snd ssa.Instruction // *ssa.Send, or the *ssa.Select that has the delivery as one of its cases
		var sndVal ssa.Value
		nonBlocking := false
		for _, f := range p.Funcs {
			if fnPkgPath(f) != modPath+"/iscp" || f.Blocks == nil {
				continue
			}
			var l0 *ssa.Lookup
			allInstrs(f, func(ins ssa.Instruction) {
				if l, ok := ins.(*ssa.Lookup); ok {
					if u, isU := l.X.(*ssa.UnOp); isU && fieldKeyOfAddr(u.X) == tc.table {
						l0 = l
					}
				}
			})
			if l0 == nil {
				continue
			}
			allInstrs(f, func(ins ssa.Instruction) {
				switch x := ins.(type) {
				case *ssa.Send:
					if hasLeaf(p.Leaves(x.Chan, provOpts{}), "elem:"+tc.table) {
						fn, lk, snd, sndVal, nonBlocking = f, l0, x, x.X, false
					}
				case *ssa.Select:
					for _, st := range x.States {
						if st.Dir == types.SendOnly && hasLeaf(p.Leaves(st.Chan, provOpts{}), "elem:"+tc.table) {
							fn, lk, snd, sndVal, nonBlocking = f, l0, x, st.Send, !x.Blocking
						}
					}
				}
			})
		}
		if fn == nil {
			r.Check("dispatcher of "+tc.table, false, "", "", "no function looks a waiter up in the table and delivers on the channel found")
			continue
		}
		allInstrs(fn, func(ins ssa.Instruction) {
			if c, ok := ins.(*ssa.Call); ok {
				if b, isB := c.Call.Value.(*ssa.Builtin); isB && b.Name() == "delete" {
					if u, isU := c.Call.Args[0].(*ssa.UnOp); isU && fieldKeyOfAddr(u.X) == tc.table {
						del = c
					}
				}
			}
		})
		name := fnName(fn)
		if del == nil {
			// the registration is owned and removed by the waiter: then a second message for the same key finds the same
			// capacity-1 channel, and the delivery has to be a select with a default branch
			baseOfK := func(v ssa.Value) ssa.Value {
				if u, ok := v.(*ssa.UnOp); ok {
					if fa, ok := u.X.(*ssa.FieldAddr); ok {
						return canonVal(fa.X)
					}
				}
				return nil
			}
			lkL := p.Leaves(lk.Index, provOpts{WithBase: true})
			okKey := hasLeaf(lkL, tc.keyField)
			okSameMsg := baseOfK(lk.Index) != nil && canonVal(sndVal) == baseOfK(lk.Index)
			okFound := false
			if lk.CommaOk && lk.Referrers() != nil {
				for _, ref := range *lk.Referrers() {
					if ex, isEx := ref.(*ssa.Extract); isEx && ex.Index == 1 && condTrueDominates(fn, ex, snd) {
						okFound = true
					}
				}
			}
			hd := le.HeldAt(snd)
			_, held := hd[recvVarName(fn)+"."+tc.mu]
			r.Check(name+" dispatch", okKey && okSameMsg && okFound && nonBlocking && !held, posOf(p, snd), name,
				fmt.Sprintf("the dispatcher does not release the entry it delivers to (the waiter removes it): key from the message's %s: %v; the looked-up message is the one delivered: %v; found edge only: %v; delivery is a select with default (a repeated message for the same key must not block the dispatcher): %v; outside the lock: %v", tc.keyField, okKey, okSameMsg, okFound, nonBlocking, !held))
			continue
		}
		lkL := p.Leaves(lk.Index, provOpts{WithBase: true})
		delL := p.Leaves(del.Call.Args[1], provOpts{WithBase: true})
		okKeys := hasLeaf(lkL, tc.keyField) && hasLeaf(delL, tc.keyField)
		// same message object for lookup key, delete key and delivered value
		baseOf := func(v ssa.Value) ssa.Value {
			if u, ok := v.(*ssa.UnOp); ok {
				if fa, ok := u.X.(*ssa.FieldAddr); ok {
					return canonVal(fa.X)
				}
			}
			return nil
		}
		b1, b2 := baseOf(lk.Index), baseOf(del.Call.Args[1])
		okSame := b1 != nil && b1 == b2 && canonVal(sndVal) == b1
		okOrder := false // the delete happens on the found edge (the entry is released whenever it is delivered)
		okFound := false
		if lk.CommaOk && lk.Referrers() != nil {
			for _, ref := range *lk.Referrers() {
				if ex, isEx := ref.(*ssa.Extract); isEx && ex.Index == 1 {
					if condTrueDominates(fn, ex, snd) {
						okFound = true
					}
					if condTrueDominates(fn, ex, del) || dominatesInstr(del, snd) {
						okOrder = true
					}
				}
			}
		}
		h := le.HeldAt(snd)
		_, held := h[recvVarName(fn)+"."+tc.mu]
		r.Check(name+" dispatch", okKeys && okSame && okOrder && okFound && !held, posOf(p, snd), name,
			fmt.Sprintf("keys from the message's %s: %v; lookup, delete and delivery use one message: %v; entry deleted whenever found: %v; found edge only: %v; delivered outside the lock: %v", tc.keyField, okKeys, okSame, okOrder, okFound, !held))
	}
}

func ruleC16E5(r *Run) {
	r.Begin("E5", "unmodified hand-over: every field of a DownstreamCall / DownstreamReplyCall value returned by the receive APIs derives from the same-named field of the received message.DownstreamCall", 8)
	p := r.P
	for _, tn := range []string{"DownstreamCall", "DownstreamReplyCall"} {
		n := r.named("/iscp", tn)
		if n == nil {
			continue
		}
		for _, lit := range p.allLiterals(n) {
			if fnPkgPath(lit.Fn) != modPath+"/iscp" {
				continue
			}
			name := fnName(lit.Fn)
			for f, v := range lit.Fields {
				l := p.Leaves(v, provOpts{})
				ok := hasLeaf(l, "field:/message.DownstreamCall."+f) && len(leavesWithin(l, []string{"field:/message.DownstreamCall." + f, "param:*", "recvfrom:*"})) == 0
				r.Check(fmt.Sprintf("%s %s.%s", name, tn, f), ok, p.pos(lit.Alloc.Pos()), name, f+" <- ["+joinLeaves(l)+"]")
			}
		}
	}
}

// ruleNameAgreement: struct-to-struct copies use the same-named field when one exists.
func ruleNameAgreement(r *Run, id string, pkgs ...string) {
	r.Begin(id, "same-named fields are copied to each other: in a keyed struct literal, when the value is a plain field x.f and x's struct also has a field with the destination's name and f's type, the same-named field is the one used (a copy such as `Name: request.Type` hands the application or the broker another field's content); only plain data structs (all fields exported) are considered as sources", 1)
	p := r.P
	total := 0
	for _, pp := range pkgs {
		pk := p.ByPath[modPath+pp]
		if pk == nil {
			r.Undecided("package "+pp, "not loaded")
			continue
		}
		n, bad := collectNameAgreement(pk)
		total += n
		seen := map[string]int{}
		for _, b := range bad {
			k := fmt.Sprintf("%s %s.%s <- %s.%s", b.Fn, tname(b.Dst), b.DstField, tname(b.Src), b.SrcField)
			seen[k]++
			r.Check(fmt.Sprintf("%s#%d", k, seen[k]), false, p.pos(b.Pos), b.Fn, fmt.Sprintf("%s.%s is filled from %s.%s although %s has a field %s of the same type", tname(b.Dst), b.DstField, tname(b.Src), b.SrcField, tname(b.Src), b.DstField))
		}
		r.Check("package "+pp, len(bad) == 0, "", pp, fmt.Sprintf("%d plain field-to-field copies examined, %d name mismatches", n, len(bad)))
	}
	r.Stat("field_copies_examined", total)
}

// ruleCloseBeliefs: where the Done() branch of a blocking select asks the connection status whether the connection
// was closed (to report ErrConnectionClosed to this caller), the author relies on a close waking this select. The
// selected context must then be one that a close cancels: derived from connStatus.WithCloseStatus (or the
// connection's own context). Without it the caller sleeps until its own deadline and gets the wrong error.
func ruleCloseBeliefs(r *Run, id string) {
	r.Begin(id, "a close reaches every waiting caller: in package iscp, when the Done() branch of a blocking select tests the connection status for Closed, the context whose Done() is selected derives from connStatus.WithCloseStatus or from the connection's own context", 2)
	p := r.P
	closed, ok := p.enumConst("/iscp", "connStatusClosed")
	if !ok {
		r.Undecided("anchor connStatusClosed", "constant not found")
		return
	}
	for _, fn := range p.Funcs {
		if fnPkgPath(fn) != modPath+"/iscp" || fn.Blocks == nil {
			continue
		}
		k := 0
		allInstrs(fn, func(ins ssa.Instruction) {
			sel, isSel := ins.(*ssa.Select)
			if !isSel || !sel.Blocking {
				return
			}
			for i, st := range sel.States {
				if st.Dir != types.RecvOnly {
					continue
				}
				cx := doneCtx(st.Chan)
				if cx == nil {
					continue
				}
				sb := selectStateBlock(sel, i)
				if sb == nil {
					continue
				}
				// does the branch test the status for Closed?
				tests := false
				for _, b := range fn.Blocks {
					if !(b == sb || sb.Dominates(b)) {
						continue
					}
					for _, x := range b.Instrs {
						if c, isC := x.(*ssa.Call); isC && isCallNamed(c, "/iscp.connStatus.Is") {
							if v, isK := constInt(c.Call.Args[1]); isK && v == closed {
								tests = true
							}
						}
					}
				}
				if !tests {
					continue
				}
				k++
				name := fnName(fn)
				okCtx := false
				var seen []string
				for _, root := range ctxRoots(cx) {
					// the context may be a parameter of an unexported helper: then what every caller hands in
					origins, complete := p.originsThroughParams(root, 0)
					all := complete && len(origins) > 0
					for _, o := range origins {
						l := p.Leaves(o, provOpts{})
						seen = append(seen, l...)
						if !hasLeaf(l, "call:/iscp.connStatus.WithCloseStatus") && !hasLeaf(l, "field:/iscp.Conn.ctx") {
							all = false
						}
					}
					if all {
						okCtx = true
					}
				}
				r.Check(fmt.Sprintf("%s close-aware wait#%d", name, k), okCtx, posOf(p, sel), name, "the Done() branch asks whether the connection is Closed, but the selected context derives from ["+joinLeaves(dedup(seen))+"]: nothing cancels it when the connection closes")
			}
		})
	}
}

func dedup(in []string) []string {
	m := map[string]bool{}
	var out []string
	for _, s := range in {
		if !m[s] {
			m[s] = true
			out = append(out, s)
		}
	}
	sort.Strings(out)
	return out
}

// ruleC16E10: a reply is handed both to the connection-wide queue (best effort) and to the caller waiting for it.
// The second delivery must not depend on the first: from the point where a received call is known to be a reply,
// every path back to the next receive passes the lookup in the per-call waiter table.
func ruleC16E10(r *Run) {
	r.Begin("E10", "the per-call delivery is unconditional: in the reply dispatcher, from the edge on which the received call carries a non-empty RequestCallID, the next receive (or a return) is not reachable without passing the lookup in Conn.replyCallChs — a full connection-wide reply queue must not cancel the delivery to the waiting caller", 1)
	p := r.P
	n := 0
	for _, fn := range p.Funcs {
		if fnPkgPath(fn) != modPath+"/iscp" || fn.Blocks == nil {
			continue
		}
		var lookup ssa.Instruction
		allInstrs(fn, func(ins ssa.Instruction) {
			if lk, ok := ins.(*ssa.Lookup); ok && hasLeaf(p.Leaves(lk.X, provOpts{}), "field:/iscp.Conn.replyCallChs") && hasLeaf(p.Leaves(lk.Index, provOpts{}), "field:/message.DownstreamCall.RequestCallID") {
				lookup = ins // the dispatcher's lookup: keyed by the received call's RequestCallID
			}
		})
		recvs := findCalls(fn, false, "/wire.ClientConn.ReceiveDownstreamCall")
		if lookup == nil {
			continue
		}
		// (when the routing of one call was moved into a helper of the loop, the helper's return stands for "next receive")
		var nextRecv ssa.Instruction
		if len(recvs) > 0 {
			nextRecv = recvs[0]
		}
		n++
		name := fnName(fn)
		// the test RequestCallID == ""
		var test *ssa.If
		var replyEdge *ssa.BasicBlock
		allInstrs(fn, func(ins ssa.Instruction) {
			ifs, ok := ins.(*ssa.If)
			if !ok {
				return
			}
			bo, ok := ifs.Cond.(*ssa.BinOp)
			if !ok || (bo.Op != token.EQL && bo.Op != token.NEQ) {
				return
			}
			isEmpty := func(v ssa.Value) bool {
				c, ok := v.(*ssa.Const)
				return ok && c.Value != nil && c.Value.ExactString() == `""`
			}
			var other ssa.Value
			if isEmpty(bo.Y) {
				other = bo.X
			} else if isEmpty(bo.X) {
				other = bo.Y
			}
			if other == nil || !hasLeaf(p.Leaves(other, provOpts{}), "field:/message.DownstreamCall.RequestCallID") {
				return
			}
			test = ifs
			if bo.Op == token.EQL {
				replyEdge = ifs.Block().Succs[1]
			} else {
				replyEdge = ifs.Block().Succs[0]
			}
		})
		if test == nil {
			r.Check(name+" reply reaches its waiter", false, posOf(p, lookup), name, "no test of RequestCallID against the empty string separates calls from replies")
			continue
		}
		w := reachesWithoutFromBlock(replyEdge, func(ins ssa.Instruction) bool {
			if _, isRet := ins.(*ssa.Return); isRet {
				return true
			}
			return nextRecv != nil && ins == nextRecv
		}, func(ins ssa.Instruction) bool { return ins == lookup })
		where := posOf(p, lookup)
		detail := "every path from the reply edge passes the waiter lookup"
		if w != nil {
			where = posOf(p, w)
			detail = "from the reply edge the next receive/return at " + posOf(p, w) + " is reachable without looking the waiter up: that reply never reaches the caller blocked in SendCallAndWaitReplayCall"
		}
		r.Check(name+" reply reaches its waiter", w == nil, where, name, detail)
	}
	if n == 0 {
		r.Undecided("reply dispatcher", "no function looks up Conn.replyCallChs")
	}
}

// ruleC16E11: the waiter of one call receives from the channel registered for that call. In the reply wait that channel
// is the function's parameter; the select must receive from it.
func ruleC16E11(r *Run) {
	r.Begin("E11", "the reply wait listens on its own channel: in (*Conn).receiveReplyCall the select receives from the channel parameter (the channel subscribeReply registered for this call)", 1)
	p := r.P
	fn := r.method("/iscp", "Conn", "receiveReplyCall")
	if fn == nil {
		return
	}
	name := fnName(fn)
	var chParam *ssa.Parameter
	for _, prm := range fn.Params {
		if _, isCh := prm.Type().Underlying().(*types.Chan); isCh {
			chParam = prm
		}
	}
	if chParam == nil {
		r.Undecided(name+" channel parameter", "not found")
		return
	}
	ok := false
	allInstrs(fn, func(ins ssa.Instruction) {
		if sel, isSel := ins.(*ssa.Select); isSel {
			for _, st := range sel.States {
				if st.Dir == types.RecvOnly && canonVal(st.Chan) == ssa.Value(chParam) {
					ok = true
				}
			}
		}
		if u, isU := ins.(*ssa.UnOp); isU && u.Op == token.ARROW && canonVal(u.X) == ssa.Value(chParam) {
			ok = true
		}
	})
	r.Check(name+" receives from its parameter", ok, p.pos(fn.Pos()), name, "the per-call reply channel handed to the wait is never received from: the caller would get whatever arrives elsewhere")
}

// ruleC16E14: the e2e dispatchers of a connection serve every caller of that connection, so they never wait for the
// application. A queue that is a field of Conn (drained by ReceiveCall / ReceiveReplyCall whenever the application
// gets round to it) is fed with a non-blocking select; only the per-call channels looked up in the waiter tables
// (capacity ≥ 1, rule E4) take a plain send.
func ruleC16E14(r *Run) {
	r.Begin("E14", "the shared dispatcher never waits for the application: in the functions of iscp.Conn that look up a waiter in upstreamCallAckCh or replyCallChs (the dispatchers and the helpers their loop bodies were moved to), every send to a channel field of Conn is a case of a select with a default branch", 2)
	p := r.P
	tables := map[string]bool{"/iscp.Conn.upstreamCallAckCh": true, "/iscp.Conn.replyCallChs": true}
	n := 0
	for _, fn := range p.Funcs {
		if fnPkgPath(fn) != modPath+"/iscp" || recvTypeName(topFunc(fn)) != "Conn" || fn.Blocks == nil {
			continue
		}
		dispatcher := false
		allInstrs(fn, func(ins ssa.Instruction) {
			if lk, ok := ins.(*ssa.Lookup); ok {
				if ld, isLd := lk.X.(*ssa.UnOp); isLd && ld.Op == token.MUL && tables[fieldKeyOfAddr(ld.X)] {
					dispatcher = true
				}
			}
		})
		if !dispatcher {
			continue
		}
		name := fnName(fn)
		k := 0
		connField := func(ch ssa.Value) string {
			for {
				ct, isCT := ch.(*ssa.ChangeType) // chan T handed over as chan<- T
				if !isCT {
					break
				}
				ch = ct.X
			}
			if ld, ok := canonVal(ch).(*ssa.UnOp); ok && ld.Op == token.MUL {
				if fk := fieldKeyOfAddr(ld.X); strings.HasPrefix(fk, "/iscp.Conn.") {
					return fk
				}
			}
			if ld, ok := ch.(*ssa.UnOp); ok && ld.Op == token.MUL {
				if fk := fieldKeyOfAddr(ld.X); strings.HasPrefix(fk, "/iscp.Conn.") {
					return fk
				}
			}
			return ""
		}
		allInstrs(fn, func(ins ssa.Instruction) {
			switch x := ins.(type) {
			case *ssa.Send:
				if fk := connField(x.Chan); fk != "" {
					k++
					n++
					r.Check(fmt.Sprintf("%s send#%d to %s does not block", name, k, fk), false, posOf(p, x), name, "a plain send to a connection-wide queue: when the application does not drain it the dispatcher stops routing acks and replies to every other caller")
				}
			case *ssa.Select:
				for _, st := range x.States {
					if st.Dir != types.SendOnly {
						continue
					}
					if fk := connField(st.Chan); fk != "" {
						k++
						n++
						r.Check(fmt.Sprintf("%s send#%d to %s does not block", name, k, fk), !x.Blocking, posOf(p, x), name, "the select that feeds a connection-wide queue has no default branch: when the application does not drain the queue the dispatcher stops routing acks and replies to every other caller (waiting for the context is still waiting)")
					}
				}
			}
			// the queue handed to a small helper that performs the send (trySend(ch, v)): judged by the helper's sends
			// on that parameter
			if c, isCall := ins.(*ssa.Call); isCall {
				if cal := c.Call.StaticCallee(); cal != nil && p.Analysed(cal) {
					for i, a := range c.Call.Args {
						fk := connField(a)
						if fk == "" {
							continue
						}
						if _, isCh := a.Type().Underlying().(*types.Chan); !isCh {
							continue
						}
						for _, ps := range paramSends(cal, i, 0) {
							k++
							n++
							r.Check(fmt.Sprintf("%s send#%d to %s does not block", name, k, fk), !ps.blocking, posOf(p, c), name, "the helper the connection-wide queue is handed to sends on it with a blocking operation ("+fnName(cal)+"): when the application does not drain the queue the dispatcher stops routing acks and replies to every other caller")
						}
					}
				}
			}
		})
	}
	if n == 0 {
		r.Undecided("dispatcher sends", "no send to a connection-wide queue found in the e2e dispatchers")
	}
}
