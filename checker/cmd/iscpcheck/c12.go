package main

import (
	"fmt"
	"go/token"
	"go/types"
	"strings"

	"golang.org/x/tools/go/ssa"
)

func init() {
	register(&PropSpec{
		ID:          "C12",
		Explanation: "Structural necessary conditions for 'decoders never crash on hostile bytes'. D1: every EncodeTo/DecodeFrom of a non-mock encoding registers, before any other call, a deferred function that itself calls recover() and on a recovered value stores a non-nil error into the error result; no goroutine is started from the codec (a panic there would escape). This is necessary because panics are reachable from the converters (uuid.Must on broker bytes, nil sub-messages). D2: encoding.Transport.Read validates the length of the bytes just read against the maximum before it decodes, returns that error, and validateMessageSize rejects exactly target > max for max != 0 with ErrMessageTooLarge. D3: no panicking (single-value) type assertion is applied to a value that derives from a broker-controlled source (the reply of sendRequest, a transport Read, a message channel).",
		NotDecided:  []string{"for all byte strings (that is fuzzing)", "re-encodability of every decoded message", "hangs inside the third-party unmarshalers"},
		Rules: func(r *Run) {
			ruleC12D1(r)
			ruleC12D2(r)
			ruleC12D3(r)
			ruleErrorsChecked(r, "D4", "/encoding/convert", 50)
			r.borrow("C07", func() { ruleC07R2(r) }) // a frame for a full subscriber must not stall the read path
			r.borrow("C08", func() { ruleD1(r) })    // a late reply for a requester that gave up must not wedge the request router
			r.borrow("C11", func() { ruleC11M7(r) }) // a rejected frame must not stay in the pooled buffer and be parsed in front of the next one
			ruleC12D7(r)
			ruleNoHoles(r, "D8", "/encoding", "/message", "/iscp", "/wire", "/transport", "/internal")
			ruleNoSwallowedErrors(r, "D6", 10, true, "/encoding", "/encoding/json", "/encoding/protobuf", "/encoding/convert")
			if pk := r.P.ByPath[modPath+"/encoding/convert"]; pk != nil {
				ruleC11M12(r, pk)
				ruleC11M2(r, pk) // registered as M2: decoder literals are complete and zero literals are acceptable to the decoder itself
			}
			le := newLockEngine(r.P)
			ruleLockPairingFor(r, le, "D5", "the wire read path never wedges on a lock: every function of package wire that takes a lock releases it on every path (an unsolicited frame must not leave a mutex held)", func(fn *ssa.Function) bool {
				return fnPkgPath(fn) == modPath+"/wire" && (le.Info(fn).Events > 0 || len(le.Info(fn).Reports) > 0)
			}, 10)
		},
	})
}

// callsRecoverDirectly: fn's own body (not nested closures, not callees) calls the builtin recover.
func callsRecoverDirectly(fn *ssa.Function) (ssa.Instruction, bool) {
	var at ssa.Instruction
	allInstrs(fn, func(ins ssa.Instruction) {
		if c, ok := ins.(*ssa.Call); ok {
			if b, isB := c.Call.Value.(*ssa.Builtin); isB && b.Name() == "recover" {
				at = ins
			}
		}
	})
	return at, at != nil
}

func ruleC12D1(r *Run) {
	r.Begin("D1", "recover guard: every EncodeTo and DecodeFrom of a non-mock encoding.Encoding first defers a function whose own body calls recover() and, on a non-nil recovered value, stores a non-nil error into the method's error result; that defer dominates every other call of the method; the method starts no goroutine", 4)
	p := r.P
	encN := r.named("/encoding", "Encoding")
	if encN == nil {
		return
	}
	iface := encN.Underlying().(*types.Interface)
	for _, n := range p.implementers(iface, false) {
		for _, mname := range []string{"EncodeTo", "DecodeFrom"} {
			fn := p.methodOf(n, mname)
			if fn == nil || fn.Blocks == nil {
				continue
			}
			name := fnName(fn)
			// the error result alloc: last named result
			var guard *ssa.Defer
			detail := "no deferred function calls recover() in its own body"
			allInstrs(fn, func(ins ssa.Instruction) {
				d, ok := ins.(*ssa.Defer)
				if !ok || guard != nil {
					return
				}
				var df *ssa.Function
				if c := d.Call.StaticCallee(); c != nil {
					df = c
				} else if c := closureOf(d.Call.Value); c != nil {
					df = c
				}
				if df == nil || df.Blocks == nil {
					return
				}
				rec, has := callsRecoverDirectly(df)
				if !has {
					// recover() reached only through a helper: it returns nil there
					if p.reachesCall(df, 2, "builtin.recover") {
						detail = "the deferred function at " + p.pos(d.Pos()) + " reaches recover() only through another call; recover() returns nil unless called directly by the deferred function, so panics escape"
					}
					return
				}
				// stores a non-nil error into an error-typed location of the parent on the recovered != nil edge
				storesErr := false
				allInstrs(df, func(x ssa.Instruction) {
					st, isSt := x.(*ssa.Store)
					if !isSt {
						return
					}
					if !types.Identical(deref(st.Addr.Type()), types.Universe.Lookup("error").Type()) {
						return
					}
					if isNilConst(st.Val) {
						return
					}
					// the address is the parent's result (free variable) or a pointer parameter of a named helper
					switch st.Addr.(type) {
					case *ssa.FreeVar, *ssa.Parameter:
						if dominatesInstr(rec, st) {
							storesErr = true
						}
					}
				})
				if storesErr {
					guard = d
				} else {
					detail = "the deferred recover at " + p.pos(d.Pos()) + " does not store a non-nil error into the method's error result"
				}
			})
			if guard == nil {
				r.Check(name+" recovers", false, p.pos(fn.Pos()), name, detail)
				continue
			}
			// dominates every other call
			first := true
			allInstrs(fn, func(ins ssa.Instruction) {
				if c, ok := ins.(*ssa.Call); ok {
					if _, isB := c.Call.Value.(*ssa.Builtin); isB {
						return
					}
					if !dominatesInstr(guard, ins) {
						first = false
					}
				}
			})
			goes := false
			withAnon(fn, func(f *ssa.Function) {
				allInstrs(f, func(ins ssa.Instruction) {
					if _, ok := ins.(*ssa.Go); ok {
						goes = true
					}
				})
			})
			r.Check(name+" recovers", first && !goes, posOf(p, guard), name, fmt.Sprintf("deferred recover dominates every call: %v; starts a goroutine: %v", first, goes))
		}
	}
}

func ruleC12D2(r *Run) {
	r.Begin("D2", "size gate: in encoding.Transport.Read the DecodeFrom call is dominated by validateMessageSize applied to the length of the bytes just read, on its nil-error edge; validateMessageSize returns an error wrapping ErrMessageTooLarge exactly when max != 0 and target > max", 3)
	p := r.P
	rd := r.method("/encoding", "Transport", "Read")
	val := r.function("/encoding", "validateMessageSize")
	if rd == nil || val == nil {
		return
	}
	name := fnName(rd)
	var vcall *ssa.Call
	allInstrs(rd, func(ins ssa.Instruction) {
		if c, ok := ins.(*ssa.Call); ok && c.Call.StaticCallee() == val {
			vcall = c
		}
	})
	decs := findCalls(rd, false, "/encoding.Encoding.DecodeFrom")
	if vcall == nil || len(decs) == 0 {
		r.Check(name+" validates before decoding", false, p.pos(rd.Pos()), name, fmt.Sprintf("validateMessageSize call found: %v; DecodeFrom calls: %d", vcall != nil, len(decs)))
	} else {
		ok := true
		for _, d := range decs {
			if !dominatesInstr(vcall, d) || !guardedByNilErr(vcall, d) {
				ok = false
			}
		}
		r.Check(name+" validates before decoding", ok, posOf(p, vcall), name, "the size check must dominate DecodeFrom and DecodeFrom must run only when it returned nil (an oversize frame must not be parsed at all)")
		// argument: len of the bytes read from the transport
		l := p.Leaves(vcall.Call.Args[1], provOpts{})
		okArg := hasLeaf(l, "call:builtin.len") && (hasLeafPrefix(l, "call:/transport.") || hasLeafPrefix(l, "call:/transport.ReadWriter.Read") || hasLeafPrefix(l, "call:/transport.Reader.Read"))
		r.Check(name+" validates the frame length", okArg, posOf(p, vcall), name, "size argument derives from ["+joinLeaves(l)+"]; must be len() of the frame read from the transport, not a decoder-reported count")
		ml := p.Leaves(vcall.Call.Args[0], provOpts{})
		r.Check(name+" validates against the configured maximum", hasLeaf(ml, "field:/encoding.Transport.maxMessageSize"), posOf(p, vcall), name, "max argument derives from ["+joinLeaves(ml)+"]")
	}
	// validateMessageSize body
	vname := fnName(val)
	okCmp, okZero, okSent := false, false, false
	allInstrs(val, func(ins ssa.Instruction) {
		bo, ok := ins.(*ssa.BinOp)
		if !ok {
			return
		}
		pm, pt := ssa.Value(val.Params[0]), ssa.Value(val.Params[1])
		if (bo.Op == token.GTR && bo.X == pt && bo.Y == pm) || (bo.Op == token.LSS && bo.X == pm && bo.Y == pt) {
			// true edge returns non-nil error wrapping the sentinel
			if bo.Referrers() != nil {
				for _, ref := range *bo.Referrers() {
					if ifs, isIf := ref.(*ssa.If); isIf {
						tb := ifs.Block().Succs[0]
						for _, x := range tb.Instrs {
							if ret, isRet := x.(*ssa.Return); isRet && !isNilConst(retResults(ret)[0]) {
								okCmp = true
								l := p.Leaves(retResults(ret)[0], provOpts{})
								if hasLeaf(l, "global:/errors.ErrMessageTooLarge") {
									okSent = true
								}
							}
						}
					}
				}
			}
		}
		if (bo.Op == token.EQL || bo.Op == token.NEQ) && bo.X == pm {
			if k, isK := constInt(bo.Y); isK && k == 0 {
				okZero = true
			}
		}
	})
	r.Check(vname+" rejects exactly target > max", okCmp && okZero && okSent, p.pos(val.Pos()), vname, fmt.Sprintf("strict comparison target > max returning an error: %v; max == 0 means unlimited: %v; error wraps ErrMessageTooLarge: %v", okCmp, okZero, okSent))
}

func ruleC12D3(r *Run) {
	r.Begin("D3", "no unchecked assertion on broker-controlled values: in packages wire and iscp no single-value (panicking) type assertion is applied to a value that derives from the reply of sendRequest, from a transport Read, or from a message received on a channel", 1)
	p := r.P
	n := 0
	for _, fn := range p.Funcs {
		pk := fnPkgPath(fn)
		if pk != modPath+"/wire" && pk != modPath+"/iscp" {
			continue
		}
		k := 0
		allInstrs(fn, func(ins ssa.Instruction) {
			ta, ok := ins.(*ssa.TypeAssert)
			if !ok || ta.CommaOk {
				return
			}
			l := p.Leaves(ta.X, provOpts{ParamDepth: 1})
			src := ""
			for _, x := range l {
				switch {
				case x == "call:/wire.ClientConn.sendRequest":
					src = "the reply routed by request id (sendRequest)"
				case strings.HasPrefix(x, "call:/wire.EncodingTransport.Read"), strings.HasPrefix(x, "call:/encoding.Transport.Read"):
					src = "a message read from the transport"
				case x == "recv", strings.HasPrefix(x, "rangeval:field:/wire.ClientConn.msg"):
					src = "a message received from a channel"
				}
			}
			n++
			if src == "" {
				return
			}
			k++
			name := fnName(fn)
			r.Check(fmt.Sprintf("%s assert#%d %s", name, k, typeStr(ta.AssertedType)), false, p.pos(ta.Pos()), name,
				"panicking type assertion to "+typeStr(ta.AssertedType)+" on "+src+": a well-formed frame of another type bearing a pending id crashes the calling goroutine")
		})
	}
	r.Stat("single_value_assertions_examined", n)
	// positive anchor: the reply conversion helper exists and uses the comma-ok form
	ok := false
	for _, fn := range p.Funcs {
		if fnPkgPath(fn) != modPath+"/wire" {
			continue
		}
		allInstrs(fn, func(ins ssa.Instruction) {
			if ta, isTA := ins.(*ssa.TypeAssert); isTA && ta.CommaOk {
				l := p.Leaves(ta.X, provOpts{ParamDepth: 1})
				if hasLeaf(l, "call:/wire.ClientConn.sendRequest") {
					ok = true
				}
			}
		})
	}
	r.Check("replies are converted with a checked assertion", ok, "", "wire", "at least one comma-ok assertion on the reply of sendRequest must exist (the typed Send…Request functions convert the reply somewhere)")
}

// ruleC12D7: only the goroutine that closes a channel sends on it. The read loops close their fan-out channels when
// their transport ends; a send from another goroutine after that is a "send on closed channel" panic in a library
// goroutine, which no recover catches — a frame on the unreliable transport after the reliable one has ended would
// kill the process.
func ruleC12D7(r *Run) {
	r.Begin("D7", "only the closer sends: for every channel field of wire.ClientConn that some function closes, every send on that field (plain, in a select, or through a send helper) is made in a function whose only goroutine root is the goroutine that performs the close", 5)
	p := r.P
	// goroutine roots of a function: climb static call sites; a function without call sites (or started by go) is a root
	var rootsOf func(fn *ssa.Function, depth int, seen map[*ssa.Function]bool, out map[*ssa.Function]bool)
	rootsOf = func(fn *ssa.Function, depth int, seen map[*ssa.Function]bool, out map[*ssa.Function]bool) {
		if fn == nil || seen[fn] {
			return
		}
		seen[fn] = true
		top := fn
		if top.Parent() != nil && !isGoBody(top) {
			// a plain function literal runs in the goroutine of the function it is written in (unless started by go)
			rootsOf(top.Parent(), depth, seen, out)
			return
		}
		sites := p.staticCallSites(top)
		calls := 0
		for _, s := range sites {
			if _, isGo := s.(*ssa.Go); isGo {
				out[top] = true
				continue
			}
			calls++
			if depth < 5 {
				rootsOf(s.Parent(), depth+1, seen, out)
			}
		}
		if calls == 0 {
			out[top] = true
		}
	}
	fieldOfChan := func(v ssa.Value) string {
		for _, l := range p.Leaves(v, provOpts{}) {
			if strings.HasPrefix(l, "field:/wire.ClientConn.") {
				return strings.TrimPrefix(l, "field:")
			}
		}
		return ""
	}
	closers := map[string]map[*ssa.Function]bool{}
	for _, fn := range p.Funcs {
		if fnPkgPath(fn) != modPath+"/wire" || fn.Blocks == nil {
			continue
		}
		allInstrs(fn, func(ins ssa.Instruction) {
			cc := instrCall(ins)
			if cc == nil {
				return
			}
			if b, isB := cc.Value.(*ssa.Builtin); isB && b.Name() == "close" && len(cc.Args) == 1 {
				if fk := fieldOfChan(cc.Args[0]); fk != "" {
					if closers[fk] == nil {
						closers[fk] = map[*ssa.Function]bool{}
					}
					rootsOf(fn, 0, map[*ssa.Function]bool{}, closers[fk])
				}
			}
		})
	}
	r.Stat("closed_channel_fields", len(closers))
	n := 0
	for _, fn := range p.Funcs {
		if fnPkgPath(fn) != modPath+"/wire" || fn.Blocks == nil {
			continue
		}
		name := fnName(fn)
		k := 0
		check := func(at ssa.Instruction, ch ssa.Value) {
			fk := fieldOfChan(ch)
			if fk == "" || closers[fk] == nil {
				return
			}
			k++
			n++
			roots := map[*ssa.Function]bool{}
			rootsOf(fn, 0, map[*ssa.Function]bool{}, roots)
			bad := ""
			shared := false
			for rt := range roots {
				if closers[fk][rt] {
					shared = true
				}
			}
			for rt := range roots {
				if !closers[fk][rt] {
					bad = fnName(rt)
				}
			}
			// a helper shared by the closing goroutine and others (one dispatch function for both read loops) may be
			// restricted, at its other call sites, to message types whose channels that caller owns: which branch a
			// caller can take depends on the dynamic type it passes, not decided here
			if shared && bad != "" {
				r.Check(fmt.Sprintf("%s send#%d on %s by the closing goroutine", name, k, fk[strings.LastIndexByte(fk, '.')+1:]), true, posOf(p, at), name, "shared with the goroutine of "+bad+": not decided (depends on the message types that caller passes)")
				return
			}
			r.Check(fmt.Sprintf("%s send#%d on %s by the closing goroutine", name, k, fk[strings.LastIndexByte(fk, '.')+1:]), bad == "", posOf(p, at), name, "the send can run in the goroutine of "+bad+", which is not the goroutine that closes "+fk+": once the closer has ended, the send panics (send on closed channel) in a goroutine nobody recovers")
		}
		allInstrs(fn, func(ins ssa.Instruction) {
			switch x := ins.(type) {
			case *ssa.Send:
				check(x, x.Chan)
			case *ssa.Select:
				for _, st := range x.States {
					if st.Dir == types.SendOnly {
						check(x, st.Chan)
					}
				}
			case *ssa.Call:
				if cal := x.Call.StaticCallee(); cal != nil && p.Analysed(cal) && cal.Blocks != nil {
					for i, a := range x.Call.Args {
						if _, isCh := a.Type().Underlying().(*types.Chan); isCh && len(paramSends(cal, i, 0)) > 0 {
							check(x, a)
						}
					}
				}
			}
		})
	}
	if n == 0 {
		r.Undecided("sends on closed-by-someone channels", "none found")
	}
}

// ruleNoHoles: a slice of pointers (or of other nil-able elements) that is created with its final length and then filled
// by index inside a loop has a nil element wherever an iteration skips the store. Downstream code — re-encoding, the
// application — dereferences the elements of a decoded message without a test. In the decoding packages, the store
// into such a slice dominates every way back to the loop head (no `continue` around it).
func ruleNoHoles(r *Run, id string, pkgs ...string) {
	r.Begin(id, "decoded collections have no holes: where a slice of nil-able elements is made with a non-zero length and filled by index in a loop, no iteration gets back to the loop head without storing its element", 0)
	p := r.P
	n := 0
	for _, fn := range p.Funcs {
		okPkg := false
		for _, pk := range pkgs {
			if strings.HasPrefix(fnPkgPath(fn), modPath+pk) {
				okPkg = true
			}
		}
		if !okPkg || fn.Blocks == nil {
			continue
		}
		k := 0
		allInstrs(fn, func(ins ssa.Instruction) {
			mk, ok := ins.(*ssa.MakeSlice)
			if !ok {
				return
			}
			if c, isK := mk.Len.(*ssa.Const); isK {
				if v, _ := constInt(c); v == 0 {
					return
				}
			}
			switch mk.Type().Underlying().(*types.Slice).Elem().Underlying().(type) {
			case *types.Pointer, *types.Interface, *types.Slice, *types.Map:
			default:
				return
			}
			if mk.Referrers() == nil {
				return
			}
			for _, ref := range *mk.Referrers() {
				ia, isIA := ref.(*ssa.IndexAddr)
				if !isIA || ia.Referrers() == nil {
					continue
				}
				if _, isK := ia.Index.(*ssa.Const); isK {
					continue
				}
				for _, r2 := range *ia.Referrers() {
					st, isSt := r2.(*ssa.Store)
					if !isSt || st.Addr != ssa.Value(ia) {
						continue
					}
					loop := loopBlocks(st.Block())
					if len(loop) == 0 {
						continue
					}
					// the innermost loop head: a block of the loop that dominates the store block and has a predecessor
					// inside the loop
					var head *ssa.BasicBlock
					for b := range loop {
						if !b.Dominates(st.Block()) {
							continue
						}
						back := false
						for _, pr := range b.Preds {
							if loop[pr] && b.Dominates(pr) {
								back = true
							}
						}
						if back && (head == nil || head.Dominates(b)) {
							head = b
						}
					}
					if head == nil {
						continue
					}
					n++
					k++
					var skip *ssa.BasicBlock
					for _, pr := range head.Preds {
						if head.Dominates(pr) && pr != head && !st.Block().Dominates(pr) {
							skip = pr
						}
					}
					where := posOf(p, st)
					if skip != nil && len(skip.Instrs) > 0 {
						where = posOf(p, skip.Instrs[len(skip.Instrs)-1])
					}
					r.Check(fmt.Sprintf("%s fill#%d", fnName(fn), k), skip == nil, where, fnName(fn), "an iteration can return to the loop head without storing its element: the slice was made with its final length, so the skipped slot stays nil inside a message that is handed on as valid")
				}
			}
		})
	}
	r.Stat("index_filled_slices", n)
	if n == 0 {
		r.Check("index-filled slices", true, "", "", "no slice of nil-able elements is made with a length and filled by index in a loop")
	}
}
