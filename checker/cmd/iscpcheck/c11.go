package main

import (
	"fmt"
	"go/ast"
	"go/token"
	"go/types"
	"sort"
	"strings"

	"golang.org/x/tools/go/packages"
	"golang.org/x/tools/go/ssa"
)

func init() {
	register(&PropSpec{
		ID:          "C11",
		Explanation: "Structural necessary conditions for 'every message survives encode/decode in both encodings'. M1: every type switch of the converter package is total over the implementers of the interface it switches on (or rejects the rest explicitly), and the encode-direction and decode-direction switches are mutually inverse on message/wrapper types (top-level messages, metadata variants, id-or-alias variants). M2: every keyed struct literal of a protocol struct in the converters keys all fields (XXX_* excepted) unless the field is assigned later in the same function; the empty literal is the accepted zero idiom. M5: the result-code and QoS enum switches are total over the distinct values of their tag type and their composition decode∘encode is the identity up to the documented many-to-one pairs. M6: both codecs go through the same converter functions.",
		NotDecided:  []string{"value-level round trip and canonical forms", "JSON ≡ protobuf on values", "byte counts", "anything inside gogo/protobuf and jsonpb"},
		Assumptions: []string{"tables are extracted from switch statements in encoding/convert (a converter rewritten in another form makes the rule report UNDECIDED rather than pass)"},
		Rules: func(r *Run) {
			ruleCounterDirection(r, "M10", "/encoding")
			ruleC11M11(r)
			pk := r.P.ByPath[modPath+"/encoding/convert"]
			if pk == nil {
				r.Begin("M0", "anchor", 1)
				r.Undecided("package encoding/convert", "package not loaded")
				return
			}
			ruleC11M1(r, pk)
			ruleC11M2(r, pk)
			ruleC11M12(r, pk)
			ruleC11M3(r, pk)
			ruleC11M5(r, pk)
			ruleC11M6(r)
			ruleNameAgreement(r, "M8", "/encoding/convert")
			ruleC11M7(r)
			ruleErrorsChecked(r, "M9", "/encoding/convert", 50)
			ruleC11M13(r)
			ruleC11M14(r)
			ruleC11M15(r)
			ruleInjectiveKeys(r, "M16", "/encoding", "/message", "/wire", "/iscp", "/transport")
			ruleReaderOnlyConsumed(r, "M17")
		},
	})
}

func ifaceOf(t types.Type) *types.Interface {
	if t == nil {
		return nil
	}
	i, _ := t.Underlying().(*types.Interface)
	return i
}

// universeOf: named types declared in the package of the subject interface that implement it.
func universeOf(p *Prog, subj types.Type) []*types.Named {
	it := ifaceOf(subj)
	if it == nil || it.NumMethods() == 0 {
		return nil
	}
	var pkgT *types.Package
	if n := namedOf(subj); n != nil {
		pkgT = n.Obj().Pkg()
	}
	if pkgT == nil {
		return nil
	}
	var out []*types.Named
	sc := pkgT.Scope()
	for _, nm := range sc.Names() {
		tn, ok := sc.Lookup(nm).(*types.TypeName)
		if !ok || tn.IsAlias() {
			continue
		}
		n, ok := tn.Type().(*types.Named)
		if !ok {
			continue
		}
		if _, isI := n.Underlying().(*types.Interface); isI {
			continue
		}
		if types.Implements(n, it) || types.Implements(types.NewPointer(n), it) {
			out = append(out, n)
		}
	}
	sort.Slice(out, func(i, j int) bool { return out[i].Obj().Name() < out[j].Obj().Name() })
	return out
}

func tname(n *types.Named) string {
	pk := ""
	if n.Obj().Pkg() != nil {
		pk = n.Obj().Pkg().Name() + "."
	}
	return pk + n.Obj().Name()
}

func ruleC11M1(r *Run, pk *packages.Package) {
	r.Begin("M1", "type-switch totality and inverse: each converter type switch has a case for every implementer (declared in the interface's package) of the interface it switches on; for every encode-direction case T constructing wrapper W, the decode-direction switch has case W constructing T", 80)
	p := r.P
	tss := collectTypeSwitches(pk)
	r.Stat("type_switches", len(tss))
	isMsgSide := func(n *types.Named) bool {
		return n.Obj().Pkg() != nil && n.Obj().Pkg().Path() == modPath+"/message"
	}
	// index decode-direction switches by case type
	type caseRef struct {
		ts *typeSwitchTable
		t  *types.Named
	}
	byCase := map[*types.TypeName][]caseRef{}
	for _, ts := range tss {
		for ct := range ts.Cases {
			byCase[ct.Obj()] = append(byCase[ct.Obj()], caseRef{ts, ct})
		}
	}
	for _, ts := range tss {
		fname := ts.Fn.Name.Name
		uni := universeOf(p, ts.Subject)
		if len(uni) == 0 {
			continue
		}
		// totality
		for _, u := range uni {
			_, has := ts.Cases[u]
			if !has {
				for ct := range ts.Cases {
					if ct.Obj() == u.Obj() {
						has = true
					}
				}
			}
			r.Check(fmt.Sprintf("%s case %s", fname, tname(u)), has, p.pos(ts.Pos), fname,
				fmt.Sprintf("type switch over %s in %s: implementer %s has a case: %v", typeStr(ts.Subject), fname, tname(u), has))
		}
		// inverse (only from the encode direction: subject on the message side)
		sn := namedOf(ts.Subject)
		if sn == nil || !isMsgSide(sn) {
			continue
		}
		for ct, constructed := range ts.Cases {
			// the wrapper: a constructed type that is a case type of some other (decode) switch
			var w *types.Named
			var dec *typeSwitchTable
			for _, c := range constructed {
				for _, ref := range byCase[c.Obj()] {
					if ref.ts != ts && !isMsgSide(namedOfOrSelf(ref.ts.Subject)) {
						w, dec = c, ref.ts
					}
				}
			}
			key := fmt.Sprintf("%s inverse %s", fname, tname(ct))
			if w == nil {
				r.Check(key, false, p.pos(ts.CasePos[ct]), fname, fmt.Sprintf("case %s constructs %v, none of which is a case of a decode-direction switch", tname(ct), namesOf(constructed)))
				continue
			}
			back := false
			for dct, dcons := range dec.Cases {
				if dct.Obj() != w.Obj() {
					continue
				}
				for _, dc := range dcons {
					if dc.Obj() == ct.Obj() {
						back = true
					}
				}
				// non-struct case types (aliases as integers) are produced by conversion, not literals
				if !back {
					if _, isStruct := ct.Underlying().(*types.Struct); !isStruct {
						back = true
					}
				}
			}
			r.Check(key, back, p.pos(ts.CasePos[ct]), fname, fmt.Sprintf("%s: %s -> %s; %s: %s -> %s expected", fname, tname(ct), tname(w), dec.Fn.Name.Name, tname(w), tname(ct)))
		}
	}
}

func namedOfOrSelf(t types.Type) *types.Named {
	if n := namedOf(t); n != nil {
		return n
	}
	return types.NewNamed(types.NewTypeName(0, nil, "_", nil), types.Typ[types.Int], nil)
}

func namesOf(ns []*types.Named) []string {
	var out []string
	for _, n := range ns {
		out = append(out, tname(n))
	}
	return out
}

func ruleC11M2(r *Run, pk *packages.Package) {
	r.Begin("M2", "field coverage: every non-empty keyed literal of a protocol struct (generated struct in the encode direction, message struct in the decode direction) keys every field except XXX_*, unless the holder variable gets the field assigned later in the same function", 150)
	p := r.P
	want := func(n *types.Named) bool {
		if n.Obj().Pkg() == nil {
			return false
		}
		pp := n.Obj().Pkg().Path()
		return pp == modPath+"/message" || strings.HasPrefix(pp, "github.com/aptpod/iscp-proto/")
	}
	lits := collectStructLits(pk, want)
	empty := 0
	perFn := map[string]int{}
	_ = perFn
	// interfaces of package message that the decode direction validates: some converter function returns (I, error)
	validated := map[*types.TypeName]string{}
	sc := pk.Types.Scope()
	for _, nm := range sc.Names() {
		fo, ok := sc.Lookup(nm).(*types.Func)
		if !ok {
			continue
		}
		res := fo.Type().(*types.Signature).Results()
		if res.Len() == 2 && types.Identical(res.At(1).Type(), types.Universe.Lookup("error").Type()) {
			if n := namedOf(res.At(0).Type()); n != nil && n.Obj().Pkg() != nil && n.Obj().Pkg().Path() == modPath+"/message" {
				if _, isI := n.Underlying().(*types.Interface); isI {
					validated[n.Obj()] = nm
				}
			}
		}
	}
	for _, sl := range lits {
		if sl.Empty {
			empty++
			// the empty literal drops every field: it is the accepted zero idiom only where a parameter of the
			// converter was just proven nil (nothing to copy); under any wider condition it loses data
			if nf := nonXXXFields(sl.Type); nf > 0 && sl.Holder == nil {
				okGuard, why := emptyLitGuard(pk, sl)
				perFn[sl.Fn.Name.Name+"/empty/"+tname(sl.Type)]++
				r.Check(fmt.Sprintf("%s empty %s#%d", sl.Fn.Name.Name, tname(sl.Type), perFn[sl.Fn.Name.Name+"/empty/"+tname(sl.Type)]), okGuard, p.pos(sl.Pos), sl.Fn.Name.Name,
					fmt.Sprintf("the empty literal %s{} (%d fields dropped) must be produced only where a pointer parameter of the converter is nil: %s", tname(sl.Type), nf, why))
			}
			// the "nil in ⇒ zero out" idiom is only sound when the zero value is itself acceptable to the decoder
			if sl.Type.Obj().Pkg().Path() == modPath+"/message" {
				st := sl.Type.Underlying().(*types.Struct)
				for i := 0; i < st.NumFields(); i++ {
					if n := namedOf(st.Field(i).Type()); n != nil {
						if fnm, isV := validated[n.Obj()]; isV {
							perFn[sl.Fn.Name.Name+"/zero/"+tname(sl.Type)]++
							r.Check(fmt.Sprintf("%s zero %s#%d", sl.Fn.Name.Name, tname(sl.Type), perFn[sl.Fn.Name.Name+"/zero/"+tname(sl.Type)]), false, p.pos(sl.Pos), sl.Fn.Name.Name,
								fmt.Sprintf("the empty literal %s{} leaves %s unset, but the decoder itself (%s) rejects an absent %s: the produced message cannot be encoded and decoded again", tname(sl.Type), st.Field(i).Name(), fnm, n.Obj().Name()))
						}
					}
				}
			}
			continue
		}
		st := sl.Type.Underlying().(*types.Struct)
		var missing []string
		late := lateAssigned(pk, sl.Fn, sl.Holder)
		for i := 0; i < st.NumFields(); i++ {
			f := st.Field(i)
			if strings.HasPrefix(f.Name(), "XXX_") {
				continue
			}
			if !sl.Keyed[f.Name()] && !late[f.Name()] {
				missing = append(missing, f.Name())
			}
		}
		fname := sl.Fn.Name.Name
		perFn[fname+"/"+tname(sl.Type)]++
		key := fmt.Sprintf("%s %s#%d", fname, tname(sl.Type), perFn[fname+"/"+tname(sl.Type)])
		r.Check(key, len(missing) == 0, p.pos(sl.Pos), fname, fmt.Sprintf("literal of %s: fields never set: %v", tname(sl.Type), missing))
	}
	r.Stat("literals", len(lits))
	r.Stat("empty_literals_accepted", empty)
}

func ruleC11M5(r *Run, pk *packages.Package) {
	r.Begin("M5", "enum tables: every enum switch of the converters has a case for every distinct value of its tag type; for each encode/decode pair the composition decode(encode(x)) is x for every x, except values that share an encoding with another value (documented many-to-one)", 70)
	p := r.P
	ess := collectEnumSwitches(pk)
	r.Stat("enum_switches", len(ess))
	for _, es := range ess {
		fname := es.Fn.Name.Name
		uni := enumUniverse(es.TagType)
		var vals []string
		for v := range uni {
			vals = append(vals, v)
		}
		sort.Strings(vals)
		for _, v := range vals {
			if uni[v] == "_" {
				continue
			}
			_, has := es.Map[v]
			r.Check(fmt.Sprintf("%s case %s", fname, uni[v]), has, p.pos(es.Pos), fname, fmt.Sprintf("switch on %s in %s: value %s (%s) has a case: %v", tname(es.TagType), fname, v, uni[v], has))
		}
		r.Check(fname+" default rejects", !es.Default || es.DefaultE, p.pos(es.Pos), fname, "the default clause of an enum table must return an error, never a silent value")
	}
	// composition
	for _, enc := range ess {
		if enc.TagType.Obj().Pkg() == nil || enc.TagType.Obj().Pkg().Path() != modPath+"/message" {
			continue
		}
		var dec *enumSwitchTable
		for _, d := range ess {
			if d.TagType.Obj() == enc.ResType.Obj() && d.ResType.Obj() == enc.TagType.Obj() {
				dec = d
			}
		}
		ename := enc.Fn.Name.Name
		if dec == nil {
			r.Check(ename+" has an inverse table", false, p.pos(enc.Pos), ename, fmt.Sprintf("no decode-direction switch %s -> %s", tname(enc.ResType), tname(enc.TagType)))
			continue
		}
		// count how many message values share each encoding
		share := map[string]int{}
		for _, w := range enc.Map {
			share[w]++
		}
		var ks []string
		for k := range enc.Map {
			ks = append(ks, k)
		}
		sort.Strings(ks)
		for _, k := range ks {
			w := enc.Map[k]
			back, ok := dec.Map[w]
			name := enc.Names[k]
			if share[w] > 1 {
				// many-to-one: the decoded value must be one of the values sharing the encoding
				okAny := false
				for k2, w2 := range enc.Map {
					if w2 == w && ok && back == k2 {
						okAny = true
					}
				}
				r.Check(fmt.Sprintf("%s∘%s %s", dec.Fn.Name.Name, ename, name), okAny, p.pos(enc.Pos), ename, fmt.Sprintf("%s encodes to %s together with %d other value(s); decode gives %s", name, w, share[w]-1, back))
				continue
			}
			r.Check(fmt.Sprintf("%s∘%s %s", dec.Fn.Name.Name, ename, name), ok && back == k, p.pos(enc.Pos), ename, fmt.Sprintf("%s (%s) encodes to %s, which decodes to %s", name, k, w, back))
		}
	}
}

func ruleC11M6(r *Run) {
	r.Begin("M6", "one converter for both codecs: EncodeTo of every non-mock encoding.Encoding reaches convert.WireToProto and DecodeFrom reaches convert.ProtoToWire", 4)
	p := r.P
	encN := r.named("/encoding", "Encoding")
	if encN == nil {
		return
	}
	iface := encN.Underlying().(*types.Interface)
	impls := p.implementers(iface, false)
	r.Stat("codecs", len(impls))
	for _, n := range impls {
		for _, m := range []struct{ method, conv string }{{"EncodeTo", "/encoding/convert.WireToProto"}, {"DecodeFrom", "/encoding/convert.ProtoToWire"}} {
			fn := p.methodOf(n, m.method)
			if fn == nil {
				continue
			}
			ok := p.reachesCall(fn, 2, m.conv)
			r.Check(fmt.Sprintf("%s.%s", tname(n), m.method), ok, p.pos(fn.Pos()), fnName(fn), fmt.Sprintf("%s reaches %s: %v", m.method, m.conv, ok))
		}
	}
}

// ruleC11M7: pooled codec buffers are reset before they go back to the pool, on every path.
func ruleC11M7(r *Run) { rulePoolReset(r, "M7") }

func rulePoolReset(r *Run, id string) {
	r.Begin(id, "byte accounting with pooled buffers: every sync.Pool.Put of a buffer obtained from a pool in a codec is preceded, in the same function body, by Reset() on that buffer — so that a rejected frame cannot leave stale bytes that the next decode counts or parses", 2)
	p := r.P
	n := 0
	for _, fn := range p.Funcs {
		pk := fnPkgPath(fn)
		if !strings.HasPrefix(pk, modPath+"/encoding") && !strings.HasPrefix(pk, modPath+"/transport") {
			continue
		}
		allInstrs(fn, func(ins ssa.Instruction) {
			cc := instrCall(ins)
			if cc == nil || !isCallNamed(ins, "sync.Pool.Put") {
				return
			}
			n++
			name := fnName(fn)
			buf := cc.Args[1]
			if mi, ok := buf.(*ssa.MakeInterface); ok {
				buf = mi.X
			}
			target := canonVal(buf)
			ok := false
			if _, isDefer := ins.(*ssa.Defer); !isDefer {
				allInstrs(fn, func(x ssa.Instruction) {
					if c, isCall := x.(*ssa.Call); isCall {
						if o := calleeObj(&c.Call); o != nil && o.Name() == "Reset" && len(c.Call.Args) > 0 && canonVal(c.Call.Args[0]) == target && dominatesInstr(c, ins) {
							ok = true
						}
					}
				})
			}
			// or the object is reset when it is taken out: the value put back is (a phi of a fresh object and) the
			// result of a Get on which — or on a buffer inside which — Reset is called before the Put, on the edge where
			// the Get returned something
			if !ok {
				var gets []ssa.Value
				var collect func(v ssa.Value, d int)
				collect = func(v ssa.Value, d int) {
					if d > 4 {
						return
					}
					switch x := v.(type) {
					case *ssa.Phi:
						for _, e := range x.Edges {
							collect(e, d+1)
						}
					case *ssa.Extract:
						collect(x.Tuple, d+1)
					case *ssa.TypeAssert:
						if c, isC := x.X.(*ssa.Call); isC && isCallNamed(c, "sync.Pool.Get") {
							gets = append(gets, v)
						}
					}
				}
				collect(buf, 0)
				var resets []ssa.Instruction
				for _, g := range gets {
					allInstrs(fn, func(x ssa.Instruction) {
						c, isCall := x.(*ssa.Call)
						if !isCall || len(c.Call.Args) == 0 {
							return
						}
						o := calleeObj(&c.Call)
						if o == nil || o.Name() != "Reset" {
							return
						}
						root := objectRoot(c.Call.Args[0])
						if ex, isEx := root.(*ssa.Extract); isEx {
							root = ex.Tuple
						}
						if gv, isEx := g.(*ssa.Extract); isEx {
							g = gv.Tuple
						}
						if root == g || root == target {
							if _, isBuf := deref(c.Call.Args[0].Type()).(*types.Named); isBuf && strings.HasSuffix(deref(c.Call.Args[0].Type()).String(), "bytes.Buffer") {
								resets = append(resets, x)
							}
						}
					})
				}
				// "on acquisition" means before anything else is done with the recycled object: from the Get, no call
				// that takes the object (or something inside it) is reachable without passing one of those Resets — or
				// the allocation of the fresh object the Get's nil result is replaced by
				if len(resets) > 0 && len(gets) > 0 {
					var fresh []ssa.Instruction
					if ph, isPhi := canonVal(buf).(*ssa.Phi); isPhi {
						for _, e := range ph.Edges {
							if a, isA := e.(*ssa.Alloc); isA {
								fresh = append(fresh, a)
							}
						}
					}
					var getIns ssa.Instruction
					for _, g := range gets {
						if ta, isTA := g.(*ssa.TypeAssert); isTA {
							if c, isC := ta.X.(*ssa.Call); isC {
								getIns = c
							}
						}
					}
					if getIns != nil {
						w := reachesWithout(getIns, func(x ssa.Instruction) bool {
							cc := instrCall(x)
							if cc == nil || x == ins {
								return false
							}
							for _, r := range resets {
								if x == r {
									return false
								}
							}
							for _, a := range cc.Args {
								root := objectRoot(a)
								if ex, isEx := root.(*ssa.Extract); isEx {
									root = ex.Tuple
								}
								if root == target {
									return true
								}
								for _, g := range gets {
									if root == g {
										return true
									}
								}
							}
							return false
						}, func(x ssa.Instruction) bool {
							for _, r := range resets {
								if x == r {
									return true
								}
							}
							for _, f := range fresh {
								if x == f {
									return true
								}
							}
							return false
						})
						ok = w == nil
					}
				}
			}
			r.Check(fmt.Sprintf("%s Put#%d", name, n), ok, posOf(p, ins), name, "the buffer returned to the pool must have been Reset() on every path (a directly deferred Put, or a Put without a dominating Reset, recycles stale bytes)")
		})
	}
	r.Stat("pool_puts", n)
}

// ruleC11M3: field pairing is an inverse relation between the two converter directions (and units agree).
func ruleC11M3(r *Run, pk *packages.Package) {
	r.Begin("M3", "field pairing inverse and unit agreement: whenever a converter literal computes field B.g from field A.f (A, B protocol structs on opposite sides), and the opposite direction computes A.f from fields of B at all, it computes it from B.g; durations and times are scaled with the same unit in both directions", 150)
	p := r.P
	isProto := func(n *types.Named) bool {
		if n.Obj().Pkg() == nil {
			return false
		}
		pp := n.Obj().Pkg().Path()
		return pp == modPath+"/message" || strings.HasPrefix(pp, "github.com/aptpod/iscp-proto/")
	}
	side := func(n *types.Named) string {
		if n.Obj().Pkg().Path() == modPath+"/message" {
			return "m"
		}
		return "p"
	}
	pairs := collectFieldPairs(pk, isProto)
	type key struct{ t, f string }
	// sources of each destination field, restricted to pairs crossing sides
	srcs := map[key]map[key]fieldPair{}
	for _, fp := range pairs {
		if side(fp.Src) == side(fp.Dst) {
			continue
		}
		d := key{tname(fp.Dst), fp.DstField}
		if srcs[d] == nil {
			srcs[d] = map[key]fieldPair{}
		}
		srcs[d][key{tname(fp.Src), fp.SrcField}] = fp
	}
	var dkeys []key
	for d := range srcs {
		dkeys = append(dkeys, d)
	}
	sort.Slice(dkeys, func(i, j int) bool { return dkeys[i].t+dkeys[i].f < dkeys[j].t+dkeys[j].f })
	n := 0
	for _, d := range dkeys {
		for s, fp := range srcs[d] {
			back := srcs[s]
			// restrict to sources on d's struct type
			var backOnD []key
			for b := range back {
				if b.t == d.t {
					backOnD = append(backOnD, b)
				}
			}
			if len(backOnD) == 0 {
				continue // the opposite direction does not compute s from fields of d's struct (method, helper, constant)
			}
			n++
			_, ok := back[d]
			names := []string{}
			for _, b := range backOnD {
				names = append(names, b.f)
			}
			sort.Strings(names)
			r.Check(fmt.Sprintf("%s.%s <- %s.%s", d.t, d.f, s.t, s.f), ok, p.pos(fp.Pos), fp.Fn,
				fmt.Sprintf("%s computes %s.%s from %s.%s; the opposite direction computes %s.%s from %s.%v", fp.Fn, d.t, d.f, s.t, s.f, s.t, s.f, d.t, names))
			if ok {
				bu := back[d].Unit
				if fp.Unit != "" || bu != "" {
					r.Check(fmt.Sprintf("unit %s.%s <-> %s.%s", d.t, d.f, s.t, s.f), fp.Unit == bu, p.pos(fp.Pos), fp.Fn,
						fmt.Sprintf("time unit applied: %q in %s, %q in %s", fp.Unit, fp.Fn, bu, back[d].Fn))
				}
			}
		}
	}
	r.Stat("field_pairs", len(pairs))
	r.Stat("cross_side_pairs_with_inverse_candidate", n)
}

func nonXXXFields(n *types.Named) int {
	st, ok := n.Underlying().(*types.Struct)
	if !ok {
		return 0
	}
	k := 0
	for i := 0; i < st.NumFields(); i++ {
		if !strings.HasPrefix(st.Field(i).Name(), "XXX_") {
			k++
		}
	}
	return k
}

// emptyLitGuard: the innermost enclosing if statement holds the literal in its then-branch and its condition is a
// conjunction one of whose conjuncts is `p == nil` for a parameter p of the enclosing function (no disjunction).
func emptyLitGuard(pk *packages.Package, sl *structLit) (bool, string) {
	if len(sl.Guards) == 0 {
		return false, "the literal is not under any condition"
	}
	g := sl.Guards[0]
	if !g.Then {
		return false, "the literal is in an else branch of " + types.ExprString(g.Cond)
	}
	params := map[types.Object]bool{}
	if sl.Fn.Type.Params != nil {
		for _, f := range sl.Fn.Type.Params.List {
			for _, id := range f.Names {
				params[pk.TypesInfo.Defs[id]] = true
			}
		}
	}
	var conj func(e ast.Expr) bool
	conj = func(e ast.Expr) bool {
		switch x := e.(type) {
		case *ast.ParenExpr:
			return conj(x.X)
		case *ast.BinaryExpr:
			if x.Op == token.LAND {
				return conj(x.X) || conj(x.Y)
			}
			if x.Op == token.EQL {
				a, b := x.X, x.Y
				if id, ok := b.(*ast.Ident); ok && id.Name == "nil" {
					a, b = b, a
				}
				if id, ok := a.(*ast.Ident); ok && id.Name == "nil" && pk.TypesInfo.Uses[id] == types.Universe.Lookup("nil") {
					if pid, isId := b.(*ast.Ident); isId && params[pk.TypesInfo.Uses[pid]] {
						return true
					}
				}
			}
		}
		return false
	}
	if conj(g.Cond) {
		return true, "guarded by " + types.ExprString(g.Cond)
	}
	return false, "its condition is `" + types.ExprString(g.Cond) + "`, which is true for non-nil inputs too"
}

// ruleC11M11: the codecs report how many bytes they consumed or produced by wrapping the stream in a counting
// reader/writer. A count that is overwritten instead of accumulated reports only the last Read/Write — right for
// every message that fits one call, wrong for the first large one.
func ruleC11M11(r *Run) {
	r.Begin("M11", "byte counts accumulate: in every Read/Write method of the module with the io.Reader/io.Writer signature, a store into an integer field of the receiver is the old value of that field plus something (never a plain overwrite)", 1)
	p := r.P
	n := 0
	for _, fn := range p.Funcs {
		if fn.Blocks == nil || fn.Signature.Recv() == nil || (fn.Name() != "Read" && fn.Name() != "Write") {
			continue
		}
		sig := fn.Signature
		if sig.Params().Len() != 1 || sig.Results().Len() != 2 || typeStr(sig.Params().At(0).Type()) != "[]byte" {
			continue
		}
		name := fnName(fn)
		k := 0
		allInstrs(fn, func(ins ssa.Instruction) {
			st, ok := ins.(*ssa.Store)
			if !ok {
				return
			}
			fa, isFA := st.Addr.(*ssa.FieldAddr)
			if !isFA || fa.X != ssa.Value(fn.Params[0]) {
				return
			}
			b, isB := deref(fa.Type()).Underlying().(*types.Basic)
			if !isB || b.Info()&types.IsInteger == 0 {
				return
			}
			fk := fieldKeyOfAddr(fa)
			k++
			n++
			acc := false
			if bo, isBo := st.Val.(*ssa.BinOp); isBo && bo.Op == token.ADD {
				for _, op := range []ssa.Value{bo.X, bo.Y} {
					if ld, isLd := op.(*ssa.UnOp); isLd && ld.Op == token.MUL && fieldKeyOfAddr(ld.X) == fk {
						acc = true
					}
				}
			}
			r.Check(fmt.Sprintf("%s count#%d %s", name, k, fk), acc, posOf(p, st), name, "the stored value must be the field's old value plus the bytes of this call; a plain assignment forgets every earlier Read/Write of the same message")
		})
	}
	if n == 0 {
		r.Undecided("counting readers/writers", "no Read/Write method stores into an integer field of its receiver")
	}
}

// ruleC11M12: the two converter directions are written as pairs (toX decodes what toXProto encodes). What each of them
// produces for an absent sub-message (`if in == nil { return … }`) has to agree: when one direction turns "absent"
// into an empty value and the other into nil, a message with an absent sub-message is decoded into something the
// encoder writes differently, and the re-encoded bytes no longer decode to the same message (or are rejected).
func ruleC11M12(r *Run, pk *packages.Package) {
	r.Begin("M12", "absent sub-messages are treated alike in both directions: for every converter pair toX / toXProto that both start with `if <param> == nil { return … }`, the first result returned there is nil in both or an empty literal in both", 10)
	type guard struct {
		kind string
		pos  token.Pos
	}
	guards := map[string]guard{}
	for _, f := range pk.Syntax {
		for _, d := range f.Decls {
			fd, ok := d.(*ast.FuncDecl)
			if !ok || fd.Body == nil || fd.Recv != nil || len(fd.Body.List) == 0 || fd.Type.Params == nil || len(fd.Type.Params.List) == 0 {
				continue
			}
			is, ok := fd.Body.List[0].(*ast.IfStmt)
			if !ok || is.Init != nil || len(is.Body.List) != 1 {
				continue
			}
			be, ok := is.Cond.(*ast.BinaryExpr)
			if !ok || be.Op != token.EQL {
				continue
			}
			x, y := be.X, be.Y
			if id, isId := x.(*ast.Ident); isId && id.Name == "nil" {
				x, y = y, x
			}
			pid, isId := x.(*ast.Ident)
			nid, isNil := y.(*ast.Ident)
			if !isId || !isNil || nid.Name != "nil" {
				continue
			}
			isParam := false
			for _, fl := range fd.Type.Params.List {
				for _, n := range fl.Names {
					if n.Name == pid.Name {
						isParam = true
					}
				}
			}
			ret, isRet := is.Body.List[0].(*ast.ReturnStmt)
			if !isParam || !isRet || len(ret.Results) == 0 {
				continue
			}
			kind := "other"
			switch e := ret.Results[0].(type) {
			case *ast.Ident:
				if e.Name == "nil" {
					kind = "nil"
				}
			case *ast.UnaryExpr:
				if cl, isCl := e.X.(*ast.CompositeLit); isCl && e.Op == token.AND && len(cl.Elts) == 0 {
					kind = "empty literal"
				}
			case *ast.CompositeLit:
				if len(e.Elts) == 0 {
					kind = "empty literal"
				}
			}
			// a guard that returns an error rejects the absent input; that is a decision of its own, not a representation
			if len(ret.Results) >= 2 {
				if id, isId := ret.Results[len(ret.Results)-1].(*ast.Ident); !isId || id.Name != "nil" {
					kind = "rejects"
				}
			}
			guards[fd.Name.Name] = guard{kind, ret.Pos()}
		}
	}
	p := r.P
	var names []string
	for n := range guards {
		names = append(names, n)
	}
	sort.Strings(names)
	pairs := 0
	for _, n := range names {
		enc, ok := guards[n+"Proto"]
		if !ok {
			continue
		}
		dec := guards[n]
		pairs++
		r.Check("pair "+n+" / "+n+"Proto", dec.kind == enc.kind || dec.kind == "rejects" || enc.kind == "rejects", p.pos(dec.pos), n, fmt.Sprintf("%s returns %s for an absent input, %sProto returns %s", n, dec.kind, n, enc.kind))
	}
	r.Stat("pairs", pairs)
}

// ruleC11M13: a timestamp is data. The converters and the message helpers turn a time.Time into the wire integer
// without looking at its numeric value; absence is decided by IsZero alone. A comparison of Unix()/UnixNano() with
// anything makes the conversion value-dependent (times before the epoch, far future).
func ruleC11M13(r *Run) {
	r.Begin("M13", "timestamps cross the codec unconditioned: in packages message and encoding/convert no result of time.Time.Unix/UnixMilli/UnixMicro/UnixNano is an operand of a comparison (presence is decided by IsZero)", 2)
	p := r.P
	n := 0
	for _, fn := range p.Funcs {
		pk := fnPkgPath(fn)
		if pk != modPath+"/message" && pk != modPath+"/encoding/convert" || fn.Blocks == nil {
			continue
		}
		name := fnName(fn)
		k := 0
		allInstrs(fn, func(ins ssa.Instruction) {
			c, ok := ins.(*ssa.Call)
			if !ok || !isCallNamed(c, "time.Time.Unix", "time.Time.UnixNano", "time.Time.UnixMilli", "time.Time.UnixMicro") {
				return
			}
			k++
			n++
			var bad ssa.Instruction
			var follow func(v ssa.Value, depth int)
			follow = func(v ssa.Value, depth int) {
				if depth > 5 || v.Referrers() == nil {
					return
				}
				for _, ref := range *v.Referrers() {
					switch y := ref.(type) {
					case *ssa.BinOp:
						switch y.Op {
						case token.LSS, token.GTR, token.LEQ, token.GEQ, token.EQL, token.NEQ:
							bad = y
						default:
							follow(y, depth+1)
						}
					case *ssa.Convert:
						follow(y, depth+1)
					case *ssa.ChangeType:
						follow(y, depth+1)
					case *ssa.Phi:
						follow(y, depth+1)
					}
				}
			}
			follow(c, 0)
			where := posOf(p, c)
			if bad != nil {
				where = posOf(p, bad)
			}
			r.Check(fmt.Sprintf("%s timestamp#%d is not compared", name, k), bad == nil, where, name, "the integer value of a timestamp decides a branch: times on the other side of the comparison (before the epoch, say) are converted differently and do not survive the round trip")
		})
	}
	r.Stat("timestamp_conversions", n)
}

// ruleC11M14: the iteration order of a map is unspecified and differs from one iteration to the next. Keys taken in
// one iteration and values taken in another are not aligned; zipping them re-attaches every alias to some other
// entry's value as soon as the table has two entries.
func ruleC11M14(r *Run) {
	r.Begin("M14", "one iteration per map: no function of the codec packages obtains both maps.Keys and maps.Values (or two separate range loops collecting into parallel slices) of the same map value", 0)
	p := r.P
	n := 0
	for _, fn := range p.Funcs {
		pk := fnPkgPath(fn)
		if !strings.HasPrefix(pk, modPath+"/encoding") && pk != modPath+"/message" || fn.Blocks == nil {
			continue
		}
		keys := map[ssa.Value]ssa.Instruction{}
		vals := map[ssa.Value]ssa.Instruction{}
		allInstrs(fn, func(ins ssa.Instruction) {
			c, ok := ins.(*ssa.Call)
			if !ok || len(c.Call.Args) == 0 {
				return
			}
			o := calleeObj(&c.Call)
			if o == nil || o.Pkg() == nil || o.Pkg().Path() != "maps" {
				return
			}
			switch o.Name() {
			case "Keys":
				keys[canonVal(c.Call.Args[0])] = c
			case "Values":
				vals[canonVal(c.Call.Args[0])] = c
			}
		})
		for m, kc := range keys {
			if vc, both := vals[m]; both {
				n++
				r.Check(fmt.Sprintf("%s one iteration over %s", fnName(fn), m.Name()), false, posOf(p, vc), fnName(fn), "maps.Keys at "+posOf(p, kc)+" and maps.Values at "+posOf(p, vc)+" iterate the same map separately: the two orders are unrelated, a zip of the results pairs each key with another entry's value")
			}
		}
	}
	if n == 0 {
		r.Check("separate key and value iterations", true, "", "", "no function iterates one map twice for keys and for values")
	}
}

// ruleC11M15: "absent" is decided by the message itself, not by one of its parts. A converter that returns early with
// a nil/zero result when a SUB-field of its argument is nil, while it converts other fields of the argument further
// down, drops those other fields for every message that merely lacks that one part.
func ruleC11M15(r *Run) {
	r.Begin("M15", "an early 'absent' return tests the argument only: in package encoding/convert, where a function returns a nil result early on a condition that tests a field of its parameter for nil, it reads no other field of that parameter anywhere (otherwise a message lacking one part loses all its other fields)", 0)
	p := r.P
	n := 0
	for _, fn := range p.Funcs {
		if fnPkgPath(fn) != modPath+"/encoding/convert" || fn.Blocks == nil || len(fn.Params) == 0 {
			continue
		}
		name := fnName(fn)
		for _, prm := range fn.Params {
			if _, isPtr := prm.Type().Underlying().(*types.Pointer); !isPtr {
				continue
			}
			// fields of the parameter read in this function
			fields := map[*types.Var]bool{}
			allInstrs(fn, func(ins ssa.Instruction) {
				if fa, ok := ins.(*ssa.FieldAddr); ok && canonVal(fa.X) == ssa.Value(prm) {
					if f := fieldOf(fa.X.Type(), fa.Field); f != nil {
						fields[f] = true
					}
				}
			})
			if len(fields) < 2 {
				continue
			}
			allInstrs(fn, func(ins ssa.Instruction) {
				ifs, ok := ins.(*ssa.If)
				if !ok {
					return
				}
				bo, isBo := ifs.Cond.(*ssa.BinOp)
				if !isBo || (bo.Op != token.EQL && bo.Op != token.NEQ) {
					return
				}
				var tested ssa.Value
				if isNilConst(bo.Y) {
					tested = bo.X
				} else if isNilConst(bo.X) {
					tested = bo.Y
				}
				ld, isLd := tested.(*ssa.UnOp)
				if tested == nil || !isLd || ld.Op != token.MUL {
					return
				}
				fa, isFA := ld.X.(*ssa.FieldAddr)
				if !isFA || canonVal(fa.X) != ssa.Value(prm) {
					return
				}
				nilSucc := ifs.Block().Succs[0]
				if bo.Op == token.NEQ {
					nilSucc = ifs.Block().Succs[1]
				}
				// does the nil edge return a nil/zero result straight away?
				early := false
				for _, x := range nilSucc.Instrs {
					if ret, isRet := x.(*ssa.Return); isRet {
						rs := retResults(ret)
						if len(rs) > 0 && isNilConst(rs[0]) {
							early = true
						}
					}
				}
				if !early {
					return
				}
				n++
				f := fieldOf(fa.X.Type(), fa.Field)
				others := 0
				for g := range fields {
					if g != f {
						others++
					}
				}
				r.Check(fmt.Sprintf("%s absent-guard on %s.%s", name, prm.Name(), f.Name()), others == 0, posOf(p, ifs), name, fmt.Sprintf("the function returns nil when %s.%s is nil although it converts %d other field(s) of %s: a message that only lacks that part is decoded as absent altogether", prm.Name(), f.Name(), others, prm.Name()))
			})
		}
	}
	if n == 0 {
		r.Check("absent-guards on sub-fields", true, "", "", "no converter returns early on a nil sub-field of its argument")
	}
}

// ruleInjectiveKeys: the key of a table (a Go map, a sync.Map) stands for the value it was computed from. A key glued
// together from two or more variable strings (a + ":" + b) does not: ("a:b","c") and ("a","b:c") collide, and the second
// value is served the first one's entry. Keys of more than one variable part are struct values (comparable, injective).
func ruleInjectiveKeys(r *Run, id string, pkgs ...string) {
	r.Begin(id, "table keys are injective: no key of a map lookup/update/delete or of a sync.Map operation is a concatenation of two or more variable strings", 0)
	p := r.P
	varParts := func(v ssa.Value) int {
		n := 0
		var walk func(v ssa.Value, d int)
		walk = func(v ssa.Value, d int) {
			if d > 8 {
				return
			}
			if mi, ok := v.(*ssa.MakeInterface); ok {
				walk(mi.X, d+1)
				return
			}
			if bo, ok := v.(*ssa.BinOp); ok && bo.Op == token.ADD {
				if b, isB := bo.Type().Underlying().(*types.Basic); isB && b.Info()&types.IsString != 0 {
					walk(bo.X, d+1)
					walk(bo.Y, d+1)
					return
				}
			}
			if _, isK := v.(*ssa.Const); !isK {
				if b, isB := v.Type().Underlying().(*types.Basic); isB && b.Info()&types.IsString != 0 {
					n++
				}
			}
		}
		if bo, ok := v.(*ssa.BinOp); ok && bo.Op == token.ADD {
			walk(bo, 0)
		} else if mi, ok := v.(*ssa.MakeInterface); ok {
			if bo, ok := mi.X.(*ssa.BinOp); ok && bo.Op == token.ADD {
				walk(bo, 0)
			}
		}
		return n
	}
	n := 0
	for _, fn := range p.Funcs {
		okPkg := false
		for _, pk := range pkgs {
			if strings.HasPrefix(fnPkgPath(fn), modPath+pk) {
				okPkg = true
			}
		}
		if !okPkg || fn.Blocks == nil {
			continue
		}
		k := 0
		allInstrs(fn, func(ins ssa.Instruction) {
			var key ssa.Value
			switch x := ins.(type) {
			case *ssa.Lookup:
				if _, isMap := x.X.Type().Underlying().(*types.Map); isMap {
					key = x.Index
				}
			case *ssa.MapUpdate:
				key = x.Key
			default:
				if cc := instrCall(ins); cc != nil {
					if b, isB := cc.Value.(*ssa.Builtin); isB && b.Name() == "delete" && len(cc.Args) == 2 {
						key = cc.Args[1]
					} else if o := calleeObj(cc); o != nil && o.Pkg() != nil && o.Pkg().Path() == "sync" && recvNamed(o) == "Map" && len(cc.Args) >= 2 {
						switch o.Name() {
						case "Load", "Store", "LoadOrStore", "LoadAndDelete", "Delete", "Swap", "CompareAndSwap", "CompareAndDelete":
							key = cc.Args[1]
						}
					}
				}
			}
			if key == nil {
				return
			}
			n++
			if parts := varParts(canonVal(key)); parts >= 2 {
				k++
				r.Check(fmt.Sprintf("%s key#%d", fnName(fn), k), false, posOf(p, ins), fnName(fn), fmt.Sprintf("the key is glued together from %d variable strings: two different tuples can give the same key; use a struct value as the key", parts))
			} else if v := canonVal(key); v != key {
				if parts := varParts(v); parts >= 2 {
					k++
					r.Check(fmt.Sprintf("%s key#%d", fnName(fn), k), false, posOf(p, ins), fnName(fn), fmt.Sprintf("the key is glued together from %d variable strings", parts))
				}
			}
		})
	}
	r.Stat("keyed_operations", n)
	r.Check("keyed operations examined", n > 0, "", "", fmt.Sprintf("%d map / sync.Map operations examined", n))
}

// ruleReaderOnlyConsumed: DecodeFrom reports how many bytes it consumed from the reader. Where an implementation
// recognises the concrete type behind the io.Reader (a fast path for *bytes.Buffer, *bytes.Reader, …), it may take the
// bytes out of it only with consuming methods; Bytes(), String() and the like hand out the content and leave it in the
// reader, so the reported count is not what was consumed.
func ruleReaderOnlyConsumed(r *Run, id string) {
	r.Begin(id, "a decoder consumes what it reports: in every DecodeFrom of the encoding packages, a concrete value obtained from the io.Reader parameter by a type assertion is used only through consuming methods (Read*, Next, WriteTo, Len, Size)", 0)
	p := r.P
	consuming := map[string]bool{"Read": true, "ReadByte": true, "ReadBytes": true, "ReadRune": true, "ReadString": true, "Next": true, "WriteTo": true, "Len": true, "Size": true, "Cap": true, "Available": true}
	n := 0
	for _, fn := range p.Funcs {
		if !strings.HasPrefix(fnPkgPath(fn), modPath+"/encoding") || topFunc(fn).Name() != "DecodeFrom" || fn.Blocks == nil {
			continue
		}
		n++
		top := topFunc(fn)
		allInstrs(fn, func(ins ssa.Instruction) {
			ta, ok := ins.(*ssa.TypeAssert)
			if !ok || !types.Implements(ta.X.Type(), ioReaderIface(p)) {
				return
			}
			if _, isIface := ta.AssertedType.Underlying().(*types.Interface); isIface {
				return
			}
			var val ssa.Value = ta
			if ta.CommaOk && ta.Referrers() != nil {
				for _, ref := range *ta.Referrers() {
					if ex, isEx := ref.(*ssa.Extract); isEx && ex.Index == 0 {
						val = ex
					}
				}
			}
			if val.Referrers() == nil {
				return
			}
			for _, ref := range *val.Referrers() {
				cc := instrCall(ref)
				if cc == nil || len(cc.Args) == 0 || cc.Args[0] != val {
					continue
				}
				o := calleeObj(cc)
				if o == nil || consuming[o.Name()] {
					continue
				}
				r.Check(fmt.Sprintf("%s uses the reader through %s", fnName(top), o.Name()), false, posOf(p, ref), fnName(top), fmt.Sprintf("%s.%s hands out the content of the reader without consuming it: the byte count DecodeFrom reports is then not the number of bytes taken from the reader", ta.AssertedType.String(), o.Name()))
			}
		})
	}
	r.Check("DecodeFrom implementations examined", n > 0, "", "", fmt.Sprintf("%d", n))
}

func ioReaderIface(p *Prog) *types.Interface {
	for _, pk := range p.SSA.AllPackages() {
		if pk.Pkg.Path() == "io" {
			if o := pk.Pkg.Scope().Lookup("Reader"); o != nil {
				return o.Type().Underlying().(*types.Interface)
			}
		}
	}
	return types.NewInterfaceType(nil, nil)
}
