package main

import (
	"fmt"
	"go/constant"
	"go/token"
	"go/types"
	"strings"

	"golang.org/x/tools/go/ssa"
)

func init() {
	register(&PropSpec{
		ID:          "C18",
		Explanation: "Structural necessary conditions for the reconnectable transport. T1: the redial uses the original dial configuration with Reconnect set to the constant true, and the transport id is fixed (generated if empty) before the first dial. T2: Write on the underlying transport is called from exactly one function, started by exactly one go statement, fed by one request channel (serialisation by ownership). T3: after a successful redial the write loop retries the same request without receiving a new one. T4: in the write loop and the read loop every return after a failed redial passes the transport's cancel (or Close), so that pending and later Reads/Writes fail instead of blocking. T5: a control ping read from the peer is answered through the ping channel and not forwarded to readers. T6: the redial loop is bounded by the configured attempts, re-checks closed() each attempt, and installs a new transport only after a successful handshake read on it. T7: every Write registers its result channel under the mutex before queuing the request and removes it afterwards; result channels are buffered.",
		NotDecided:  []string{"exactly-once acceptance and order across incarnations as histories"},
		Rules: func(r *Run) {
			le := newLockEngine(r.P)
			ruleC18T1(r)
			ruleC18T2(r)
			ruleC18T3T4(r)
			ruleC18T5(r)
			ruleC18T6(r)
			ruleC18T7(r, le)
			ruleC18T8(r)
			ruleNoSwallowedErrors(r, "T9", 5, true, "/transport/reconnect")
			ruleC18T10(r)
			ruleC18T11(r)
			ruleDurationUnits(r, "T12", "/transport/reconnect", "/internal/retry", "/transport")
			ruleCheckThenActAtomic(r, "T13", "/transport/reconnect", "/internal/retry")
			ruleNoChanBlockUnderCloseLocks(r, le, "T14")
			ruleCloseNotBehindIO(r, le, "T15")
			ruleAtomicReadModifyWrite(r, "T16", "/transport", "/wire", "/iscp", "/internal")
			ruleC18T17(r, le)
		},
	})
}

const rcPkg = "/transport/reconnect"

func ruleC18T1(r *Run) {
	r.Begin("T1", "redial identity: the reconnector closure dials with a copy of the original DialConfig whose Reconnect field is the constant true; Dial assigns a generated TransportID when none is given, before the first dial", 3)
	p := r.P
	dial := r.function(rcPkg, "Dial")
	if dial == nil {
		return
	}
	name := fnName(dial)
	// closure stored into Transport.reconnector
	ok := false
	detail := "no reconnector closure found"
	for _, cl := range dial.AnonFuncs {
		dials := findCalls(cl, false, "/transport.Dialer.Dial")
		if len(dials) == 0 {
			continue
		}
		arg := instrCall(dials[0]).Args[0]
		l := p.Leaves(arg, provOpts{})
		fromOrig := hasLeaf(l, "field:"+rcPkg+".DialConfig.DialConfig") || hasLeafPrefix(l, "param:")
		// Reconnect = true stored into the copy
		setTrue := false
		allInstrs(cl, func(ins ssa.Instruction) {
			if st, isSt := ins.(*ssa.Store); isSt && fieldKeyOfAddr(st.Addr) == "/transport.DialConfig.Reconnect" {
				if c, isC := st.Val.(*ssa.Const); isC && c.Value != nil && c.Value.ExactString() == "true" {
					if dominatesInstr(st, dials[0]) {
						setTrue = true
					}
				}
			}
		})
		ok = fromOrig && setTrue
		detail = fmt.Sprintf("dial config derives from the original: %v; Reconnect = true before the dial: %v", fromOrig, setTrue)
	}
	r.Check(name+" redial config", ok, p.pos(dial.Pos()), name, detail)
	// transport id generated before the first dial
	var gen *ssa.Store
	allInstrs(dial, func(ins ssa.Instruction) {
		if st, isSt := ins.(*ssa.Store); isSt && fieldKeyOfAddr(st.Addr) == "/transport.DialConfig.TransportID" {
			if hasLeafPrefix(p.Leaves(st.Val, provOpts{}), "call:github.com/google/uuid.") {
				gen = st
			}
		}
	})
	// the first dial: in Dial, or in the helper the initial dial loop was moved to
	first := p.callsReaching(dial, 1, "/transport.Dialer.Dial")
	okGen := gen != nil && len(first) > 0
	if okGen {
		// the store is on a branch (id empty); the join must precede the dial: no dial reachable before the test
		okGen = !dominatesInstr(first[0], gen) && reachesWithout(gen, func(ins ssa.Instruction) bool { return ins == first[0] }, nil) != nil
	}
	r.Check(name+" transport id fixed before dialing", okGen, p.pos(dial.Pos()), name, "an empty TransportID must be replaced by a generated one before the first dial so that redials carry the same id")
	// the generated id lands in the very object the redial closure copies its config from
	if gen != nil {
		genRoot := pathOf(gen.Addr)
		same, found := true, false
		for _, cl := range dial.AnonFuncs {
			if len(findCalls(cl, false, "/transport.Dialer.Dial")) == 0 {
				continue
			}
			allInstrs(cl, func(ins ssa.Instruction) {
				fa, isFA := ins.(*ssa.FieldAddr)
				if !isFA || fieldKeyOfAddr(fa) != rcPkg+".DialConfig.DialConfig" {
					return
				}
				found = true
				if pr := pathOf(fa); pr == nil || genRoot == nil || pr.Root != genRoot.Root {
					same = false
				}
			})
		}
		if found {
			r.Check(name+" redial copies the config that holds the generated id", same, posOf(p, gen), name, "the generated TransportID is stored into "+genRoot.String()+"; the reconnector closure must read its DialConfig from the same variable, or a redial announces Reconnect=true with an empty id")
		}
	}
	// the first dial uses the config without Reconnect forced
	r.Check(name+" dials at least once", len(first) >= 1, p.pos(dial.Pos()), name, fmt.Sprintf("%d dial call(s) in Dial", len(first)))
}

func ruleC18T2(r *Run) {
	r.Begin("T2", "single writer: transport.Transport.Write on the underlying connection is called from exactly one function of the reconnectable transport, which is started by exactly one go statement and takes its requests from one channel", 2)
	p := r.P
	var writers []*ssa.Function
	for _, fn := range p.Funcs {
		if fnPkgPath(fn) != modPath+rcPkg {
			continue
		}
		for _, c := range findCalls(fn, false, "/transport.Transport.Write", "/transport.Writer.Write", "/transport.ReadWriter.Write") {
			l := p.Leaves(instrCall(c).Args[0], provOpts{})
			_ = l
			writers = append(writers, fn)
			break
		}
	}
	r.Check("one writing function", len(writers) == 1, "", "reconnect", fmt.Sprintf("functions writing to the underlying transport: %d", len(writers)))
	if len(writers) != 1 {
		return
	}
	w := goRootOf(p, writers[0]) // the writing code may sit in a helper called only from the loop that go starts
	gos := 0
	for _, s := range p.staticCallSites(w) {
		if _, isGo := s.(*ssa.Go); isGo && !inLoop(s) {
			gos++
		} else {
			gos += 100
		}
	}
	r.Check(fnName(w)+" started once", gos == 1, p.pos(w.Pos()), fnName(w), "the writing loop must be started by exactly one go statement (two loops would interleave and reorder writes)")
}

func ruleC18T3T4(r *Run) {
	r.Begin("T3", "same request retried: in the write loop the path from a successful redial leads back to the write of the same request without passing the receive from the request channel", 1)
	p := r.P
	wl := r.method(rcPkg, "Transport", "writeLoop")
	rl := r.method(rcPkg, "Transport", "readLoop")
	rec := r.method(rcPkg, "Transport", "reconnect")
	if wl == nil || rl == nil || rec == nil {
		return
	}
	if w, _ := p.forwardingWrapperOf(rec); w != nil {
		rec = w // reconnectLocked(old): the loops call the wrapper
	}
	// T3
	{
		name := fnName(wl)
		// the function that performs the transport write: the loop itself, or the helper its retry body was moved to
		{
			hasWrite := func(f *ssa.Function) bool {
				return len(findCalls(f, false, "/transport.Transport.Write", "/transport.Writer.Write", "/transport.ReadWriter.Write")) > 0
			}
			if !hasWrite(wl) {
				allInstrs(wl, func(ins ssa.Instruction) {
					if c, ok := ins.(*ssa.Call); ok {
						if cf := c.Call.StaticCallee(); cf != nil && p.Analysed(cf) && cf.Blocks != nil && hasWrite(cf) {
							wl = cf
						}
					}
				})
			}
		}
		// the redial as the write loop sees it: the call of reconnect itself (success = nil error), or the call of a
		// helper around it that reports success as a bool which is true only on reconnect's nil-error edge
		var site *ssa.Call
		var succ []*ssa.BasicBlock
		var write ssa.Instruction
		allInstrs(wl, func(ins ssa.Instruction) {
			if isCallNamed(ins, "/transport.Transport.Write", "/transport.Writer.Write", "/transport.ReadWriter.Write") {
				write = ins
			}
			c, ok := ins.(*ssa.Call)
			if !ok {
				return
			}
			cal := c.Call.StaticCallee()
			if cal == rec {
				site = c
				for _, ev := range errResultsOf(c) {
					for _, ifs := range nilTestsOf(wl, ev) {
						bo := ifs.Cond.(*ssa.BinOp)
						ne := nilEdge(ifs, bo.X)
						if ne == nil {
							ne = nilEdge(ifs, bo.Y)
						}
						if ne != nil {
							succ = append(succ, ne)
						}
					}
				}
				return
			}
			if cal == nil || !p.Analysed(cal) || cal.Blocks == nil || c.Referrers() == nil {
				return
			}
			var inner *ssa.Call
			allInstrs(cal, func(x ssa.Instruction) {
				if c2, isC := x.(*ssa.Call); isC && c2.Call.StaticCallee() == rec {
					inner = c2
				}
			})
			if inner == nil || !types.Identical(c.Type(), types.Typ[types.Bool]) {
				return
			}
			truthful := true
			allInstrs(cal, func(x ssa.Instruction) {
				if ret, isRet := x.(*ssa.Return); isRet {
					for _, rv := range retResults(ret) {
						if k, isK := rv.(*ssa.Const); isK && k.Value != nil && k.Value.Kind() == constant.Bool && k.Value.String() == "true" && !guardedByNilErr(inner, ret) {
							truthful = false
						}
					}
				}
			})
			if !truthful {
				return
			}
			site = c
			for _, ref := range *c.Referrers() {
				switch y := ref.(type) {
				case *ssa.If:
					succ = append(succ, y.Block().Succs[0])
				case *ssa.UnOp:
					if y.Op == token.NOT && y.Referrers() != nil {
						for _, r2 := range *y.Referrers() {
							if ifs, isIf := r2.(*ssa.If); isIf {
								succ = append(succ, ifs.Block().Succs[1])
							}
						}
					}
				}
			}
		})
		ok := false
		if site != nil && write != nil {
			for _, ne := range succ {
				w := reachesWithoutFromBlock(ne, func(ins ssa.Instruction) bool { return ins == write }, func(ins ssa.Instruction) bool {
					if sel, isSel := ins.(*ssa.Select); isSel {
						for _, st := range sel.States {
							if st.Dir == types.RecvOnly && hasLeaf(p.Leaves(st.Chan, provOpts{}), "field:"+rcPkg+".Transport.writeReqCh") {
								return true
							}
						}
					}
					return false
				})
				if w != nil {
					ok = true
				}
			}
			// one attempt per call: the function that writes and redials returns to its caller after a successful
			// redial (tryWrite(data) (retry, ok)), and the caller gets back to the same call — the same request —
			// without receiving a new one
			if !ok && len(succ) > 0 {
				returns := false
				for _, ne := range succ {
					if reachesWithoutFromBlock(ne, isReturn, nil) != nil {
						returns = true
					}
				}
				if returns {
					for _, cs := range p.staticCallSites(wl) {
						if _, isCall := cs.(*ssa.Call); !isCall {
							continue
						}
						again := reachesWithout(cs, func(ins ssa.Instruction) bool { return ins == cs }, func(ins ssa.Instruction) bool {
							if sel, isSel := ins.(*ssa.Select); isSel {
								for _, st := range sel.States {
									if st.Dir == types.RecvOnly && hasLeaf(p.Leaves(st.Chan, provOpts{}), "field:"+rcPkg+".Transport.writeReqCh") {
										return true
									}
								}
							}
							return false
						})
						if again != nil {
							ok = true
						}
					}
				}
			}
		}
		r.Check(name+" retries the same request", ok, p.pos(wl.Pos()), name, "after reconnect() succeeded the loop must write the request it already holds again (a new receive would drop it)")
	}
	r.Begin("T4", "failed redial cancels: in the write loop and the read loop, every return reachable from the failure edge of reconnect() passes a call of the transport's cancel function or of its Close", 2)
	for _, fn := range []*ssa.Function{wl, rl} {
		name := fnName(fn)
		fn = loopWithRedial(p, fn, rec)
		var recCall *ssa.Call
		allInstrs(fn, func(ins ssa.Instruction) {
			if c, ok := ins.(*ssa.Call); ok && c.Call.StaticCallee() == rec {
				recCall = c
			}
		})
		if recCall == nil {
			r.Check(name+" redials", false, p.pos(fn.Pos()), name, "the loop does not call reconnect")
			continue
		}
		var failSucc *ssa.BasicBlock
		for _, ev := range errResultsOf(recCall) {
			for _, ifs := range nilTestsOf(fn, ev) {
				bo := ifs.Cond.(*ssa.BinOp)
				ne := nilEdge(ifs, bo.X)
				if ne == nil {
					ne = nilEdge(ifs, bo.Y)
				}
				for _, s := range ifs.Block().Succs {
					if s != ne {
						failSucc = s
					}
				}
			}
		}
		if failSucc == nil {
			r.Check(name+" handles a failed redial", false, posOf(p, recCall), name, "reconnect's error is not tested")
			continue
		}
		isCancel := func(ins ssa.Instruction) bool {
			cc := instrCall(ins)
			if cc == nil {
				return false
			}
			if cc.StaticCallee() == nil && !cc.IsInvoke() {
				if hasLeaf(p.Leaves(cc.Value, provOpts{}), "field:"+rcPkg+".Transport.cancel") {
					return true
				}
			}
			if cf := cc.StaticCallee(); cf != nil && recvTypeName(cf) == "Transport" && (cf.Name() == "Close" || cf.Name() == "CloseWithStatus") {
				return true
			}
			return false
		}
		w := reachesWithoutFromBlock(failSucc, isReturn, isCancel)
		r.Check(name+" cancels after a failed redial", w == nil, posOf(p, w), name, "a return is reachable after reconnect() failed without cancelling the transport: the loop is gone and every later Write (or Read) waits forever",
			"entry: "+name, "failed redial: "+posOf(p, recCall), "offending exit: "+posOf(p, w))
	}
}

func ruleC18T5(r *Run) {
	r.Begin("T5", "control ping is not forwarded: in the read loop, on the branch recognising the ping message, the ping channel is written and no result is sent to the read-result channel before the next read", 1)
	p := r.P
	rl := r.method(rcPkg, "Transport", "readLoop")
	if rl == nil {
		return
	}
	name := fnName(rl)
	var isPing *ssa.Call
	// the loop itself, or the method one round of it was moved to (readOnce): the rule is about that body — a return
	// from it ends the round, which is "before the next read"
	p.withHelpers(rl, 1, func(g *ssa.Function) {
		allInstrs(g, func(ins ssa.Instruction) {
			if c, ok := ins.(*ssa.Call); ok && isCallNamed(c, rcPkg+".IsPing") && isPing == nil {
				isPing = c
			}
		})
	})
	if isPing == nil {
		r.Check(name+" recognises ping", false, p.pos(rl.Pos()), name, "the read loop does not test for the control ping")
		return
	}
	rl = isPing.Parent()
	var ifs *ssa.If
	if isPing.Referrers() != nil {
		for _, ref := range *isPing.Referrers() {
			if i, ok := ref.(*ssa.If); ok {
				ifs = i
			}
		}
	}
	if ifs == nil {
		r.Check(name+" branches on ping", false, posOf(p, isPing), name, "IsPing's result does not decide a branch")
		return
	}
	pingSucc := ifs.Block().Succs[0]
	isSendTo := func(ins ssa.Instruction, field string) bool {
		// a plain send, or a send case of a select, on the channel field
		switch x := ins.(type) {
		case *ssa.Send:
			if hasLeaf(p.Leaves(x.Chan, provOpts{}), "field:"+rcPkg+".Transport."+field) {
				return true
			}
		case *ssa.Select:
			for _, st := range x.States {
				if st.Dir == types.SendOnly && hasLeaf(p.Leaves(st.Chan, provOpts{}), "field:"+rcPkg+".Transport."+field) {
					return true
				}
			}
		}
		cc := instrCall(ins)
		if cc == nil {
			return false
		}
		for _, a := range cc.Args {
			if hasLeaf(p.Leaves(a, provOpts{}), "field:"+rcPkg+".Transport."+field) {
				if cf := cc.StaticCallee(); cf != nil && strings.Contains(cf.Name(), "writeOrDone") {
					return true
				}
			}
		}
		return false
	}
	read := findCalls(rl, false, "/transport.Transport.Read", "/transport.Reader.Read")
	posted := reachesWithoutFromBlock(pingSucc, func(ins ssa.Instruction) bool { return isSendTo(ins, "pingCh") }, nil) != nil
	leaked := reachesWithoutFromBlock(pingSucc, func(ins ssa.Instruction) bool { return isSendTo(ins, "readResCh") }, func(ins ssa.Instruction) bool {
		for _, rd := range read {
			if ins == rd {
				return true
			}
		}
		return false
	}) != nil
	r.Check(name+" filters the control ping", posted && !leaked, posOf(p, isPing), name, fmt.Sprintf("ping posted to the ping channel: %v; forwarded to readers before the next read: %v", posted, leaked))
}

func ruleC18T6(r *Run) {
	r.Begin("T6", "bounded redial with handshake: the redial loop runs at most maxReconnectAttempts times, tests closed() inside the loop, and the store of the new connection into Transport.transport is dominated by the nil-error edge of a Read on that new connection", 3)
	p := r.P
	rec := r.method(rcPkg, "Transport", "reconnect")
	if rec == nil {
		return
	}
	name := fnName(rec)
	// loop bound
	okBound := false
	allInstrs(rec, func(ins ssa.Instruction) {
		if bo, ok := ins.(*ssa.BinOp); ok && (bo.Op == token.LSS || bo.Op == token.LEQ) {
			if hasLeaf(p.Leaves(bo.Y, provOpts{}), "field:"+rcPkg+".Transport.maxReconnectAttempts") && inLoop(bo) {
				okBound = true
			}
		}
	})
	r.Check(name+" bounded", okBound, p.pos(rec.Pos()), name, "the redial loop's condition compares its counter with maxReconnectAttempts")
	okClosed := false
	for _, c := range findCalls(rec, false, rcPkg+".Transport.closed") {
		if inLoop(c) {
			okClosed = true
		}
	}
	r.Check(name+" re-checks closed", okClosed, p.pos(rec.Pos()), name, "closed() is tested on every attempt")
	var st *ssa.Store
	for _, s := range storesIn(rec, rcPkg+".Transport.transport") {
		st = s
	}
	okHs := false
	if st != nil {
		for _, rd := range findCalls(rec, false, "/transport.Transport.Read", "/transport.Reader.Read") {
			if c, isCall := rd.(*ssa.Call); isCall {
				same := canonVal(c.Call.Value) == canonVal(st.Val)
				if same && guardedByNilErr(c, st) {
					okHs = true
				}
			}
		}
		// the connect call's nil-error edge as well
		for _, cn := range findCalls(rec, false, rcPkg+".Connector.Connect") {
			if c, isCall := cn.(*ssa.Call); isCall && !guardedByNilErr(c, st) {
				okHs = false
			}
		}
		// the attempt (connect + handshake read) lives in a helper that hands the connection back: the store is guarded
		// by the helper's nil error, and the helper returns a connection only after both calls returned nil on it
		if ex, isEx := canonVal(st.Val).(*ssa.Extract); isEx && !okHs {
			if hc, isCall := ex.Tuple.(*ssa.Call); isCall {
				if h := hc.Call.StaticCallee(); h != nil && p.Analysed(h) && guardedByNilErr(hc, st) {
					good, any := true, false
					allInstrs(h, func(ins ssa.Instruction) {
						ret, isRet := ins.(*ssa.Return)
						if !isRet {
							return
						}
						rs := retResults(ret)
						if ex.Index >= len(rs) || isNilConst(rs[ex.Index]) {
							return
						}
						any = true
						v := canonVal(rs[ex.Index])
						okRead, okConn := false, false
						for _, rd := range findCalls(h, false, "/transport.Transport.Read", "/transport.Reader.Read") {
							if c, isC := rd.(*ssa.Call); isC && canonVal(c.Call.Value) == v && guardedByNilErr(c, ret) {
								okRead = true
							}
						}
						for _, cn := range findCalls(h, false, rcPkg+".Connector.Connect") {
							if c, isC := cn.(*ssa.Call); isC && guardedByNilErr(c, ret) {
								okConn = true
							}
						}
						if !okRead || !okConn {
							good = false
						}
					})
					okHs = good && any
				}
			}
		}
	}
	r.Check(name+" installs only a handshaken connection", okHs, posOf(p, st), name, "Transport.transport may be replaced only after Connect returned nil and a handshake Read on the new connection returned nil")
}

func ruleC18T7(r *Run, le *LockEngine) {
	r.Begin("T7", "write results: writeReqRes registers a buffered result channel under writeResMu before it queues the request and removes the entry afterwards; the write loop answers on the channel registered for the request's own id", 3)
	p := r.P
	wr := r.method(rcPkg, "Transport", "writeReqRes")
	if wr == nil {
		return
	}
	name := fnName(wr)
	var reg *ssa.MapUpdate
	var regSite ssa.Instruction  // the registration as seen from writeReqRes: the map update, or the call of the helper doing it
	var regKey, regVal ssa.Value // key and stored channel in writeReqRes' own terms
	var del ssa.Instruction      // the delete itself, the defer of a closure that performs it, or the call of a helper doing it
	isTable := func(m ssa.Value) bool {
		u, isU := m.(*ssa.UnOp)
		return isU && fieldKeyOfAddr(u.X) == rcPkg+".Transport.writeResCh"
	}
	hasDelete := func(fn *ssa.Function) bool {
		found := false
		allInstrs(fn, func(x ssa.Instruction) {
			if c, isCall := x.(*ssa.Call); isCall {
				if b, isB := c.Call.Value.(*ssa.Builtin); isB && b.Name() == "delete" && len(c.Call.Args) > 0 && isTable(c.Call.Args[0]) {
					found = true
				}
			}
		})
		return found
	}
	argFor := func(cc *ssa.CallCommon, cal *ssa.Function, v ssa.Value) ssa.Value {
		for i, prm := range cal.Params {
			if canonVal(v) == ssa.Value(prm) && i < len(cc.Args) {
				return cc.Args[i]
			}
		}
		return nil
	}
	allInstrs(wr, func(ins ssa.Instruction) {
		if mu, ok := ins.(*ssa.MapUpdate); ok && isTable(mu.Map) {
			reg, regSite, regKey, regVal = mu, mu, mu.Key, mu.Value
		}
		if c, ok := ins.(*ssa.Call); ok {
			if b, isB := c.Call.Value.(*ssa.Builtin); isB && b.Name() == "delete" && len(c.Call.Args) > 0 && isTable(c.Call.Args[0]) {
				del = ins
			}
			// forwarding helpers (registerWriteRes(id, ch), unregisterWriteRes(id))
			if cal := c.Call.StaticCallee(); cal != nil && p.Analysed(cal) && cal.Blocks != nil {
				allInstrs(cal, func(x ssa.Instruction) {
					if mu, isMu := x.(*ssa.MapUpdate); isMu && isTable(mu.Map) && dominatesAllReturns(mu) {
						if k, v := argFor(&c.Call, cal, mu.Key), argFor(&c.Call, cal, mu.Value); k != nil && v != nil {
							reg, regSite, regKey, regVal = mu, ins, k, v
						}
					}
				})
				if hasDelete(cal) {
					del = ins
				}
			}
		}
		if d, ok := ins.(*ssa.Defer); ok {
			if cl := closureOf(d.Call.Value); cl != nil && hasDelete(cl) {
				del = ins
			}
			if cal := d.Call.StaticCallee(); cal != nil && p.Analysed(cal) && hasDelete(cal) {
				del = ins
			}
		}
	})
	var queue ssa.Instruction
	allInstrs(wr, func(ins ssa.Instruction) {
		if cc := instrCall(ins); cc != nil {
			for _, a := range cc.Args {
				if hasLeaf(p.Leaves(a, provOpts{}), "field:"+rcPkg+".Transport.writeReqCh") {
					queue = ins
				}
			}
		}
	})
	// the queuing can be abandoned: it is a select that also watches a Done() channel, here or in the helper the
	// channel is handed to (after Close nobody drains the queue; a plain send blocks once it is full)
	abandon := false
	selectWatchesDone := func(sel *ssa.Select, isQ func(ssa.Value) bool) bool {
		snd, done := false, false
		for _, st := range sel.States {
			if st.Dir == types.SendOnly && isQ(st.Chan) {
				snd = true
			}
			if st.Dir == types.RecvOnly {
				if _, isDone := doneLike(st.Chan); isDone {
					done = true
				}
			}
		}
		return snd && done
	}
	isQField := func(v ssa.Value) bool {
		return hasLeaf(p.Leaves(v, provOpts{}), "field:"+rcPkg+".Transport.writeReqCh")
	}
	allInstrs(wr, func(ins ssa.Instruction) {
		switch x := ins.(type) {
		case *ssa.Send:
			if isQField(x.Chan) {
				queue = ins
			}
		case *ssa.Select:
			for _, st := range x.States {
				if st.Dir == types.SendOnly && isQField(st.Chan) {
					queue = ins
					abandon = selectWatchesDone(x, isQField)
				}
			}
		}
	})
	var helperWatches func(cal *ssa.Function, idx, depth int) bool
	helperWatches = func(cal *ssa.Function, idx, depth int) bool {
		if cal == nil || cal.Blocks == nil || idx >= len(cal.Params) || depth > 3 {
			return false
		}
		prm := cal.Params[idx]
		found := false
		allInstrs(cal, func(x ssa.Instruction) {
			if sel, isSel := x.(*ssa.Select); isSel && selectWatchesDone(sel, func(v ssa.Value) bool { return canonVal(v) == ssa.Value(prm) }) {
				found = true
			}
			if c2 := instrCall(x); c2 != nil {
				if _, isSel := x.(*ssa.Select); !isSel {
					for j, a := range c2.Args {
						if canonVal(a) == ssa.Value(prm) && helperWatches(c2.StaticCallee(), j, depth+1) {
							found = true
						}
					}
				}
			}
		})
		return found
	}
	if cc := instrCallOrNil(queue); cc != nil {
		for i, a := range cc.Args {
			if isQField(a) && helperWatches(cc.StaticCallee(), i, 0) {
				abandon = true
			}
		}
	}
	r.Check(name+" queuing can be abandoned", queue != nil && abandon, p.pos(wr.Pos()), name, "the request is queued with a select that also watches a Done() channel (directly or in the helper): once the write loop is gone a plain send blocks the caller as soon as the queue is full")
	ok := reg != nil && queue != nil && dominatesInstr(regSite, queue)
	okCap := false
	if reg != nil {
		if mk, isMk := canonVal(regVal).(*ssa.MakeChan); isMk {
			if k, isK := constInt(mk.Size); isK && k >= 1 {
				okCap = true
			}
		}
		h := le.HeldAt(reg)
		ok = ok && len(reg.Parent().Params) > 0 && h[reg.Parent().Params[0].Name()+".writeResMu"] == modeW
	}
	r.Check(name+" registers before queuing", ok && okCap, p.pos(wr.Pos()), name, fmt.Sprintf("registration under writeResMu dominates the queuing: %v; channel buffered: %v", ok, okCap))
	r.Check(name+" removes its entry", del != nil && reg != nil && dominatesInstr(regSite, del), p.pos(wr.Pos()), name, "the entry must be deleted after the result was read (or the wait abandoned)")
	// the same id keys registration and request
	okID := false
	if reg != nil && queue != nil {
		idv := canonVal(regKey)
		wq := p.Named(rcPkg, "writeReq")
		for _, lit := range literalsOf(wr, wq) {
			if v, has := lit.Fields["id"]; has && canonVal(v) == idv {
				okID = true
			}
		}
	}
	r.Check(name+" request carries the registered id", okID, p.pos(wr.Pos()), name, "the queued request's id is the key under which the result channel was registered")
}

func ruleC18T8(r *Run) {
	r.Begin("T8", "the broken connection is closed before redialing (so that a Read parked on it wakes up and moves to the new connection), and the transport's own Close/CloseWithStatus cancels the transport on every path, also when closing the underlying connection reports an error", 2)
	p := r.P
	rec := r.method(rcPkg, "Transport", "reconnect")
	if rec != nil {
		name := fnName(rec)
		old := rec.Params[1]
		var closeOld ssa.Instruction
		allInstrs(rec, func(ins ssa.Instruction) {
			if c, ok := ins.(*ssa.Call); ok && c.Call.IsInvoke() && c.Call.Method.Name() == "Close" && canonVal(c.Call.Value) == ssa.Value(old) {
				closeOld = ins
			}
		})
		conns := p.callsReaching(rec, 2, rcPkg+".Connector.Connect")
		ok := closeOld != nil && len(conns) > 0
		for _, c := range conns {
			if closeOld == nil || !dominatesInstr(closeOld, c) {
				ok = false
			}
		}
		r.Check(name+" closes the old connection first", ok, p.pos(rec.Pos()), name, "old.Close() must dominate the redial: when only the write side noticed the failure, the read loop is still parked in old.Read() and never reaches the new connection otherwise")
	}
	for _, m := range []string{"CloseWithStatus"} {
		fn := r.method(rcPkg, "Transport", m)
		if fn == nil {
			continue
		}
		name := fnName(fn)
		isCancel := func(ins ssa.Instruction) bool {
			cc := instrCall(ins)
			if cc == nil || cc.StaticCallee() != nil || cc.IsInvoke() {
				return false
			}
			return hasLeaf(p.Leaves(cc.Value, provOpts{}), "field:"+rcPkg+".Transport.cancel")
		}
		w := reachesFromEntryWithout(fn, func(ins ssa.Instruction) bool { return isReturn(ins) && ins.Block() != fn.Recover }, isCancel)
		r.Check(name+" always cancels", w == nil, posOf(p, w), name, "a return of the transport's Close is reachable without cancel(): the transport is not marked closed, the loops redial after Close and later Reads/Writes block or succeed on a connection dialed after Close")
	}
}

// ruleC18T10: reconnect(tr) is a no-op when tr is no longer the installed connection ("somebody already redialled").
// That guard only works if each loop passes the connection its own Read/Write just failed on — the value it took out
// of Transport.transport before the call — and not a fresh read of the field.
func ruleC18T10(r *Run) {
	r.Begin("T10", "reconnect is told which connection failed: in the read loop and the write loop the argument of reconnect is the very value the failing Read/Write was invoked on (followed through a shared redial helper to its call sites)", 1)
	p := r.P
	rc := r.method(rcPkg, "Transport", "reconnect")
	if rc == nil {
		return
	}
	n := 0
	argIdx := 1
	if w, pos := p.forwardingWrapperOf(rc); w != nil {
		if j, ok := pos[1]; ok {
			rc, argIdx = w, j // reconnectLocked(old): the loops call the wrapper
		}
	}
	var failedOn func(site ssa.Instruction, idx, depth int) (bool, string)
	failedOn = func(site ssa.Instruction, idx, depth int) (bool, string) {
		fn := site.Parent()
		cc := instrCall(site)
		if cc == nil || len(cc.Args) <= idx {
			return false, ""
		}
		arg := canonVal(cc.Args[idx])
		// handed down through a helper (redial(loop, old, …)): judged at the helper's call sites
		if prm, isP := arg.(*ssa.Parameter); isP && prm.Parent() == fn && depth < 2 && fn.Parent() == nil && (fn.Object() == nil || !fn.Object().Exported()) {
			j := -1
			for i, q := range fn.Params {
				if q == prm {
					j = i
				}
			}
			sites := p.staticCallSites(fn)
			if j >= 0 && len(sites) > 0 {
				all, io := true, ""
				for _, s2 := range sites {
					ok2, io2 := failedOn(s2, j, depth+1)
					if !ok2 {
						all = false
					}
					io = io2
				}
				return all, io
			}
		}
		ok, other := false, false
		ioName := ""
		allInstrs(fn, func(ins ssa.Instruction) {
			c, isCall := ins.(*ssa.Call)
			if !isCall || !c.Call.IsInvoke() || (c.Call.Method.Name() != "Read" && c.Call.Method.Name() != "Write") {
				return
			}
			// the failing operation comes before the call: it dominates it, or — when it sits in an inner loop over a
			// batch — the call is reachable from it
			if !dominatesInstr(c, site) && reachesWithout(c, func(x ssa.Instruction) bool { return x == site }, nil) == nil {
				return
			}
			ioName = c.Call.Method.Name()
			if canonVal(c.Call.Value) == arg {
				ok = true
			} else {
				other = true // an operation on another connection value also leads here
			}
		})
		return ok && !other, ioName
	}
	for _, site := range p.staticCallSites(rc) {
		fn := site.Parent()
		cc := instrCall(site)
		if len(cc.Args) <= argIdx {
			continue
		}
		n++
		name := fnName(fn)
		ok, ioName := failedOn(site, argIdx, 0)
		r.Check(name+" reconnect argument", ok, posOf(p, site), name, "reconnect is called with "+pathOf(cc.Args[argIdx]).String()+"; it must be the connection value on which "+ioName+" just failed (a fresh read of Transport.transport is the new connection once the other loop has redialled, and closing it tears the healthy connection down)")
	}
	if n == 0 {
		r.Undecided("reconnect call sites", "none found")
	}
}

// ruleC18T11: the read loop stops without redialling only for a deliberate end: the transport was closed, or the
// peer closed normally. Any other close status (going away, internal error, abnormal) is a broken connection.
func ruleC18T11(r *Run) {
	r.Begin("T11", "only a normal close ends the read loop without a redial: in readLoop every errors.Is test of the Read error whose true edge reaches a return without passing reconnect names errors.ErrConnectionNormalClose", 1)
	p := r.P
	fn := r.method(rcPkg, "Transport", "readLoop")
	rc := r.method(rcPkg, "Transport", "reconnect")
	if fn == nil || rc == nil {
		return
	}
	name := fnName(fn)
	k := 0
	allInstrs(fn, func(ins ssa.Instruction) {
		c, ok := ins.(*ssa.Call)
		if !ok || !isCallNamed(c, "/errors.Is", "errors.Is") || c.Referrers() == nil {
			return
		}
		for _, ref := range *c.Referrers() {
			ifs, isIf := ref.(*ssa.If)
			if !isIf {
				continue
			}
			// true edge reaches a return without reconnect?
			w := reachesWithoutFromBlock(ifs.Block().Succs[0], func(x ssa.Instruction) bool { _, isRet := x.(*ssa.Return); return isRet },
				func(x ssa.Instruction) bool {
					cc, isC := x.(*ssa.Call)
					return isC && cc.Call.StaticCallee() == rc
				})
			if w == nil {
				continue
			}
			// the test decides: on its false edge the redial is still reachable
			toRedial := reachesWithoutFromBlock(ifs.Block().Succs[1], func(x ssa.Instruction) bool {
				cc, isC := x.(*ssa.Call)
				return isC && cc.Call.StaticCallee() == rc
			}, nil)
			if toRedial == nil {
				continue
			}
			k++
			l := p.Leaves(c.Call.Args[1], provOpts{})
			r.Check(fmt.Sprintf("%s quiet exit#%d", name, k), hasLeaf(l, "global:/errors.ErrConnectionNormalClose"), posOf(p, c), name, "the read loop ends without redialling when the Read error is ["+joinLeaves(l)+"]; only ErrConnectionNormalClose is a deliberate end of the connection")
		}
	})
	if k == 0 {
		r.Check(name+" quiet exits", true, p.pos(fn.Pos()), name, "no errors.Is test lets the read loop end without a redial")
	}
}

// goRootOf climbs from fn through its static callers while there is exactly one call site that is a plain call;
// it returns the function that is started with go (or fn itself when fn is).
func goRootOf(p *Prog, fn *ssa.Function) *ssa.Function {
	for depth := 0; depth < 4; depth++ {
		sites := p.staticCallSites(fn)
		if len(sites) != 1 {
			return fn
		}
		if _, isGo := sites[0].(*ssa.Go); isGo {
			return fn
		}
		if _, isCall := sites[0].(*ssa.Call); !isCall {
			return fn
		}
		fn = sites[0].Parent()
	}
	return fn
}

// loopWithRedial returns the function that contains the reconnect call belonging to the named loop: the loop itself,
// or the helper into which its retry body was moved (called from that loop; both loops may share it).
func loopWithRedial(p *Prog, loop, rc *ssa.Function) *ssa.Function {
	has := func(f *ssa.Function) bool {
		found := false
		allInstrs(f, func(ins ssa.Instruction) {
			if c, ok := ins.(*ssa.Call); ok && c.Call.StaticCallee() == rc {
				found = true
			}
		})
		return found
	}
	if has(loop) {
		return loop
	}
	var out *ssa.Function
	allInstrs(loop, func(ins ssa.Instruction) {
		if c, ok := ins.(*ssa.Call); ok {
			if cf := c.Call.StaticCallee(); cf != nil && p.Analysed(cf) && has(cf) {
				out = cf
			}
		}
	})
	if out != nil {
		return out
	}
	return loop
}

func instrCallOrNil(ins ssa.Instruction) *ssa.CallCommon {
	if ins == nil {
		return nil
	}
	if _, isSel := ins.(*ssa.Select); isSel {
		return nil
	}
	return instrCall(ins)
}

// ruleC18T17: readLoop and writeLoop redial with the transport's mutex held for the whole redial budget, and the redial
// gives up only when it sees the transport's context cancelled. Close therefore has to cancel BEFORE it asks for that
// mutex: the other way round it waits for every remaining dial attempt (which are all made after Close was called).
func ruleC18T17(r *Run, le *LockEngine) {
	r.Begin("T17", "Close cancels before it waits: in (*reconnect.Transport).CloseWithStatus the call of the transport's cancel function dominates the first acquisition of a mutex that is held while reconnect dials", 1)
	p := r.P
	cl := r.method(rcPkg, "Transport", "CloseWithStatus")
	rc := r.method(rcPkg, "Transport", "reconnect")
	if cl == nil || rc == nil {
		return
	}
	// mutexes held while reconnect runs (by its callers)
	held := map[string]bool{}
	for _, site := range p.staticCallSites(rc) {
		for k := range le.HeldAt(site) {
			held[k[strings.IndexByte(k, '.')+1:]] = true
		}
	}
	if w, _ := p.forwardingWrapperOf(rc); w != nil {
		for _, site := range p.staticCallSites(w) {
			for k := range le.HeldAt(site) {
				held[k[strings.IndexByte(k, '.')+1:]] = true
			}
		}
	}
	name := fnName(cl)
	var firstLock, cancel ssa.Instruction
	allInstrs(cl, func(ins ssa.Instruction) {
		cc := instrCall(ins)
		if cc == nil {
			return
		}
		if _, isDefer := ins.(*ssa.Defer); isDefer {
			return
		}
		if op, recv := classifyLockCall(cc); op == opLock || op == opRLock {
			if pa := pathOf(recv); pa != nil && pa.Last() != nil && held[pa.Last().Name()] {
				if firstLock == nil || dominatesInstr(ins, firstLock) {
					firstLock = ins
				}
			}
			return
		}
		if cc.StaticCallee() == nil && !cc.IsInvoke() && hasLeaf(p.Leaves(cc.Value, provOpts{}), "field:"+rcPkg+".Transport.cancel") {
			if cancel == nil || dominatesInstr(ins, cancel) {
				cancel = ins
			}
		}
	})
	if firstLock == nil {
		r.Check(name+" cancels before it waits for the redial", true, p.pos(cl.Pos()), name, fmt.Sprintf("Close acquires none of the mutexes held while reconnect dials (%v)", keysOf(held)))
		return
	}
	r.Check(name+" cancels before it waits for the redial", cancel != nil && dominatesInstr(cancel, firstLock), posOf(p, firstLock), name, "Close asks for a mutex that readLoop/writeLoop hold for the whole redial budget before it has cancelled the transport's context: it waits for every remaining dial attempt, all of which are made after Close was called, and pending Reads and Writes stay blocked as long")
}
