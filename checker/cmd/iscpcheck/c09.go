package main

import (
	"fmt"
	"go/token"
	"go/types"
	"os"
	"sort"
	"strings"

	"golang.org/x/tools/go/ssa"
)

// guardTable is the frozen guarded-by table: discovered with `iscpcheck discover guard`,
// each line confirmed by reading every access of the field.
var guardTable = []GuardSpec{
	// wire: routing tables shared by API goroutines and dispatch loops
	{Owner: "/wire.clientUpstreams", Field: "acks", Lock: []string{"mu"}},
	{Owner: "/wire.clientUpstreams", Field: "aliases", Lock: []string{"mu"}},
	{Owner: "/wire.clientUpstreams", Field: "messageWriters", Lock: []string{"mu"}},
	{Owner: "/wire.clientDownstreams", Field: "dps", Lock: []string{"mu"}},
	{Owner: "/wire.clientDownstreams", Field: "dpsUnreliable", Lock: []string{"mu"}},
	{Owner: "/wire.clientDownstreams", Field: "ackCompletes", Lock: []string{"mu"}},
	{Owner: "/wire.clientDownstreams", Field: "metadata", Lock: []string{"mu"}},
	{Owner: "/wire.clientDownstreams", Field: "aliases", Lock: []string{"mu"}},
	{Owner: "/wire.ClientConn", Field: "replyCh", Lock: []string{"mu"}},
	// iscp.Conn
	{Owner: "/iscp.Conn", Field: "replyCallChs", Lock: []string{"replyCallsChsMu"}},
	{Owner: "/iscp.Conn", Field: "upstreamCallAckCh", Lock: []string{"upstreamCallAckMu"}},
	{Owner: "/iscp.Conn", Field: "upstreams", Lock: []string{"upstreamMu"}},
	{Owner: "/iscp.Conn", Field: "downstreams", Lock: []string{"downstreamMu"}},
	{Owner: "/iscp.Conn", Field: "wireConn", Lock: []string{"wireConnMu"}},
	// iscp.Upstream
	{Owner: "/iscp.Upstream", Field: "sendBuffer", Lock: []string{"mu"}},
	{Owner: "/iscp.Upstream", Field: "sendBufferPayloadSize", Lock: []string{"mu"}},
	{Owner: "/iscp.Upstream", Field: "sendBufferDataPointsCount", Lock: []string{"mu"}},
	{Owner: "/iscp.Upstream", Field: "revDataIDAliases", Lock: []string{"mu"}},
	{Owner: "/iscp.Upstream", Field: "dataIDAliases", Lock: []string{"mu"}},
	{Owner: "/iscp.Upstream", Field: "upstreamChunkResultChs", Lock: []string{"mu"}},
	{Owner: "/iscp.Upstream", Field: "wireConn", Lock: []string{"mu"}},
	// iscp.Downstream
	{Owner: "/iscp.Downstream", Field: "dataIDAliases", Lock: []string{"mu"}},
	{Owner: "/iscp.Downstream", Field: "revDataIDAliases", Lock: []string{"mu"}},
	{Owner: "/iscp.Downstream", Field: "upstreamInfos", Lock: []string{"mu"}},
	{Owner: "/iscp.Downstream", Field: "upstreamInfoAckBuffer", Lock: []string{"mu"}},
	{Owner: "/iscp.Downstream", Field: "dataIDAckBuffer", Lock: []string{"mu"}},
	{Owner: "/iscp.Downstream", Field: "resultAckBuffer", Lock: []string{"mu"}},
	{Owner: "/iscp.Downstream", Field: "wireConn", Lock: []string{"mu"}},
	// stores and state cells
	{Owner: "/iscp.inmemSentStorage", Field: "buf", Lock: []string{"RWMutex"}},
	{Owner: "/iscp.inmemStreamRepository", Field: "upstream", Lock: []string{"RWMutex"}},
	{Owner: "/iscp.inmemStreamRepository", Field: "downstream", Lock: []string{"RWMutex"}},
	{Owner: "/iscp.connStatus", Field: "current", Lock: []string{"RWMutex"}},
	{Owner: "/iscp.streamState", Field: "current", Lock: []string{"RWMutex"}},
	{Owner: "/iscp.eventDispatcher", Field: "handler", Lock: []string{"cond", "L"}},
	// transports
	{Owner: "/transport/reconnect.Transport", Field: "transport", Lock: []string{"mu"}},
	{Owner: "/transport/reconnect.Transport", Field: "writeResCh", Lock: []string{"writeResMu"}},
	{Owner: "/transport/multi.Transport", Field: "currentTransportID", Lock: []string{"mu"}},
	{Owner: "/transport/multi.Transport", Field: "lastReadTransportID", Lock: []string{"lastReadTransportIDmu"}},
	{Owner: "/transport/multi.RoundRobinPoller", Field: "current", Lock: []string{"mu"}},
	{Owner: "/internal/segment.ReadBuffers", Field: "ReadBuffer", Lock: []string{"Mutex"}},
	{Owner: "/encoding.counter", Field: "byteCount", Lock: []string{"RWMutex"}},
	{Owner: "/encoding.counter", Field: "messageCount", Lock: []string{"RWMutex"}},
	{Owner: "/transport/websocket.Transport", Field: "writeWindowBuf", Lock: []string{"writeWindowBufMu"}},
	{Owner: "/transport/websocket.Transport", Field: "readWindowBuf", Lock: []string{"readWindowBufMu"}},
	{Owner: "/transport/nic.Manager", Field: "subscribers", Lock: []string{"subscribersMu"}},
}

// guardExempt: per (function, field) exemptions, each with its reason.
var guardExempt = []GuardExempt{
	{Func: "(*iscp.Conn).observeConnClose", Field: "/iscp.Conn.wireConn", Reason: "errgroup member of (*Conn).run: the only non-constructor store to Conn.wireConn is in reconnect, which the run-loop goroutine calls only after run (eg.Wait) returned and before it starts the next run (preconditions checked by rule G2)"},
	{Func: "(*iscp.Conn).readDownstreamCallLoop", Field: "/iscp.Conn.wireConn", Reason: "errgroup member of (*Conn).run, as above (rule G2)"},
	{Func: "(*iscp.Conn).readUpstreamCallAckLoop", Field: "/iscp.Conn.wireConn", Reason: "errgroup member of (*Conn).run, as above (rule G2)"},
}

func init() {
	register(&PropSpec{
		ID:          "C09",
		Explanation: "Guarded-by check over a frozen, hand-confirmed table of fields shared between goroutines: every read of a table field happens with its lock held (read or write mode) and every write with the lock held in write mode, where 'held' is computed by the SSA lock-state dataflow and extended interprocedurally (a helper that touches the field without locking puts a requirement on all its static callers; at API entry points, goroutine bodies and escaping function values the requirement must be empty). This decides the lock-discipline half of data-race freedom for the table fields; it is a necessary condition (a table field touched without its lock while another goroutine writes it is a race).",
		NotDecided:  []string{"races on anything that is not a table field", "happens-before through channels, errgroup.Wait and sync.Cond (exemptions are hand-confirmed)", "the dynamic (race-detector) half of the property"},
		Assumptions: []string{"the guarded-by table and its exemptions (in checker/cmd/iscpcheck/c09.go) were confirmed by reading every access", "lock identity by access path"},
		Rules: func(r *Run) {
			le := newLockEngine(r.P)
			ruleG1(r, le)
			ruleG2(r)
			ruleA1(r)
			ruleC09A2(r)
			ruleC09A3(r)
			ruleC09A4(r, le)
			rulePublishedFrozen(r, "A5")
			ruleGlobalsUnderLock(r, le, "A6")
		},
	})
}

func ruleG1(r *Run, le *LockEngine) {
	r.Begin("G1", "every access to a field of the guarded-by table is made with its lock held in the required mode (interprocedural lock context), or is exempted with a reason", 150)
	p := r.P
	// anchors must resolve
	for i := range guardTable {
		s := &guardTable[i]
		i := strings.LastIndexByte(s.Owner, '.')
		if p.Field(s.Owner[:i], s.Owner[i+1:], s.Field) == nil {
			r.Undecided("anchor "+s.Owner+"."+s.Field, "guarded field no longer exists")
		}
	}
	g := newGuardEngine(p, le, guardTable, guardExempt)
	roots := computeRoots(p)
	// all functions
	for _, fn := range p.Funcs {
		g.Requires(fn)
	}
	// failing origins
	type fail struct {
		req  lockReq
		root string
		why  string
	}
	fails := map[string][]fail{}
	for _, fn := range p.Funcs {
		why, isRoot := roots.roots[fn]
		if !isRoot {
			continue
		}
		for _, rq := range g.Requires(fn) {
			fails[rq.Origin] = append(fails[rq.Origin], fail{rq, fnName(fn), why})
		}
	}
	// a field all of whose accesses moved, together, under another mutex of the same struct is still guarded: for a
	// field with failures, the table is tried with each other sync.Mutex/RWMutex field of the owner in place of the
	// listed lock; when no access fails under one of them, that one is the field's guard now
	reguarded := map[string]string{}
	{
		failing := map[string]bool{}
		for origin := range fails {
			parts := strings.Split(origin, "|")
			if len(parts) == 3 {
				failing[parts[1]] = true
			}
		}
		for fk := range failing {
			spec := g.Table[fk]
			if spec == nil {
				continue
			}
			i := strings.LastIndexByte(spec.Owner, '.')
			n := p.Named(spec.Owner[:i], spec.Owner[i+1:])
			if n == nil {
				continue
			}
			st, isStruct := n.Underlying().(*types.Struct)
			if !isStruct {
				continue
			}
			for j := 0; j < st.NumFields(); j++ {
				f := st.Field(j)
				ts := strings.TrimPrefix(f.Type().String(), "*")
				if (ts != "sync.Mutex" && ts != "sync.RWMutex") || (len(spec.Lock) > 0 && f.Name() == spec.Lock[len(spec.Lock)-1]) {
					continue
				}
				alt := make([]GuardSpec, len(guardTable))
				copy(alt, guardTable)
				for k := range alt {
					if alt[k].Owner == spec.Owner && alt[k].Field == spec.Field {
						lk := append([]string{}, spec.Lock[:len(spec.Lock)-1]...)
						alt[k].Lock = append(lk, f.Name())
					}
				}
				g2 := newGuardEngine(p, le, alt, guardExempt)
				bad := false
				for _, fn := range p.Funcs {
					if _, isRoot := roots.roots[fn]; !isRoot {
						continue
					}
					for _, rq := range g2.Requires(fn) {
						if parts := strings.Split(rq.Origin, "|"); len(parts) == 3 && parts[1] == fk {
							bad = true
						}
					}
				}
				if !bad {
					reguarded[fk] = f.Name()
				}
			}
		}
	}
	// obligations: (function, field, mode) triples
	type trip struct{ fn, fk, mode string }
	seen := map[trip]bool{}
	for _, fn := range p.Funcs {
		for _, a := range g.acc[fn] {
			fk := fieldKey(a.Owner, a.Field)
			if g.Table[fk] == nil {
				continue
			}
			t := trip{fnName(fn), fk, rw(a.Write)}
			if seen[t] {
				continue
			}
			seen[t] = true
			origin := t.fn + "|" + t.fk + "|" + t.mode
			key := t.fn + " " + t.mode + " " + t.fk
			fl := fails[origin]
			if alt, ok := reguarded[fk]; ok && len(fl) > 0 {
				r.Check(key, true, p.pos(a.Ins.Pos()), t.fn, "every access of the field in the module is made under "+alt+" of the same struct (the table lists another lock): guarded consistently")
				continue
			}
			if len(fl) == 0 {
				r.Check(key, true, p.pos(a.Ins.Pos()), t.fn, "lock held at every access (locally or by every static caller), or exempt")
				continue
			}
			sort.Slice(fl, func(i, j int) bool { return len(fl[i].req.Chain) < len(fl[j].req.Chain) })
			f := fl[0]
			var rootsList []string
			for _, x := range fl {
				rootsList = append(rootsList, x.root)
			}
			sort.Strings(rootsList)
			tr := append([]string{"root: " + f.root + " (" + f.why + ")"}, f.req.Chain...)
			r.Check(key, false, p.pos(f.req.Pos), t.fn,
				fmt.Sprintf("%s of guarded field %s without %s held in %s mode; reachable unguarded from %d root(s): %s", t.mode, fk, f.req.Key, modeName(f.req.Mode), len(rootsList), strings.Join(uniq(rootsList), ", ")), tr...)
		}
	}
	r.Stat("table_fields", len(guardTable))
	r.Stat("accesses", g.NAccess)
	r.Stat("discharged_locally", g.NLocal)
	r.Stat("discharged_by_callers", g.NProp)
	r.Stat("exempt", g.NExempt)
	r.Stat("roots", len(roots.roots))
}

func uniq(s []string) []string {
	var out []string
	for i, x := range s {
		if i == 0 || x != s[i-1] {
			out = append(out, x)
		}
	}
	return out
}

// ruleG2 checks the structural preconditions under which the goroutine-confinement exemptions of G1 are sound.
func ruleG2(r *Run) {
	r.Begin("G2", "preconditions of the goroutine-confinement exemptions: Conn.wireConn is stored only by the constructor and by reconnect; reconnect is called from one site that the call of (*Conn).run dominates; each exempt reader is called only from closures handed to the errgroup of (*Conn).run", 5)
	p := r.P
	f := p.Field("/iscp", "Conn", "wireConn")
	runFn := p.Method("/iscp", "Conn", "run")
	recFn := p.Method("/iscp", "Conn", "reconnect")
	if f == nil || runFn == nil || recFn == nil {
		r.Undecided("anchors", "Conn.wireConn / (*Conn).run / (*Conn).reconnect not found")
		return
	}
	for _, st := range p.fieldStores(f) {
		fn := st.Parent()
		name := fnName(fn)
		ok := fn == recFn
		if !ok {
			// constructor: the object is a local allocation
			if fa, isFA := st.Addr.(*ssa.FieldAddr); isFA {
				ok = isLocalObject(pathOf(fa.X))
			}
		}
		r.Check("store Conn.wireConn in "+name, ok, p.pos(st.Pos()), name, "Conn.wireConn may be stored only by reconnect and by the constructor literal")
	}
	sites := p.staticCallSites(recFn)
	r.Check("reconnect call sites", len(sites) == 1, p.pos(recFn.Pos()), fnName(recFn), fmt.Sprintf("%d static call sites of reconnect (want 1)", len(sites)))
	if len(sites) == 1 {
		site := sites[0]
		host := site.Parent()
		runCalls := callsTo(host, false, func(o *types.Func, cc *ssa.CallCommon) bool { return cc.StaticCallee() == runFn })
		ok := len(runCalls) == 1 && dominatesInstr(runCalls[0], site)
		if _, isGo := site.(*ssa.Go); isGo {
			ok = false
		}
		r.Check("run dominates reconnect", ok, p.pos(site.Pos()), fnName(host), "the call of (*Conn).run must dominate the (synchronous) call of reconnect in the run-loop goroutine")
	}
	for _, e := range guardExempt {
		if e.Field != "/iscp.Conn.wireConn" {
			continue
		}
		var fn *ssa.Function
		for _, x := range p.Funcs {
			if fnName(x) == e.Func {
				fn = x
			}
		}
		if fn == nil {
			r.Undecided("exempt "+e.Func, "exempt function no longer exists; remove the exemption")
			continue
		}
		cs := p.staticCallSites(fn)
		// (one unexported forwarding helper may sit between the run group's member and the exempt function: then the
		// helper's call sites are the ones judged)
		var lifted []ssa.Instruction
		for _, c := range cs {
			host := c.Parent()
			if host.Parent() == nil && host != runFn && (host.Object() == nil || !host.Object().Exported()) && recvTypeName(host) == "Conn" {
				if up := p.staticCallSites(host); len(up) > 0 {
					lifted = append(lifted, up...)
					continue
				}
			}
			lifted = append(lifted, c)
		}
		cs = lifted
		ok := len(cs) > 0
		for _, c := range cs {
			host := c.Parent()
			if host.Parent() != runFn {
				ok = false
				continue
			}
			if _, isGo := c.(*ssa.Go); isGo {
				ok = false
			}
			// the closure must be used only as argument of (*errgroup.Group).Go inside run
			_, uses, okv := funcValueUses(host)
			if !okv || len(uses) == 0 {
				ok = false
				continue
			}
			for _, ref := range uses {
				call, isCall := ref.(*ssa.Call)
				if !isCall {
					ok = false
					continue
				}
				o := calleeObj(&call.Call)
				if o == nil || o.Name() != "Go" || recvNamed(o) != "Group" || o.Pkg().Path() != "golang.org/x/sync/errgroup" {
					ok = false
				}
			}
		}
		r.Check("exempt "+e.Func, ok, p.pos(fn.Pos()), e.Func, "exempt reader must be called only from closures passed to errgroup.Group.Go inside (*Conn).run")
	}
}

// ruleA1: a field that is accessed through sync/atomic anywhere must not be read or written plainly elsewhere.
func ruleA1(r *Run) {
	r.Begin("A1", "atomic discipline: a struct field whose address is passed to a sync/atomic function anywhere in the module is never loaded or stored plainly on a shared object elsewhere — including by copying the whole struct (a method with a value receiver) — except while constructing the object", 8)
	p := r.P
	atomicFields := map[*types.Var]string{}
	for _, fn := range p.Funcs {
		allInstrs(fn, func(ins ssa.Instruction) {
			cc := instrCall(ins)
			if cc == nil {
				return
			}
			o := calleeObj(cc)
			if o == nil || o.Pkg() == nil || o.Pkg().Path() != "sync/atomic" || len(cc.Args) == 0 {
				return
			}
			if fa, ok := cc.Args[0].(*ssa.FieldAddr); ok {
				if f := fieldOf(fa.X.Type(), fa.Field); f != nil {
					if owner := namedOf(fa.X.Type()); owner != nil && strings.HasPrefix(owner.Obj().Pkg().Path(), modPath) {
						atomicFields[f] = fieldKey(owner, f)
					}
				}
			}
		})
	}
	r.Stat("atomically_accessed_fields", len(atomicFields))
	// struct types containing such a field
	ownerOf := map[*types.Named][]*types.Var{}
	for f, fk := range atomicFields {
		_ = fk
		for _, pk := range p.Pkgs {
			sc := pk.Types.Scope()
			for _, nm := range sc.Names() {
				tn, ok := sc.Lookup(nm).(*types.TypeName)
				if !ok {
					continue
				}
				n, ok := tn.Type().(*types.Named)
				if !ok {
					continue
				}
				st, ok := n.Underlying().(*types.Struct)
				if !ok {
					continue
				}
				for i := 0; i < st.NumFields(); i++ {
					if st.Field(i) == f {
						ownerOf[n] = append(ownerOf[n], f)
					}
				}
			}
		}
	}
	seen := map[string]bool{}
	for _, fn := range p.Funcs {
		name := fnName(fn)
		allInstrs(fn, func(ins ssa.Instruction) {
			switch x := ins.(type) {
			case *ssa.UnOp:
				if x.Op != token.MUL {
					return
				}
				// plain load of the field
				if fa, ok := x.X.(*ssa.FieldAddr); ok {
					if f := fieldOf(fa.X.Type(), fa.Field); f != nil {
						if fk, isAt := atomicFields[f]; isAt && !isLocalObject(pathOf(fa.X)) {
							key := name + " plain read " + fk
							if !seen[key] {
								seen[key] = true
								r.Check(key, false, p.pos(x.Pos()), name, "plain (non-atomic) read of "+fk+", which is updated with sync/atomic elsewhere")
							}
						}
					}
					return
				}
				// copy of a whole struct that contains an atomic field, through a pointer to a shared object
				if n := namedOf(x.Type()); n != nil {
					if _, isPtr := x.Type().Underlying().(*types.Pointer); isPtr {
						return
					}
					if fs, has := ownerOf[n]; has {
						if _, isStruct := x.Type().Underlying().(*types.Struct); !isStruct {
							return
						}
						if pt := pathOf(x.X); pt != nil && !isLocalObject(pt) {
							if _, isAlloc := x.X.(*ssa.Alloc); isAlloc {
								return
							}
							key := name + " copies " + tname(n)
							if !seen[key] {
								seen[key] = true
								r.Check(key, false, p.pos(x.Pos()), name, fmt.Sprintf("the whole %s is copied with a plain read (e.g. to call a value-receiver method) while its field %s is updated with sync/atomic elsewhere", tname(n), fs[0].Name()))
							}
						}
					}
				}
			case *ssa.Store:
				if fa, ok := x.Addr.(*ssa.FieldAddr); ok {
					if f := fieldOf(fa.X.Type(), fa.Field); f != nil {
						if fk, isAt := atomicFields[f]; isAt && !isLocalObject(pathOf(fa.X)) {
							key := name + " plain write " + fk
							if !seen[key] {
								seen[key] = true
								r.Check(key, false, p.pos(x.Pos()), name, "plain (non-atomic) write of "+fk+", which is accessed with sync/atomic elsewhere")
							}
						}
					}
				}
			}
		})
	}
	var fks []string
	for _, fk := range atomicFields {
		fks = append(fks, fk)
	}
	sort.Strings(fks)
	for _, fk := range fks {
		r.Check("field "+fk+" is atomic-only", true, "", "", "every access outside constructors goes through sync/atomic (violations, if any, are listed separately)")
	}
}

// ruleC09A2: a plain store through a pointer that was loaded from a struct field writes to memory whose owner is
// unknown to the function — typically a default shared by every copy of a configuration struct (`*opt.CloseTimeout = d`
// writes the package-level default that every other OpenUpstream reads). Scalars behind field pointers may only be
// replaced (`opt.CloseTimeout = &d`) or updated atomically.
func ruleC09A2(r *Run) {
	r.Begin("A2", "no plain store through a field pointer to a scalar: in the module's non-test code no Store writes to an address obtained by loading a pointer-typed struct field whose element type is a basic type or time.Duration (the pointee may be shared with other copies of the struct, e.g. a package-level default); such fields are re-pointed or updated with sync/atomic", 1)
	p := r.P
	n := 0
	for _, fn := range p.Funcs {
		if fn.Blocks == nil {
			continue
		}
		allInstrs(fn, func(ins ssa.Instruction) {
			st, ok := ins.(*ssa.Store)
			if !ok {
				return
			}
			ld, isLd := st.Addr.(*ssa.UnOp)
			if !isLd || ld.Op != token.MUL {
				return
			}
			fk := fieldKeyOfAddr(ld.X)
			if fk == "" {
				return
			}
			pt, isPtr := ld.Type().Underlying().(*types.Pointer)
			if !isPtr {
				return
			}
			if _, isBasic := pt.Elem().Underlying().(*types.Basic); !isBasic {
				return
			}
			n++
			name := fnName(fn)
			r.Check(fmt.Sprintf("%s store through %s", name, fk), false, posOf(p, st), name, "plain write through the pointer held in "+fk+": the pointee may be shared (a copied configuration still points at the package-level default), so concurrent users race on it and the value leaks into every other user")
		})
	}
	r.Stat("stores_through_field_pointers", n)
	if n == 0 {
		r.Check("stores through field pointers", true, "", "", "none in the analysed packages")
	}
}

// ruleC09A3: a critical section does not hand out the guarded container itself. A function that takes the lock of a
// guarded map or slice field and returns that map or slice (or an inner map or slice looked up in it) lets the caller
// read it after the lock is gone while the owner keeps writing it; what leaves the section is a copy.
func ruleC09A3(r *Run) {
	r.Begin("A3", "guarded containers do not leave their critical section: a function that acquires a lock itself returns no map or slice that is (or was looked up in) a field of the guarded-by table — it returns a copy made under the lock", 1)
	p := r.P
	guarded := map[string]bool{}
	for _, g := range guardTable {
		guarded[g.Owner+"."+g.Field] = true
	}
	// origin: (guarded field, nesting level) a value was loaded from: level 0 is the field, level 1 an element of it, …
	var origin func(v ssa.Value, depth int) (string, int)
	origin = func(v ssa.Value, depth int) (string, int) {
		if depth > 8 {
			return "", 0
		}
		v = canonVal(v)
		switch x := v.(type) {
		case *ssa.Phi:
			for _, e := range x.Edges {
				if o, l := origin(e, depth+1); o != "" {
					return o, l
				}
			}
		case *ssa.Extract:
			return origin(x.Tuple, depth+1)
		case *ssa.Lookup:
			if o, l := origin(x.X, depth+1); o != "" {
				return o, l + 1
			}
		case *ssa.Slice:
			return origin(x.X, depth+1)
		case *ssa.ChangeType:
			return origin(x.X, depth+1)
		case *ssa.UnOp:
			if x.Op == token.MUL {
				if fk := fieldKeyOfAddr(x.X); guarded[fk] {
					return fk, 0
				}
				if ia, isIA := x.X.(*ssa.IndexAddr); isIA {
					if o, l := origin(ia.X, depth+1); o != "" {
						return o, l + 1
					}
				}
			}
		}
		return "", 0
	}
	// mutated[field][level]: the owner writes into the container at that level after it was stored (insert, delete,
	// element store, append, or re-assignment of the field); an element that is only ever stored whole and read back is
	// a value handed through, not shared storage
	mutated := map[string]map[int]bool{}
	mark := func(v ssa.Value) {
		if o, l := origin(v, 0); o != "" {
			if mutated[o] == nil {
				mutated[o] = map[int]bool{}
			}
			mutated[o][l] = true
		}
	}
	for _, fn := range p.Funcs {
		if fn.Blocks == nil || !p.Analysed(fn) {
			continue
		}
		allInstrs(fn, func(ins ssa.Instruction) {
			switch x := ins.(type) {
			case *ssa.MapUpdate:
				mark(x.Map)
			case *ssa.Store:
				if fk := fieldKeyOfAddr(x.Addr); guarded[fk] {
					if mutated[fk] == nil {
						mutated[fk] = map[int]bool{}
					}
					mutated[fk][0] = true
				}
				if ia, isIA := x.Addr.(*ssa.IndexAddr); isIA {
					mark(ia.X)
				}
			case *ssa.Call:
				if b, isB := x.Call.Value.(*ssa.Builtin); isB && (b.Name() == "delete" || b.Name() == "append" || b.Name() == "clear") && len(x.Call.Args) > 0 {
					mark(x.Call.Args[0])
				}
			}
		})
	}
	n := 0
	for _, fn := range p.Funcs {
		if fn.Blocks == nil || !p.Analysed(fn) {
			continue
		}
		locks := false
		allInstrs(fn, func(ins ssa.Instruction) {
			if cc := instrCall(ins); cc != nil {
				if _, isDefer := ins.(*ssa.Defer); isDefer {
					return
				}
				if op, _ := classifyLockCall(cc); op == opLock || op == opRLock {
					locks = true
				}
			}
		})
		if !locks {
			continue
		}
		name := fnName(fn)
		k := 0
		allInstrs(fn, func(ins ssa.Instruction) {
			ret, ok := ins.(*ssa.Return)
			if !ok {
				return
			}
			for i, res := range retResults(ret) {
				switch res.Type().Underlying().(type) {
				case *types.Map, *types.Slice:
				default:
					continue
				}
				if c, isK := res.(*ssa.Const); isK && c.IsNil() {
					continue
				}
				k++
				n++
				o, l := origin(res, 0)
				shared := o != "" && mutated[o][l]
				r.Check(fmt.Sprintf("%s result#%d return#%d is not the guarded container", name, i, k), !shared, posOf(p, ret), name, fmt.Sprintf("the returned map or slice is the guarded field %s at nesting level %d, a container the owner goes on writing: the caller uses it after the lock was released", o, l))
			}
		})
	}
	// the same through a helper that is handed the guarded container and its lock (lookup(&x.mu, x.table, key)): what
	// the helper returns from the container is, at the call site, an element of the guarded field one level down; if it
	// is itself a map or slice the owner writes into, it has left the critical section the helper opened and closed
	for _, fn := range p.Funcs {
		if fn.Blocks == nil || !p.Analysed(fn) {
			continue
		}
		name := fnName(fn)
		k := 0
		allInstrs(fn, func(ins ssa.Instruction) {
			call, ok := ins.(*ssa.Call)
			if !ok {
				return
			}
			h := call.Call.StaticCallee()
			if h == nil || !p.Analysed(h) || h.Blocks == nil {
				return
			}
			locks := false
			allInstrs(h, func(x ssa.Instruction) {
				if cc := instrCall(x); cc != nil {
					if op, _ := classifyLockCall(cc); op == opLock || op == opRLock {
						locks = true
					}
				}
			})
			if !locks {
				return
			}
			for i, arg := range call.Call.Args {
				fk, lvl := origin(arg, 0)
				if fk == "" || i >= len(h.Params) {
					continue
				}
				prm := ssa.Value(h.Params[i])
				// level of each result relative to the parameter
				var rel func(v ssa.Value, d int) (bool, int)
				rel = func(v ssa.Value, d int) (bool, int) {
					if d > 6 {
						return false, 0
					}
					v = canonVal(v)
					if v == prm {
						return true, 0
					}
					switch x := v.(type) {
					case *ssa.Extract:
						return rel(x.Tuple, d+1)
					case *ssa.Lookup:
						if ok2, l := rel(x.X, d+1); ok2 {
							return true, l + 1
						}
					case *ssa.Phi:
						for _, e := range x.Edges {
							if ok2, l := rel(e, d+1); ok2 {
								return true, l
							}
						}
					case *ssa.Slice:
						return rel(x.X, d+1)
					}
					return false, 0
				}
				allInstrs(h, func(x ssa.Instruction) {
					ret, isRet := x.(*ssa.Return)
					if !isRet {
						return
					}
					for j, rv := range retResults(ret) {
						switch rv.Type().Underlying().(type) {
						case *types.Map, *types.Slice:
						default:
							continue
						}
						ok2, l := rel(rv, 0)
						if !ok2 {
							continue
						}
						k++
						n++
						shared := mutated[fk][lvl+l]
						r.Check(fmt.Sprintf("%s call#%d of %s result#%d is not a guarded container", name, k, fnName(h), j), !shared, posOf(p, call), name, fmt.Sprintf("%s locks, reads %s at nesting level %d and hands the inner container back: the caller uses it after the helper released the lock while the owner goes on writing it", fnName(h), fk, lvl+l))
					}
				})
			}
		})
	}
	if n == 0 {
		r.Check("container-returning critical sections", true, "", "", "no locking function returns a map or slice")
	}
}

// ruleC09A4: publish before go. A goroutine sees what was written before the go statement that started it; a field
// written afterwards, without a lock, by the function that (directly or through a call) started the goroutine races
// with the goroutine's unlocked reads of that field. The rule looks, in every function, for a call or go statement A
// that starts a goroutine reading field f without a lock, followed (dominated) by a call B that stores to f without
// a lock. Fields are compared by declaration (object-insensitive), goroutines and callees are followed through the
// call graph (interface calls included) to a small depth.
func ruleC09A4(r *Run, le *LockEngine) {
	r.Begin("A4", "publish before go: no function starts a goroutine (directly or through a call) that reads a field without a lock and afterwards performs, without a lock, a store to that field (directly or through a call) — what a goroutine needs is set before it is started", 1)
	p := r.P
	cg := p.CG()
	calleesOf := func(ins ssa.Instruction) []*ssa.Function {
		var out []*ssa.Function
		cc := instrCall(ins)
		if cc == nil {
			return nil
		}
		if f := cc.StaticCallee(); f != nil {
			return []*ssa.Function{f}
		}
		if f := closureOf(cc.Value); f != nil {
			return []*ssa.Function{f}
		}
		if n := cg.Nodes[ins.Parent()]; n != nil {
			for _, e := range n.Out {
				if e.Site != nil && e.Site == ins.(ssa.CallInstruction) && e.Callee != nil && e.Callee.Func != nil && p.Analysed(e.Callee.Func) {
					out = append(out, e.Callee.Func)
				}
			}
		}
		// a library is also used with implementations its own code never constructs (a poller the application picks):
		// for an interface call every implementer declared in the module counts
		if cc.IsInvoke() {
			if it, isI := cc.Value.Type().Underlying().(*types.Interface); isI {
				have := map[*ssa.Function]bool{}
				for _, f := range out {
					have[f] = true
				}
				for _, n := range p.implementers(it, false) {
					if m := p.methodOf(n, cc.Method.Name()); m != nil && !have[m] && p.Analysed(m) {
						out = append(out, m)
					}
				}
			}
		}
		return out
	}
	skipType := func(t types.Type) bool {
		if n := namedOf(t); n != nil && n.Obj().Pkg() != nil {
			switch n.Obj().Pkg().Path() {
			case "sync", "sync/atomic", "context":
				return true
			}
		}
		return false
	}
	type fieldset map[*types.Var]ssa.Instruction
	// unlocked reads of non-local objects in fn and its callees
	var reads func(fn *ssa.Function, depth int, seen map[*ssa.Function]bool, out fieldset)
	reads = func(fn *ssa.Function, depth int, seen map[*ssa.Function]bool, out fieldset) {
		if fn == nil || fn.Blocks == nil || seen[fn] || depth > 3 || !p.Analysed(fn) {
			return
		}
		seen[fn] = true
		withAnon(fn, func(g *ssa.Function) {
			allInstrs(g, func(ins ssa.Instruction) {
				if u, ok := ins.(*ssa.UnOp); ok && u.Op == token.MUL {
					if fa, isFA := u.X.(*ssa.FieldAddr); isFA && len(le.HeldAt(ins)) == 0 && !isLocalObject(pathOf(fa.X)) {
						if f := fieldOf(fa.X.Type(), fa.Field); f != nil && !skipType(f.Type()) {
							if _, dup := out[f]; !dup {
								out[f] = ins
							}
						}
					}
				}
				if _, isGo := ins.(*ssa.Go); isGo {
					return
				}
				if _, isCall := ins.(*ssa.Call); isCall {
					for _, cal := range calleesOf(ins) {
						reads(cal, depth+1, seen, out)
					}
				}
			})
		})
	}
	// goroutines started by executing ins (a go statement, or a call that reaches one)
	var started func(ins ssa.Instruction, depth int, seen map[*ssa.Function]bool, out fieldset)
	started = func(ins ssa.Instruction, depth int, seen map[*ssa.Function]bool, out fieldset) {
		if depth > 2 {
			return
		}
		if _, isGo := ins.(*ssa.Go); isGo {
			for _, body := range calleesOf(ins) {
				reads(body, 0, map[*ssa.Function]bool{}, out)
			}
			return
		}
		if _, isCall := ins.(*ssa.Call); !isCall {
			return
		}
		for _, cal := range calleesOf(ins) {
			if cal == nil || cal.Blocks == nil || seen[cal] || !p.Analysed(cal) {
				continue
			}
			seen[cal] = true
			allInstrs(cal, func(x ssa.Instruction) {
				switch x.(type) {
				case *ssa.Go, *ssa.Call:
					started(x, depth+1, seen, out)
				}
			})
		}
	}
	// unlocked stores to non-local objects performed by executing ins
	var stores func(fn *ssa.Function, depth int, seen map[*ssa.Function]bool, out fieldset)
	stores = func(fn *ssa.Function, depth int, seen map[*ssa.Function]bool, out fieldset) {
		if fn == nil || fn.Blocks == nil || seen[fn] || depth > 2 || !p.Analysed(fn) {
			return
		}
		seen[fn] = true
		allInstrs(fn, func(ins ssa.Instruction) {
			if st, ok := ins.(*ssa.Store); ok {
				if fa, isFA := st.Addr.(*ssa.FieldAddr); isFA && len(le.HeldAt(ins)) == 0 && !isLocalObject(pathOf(fa.X)) {
					if f := fieldOf(fa.X.Type(), fa.Field); f != nil && !skipType(f.Type()) {
						out[f] = ins
					}
				}
			}
			if _, isCall := ins.(*ssa.Call); isCall {
				for _, cal := range calleesOf(ins) {
					stores(cal, depth+1, seen, out)
				}
			}
		})
	}
	n := 0
	for _, fn := range p.Funcs {
		if fn.Blocks == nil || !p.Analysed(fn) {
			continue
		}
		name := fnName(fn)
		var starters []ssa.Instruction
		allInstrs(fn, func(ins ssa.Instruction) {
			switch ins.(type) {
			case *ssa.Go, *ssa.Call:
				starters = append(starters, ins)
			}
		})
		k := 0
		for _, a := range starters {
			rd := fieldset{}
			started(a, 0, map[*ssa.Function]bool{}, rd)
			if os.Getenv("ISCP_DEBUG_A4") != "" && strings.Contains(name, os.Getenv("ISCP_DEBUG_A4")) {
				fmt.Printf("A4 %s starter %s callees=%d reads=%d\n", name, posOf(p, a), len(calleesOf(a)), len(rd))
			}
			if len(rd) == 0 {
				continue
			}
			for _, b := range starters {
				if a == b || !dominatesInstr(a, b) {
					continue
				}
				if _, isCall := b.(*ssa.Call); !isCall {
					continue
				}
				if len(le.HeldAt(b)) > 0 {
					continue
				}
				wr := fieldset{}
				for _, cal := range calleesOf(b) {
					stores(cal, 0, map[*ssa.Function]bool{}, wr)
				}
				for f, at := range wr {
					if rdAt, both := rd[f]; both {
						k++
						n++
						r.Check(fmt.Sprintf("%s late store#%d to %s", name, k, f.Name()), false, posOf(p, b), name, fmt.Sprintf("the goroutine started at %s reads %s without a lock (%s); the call at %s stores to it afterwards without a lock (%s): set the field before the goroutine is started", posOf(p, a), f.Name(), posOf(p, rdAt), posOf(p, b), posOf(p, at)))
					}
				}
			}
		}
	}
	if n == 0 {
		r.Check("stores after go", true, "", "", "no unlocked store to a field follows the start of a goroutine that reads it unlocked")
	}
}

// rulePublishedFrozen: a pointer handed to other goroutines through atomic.Pointer.Store (or atomic.Value.Store) is a
// publication: readers dereference it without a lock. The variable it points to must not be written afterwards — every
// store into it that can be reached from the publication passes the variable's own allocation first (a fresh variable
// per round). A loop that publishes &v of a variable declared outside the loop and assigns v again in a later round
// changes what the readers are looking at (a data race, and a value nobody chose to publish).
func rulePublishedFrozen(r *Run, id string) {
	r.Begin(id, "published variables are frozen: after &v has been stored into an atomic.Pointer/atomic.Value, no store into v is reachable without passing the allocation of v again", 0)
	p := r.P
	n := 0
	for _, fn := range p.Funcs {
		if !strings.HasPrefix(fnPkgPath(fn), modPath+"/") || fn.Blocks == nil {
			continue
		}
		k := 0
		allInstrs(fn, func(ins ssa.Instruction) {
			cc := instrCall(ins)
			if cc == nil || len(cc.Args) < 2 {
				return
			}
			o := calleeObj(cc)
			if o == nil || o.Pkg() == nil || o.Pkg().Path() != "sync/atomic" || (o.Name() != "Store" && o.Name() != "Swap" && o.Name() != "CompareAndSwap") {
				return
			}
			if rn := recvNamed(o); rn != "Pointer" && rn != "Value" {
				return
			}
			pub := cc.Args[len(cc.Args)-1]
			if mi, isMI := pub.(*ssa.MakeInterface); isMI {
				pub = mi.X
			}
			a, isA := pub.(*ssa.Alloc)
			if !isA {
				return
			}
			n++
			k++
			w := reachesWithout(ins, func(x ssa.Instruction) bool {
				st, isSt := x.(*ssa.Store)
				if !isSt {
					return false
				}
				return objectRoot(st.Addr) == ssa.Value(a)
			}, func(x ssa.Instruction) bool { return x == ssa.Instruction(a) })
			r.Check(fmt.Sprintf("%s publication#%d", fnName(fn), k), w == nil, posOf(p, w), fnName(fn), "the variable whose address was published at "+posOf(p, ins)+" is written again here: readers that loaded the pointer see the new value (or a torn one)")
		})
	}
	r.Stat("publications", n)
	if n == 0 {
		r.Check("publications", true, "", "", "no address of a local variable is stored into an atomic.Pointer or atomic.Value")
	}
}

// ruleGlobalsUnderLock: a package-level object of a type that is not safe for concurrent use (bufio.Reader/Writer,
// bytes.Buffer, strings.Builder, math/rand.Rand, a map that is written after init) is shared by every goroutine that
// calls into the package. Every use outside package initialisation happens with some mutex held, and all uses agree on
// one mutex.
func ruleGlobalsUnderLock(r *Run, le *LockEngine, id string) {
	r.Begin(id, "shared package-level state is locked: every method call on a package-level bufio.Reader/bufio.Writer/bytes.Buffer/strings.Builder/math/rand.Rand, and every access to a package-level map that is written outside init, is made with a mutex held, the same one at every site", 0)
	p := r.P
	unsafeType := func(t types.Type) bool {
		switch deref(t).String() {
		case "bufio.Reader", "bufio.Writer", "bufio.ReadWriter", "bytes.Buffer", "strings.Builder", "math/rand.Rand", "math/rand/v2.Rand":
			return true
		}
		return false
	}
	type use struct {
		at   ssa.Instruction
		held map[string]int
		wr   bool
	}
	uses := map[*ssa.Global][]use{}
	globalOf := func(v ssa.Value) *ssa.Global {
		for i := 0; i < 4; i++ {
			switch x := v.(type) {
			case *ssa.Global:
				return x
			case *ssa.UnOp:
				if x.Op != token.MUL {
					return nil
				}
				v = x.X
			case *ssa.FieldAddr:
				v = x.X
			default:
				return nil
			}
		}
		return nil
	}
	for _, fn := range p.Funcs {
		if !strings.HasPrefix(fnPkgPath(fn), modPath+"/") || fn.Blocks == nil || (fn.Parent() == nil && (fn.Name() == "init" || strings.HasPrefix(fn.Name(), "init#"))) {
			// (function literals written in package initialisation are stored and run later: they count)
			continue
		}
		allInstrs(fn, func(ins ssa.Instruction) {
			switch x := ins.(type) {
			case *ssa.MapUpdate:
				if g := globalOf(x.Map); g != nil && g.Pkg != nil && strings.HasPrefix(g.Pkg.Pkg.Path(), modPath) {
					uses[g] = append(uses[g], use{ins, le.HeldAt(ins), true})
				}
			case *ssa.Lookup:
				if _, isMap := x.X.Type().Underlying().(*types.Map); isMap {
					if g := globalOf(x.X); g != nil && g.Pkg != nil && strings.HasPrefix(g.Pkg.Pkg.Path(), modPath) {
						uses[g] = append(uses[g], use{ins, le.HeldAt(ins), false})
					}
				}
			default:
				cc := instrCall(ins)
				if cc == nil || len(cc.Args) == 0 {
					return
				}
				// a method call on the object, or the object handed to a function that will use it
				for _, a := range cc.Args {
					v := a
					if mi, isMI := v.(*ssa.MakeInterface); isMI {
						v = mi.X
					}
					if g := globalOf(v); g != nil && unsafeType(v.Type()) && g.Pkg != nil && strings.HasPrefix(g.Pkg.Pkg.Path(), modPath) {
						uses[g] = append(uses[g], use{ins, le.HeldAt(ins), true})
					}
				}
			}
		})
	}
	var gs []*ssa.Global
	for g := range uses {
		gs = append(gs, g)
	}
	sort.Slice(gs, func(i, j int) bool { return gs[i].String() < gs[j].String() })
	n := 0
	for _, g := range gs {
		us := uses[g]
		written := false
		for _, u := range us {
			if u.wr {
				written = true
			}
		}
		if !written {
			continue // a table that is only read after init
		}
		n++
		common := map[string]bool{}
		for k := range us[0].held {
			common[k] = true
		}
		for _, u := range us[1:] {
			for k := range common {
				if _, ok := u.held[k]; !ok {
					delete(common, k)
				}
			}
		}
		var first ssa.Instruction
		for _, u := range us {
			if len(u.held) == 0 && first == nil {
				first = u.at
			}
		}
		if first == nil {
			first = us[0].at
		}
		r.Check(g.String()+" used under one lock", len(common) > 0, posOf(p, first), fnName(first.Parent()), fmt.Sprintf("%d use(s) outside init; no mutex is held at all of them: goroutines calling into the package at the same moment share this object without synchronisation", len(us)))
	}
	r.Stat("shared_globals", n)
	if n == 0 {
		r.Check("shared package-level state", true, "", "", "no package-level object of a non-thread-safe type is used outside init")
	}
}
