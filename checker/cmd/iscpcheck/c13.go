package main

import (
	"fmt"
	"go/constant"
	"go/token"
	"go/types"
	"sort"
	"strings"

	"golang.org/x/tools/go/ssa"
)

func init() {
	register(&PropSpec{
		ID:              "C13",
		Explanation:     "Structural necessary conditions for 'transports keep message boundaries, bytes and order'. F1: in the QUIC and WebTransport transports the length prefix written (width, byte order, value = payload length, prefix before payload) is the one read (same width and order, payload buffer sized by it), and both sides count prefix + payload bytes. F2: every Transport.Write holds one mutex of the transport across all writes of a message (prefix and payload; per-message writer from acquisition to Close), and the error of the per-message writer's Close reaches Write's result. F3: in every branch of the compression-mode selection both the encode and the decode slot are assigned and they are of the same class (identity / per-message flate / context takeover). F4: the write side and the read side trim their dictionaries with the same rule. F5: the compression configuration comes only from the negotiated parameters.",
		NotDecided:      []string{"byte-for-byte fidelity", "interoperability with an independent decoder", "behaviour of compress/flate and of the websocket libraries", "counters under concurrency"},
		ThoroughConfigs: nil,
		Rules: func(r *Run) {
			le := newLockEngine(r.P)
			ruleC13F1(r)
			ruleC13F2(r, le)
			ruleC13F3(r)
			ruleC13F4(r)
			ruleC13F5(r)
			rulePoolReset(r, "F6")
			ruleC13F7(r)
			ruleLoopDrivers(r, "F8", "the scheduler poll stays periodic: in package transport/multi every receive inside a loop from a time source is a Ticker, a time.After, or a Timer that is re-armed inside the loop when its branch continues the loop", func(fn *ssa.Function) bool { return fnPkgPath(fn) == modPath+"/transport/multi" }, 1)
			ruleNoSwallowedErrors(r, "F9", 20, true, "/transport/websocket", "/transport/websocket/", "/transport/quic", "/transport/webtransport", "/transport/compress", "/transport")
			ruleCounterDirection(r, "F10", "/transport/websocket", "/transport/quic", "/transport/webtransport", "/transport")
			ruleC13F11(r)
			ruleC13F12(r)
			r.borrow("C14", func() { ruleC14B6(r) }) // concurrent datagram writers never share a sequence number (their segments would be merged into one message)
			rulePoolNoEscape(r, "F13")
			ruleBuffersStartEmpty(r, "F14")
			ruleDictLongEnough(r, "F15")
		},
	})
}

func ruleC13F1(r *Run) {
	r.Begin("F1", "length-prefix agreement per stream transport: writer allocates a 4-byte prefix, stores uint32(len(payload)) big-endian, writes prefix then payload and reports 4+len(payload); reader reads exactly 4 bytes, decodes big-endian uint32, reads exactly that many bytes and counts 4+length", 8)
	p := r.P
	for _, pkg := range []string{"/transport/quic", "/transport/webtransport"} {
		wt := r.function(pkg, "writeTo")
		df := r.method(pkg, "Transport", "decodeFrom")
		if wt == nil || df == nil {
			continue
		}
		wname, dname := fnName(wt), fnName(df)
		// writer
		var wPrefix int64 = -1
		var put *ssa.Call
		allInstrs(wt, func(ins ssa.Instruction) {
			if mk, ok := ins.(*ssa.MakeSlice); ok {
				if k, isK := constInt(mk.Len); isK {
					wPrefix = k
				}
			}
			if k, ok := constMakeLen(ins); ok {
				wPrefix = k
			}
			if c, ok := ins.(*ssa.Call); ok {
				if o := calleeObj(&c.Call); o != nil && o.Pkg() != nil && o.Pkg().Path() == "encoding/binary" && strings.HasPrefix(o.Name(), "PutUint") {
					put = c
				}
			}
		})
		okPut := false
		width := 0
		if put != nil {
			o := calleeObj(&put.Call)
			fmt.Sscanf(strings.TrimPrefix(o.Name(), "PutUint"), "%d", &width)
			args := callArgs(&put.Call)
			vl := p.Leaves(args[2], provOpts{})
			okPut = recvNamed(o) == "bigEndian" && hasLeaf(vl, "call:builtin.len") && hasLeafPrefix(vl, "param:") && int64(width/8) == wPrefix
		}
		r.Check(wname+" prefix", okPut, p.pos(wt.Pos()), wname, fmt.Sprintf("prefix buffer %d bytes; PutUint%d big endian of len(payload): %v", wPrefix, width, okPut))
		writes := findCalls(wt, false, "io.Writer.Write")
		okOrder := len(writes) == 2
		if okOrder {
			a0 := p.Leaves(instrCall(writes[0]).Args[0], provOpts{})
			a1 := p.Leaves(instrCall(writes[1]).Args[0], provOpts{})
			okOrder = dominatesInstr(writes[0], writes[1]) && hasLeafPrefix(a0, "alloc:") && hasLeafPrefix(a1, "param:")
		}
		r.Check(wname+" prefix then payload", okOrder, p.pos(wt.Pos()), wname, fmt.Sprintf("%d writes; prefix buffer first, then the payload parameter", len(writes)))
		okCount := false
		allInstrs(wt, func(ins ssa.Instruction) {
			if ret, isRet := ins.(*ssa.Return); isRet {
				if bo, isBo := retResults(ret)[0].(*ssa.BinOp); isBo && bo.Op == token.ADD {
					k, isK := constInt(bo.X)
					if !isK {
						k, isK = constInt(bo.Y)
					}
					if isK && k == wPrefix {
						okCount = true
					}
				}
			}
		})
		r.Check(wname+" counts prefix+payload", okCount, p.pos(wt.Pos()), wname, "the byte count returned on success is prefix length + payload length")
		// reader
		var rPrefix int64 = -1
		var get *ssa.Call
		var mkPayload *ssa.MakeSlice
		allInstrs(df, func(ins ssa.Instruction) {
			if mk, ok := ins.(*ssa.MakeSlice); ok {
				if k, isK := constInt(mk.Len); isK {
					rPrefix = k
				} else {
					mkPayload = mk
				}
			}
			if k, ok := constMakeLen(ins); ok {
				rPrefix = k
			}
			if c, ok := ins.(*ssa.Call); ok {
				if o := calleeObj(&c.Call); o != nil && o.Pkg() != nil && o.Pkg().Path() == "encoding/binary" && strings.HasPrefix(o.Name(), "Uint") {
					get = c
				}
			}
		})
		rwidth := 0
		okGet := false
		if get != nil {
			o := calleeObj(&get.Call)
			fmt.Sscanf(strings.TrimPrefix(o.Name(), "Uint"), "%d", &rwidth)
			okGet = recvNamed(o) == "bigEndian" && int64(rwidth/8) == rPrefix
		}
		r.Check(dname+" prefix", okGet && rPrefix == wPrefix && rwidth == width, p.pos(df.Pos()), dname, fmt.Sprintf("reads a %d-byte prefix as big-endian Uint%d (writer: %d bytes, PutUint%d)", rPrefix, rwidth, wPrefix, width))
		okSize := false
		if mkPayload != nil && get != nil {
			for _, l := range p.Leaves(mkPayload.Len, provOpts{}) {
				if strings.HasPrefix(l, "call:encoding/binary.") {
					okSize = true
				}
			}
		}
		fulls := findCalls(df, false, "io.ReadFull")
		r.Check(dname+" reads exactly the announced length", okSize && len(fulls) == 2, p.pos(df.Pos()), dname, fmt.Sprintf("payload buffer sized by the decoded prefix: %v; io.ReadFull calls: %d", okSize, len(fulls)))
		okRx := false
		for _, c := range findCalls(df, false, "sync/atomic.AddUint64") {
			if bo, isBo := instrCall(c).Args[1].(*ssa.Convert); isBo {
				if add, isAdd := bo.X.(*ssa.BinOp); isAdd && add.Op == token.ADD {
					k, isK := constInt(add.X)
					if !isK {
						k, isK = constInt(add.Y)
					}
					if isK && k == rPrefix {
						okRx = true
					}
				}
			}
			if add, isAdd := instrCall(c).Args[1].(*ssa.BinOp); isAdd && add.Op == token.ADD {
				for _, side := range []ssa.Value{add.X, add.Y} {
					if cv, isCv := side.(*ssa.Convert); isCv {
						side = cv.X
					}
					if k, isK := constInt(side); isK && k == rPrefix {
						okRx = true
					}
				}
			}
		}
		r.Check(dname+" counts prefix+payload", okRx, p.pos(df.Pos()), dname, "the receive counter is advanced by prefix length + payload length")
	}
}

func ruleC13F2(r *Run, le *LockEngine) {
	r.Begin("F2", "writes are serialized: in Transport.Write of the stream transports (quic, webtransport, websocket) one mutex of the transport is held at every operation on the shared stream / per-message writer — acquisition, encoding, Close — and the per-message writer's Close error is returned", 4)
	p := r.P
	for _, pkg := range []string{"/transport/quic", "/transport/webtransport"} {
		w := r.method(pkg, "Transport", "Write")
		if w == nil {
			continue
		}
		name := fnName(w)
		var ops []ssa.Instruction
		// (the body may be a function literal handed to a withLock helper: its lock state is that of the helper's call)
		withAnon(w, func(g *ssa.Function) {
			allInstrs(g, func(ins ssa.Instruction) {
				if c, ok := ins.(*ssa.Call); ok {
					if cf := c.Call.StaticCallee(); cf != nil && p.Analysed(cf) && p.reachesCall(cf, 0, "io.Writer.Write") {
						ops = append(ops, ins)
					}
					if isCallNamed(c, "io.Writer.Write") {
						ops = append(ops, ins)
					}
				}
			})
		})
		ok := len(ops) > 0
		lk := ""
		for _, o := range ops {
			h := le.HeldAt(o)
			if len(h) == 0 && o.Parent() != w {
				// a literal handed to a withLock helper: the locks the helper holds where it invokes the literal
				h = le.heldWhereInvoked(o.Parent())
			}
			found := false
			for k, m := range h {
				if m == modeW && strings.HasPrefix(k, w.Params[0].Name()+".") {
					found = true
					lk = k
				}
			}
			if !found {
				ok = false
			}
		}
		r.Check(name+" stream writes under the transport mutex", ok, p.pos(w.Pos()), name, fmt.Sprintf("%d stream write operation(s), all with %q held: %v (prefix and payload of concurrent messages must not interleave)", len(ops), lk, ok))
	}
	w := r.method("/transport/websocket", "Transport", "Write")
	if w == nil {
		return
	}
	name := fnName(w)
	var ops []ssa.Instruction
	var closes []ssa.Instruction
	// the per-message writer may be used in a helper of Write that is called with the mutex held
	// (writeMessage(encoded), "caller must hold writeMu"): its operations count with the locks held at the call
	viaCall := map[ssa.Instruction]ssa.Instruction{} // operation in a helper -> the call of the helper in Write
	scan := func(f *ssa.Function, site ssa.Instruction) {}
	var wfn *ssa.Function = w
	scan = func(f *ssa.Function, site ssa.Instruction) {
		allInstrs(f, func(ins ssa.Instruction) {
			cc := instrCall(ins)
			if cc == nil {
				return
			}
			if site != nil {
				viaCall[ins] = site
			}
			if f == w {
				if cal := cc.StaticCallee(); cal != nil && p.Analysed(cal) && cal.Blocks != nil && recvTypeName(cal) == "Transport" && fnPkgPath(cal) == fnPkgPath(w) {
					if _, isCall := ins.(*ssa.Call); isCall && len(findCalls(cal, false, "/transport/websocket.Conn.Writer")) > 0 {
						wfn = cal
						scan(cal, ins)
					}
				}
			}
			n := callName(ins)
			if n == "/transport/websocket.Conn.Writer" {
				ops = append(ops, ins)
			}
			if n == "io.Closer.Close" || n == "io.WriteCloser.Close" {
				if _, isDefer := ins.(*ssa.Defer); !isDefer {
					closes = append(closes, ins)
				}
				ops = append(ops, ins)
			}
			if cc.StaticCallee() == nil && !cc.IsInvoke() {
				// the encode slot (a func-typed field)
				if hasLeafPrefix(p.Leaves(cc.Value, provOpts{}), "field:/transport/websocket.Transport.encodeTo") {
					ops = append(ops, ins)
				}
			}
		})
	}
	scan(w, nil)
	if len(ops) == 0 {
		// the whole body is a function literal handed to a lock helper (withWriteLock(func() error {…}))
		for _, an := range w.AnonFuncs {
			if len(findCalls(an, false, "/transport/websocket.Conn.Writer")) > 0 {
				scan(an, nil)
			}
		}
	}
	ok := len(ops) >= 3
	for _, o := range ops {
		if _, isDefer := o.(*ssa.Defer); isDefer {
			// a deferred Close runs after a deferred Unlock registered earlier? require the unlock to be deferred before it
			continue
		}
		h := le.HeldAt(o)
		found := false
		for k, m := range h {
			if m == modeW && strings.HasPrefix(k, o.Parent().Params[0].Name()+".") {
				found = true
			}
		}
		if !found && o.Parent() != w && o.Parent().Parent() == w {
			for k, m := range le.heldWhereInvoked(o.Parent()) {
				if m == modeW && strings.HasPrefix(k, w.Params[0].Name()+".") {
					found = true
				}
			}
		}
		if site, via := viaCall[o]; via {
			for k, m := range le.HeldAt(site) {
				if m == modeW && strings.HasPrefix(k, w.Params[0].Name()+".") {
					found = true
				}
			}
		}
		if !found {
			ok = false
		}
	}
	r.Check(name+" message writer used under the transport mutex", ok, p.pos(w.Pos()), name, fmt.Sprintf("%d operations on the per-message writer (acquire, encode, close), all under a transport mutex: %v — the gorilla backend allows one concurrent writer, and the wire connection writes from several goroutines", len(ops), ok))
	// Close error returned on the success path
	okErr := false
	for _, c := range closes {
		call, isCall := c.(*ssa.Call)
		if !isCall {
			continue
		}
		for _, ev := range errResultsOf(call) {
			if len(nilTestsOf(call.Parent(), ev)) > 0 {
				okErr = true
			}
			// or returned directly
			allInstrs(call.Parent(), func(ins ssa.Instruction) {
				if ret, isRet := ins.(*ssa.Return); isRet {
					for _, l := range p.Leaves(retResults(ret)[0], provOpts{}) {
						if l == "call:io.Closer.Close" || l == "call:io.WriteCloser.Close" {
							okErr = true
						}
					}
				}
			})
		}
	}
	// when the writer lives in a helper, Write hands the helper's error on
	if wfn != w && okErr {
		handsOn := false
		allInstrs(w, func(ins ssa.Instruction) {
			if c, isC := ins.(*ssa.Call); isC && c.Call.StaticCallee() == wfn {
				for _, ev := range errResultsOf(c) {
					if len(nilTestsOf(w, ev)) > 0 {
						handsOn = true
					}
					allInstrs(w, func(x ssa.Instruction) {
						if ret, isRet := x.(*ssa.Return); isRet && len(retResults(ret)) > 0 && canonVal(retResults(ret)[0]) == ev {
							handsOn = true
						}
					})
				}
			}
		})
		okErr = handsOn
	}
	r.Check(name+" reports the writer's Close error", okErr, p.pos(w.Pos()), name, "the message is flushed by the writer's Close; its error must be tested or returned (a deferred Close drops it and a failed write is reported as success)")
}

// flateClass classifies a function value by the flate constructors it reaches.
func flateClass(p *Prog, v ssa.Value) string {
	fn := closureOf(v)
	if fn == nil {
		if mc, ok := v.(*ssa.MakeClosure); ok {
			fn, _ = mc.Fn.(*ssa.Function)
		}
	}
	if fn == nil {
		return "?"
	}
	switch {
	case p.reachesCall(fn, 2, "compress/flate.NewWriterDict", "compress/flate.NewReaderDict"):
		return "context-takeover"
	case p.reachesCall(fn, 2, "compress/flate.NewWriter", "compress/flate.NewReader"):
		return "per-message"
	}
	return "identity"
}

func ruleC13F3(r *Run) {
	r.Begin("F3", "encoder/decoder pairing: in each transport constructor, every branch of the compression-mode selection assigns both the encode and the decode slot, and the two functions are of the same class (identity, per-message flate, context takeover)", 7)
	p := r.P
	for _, tc := range []struct{ pkg, enc, dec string }{
		{"/transport/websocket", "encodeTo", "decodeFrom"},
		{"/transport/quic", "encodeFunc", "decodeFunc"},
		{"/transport/webtransport", "encodeFunc", "decodeFunc"},
	} {
		ctor := r.function(tc.pkg, "New")
		if ctor == nil {
			continue
		}
		name := fnName(ctor)
		type pair struct{ enc, dec ssa.Value }
		byBlock := map[*ssa.BasicBlock]*pair{}
		var blocks []*ssa.BasicBlock
		allInstrs(ctor, func(ins ssa.Instruction) {
			st, ok := ins.(*ssa.Store)
			if !ok {
				return
			}
			fk := fieldKeyOfAddr(st.Addr)
			if fk != tc.pkg+".Transport."+tc.enc && fk != tc.pkg+".Transport."+tc.dec {
				return
			}
			pr := byBlock[st.Block()]
			if pr == nil {
				pr = &pair{}
				byBlock[st.Block()] = pr
				blocks = append(blocks, st.Block())
			}
			if strings.HasSuffix(fk, "."+tc.enc) {
				pr.enc = st.Val
			} else {
				pr.dec = st.Val
			}
		})
		sort.Slice(blocks, func(i, j int) bool { return blocks[i].Index < blocks[j].Index })
		classes := map[string]bool{}
		for i, b := range blocks {
			pr := byBlock[b]
			key := fmt.Sprintf("%s branch#%d", name, i+1)
			if pr.enc == nil || pr.dec == nil {
				r.Check(key, false, p.pos(ctor.Pos()), name, "a branch of the mode selection assigns only one of the encode/decode slots")
				continue
			}
			ce, cd := flateClass(p, pr.enc), flateClass(p, pr.dec)
			classes[ce] = true
			r.Check(key, ce == cd && ce != "?", p.pos(ctor.Pos()), name, fmt.Sprintf("encode slot is %s, decode slot is %s", ce, cd))
			// the class agrees with the flags that select the branch: identity iff compression is not enabled,
			// per-message iff enabled with context takeover disabled, context takeover iff enabled and not disabled
			flags := map[string]bool{}
			known := map[string]bool{}
			allInstrs(ctor, func(x ssa.Instruction) {
				ifs, isIf := x.(*ssa.If)
				if !isIf {
					return
				}
				cond, neg := ifs.Cond, false
				for {
					if u, isU := cond.(*ssa.UnOp); isU && u.Op == token.NOT {
						cond, neg = u.X, !neg
						continue
					}
					break
				}
				fr := fieldsRead(cond, 4)
				if len(fr) != 1 {
					return
				}
				var flag string
				for fk := range fr {
					flag = fk[strings.LastIndexByte(fk, '.')+1:]
				}
				if flag != "Enable" && flag != "DisableContextTakeover" {
					return
				}
				onTrue := edgeDominates(ifs.Block(), ifs.Block().Succs[0], b)
				onFalse := edgeDominates(ifs.Block(), ifs.Block().Succs[1], b)
				if onTrue == onFalse {
					return
				}
				known[flag] = true
				flags[flag] = onTrue != neg
			})
			want := map[string]map[string]bool{
				"identity":         {"Enable": false},
				"per-message":      {"Enable": true, "DisableContextTakeover": true},
				"context-takeover": {"Enable": true, "DisableContextTakeover": false},
			}[ce]
			okFlags := true
			for fl, v := range want {
				if known[fl] && flags[fl] != v {
					okFlags = false
				}
			}
			if len(known) > 0 {
				r.Check(key+" selected by the right flags", okFlags, p.pos(ctor.Pos()), name, fmt.Sprintf("the %s pair is installed on the branch where %v; expected %v", ce, flags, want))
			}
		}
		if len(blocks) == 0 {
			r.Undecided(name+" mode selection", "no assignment of the encode/decode slots found")
			continue
		}
		// identity must be among the classes (compression off) and the selection is driven by compressConfig
		r.Check(name+" has an uncompressed mode", classes["identity"], p.pos(ctor.Pos()), name, "one branch must leave both slots uncompressed")
	}
}

// trimShape extracts "cmp|next-arg" of the dictionary trim in fn for the given buffer field.
func trimShape(p *Prog, fn *ssa.Function, bufField string) string {
	shape := ""
	allInstrs(fn, func(ins ssa.Instruction) {
		c, ok := ins.(*ssa.Call)
		if !ok || !isCallNamed(c, "bytes.Buffer.Next") {
			return
		}
		if !hasLeaf(p.Leaves(c.Call.Args[0], provOpts{}), "field:"+bufField) {
			return
		}
		describe := func(v ssa.Value) string {
			l := p.Leaves(v, provOpts{})
			var parts []string
			if hasLeaf(l, "call:/transport/compress.Config.WindowSize") {
				parts = append(parts, "W")
			}
			if hasLeaf(l, "call:bytes.Buffer.Len") {
				parts = append(parts, "L")
			}
			for _, x := range l {
				if strings.HasPrefix(x, "const:") {
					parts = append(parts, x)
				}
			}
			return strings.Join(parts, "")
		}
		arg := "?"
		if bo, isBo := c.Call.Args[1].(*ssa.BinOp); isBo {
			arg = describe(bo.X) + bo.Op.String() + describe(bo.Y)
		}
		// the guarding comparison
		guard := "unguarded"
		allInstrs(fn, func(x ssa.Instruction) {
			ifs, isIf := x.(*ssa.If)
			if !isIf {
				return
			}
			bo, isBo := ifs.Cond.(*ssa.BinOp)
			if !isBo {
				return
			}
			if edgeDominates(ifs.Block(), ifs.Block().Succs[0], c.Block()) {
				guard = describe(bo.X) + bo.Op.String() + describe(bo.Y)
				// a > b is b < a: one spelling per comparison
				switch bo.Op {
				case token.GTR:
					guard = describe(bo.Y) + token.LSS.String() + describe(bo.X)
				case token.GEQ:
					guard = describe(bo.Y) + token.LEQ.String() + describe(bo.X)
				}
			}
		})
		shape = "if " + guard + " then Next(" + arg + ")"
	})
	return shape
}

func ruleC13F4(r *Run) {
	r.Begin("F4", "dictionary trim symmetry: the context-takeover encoder and decoder trim their window buffers after each message with the same rule (same comparison of window size and buffer length, same amount dropped), each on its own buffer, under that buffer's mutex", 3)
	p := r.P
	enc := r.method("/transport/websocket", "Transport", "encodeToWithContextTakeover")
	dec := r.method("/transport/websocket", "Transport", "decodeFromWithContextTakeover")
	if enc == nil || dec == nil {
		return
	}
	// the trim and the priming of the dictionary may sit in unexported helpers of the two functions
	// (deflateWithWindowLocked, trimWriteWindowLocked): the first of the function and its helpers that has the shape
	shapeOf := func(fn *ssa.Function, fld string) string {
		out := ""
		p.withHelpers(fn, 2, func(g *ssa.Function) {
			if out == "" {
				out = trimShape(p, g, fld)
			}
		})
		return out
	}
	se := shapeOf(enc, "/transport/websocket.Transport.writeWindowBuf")
	sd := shapeOf(dec, "/transport/websocket.Transport.readWindowBuf")
	r.Check("trim rules agree", se != "" && se == sd, p.pos(enc.Pos()), "websocket", fmt.Sprintf("write side: %q; read side: %q (if they differ the two peers' dictionaries diverge after the window fills)", se, sd))
	r.Check("trim keeps the last window", se == "if W<L then Next(L-W)", p.pos(enc.Pos()), "websocket", "the trim must drop exactly Len()-WindowSize() bytes when the buffer exceeds the window: "+se)
	// the dictionary handed to flate is the window buffer; the bytes appended to it are the uncompressed message
	okDict := true
	for _, x := range []struct {
		fn        *ssa.Function
		ctor, fld string
	}{{enc, "compress/flate.NewWriterDict", "/transport/websocket.Transport.writeWindowBuf"}, {dec, "compress/flate.NewReaderDict", "/transport/websocket.Transport.readWindowBuf"}} {
		var cs []ssa.Instruction
		p.withHelpers(x.fn, 2, func(g *ssa.Function) {
			cs = append(cs, findCalls(g, false, x.ctor)...)
		})
		if len(cs) != 1 {
			okDict = false
			continue
		}
		args := instrCall(cs[0]).Args
		if !hasLeaf(p.Leaves(args[len(args)-1], provOpts{}), "field:"+x.fld) {
			okDict = false
		}
	}
	r.Check("dictionary is the window buffer", okDict, p.pos(enc.Pos()), "websocket", "NewWriterDict/NewReaderDict must be primed with the respective window buffer's bytes")
}

func ruleC13F5(r *Run) {
	r.Begin("F5", "mode comes from negotiation only: in every transport constructor Transport.compressConfig is the result of NegotiationParams.CompressConfig(...) and the mode selection reads only that field", 3)
	p := r.P
	for _, pkg := range []string{"/transport/websocket", "/transport/quic", "/transport/webtransport"} {
		ctor := r.function(pkg, "New")
		if ctor == nil {
			continue
		}
		name := fnName(ctor)
		ok := false
		var got []string
		allInstrs(ctor, func(ins ssa.Instruction) {
			if st, isSt := ins.(*ssa.Store); isSt && fieldKeyOfAddr(st.Addr) == pkg+".Transport.compressConfig" {
				got = p.Leaves(st.Val, provOpts{})
				if hasLeaf(got, "call:/transport.NegotiationParams.CompressConfig") {
					ok = true
				}
			}
		})
		r.Check(name+" compressConfig from negotiation", ok, p.pos(ctor.Pos()), name, "compressConfig <- ["+joinLeaves(got)+"]")
		// branch conditions of the mode selection read t.compressConfig only
		okSel := true
		allInstrs(ctor, func(ins ssa.Instruction) {
			ifs, isIf := ins.(*ssa.If)
			if !isIf {
				return
			}
			l := p.Leaves(ifs.Cond, provOpts{WithBase: true})
			touches := false
			for _, x := range l {
				if strings.Contains(x, "compress.Config.") {
					touches = true
				}
			}
			if !touches {
				return
			}
			fromNegotiated := false
			for _, x := range l {
				b := strings.TrimPrefix(x, "base:")
				if strings.HasSuffix(b, pkg+".Transport.compressConfig") {
					fromNegotiated = true
				}
				if strings.Contains(b, pkg+".Config.") {
					okSel = false // the caller's local configuration
				}
			}
			if !fromNegotiated {
				okSel = false
			}
		})
		r.Check(name+" mode selection reads the negotiated config", okSel, p.pos(ctor.Pos()), name, "the branch conditions choosing the codec functions must read Transport.compressConfig, not the local configuration")
	}
	_ = types.Typ
}

// constMakeLen: make([]T, N) with constant N lowers to `new [N]T (makeslice)`; returns N.
func constMakeLen(ins ssa.Instruction) (int64, bool) {
	a, ok := ins.(*ssa.Alloc)
	if !ok || a.Comment != "makeslice" {
		return 0, false
	}
	arr, ok := deref(a.Type()).Underlying().(*types.Array)
	if !ok {
		return 0, false
	}
	return arr.Len(), true
}

// ruleC13F7: a message reader wrapped in an inflater is read to its end.
func ruleC13F7(r *Run) {
	r.Begin("F7", "messages are read to their end: every function of the websocket transport that wraps the per-message reader in a flate reader drains that underlying reader (io.Copy to io.Discard / io.ReadAll) after the inflater is closed; the inflater stops at the end of the deflate stream and the coder/nhooyr backends refuse the next message until the previous one was read to completion", 2)
	p := r.P
	n := 0
	for _, fn := range p.Funcs {
		if fnPkgPath(fn) != modPath+"/transport/websocket" {
			continue
		}
		for _, c := range findCalls(fn, false, "compress/flate.NewReader", "compress/flate.NewReaderDict") {
			n++
			name := fnName(fn)
			src := canonVal(instrCall(c).Args[0])
			if mi, ok := src.(*ssa.MakeInterface); ok {
				src = canonVal(mi.X)
			}
			closes := findCalls(fn, false, "io.Closer.Close", "io.ReadCloser.Close")
			ok := false
			allInstrs(fn, func(ins ssa.Instruction) {
				if !isCallNamed(ins, "io.Copy", "io.ReadAll", "io.CopyN") {
					return
				}
				args := instrCall(ins).Args
				rd := args[len(args)-1]
				if isCallNamed(ins, "io.Copy") {
					rd = args[1]
					if !hasLeaf(p.Leaves(args[0], provOpts{}), "global:io.Discard") {
						return
					}
				}
				v := canonVal(rd)
				if mi, isMI := v.(*ssa.MakeInterface); isMI {
					v = canonVal(mi.X)
				}
				if v != src {
					return
				}
				for _, cl := range closes {
					if dominatesInstr(cl, ins) {
						ok = true
					}
				}
			})
			r.Check(name+" drains the message", ok, posOf(p, c), name, "after the inflater is closed the reader it was built on must be drained to EOF")
		}
	}
	if n == 0 {
		r.Undecided("inflating decoders", "no flate reader in the websocket transport")
	}
}

// ruleC13F11: the WebSocket libraries behind two of the three backends (coder/websocket and nhooyr.io/websocket)
// refuse any message larger than their package constant defaultReadLimit (32768 bytes) until SetReadLimit is
// called on the connection. The transport promises messages of any size, so every place that obtains such a
// connection from the library must lift the limit (a negative argument disables it) before the connection is used.
func ruleC13F11(r *Run) {
	r.Begin("F11", "the library's default read limit is lifted: wherever a module function receives a connection from a package that declares a positive constant defaultReadLimit and whose connection type has a method SetReadLimit, that function calls SetReadLimit on the connection with a negative constant (sibling agreement between the websocket backends)", 1)
	p := r.P
	n := 0
	for _, fn := range p.Funcs {
		if fn.Blocks == nil || !strings.HasPrefix(fnPkgPath(fn), modPath+"/transport/websocket") {
			continue
		}
		allInstrs(fn, func(ins ssa.Instruction) {
			c, ok := ins.(*ssa.Call)
			if !ok {
				return
			}
			cal := c.Call.StaticCallee()
			if cal == nil || cal.Pkg == nil || p.Analysed(cal) || cal.Signature.Recv() != nil {
				return
			}
			lim := cal.Pkg.Pkg.Scope().Lookup("defaultReadLimit")
			k, isConst := lim.(*types.Const)
			if !isConst {
				return
			}
			if v, exact := constant.Int64Val(k.Val()); !exact || v <= 0 {
				return
			}
			// which result is the connection?
			var conn ssa.Value
			res := cal.Signature.Results()
			for i := 0; i < res.Len(); i++ {
				nt := namedOf(res.At(i).Type())
				if nt == nil || nt.Obj().Pkg() != cal.Pkg.Pkg {
					continue
				}
				ms := types.NewMethodSet(types.NewPointer(nt))
				has := false
				for j := 0; j < ms.Len(); j++ {
					if ms.At(j).Obj().Name() == "SetReadLimit" {
						has = true
					}
				}
				if !has {
					continue
				}
				if res.Len() == 1 {
					conn = c
				} else if c.Referrers() != nil {
					for _, ref := range *c.Referrers() {
						if ex, isEx := ref.(*ssa.Extract); isEx && ex.Index == i {
							conn = ex
						}
					}
				}
			}
			if conn == nil {
				return
			}
			n++
			name := fnName(fn)
			lifted := false
			allInstrs(fn, func(x ssa.Instruction) {
				sc, isCall := x.(*ssa.Call)
				if !isCall || sc.Call.StaticCallee() == nil || sc.Call.StaticCallee().Name() != "SetReadLimit" || len(sc.Call.Args) != 2 {
					return
				}
				if !sameValue(sc.Call.Args[0], conn) && sc.Call.Args[0] != conn {
					return
				}
				if v, isK := constInt(sc.Call.Args[1]); isK && v < 0 {
					lifted = true
				}
			})
			r.Check(name+" lifts the read limit of "+cal.Pkg.Pkg.Name()+"."+cal.Name(), lifted, posOf(p, c), name, fmt.Sprintf("%s declares defaultReadLimit = %s: until SetReadLimit(-1) is called on the connection every received message larger than that is refused and the connection closed", cal.Pkg.Pkg.Path(), k.Val()))
		})
	}
	if n == 0 {
		r.Undecided("library connections", "no call obtains a connection from a package with a default read limit")
	}
}

// ruleC13F12: a WebSocket message is finished — and handed to the peer as one message — when its writer is closed.
// Every path of Transport.Write from the acquisition of the message writer to a return passes the writer's Close; a
// success return additionally requires that Close reported no error.
func ruleC13F12(r *Run) {
	r.Begin("F12", "every message writer is closed: in websocket.Transport.Write no return is reachable from the acquisition of the per-message writer without passing a Close of that writer", 1)
	p := r.P
	fn := r.method("/transport/websocket", "Transport", "Write")
	if fn == nil {
		return
	}
	name := fnName(fn)
	var acq *ssa.Call
	findAcq := func(f *ssa.Function) *ssa.Call {
		var out *ssa.Call
		allInstrs(f, func(ins ssa.Instruction) {
			if c, ok := ins.(*ssa.Call); ok && c.Call.IsInvoke() && c.Call.Method.Name() == "Writer" {
				out = c
			}
		})
		return out
	}
	acq = findAcq(fn)
	if acq == nil {
		// in a helper of Write (writeMessage)
		allInstrs(fn, func(ins ssa.Instruction) {
			if c, ok := ins.(*ssa.Call); ok && acq == nil {
				if cal := c.Call.StaticCallee(); cal != nil && p.Analysed(cal) && cal.Blocks != nil && recvTypeName(cal) == "Transport" {
					if a := findAcq(cal); a != nil {
						acq, fn = a, cal
					}
				}
			}
		})
	}
	if acq == nil {
		// in a function literal of Write (the body handed to a lock helper): the literal's returns are the paths
		for _, an := range fn.AnonFuncs {
			if a := findAcq(an); a != nil && acq == nil {
				acq, fn = a, an
			}
		}
	}
	if acq == nil {
		r.Undecided(name+" writer acquisition", "no call of Conn.Writer found")
		return
	}
	isClose := func(x ssa.Instruction) bool {
		cc := instrCall(x)
		if cc == nil || !cc.IsInvoke() || cc.Method.Name() != "Close" {
			return false
		}
		for _, l := range p.Leaves(cc.Value, provOpts{}) {
			if strings.Contains(l, "Conn.Writer") || strings.Contains(l, ".Writer") {
				return true
			}
		}
		return false
	}
	// start after the error test of the acquisition: the nil edge
	var start *ssa.BasicBlock
	for _, ev := range errResultsOf(acq) {
		for _, ifs := range nilTestsOf(fn, ev) {
			if ne := nilEdge(ifs, ifs.Cond.(*ssa.BinOp).X); ne != nil {
				start = ne
			} else if ne := nilEdge(ifs, ifs.Cond.(*ssa.BinOp).Y); ne != nil {
				start = ne
			}
		}
	}
	if start == nil {
		r.Undecided(name+" acquisition error test", "not found")
		return
	}
	w := reachesWithoutFromBlock(start, func(x ssa.Instruction) bool { _, isRet := x.(*ssa.Return); return isRet }, isClose)
	where := posOf(p, acq)
	detail := "every path from the acquisition to a return closes the writer"
	if w != nil {
		where = posOf(p, w)
		detail = "the return at " + posOf(p, w) + " is reachable without closing the message writer: the frame is never finished, the peer never sees the message (and the next Writer call blocks or interleaves)"
	}
	r.Check(name+" closes its writer", w == nil, where, name, detail)
}

// rulePoolNoEscape: the bytes of a pooled buffer are gone once the buffer is back in the pool. A function that puts a
// buffer back (directly or in a deferred closure) does not return, store or send the slice Bytes() gave it for that
// buffer: the next user of the pool would overwrite the message the caller is still holding.
func rulePoolNoEscape(r *Run, id string) {
	r.Begin(id, "pooled memory does not leave with the message: where a function returns a buffer to a sync.Pool, no result of Bytes() on that buffer is returned, stored or sent by the function (directly or re-sliced) — what leaves is a copy", 2)
	p := r.P
	n := 0
	per := map[*ssa.Function]int{}
	for _, fn := range p.Funcs {
		pk := fnPkgPath(fn)
		if !strings.HasPrefix(pk, modPath+"/encoding") && !strings.HasPrefix(pk, modPath+"/transport") {
			continue
		}
		allInstrs(fn, func(ins ssa.Instruction) {
			cc := instrCall(ins)
			if cc == nil || !isCallNamed(ins, "sync.Pool.Put") {
				return
			}
			buf := cc.Args[1]
			if mi, ok := buf.(*ssa.MakeInterface); ok {
				buf = mi.X
			}
			target := canonVal(buf)
			top := topFunc(fn)
			n++
			per[top]++
			var bad ssa.Instruction
			withAnon(top, func(g *ssa.Function) {
				allInstrs(g, func(x ssa.Instruction) {
					c, isCall := x.(*ssa.Call)
					if !isCall {
						return
					}
					o := calleeObj(&c.Call)
					if o == nil || o.Name() != "Bytes" || len(c.Call.Args) == 0 || objectRoot(c.Call.Args[0]) != target {
						return
					}
					var follow func(v ssa.Value, depth int)
					follow = func(v ssa.Value, depth int) {
						if depth > 6 || v.Referrers() == nil {
							return
						}
						for _, ref := range *v.Referrers() {
							switch y := ref.(type) {
							case *ssa.Return, *ssa.Send, *ssa.MapUpdate:
								bad = ref
							case *ssa.Store:
								if y.Val == v {
									if _, isAlloc := y.Addr.(*ssa.Alloc); isAlloc {
										// a local variable: follow its loads
										for _, l := range loadsOfAddr(y.Addr) {
											follow(l, depth+1)
										}
									} else {
										bad = ref
									}
								}
							case *ssa.Slice:
								follow(y, depth+1)
							case *ssa.Phi:
								follow(y, depth+1)
							case *ssa.MakeInterface:
								follow(y, depth+1)
							}
						}
					}
					follow(c, 0)
				})
			})
			where := posOf(p, ins)
			if bad != nil {
				where = posOf(p, bad)
			}
			r.Check(fmt.Sprintf("%s pooled buffer#%d stays inside", fnName(top), per[top]), bad == nil, where, fnName(top), "the slice returned by Bytes() of a buffer that goes back to the pool leaves the function: the next Get overwrites the message the caller still holds")
		})
	}
	r.Stat("pool_puts", n)
}

// objectRoot: the object an address belongs to — v itself, or the object whose (nested) field v addresses
// (enc.buf -> enc), in canonical form.
func objectRoot(v ssa.Value) ssa.Value {
	v = canonVal(v)
	for i := 0; i < 4; i++ {
		fa, ok := v.(*ssa.FieldAddr)
		if !ok {
			break
		}
		v = canonVal(fa.X)
	}
	return v
}

// ruleBuffersStartEmpty: bytes.NewBuffer(b) takes b as the buffer's initial CONTENT. make([]byte, n) handed to it is n
// zero bytes of content, not n bytes of room (that is make([]byte, 0, n)): whatever reads the buffer later — a
// compression window, a frame under construction — starts with zeros nobody wrote.
func ruleBuffersStartEmpty(r *Run, id string) {
	r.Begin(id, "buffers start empty: no bytes.NewBuffer / bytes.NewBufferString in the transport and encoding packages is given a slice freshly made with a non-zero length", 0)
	p := r.P
	n := 0
	for _, fn := range p.Funcs {
		pk := fnPkgPath(fn)
		if (!strings.HasPrefix(pk, modPath+"/transport") && !strings.HasPrefix(pk, modPath+"/encoding") && !strings.HasPrefix(pk, modPath+"/internal")) || fn.Blocks == nil {
			continue
		}
		k := 0
		for _, c := range findCalls(fn, false, "bytes.NewBuffer") {
			n++
			k++
			arg := canonVal(instrCall(c).Args[0])
			bad := false
			if mk, isMk := arg.(*ssa.MakeSlice); isMk {
				if v, isK := constInt(mk.Len); !isK || v != 0 {
					bad = true
				}
			}
			if sl, isSl := arg.(*ssa.Slice); isSl {
				// make([]byte, N) with constant N lowers to new [N]byte sliced [:]; [:0] is fine
				if a, isA := sl.X.(*ssa.Alloc); isA && a.Comment == "makeslice" {
					if sl.High == nil {
						if at, isArr := deref(a.Type()).Underlying().(*types.Array); isArr && at.Len() > 0 {
							bad = true
						}
					} else if v, isK := constInt(sl.High); !isK || v != 0 {
						bad = true
					}
				}
			}
			r.Check(fmt.Sprintf("%s NewBuffer#%d", fnName(fn), k), !bad, posOf(p, c), fnName(fn), "the buffer is created with a freshly made slice of non-zero length as its content: it starts out holding that many zero bytes (make([]byte, 0, n) reserves room without content)")
		}
	}
	r.Stat("newbuffer_calls", n)
	if n == 0 {
		r.Check("NewBuffer calls", true, "", "", "none")
	}
}

// ruleDictLongEnough: compress/flate.NewWriterDict (Go 1.23-1.26) leaves the block start at 0 after priming the window:
// when the first block of the message is emitted as a STORED block (incompressible input, and a dictionary so short —
// 32 bytes and less in every trial — that "dictionary + input, stored" is still the cheapest coding) the dictionary
// bytes are written out as message content, and the peer reads dictionary+message. A call of NewWriterDict is therefore
// in order only where the dictionary is known to be long: dominated by the accepting edge of a test of its length (or
// of the window size it is cut to) against a constant of at least 64.
func ruleDictLongEnough(r *Run, id string) {
	r.Begin(id, "deflate dictionaries are long enough: every call of compress/flate.NewWriterDict in the module is dominated by a test that the dictionary (or the window it is cut to) has at least 64 bytes — shorter ones are emitted as message content when the first block is stored", 0)
	p := r.P
	n := 0
	perSite := map[string]int{}
	for _, fn := range p.Funcs {
		if !strings.HasPrefix(fnPkgPath(fn), modPath+"/") || fn.Blocks == nil {
			continue
		}
		for _, c := range findCalls(fn, false, "compress/flate.NewWriterDict") {
			n++
			// the obligation is named after what the dictionary is primed from, not after the function the call happens
			// to live in: a finding recorded for it stays the same finding when the call moves into a helper
			site := strings.TrimPrefix(fnPkgPath(fn), modPath+"/") + " dictionary from ?"
			if args := instrCall(c).Args; len(args) > 0 {
				for _, l := range p.Leaves(args[len(args)-1], provOpts{}) {
					if strings.HasPrefix(l, "field:") {
						site = strings.TrimPrefix(fnPkgPath(fn), modPath+"/") + " dictionary from " + strings.TrimPrefix(l, "field:")
						break
					}
				}
			}
			perSite[site]++
			k := perSite[site]
			ok := false
			allInstrs(fn, func(ins ssa.Instruction) {
				ifs, isIf := ins.(*ssa.If)
				if !isIf {
					return
				}
				bo, isBo := ifs.Cond.(*ssa.BinOp)
				if !isBo {
					return
				}
				x, y, op := bo.X, bo.Y, bo.Op
				if _, isK := x.(*ssa.Const); isK {
					x, y = y, x
					switch op {
					case token.LSS:
						op = token.GTR
					case token.GTR:
						op = token.LSS
					case token.LEQ:
						op = token.GEQ
					case token.GEQ:
						op = token.LEQ
					}
				}
				kv, isK := constInt(y)
				if !isK || kv < 63 {
					return
				}
				isLen := false
				if cc, isC := x.(*ssa.Call); isC {
					if b, isB := cc.Call.Value.(*ssa.Builtin); isB && b.Name() == "len" {
						isLen = true
					} else if o := calleeObj(&cc.Call); o != nil && (o.Name() == "Len" || o.Name() == "WindowSize") {
						isLen = true
					}
				}
				if !isLen {
					return
				}
				var long *ssa.BasicBlock
				switch {
				case op == token.GEQ && kv >= 64, op == token.GTR && kv >= 63:
					long = ifs.Block().Succs[0]
				case op == token.LSS && kv >= 64, op == token.LEQ && kv >= 63:
					long = ifs.Block().Succs[1]
				}
				if long != nil && edgeDominates(ifs.Block(), long, c.Block()) {
					ok = true
				}
			})
			r.Check(fmt.Sprintf("%s NewWriterDict#%d", site, k), ok, posOf(p, c), fnName(fn), "no test of the dictionary's length dominates this call: with a window of 32 bytes or less (cwinbits <= 5, which Validate accepts) an incompressible message written after the window has content is read by the peer with the window's bytes in front of it")
		}
	}
	r.Stat("newwriterdict_calls", n)
	if n == 0 {
		r.Check("NewWriterDict calls", true, "", "", "none")
	}
}
