package main

import (
	"fmt"
	"go/constant"
	"go/token"
	"go/types"
	"reflect"
	"sort"
	"strings"

	"golang.org/x/tools/go/ssa"
)

func init() {
	register(&PropSpec{
		ID:          "C17",
		Explanation: "Structural necessary conditions for negotiation parameters. N1: every field of transport.NegotiationParams has a unique non-empty JSON key; every integer or *int field carries ',string' (the carriers are string→string maps); for every bool field UnmarshalKeyValues has a branch for exactly that key accepting only \"true\"/\"false\". N2: Validate accepts exactly the documented encodings and compression types and tests level against [0,9] and window bits against [0,32]. N3: compress.Config.Type() and the type switch of CompressConfig are mutually inverse; on the enabled path Level and WindowBits of the result are taken from the parameters whenever they are present (guarded by the nil test only), and DisableContextTakeover from the named type. N4: the binary reader checks empty key, UTF-8 validity of the key bytes and of the value bytes (each on its own buffer) and duplicates before inserting; the URL reader rejects empty and multi-valued keys. N5: the binary writer length-prefixes key and value with the width the reader uses.",
		NotDecided:  []string{"round trip on values over the full grid", "arbitrary byte strings (fuzzing)"},
		Rules: func(r *Run) {
			ruleC17N1(r)
			ruleC17N2(r)
			ruleC17N3(r)
			ruleC17N4(r)
			ruleNoSwallowedErrors(r, "N5", 5, true, "/transport", "/transport/compress", "/transport/quic", "/transport/websocket", "/transport/webtransport")
			r.borrow("C13", func() { ruleC13F5(r) }) // the negotiated parameters, not the local defaults, decide the compression mode both ends run
			ruleC17N6(r)
		},
	})
}

func ruleC17N1(r *Run) {
	r.Begin("N1", "tag discipline: unique non-empty JSON keys; integer and *int fields have the ',string' option; every bool field's key has its own branch in UnmarshalKeyValues that maps \"true\"/\"false\" and rejects anything else", 10)
	p := r.P
	np := r.named("/transport", "NegotiationParams")
	if np == nil {
		return
	}
	st := np.Underlying().(*types.Struct)
	keys := map[string]string{}
	var boolKeys []string
	for i := 0; i < st.NumFields(); i++ {
		f := st.Field(i)
		tag := reflect.StructTag(st.Tag(i)).Get("json")
		parts := strings.Split(tag, ",")
		key := parts[0]
		okKey := key != "" && key != "-"
		if prev, dup := keys[key]; dup {
			okKey = false
			r.Check("field "+f.Name()+" key", false, p.pos(f.Pos()), "NegotiationParams", "JSON key "+key+" is also used by "+prev)
			continue
		}
		keys[key] = f.Name()
		r.Check("field "+f.Name()+" key", okKey, p.pos(f.Pos()), "NegotiationParams", "json tag: "+tag)
		t := f.Type()
		if pt, isPtr := t.Underlying().(*types.Pointer); isPtr {
			t = pt.Elem()
		}
		if b, isB := t.Underlying().(*types.Basic); isB {
			if b.Info()&types.IsInteger != 0 {
				hasString := false
				for _, o := range parts[1:] {
					if o == "string" {
						hasString = true
					}
				}
				r.Check("field "+f.Name()+" ,string", hasString, p.pos(f.Pos()), "NegotiationParams", "integer field carried in a string→string map needs the ',string' option: "+tag)
			}
			if b.Kind() == types.Bool {
				boolKeys = append(boolKeys, key)
			}
		}
	}
	um := r.method("/transport", "NegotiationParams", "UnmarshalKeyValues")
	if um != nil {
		for _, bk := range boolKeys {
			// a comparison k == "<bk>" and, on its true edge, comparisons v == "true" / v == "false" and an error return
			okKey, okTrue, okFalse, okErr := false, false, false, false
			// (== or !=, the constant on either side; the conversion of the value may sit in an unexported helper)
			p.withHelpers(um, 1, func(g *ssa.Function) {
				allInstrs(g, func(ins ssa.Instruction) {
					bo, ok := ins.(*ssa.BinOp)
					if !ok || (bo.Op != token.EQL && bo.Op != token.NEQ) {
						return
					}
					for _, side := range []ssa.Value{bo.X, bo.Y} {
						if c, isC := side.(*ssa.Const); isC && c.Value != nil {
							switch c.Value.ExactString() {
							case fmt.Sprintf("%q", bk):
								okKey = true
							case `"true"`:
								okTrue = true
							case `"false"`:
								okFalse = true
							}
						}
					}
				})
			})
			// or a comma-ok lookup of the value in a package-level table whose keys are exactly "true" and "false"
			p.withHelpers(um, 1, func(g *ssa.Function) {
				allInstrs(g, func(ins ssa.Instruction) {
					lk, ok := ins.(*ssa.Lookup)
					if !ok || !lk.CommaOk {
						return
					}
					u, isU := lk.X.(*ssa.UnOp)
					if !isU {
						return
					}
					gl, isG := u.X.(*ssa.Global)
					if !isG || gl.Pkg == nil {
						return
					}
					keys := map[string]bool{}
					if init := gl.Pkg.Func("init"); init != nil {
						allInstrs(init, func(x ssa.Instruction) {
							if mu, isMU := x.(*ssa.MapUpdate); isMU {
								if hasLeaf(p.Leaves(mu.Map, provOpts{}), "global:"+strings.TrimPrefix(gl.Pkg.Pkg.Path(), modPath)+"."+gl.Name()) || canonVal(mu.Map) == ssa.Value(gl) {
									if k, isK := mu.Key.(*ssa.Const); isK && k.Value != nil {
										keys[k.Value.ExactString()] = true
									}
								} else if mm, isMM := canonVal(mu.Map).(*ssa.MakeMap); isMM && mm.Referrers() != nil {
									for _, ref := range *mm.Referrers() {
										if st, isSt := ref.(*ssa.Store); isSt && st.Addr == ssa.Value(gl) {
											if k, isK := mu.Key.(*ssa.Const); isK && k.Value != nil {
												keys[k.Value.ExactString()] = true
											}
										}
									}
								}
							}
						})
					}
					if len(keys) == 2 && keys[`"true"`] && keys[`"false"`] {
						okTrue, okFalse = true, true
					}
				})
			})
			allInstrs(um, func(ins ssa.Instruction) {
				if ret, ok := ins.(*ssa.Return); ok && nonNilErrReturn(ret) && true {
					okErr = true
				}
			})
			r.Check("bool key "+bk+" converted", okKey && okTrue && okFalse && okErr, p.pos(um.Pos()), fnName(um), fmt.Sprintf("branch for key %q: %v; accepts \"true\": %v, \"false\": %v; rejects other values with an error: %v", bk, okKey, okTrue, okFalse, okErr))
		}
	}
}

func ruleC17N2(r *Run) {
	r.Begin("N2", "Validate: unknown encodings and compression types reach an error return; the level is tested against 0 and 9 and the window bits against 0 and 32 on the paths where they are present; an absent level gets the default", 5)
	p := r.P
	v := r.method("/transport", "NegotiationParams", "Validate")
	if v == nil {
		return
	}
	name := fnName(v)
	// string constants compared against Encoding / Compress
	encC, compC := map[string]bool{}, map[string]bool{}
	type rng struct{ lo, hi bool }
	bounds := map[string]*rng{"CompressLevel": {}, "CompressWindowBits": {}}
	want := map[string][2]int64{"CompressLevel": {0, 9}, "CompressWindowBits": {0, 32}}
	allInstrsDeep(p, v, func(ins ssa.Instruction) {
		bo, ok := ins.(*ssa.BinOp)
		if !ok {
			return
		}
		l := p.Leaves(bo.X, provOpts{})
		if c, isC := bo.Y.(*ssa.Const); isC && c.Value != nil && bo.Op == token.EQL {
			s := c.Value.ExactString()
			if hasLeaf(l, "field:/transport.NegotiationParams.Encoding") {
				encC[s] = true
			}
			if hasLeaf(l, "field:/transport.NegotiationParams.Compress") {
				compC[s] = true
			}
		}
		for f, b := range bounds {
			if !hasLeaf(l, "field:/transport.NegotiationParams."+f) {
				continue
			}
			if k, isK := constInt(bo.Y); isK {
				if bo.Op == token.LSS && k == want[f][0] {
					b.lo = true
				}
				if bo.Op == token.GTR && k == want[f][1] {
					b.hi = true
				}
			}
		}
	})
	set := func(m map[string]bool) string {
		var s []string
		for k := range m {
			s = append(s, k)
		}
		sort.Strings(s)
		return strings.Join(s, ",")
	}
	r.Check(name+" encodings", set(encC) == `"","json","proto"`, p.pos(v.Pos()), name, "accepted encodings: "+set(encC))
	r.Check(name+" compression types", set(compC) == `"","context-takeover","per-message"`, p.pos(v.Pos()), name, "accepted compression types: "+set(compC))
	for f, b := range bounds {
		r.Check(name+" "+f+" range", b.lo && b.hi, p.pos(v.Pos()), name, fmt.Sprintf("%s tested < %d: %v, > %d: %v", f, want[f][0], b.lo, want[f][1], b.hi))
	}
	// default level
	okDef := false
	for _, st := range storesInDeep(p, v, "/transport.NegotiationParams.CompressLevel") {
		if hasLeafPrefix(p.Leaves(st.Val, provOpts{}), "alloc:int") {
			okDef = true
		}
	}
	r.Check(name+" default level", okDef, p.pos(v.Pos()), name, "an absent level is replaced by the default")
	// unknown values reach an error return
	errs := 0
	allInstrsDeep(p, v, func(ins ssa.Instruction) {
		if ret, ok := ins.(*ssa.Return); ok && nonNilErrReturn(ret) {
			errs++
		}
	})
	r.Check(name+" rejects", errs >= 4, p.pos(v.Pos()), name, fmt.Sprintf("%d error returns (unknown encoding, unknown type, level, window bits)", errs))
	// the range tests are made whether or not the compression type is named: CompressConfig switches compression on
	// for every level other than 0, so a level or window outside its range must be refused on every path — each bound
	// test is reachable from the entry without passing a comparison of the Compress field
	{
		isTypeCompare := func(x ssa.Instruction) bool {
			bo, ok := x.(*ssa.BinOp)
			if !ok || (bo.Op != token.EQL && bo.Op != token.NEQ) {
				return false
			}
			return hasLeaf(p.Leaves(bo.X, provOpts{}), "field:/transport.NegotiationParams.Compress") || hasLeaf(p.Leaves(bo.Y, provOpts{}), "field:/transport.NegotiationParams.Compress")
		}
		for _, f := range []string{"CompressLevel", "CompressWindowBits"} {
			n, free := 0, 0
			allInstrsDeep(p, v, func(ins ssa.Instruction) {
				bo, ok := ins.(*ssa.BinOp)
				if !ok || (bo.Op != token.LSS && bo.Op != token.GTR && bo.Op != token.LEQ && bo.Op != token.GEQ) {
					return
				}
				if !hasLeaf(p.Leaves(bo.X, provOpts{}), "field:/transport.NegotiationParams."+f) {
					return
				}
				n++
				if ins.Parent() == v && reachesFromEntryWithout(v, func(x ssa.Instruction) bool { return x == ins }, isTypeCompare) != nil {
					free++
				} else if ins.Parent() != v {
					// in a helper: judged by the helper's call
					for _, site := range p.staticCallSites(ins.Parent()) {
						if site.Parent() == v && reachesFromEntryWithout(v, func(x ssa.Instruction) bool { return x == site }, isTypeCompare) != nil {
							free++
						}
					}
				}
			})
			r.Check(name+" "+f+" range tested for every compression type", n > 0 && free == n, p.pos(v.Pos()), name, fmt.Sprintf("%d bound test(s) of %s, %d of them made independently of the Compress field: a set that names no compression type but a level other than 0 is compressed all the same (CompressConfig), so its level and window must be range-checked too", n, f, free))
		}
	}
}

func ruleC17N3(r *Run) {
	r.Begin("N3", "compress type ↔ flag inverse and parameter-only derivation: Config.Type() maps DisableContextTakeover=true to per-message and false to context-takeover, and CompressConfig maps them back; in CompressConfig the stores of Level and WindowBits are guarded only by the nil test of the corresponding parameter and take the parameter's value; Enable is false exactly when the level is absent or 0", 4)
	p := r.P
	ty := r.method("/transport/compress", "Config", "Type")
	cc := r.method("/transport", "NegotiationParams", "CompressConfig")
	if ty == nil || cc == nil {
		return
	}
	// Type(): if DisableContextTakeover -> TypePerMessage else TypeContextTakeOver
	typeMap := map[bool]string{}
	allInstrs(ty, func(ins ssa.Instruction) {
		ifs, ok := ins.(*ssa.If)
		if !ok {
			return
		}
		if !hasLeafPrefix(p.Leaves(ifs.Cond, provOpts{}), "field:/transport/compress.Config.DisableContextTakeover") {
			return
		}
		for i, s := range ifs.Block().Succs {
			for _, x := range s.Instrs {
				if ret, isRet := x.(*ssa.Return); isRet {
					if c, isC := retResults(ret)[0].(*ssa.Const); isC && c.Value != nil {
						typeMap[i == 0] = c.Value.ExactString()
					}
				}
			}
		}
	})
	// CompressConfig: switch p.Compress { case X: DisableContextTakeover = v }
	back := map[string]string{}
	for _, st := range storesIn(cc, "/transport/compress.Config.DisableContextTakeover") {
		cv, isC := st.Val.(*ssa.Const)
		if !isC || cv.Value == nil {
			continue
		}
		// the dominating comparison p.Compress == K
		allInstrs(cc, func(ins ssa.Instruction) {
			ifs, ok := ins.(*ssa.If)
			if !ok {
				return
			}
			bo, ok := ifs.Cond.(*ssa.BinOp)
			if !ok || bo.Op != token.EQL {
				return
			}
			k, isK := bo.Y.(*ssa.Const)
			if !isK || k.Value == nil || !hasLeaf(p.Leaves(bo.X, provOpts{}), "field:/transport.NegotiationParams.Compress") {
				return
			}
			if edgeDominates(ifs.Block(), ifs.Block().Succs[0], st.Block()) {
				back[k.Value.ExactString()] = cv.Value.ExactString()
			}
		})
	}
	okInv := len(typeMap) == 2 && back[typeMap[true]] == "true" && back[typeMap[false]] == "false"
	r.Check("type ↔ flag inverse", okInv, p.pos(cc.Pos()), fnName(cc), fmt.Sprintf("Type(): true→%s false→%s; CompressConfig: %v", typeMap[true], typeMap[false], back))
	// Level / WindowBits stores
	name := fnName(cc)
	for cfgField, prm := range map[string]string{"Level": "CompressLevel", "WindowBits": "CompressWindowBits"} {
		sts := storesIn(cc, "/transport/compress.Config."+cfgField)
		if len(sts) == 0 {
			r.Check(name+" "+cfgField+" from parameters", false, p.pos(cc.Pos()), name, "Config."+cfgField+" is never set from the parameters")
			continue
		}
		for _, st := range sts {
			l := p.Leaves(st.Val, provOpts{})
			okVal := hasLeaf(l, "field:/transport.NegotiationParams."+prm) && len(leavesWithin(l, []string{"field:/transport.NegotiationParams." + prm, "param:*"})) == 0
			// guards: every If that dominates the store by an edge and mentions the parameter must be the nil test
			okGuard := true
			hasNil := false
			allInstrs(cc, func(ins ssa.Instruction) {
				ifs, ok := ins.(*ssa.If)
				if !ok {
					return
				}
				dom := edgeDominates(ifs.Block(), ifs.Block().Succs[0], st.Block()) || edgeDominates(ifs.Block(), ifs.Block().Succs[1], st.Block())
				if !dom {
					return
				}
				cl := p.Leaves(ifs.Cond, provOpts{})
				if !hasLeaf(cl, "field:/transport.NegotiationParams."+prm) {
					return
				}
				bo, isBo := ifs.Cond.(*ssa.BinOp)
				if isBo && (isNilConst(bo.X) || isNilConst(bo.Y)) {
					hasNil = true
					return
				}
				// a value test on the same parameter guards the store: only allowed for the level's "enabled" test
				if cfgField == "Level" {
					if isBo {
						if k, isK := constInt(bo.Y); isK && k == 0 && bo.Op == token.EQL {
							return
						}
					}
				}
				okGuard = false
			})
			r.Check(name+" "+cfgField+" from parameters", okVal && okGuard && hasNil, posOf(p, st), name, fmt.Sprintf("value from [%s]; guarded by the nil test: %v; no extra value condition on the parameter: %v (an extra condition makes the result depend on the local base config, so the two peers can enable different settings)", joinLeaves(l), hasNil, okGuard))
		}
	}
	// Enable
	en := storesIn(cc, "/transport/compress.Config.Enable")
	okEn := len(en) == 2
	r.Check(name+" Enable", okEn, p.pos(cc.Pos()), name, fmt.Sprintf("%d stores to Enable (false when the level is absent or 0, true otherwise)", len(en)))
}

func ruleC17N4(r *Run) {
	r.Begin("N4", "reader checks: in the binary reader the map insert is dominated by the empty-key test, utf8.Valid on the key bytes, utf8.Valid on the value bytes (two different buffers: the ones converted to the inserted key and value) and the duplicate test on the same map and key, each failing edge returning an error; the URL reader rejects empty keys and keys with other than one value; the binary writer uses the same 2-byte big-endian length prefix for key and value", 6)
	p := r.P
	rk := r.function("/transport/quic", "readKeyValues")
	if rk != nil {
		name := fnName(rk)
		var ins *ssa.MapUpdate
		allInstrs(rk, func(x ssa.Instruction) {
			if mu, ok := x.(*ssa.MapUpdate); ok {
				ins = mu
			}
		})
		if ins == nil {
			r.Check(name+" inserts", false, p.pos(rk.Pos()), name, "no map insert")
		} else {
			// key/value byte buffers: the operands of the string conversions
			bytesOf := func(v ssa.Value) ssa.Value {
				if cv, ok := canonVal(v).(*ssa.Convert); ok {
					return canonVal(cv.X)
				}
				return nil
			}
			keyBuf, valBuf := bytesOf(ins.Key), bytesOf(ins.Value)
			validated := map[ssa.Value]bool{}
			for _, c := range findCalls(rk, false, "unicode/utf8.Valid") {
				call := c.(*ssa.Call)
				arg := canonVal(call.Call.Args[0])
				// failing edge returns an error and the check dominates the insert
				okDom := false
				if call.Referrers() != nil {
					for _, ref := range *call.Referrers() {
						if ifs, isIf := ref.(*ssa.If); isIf && edgeDominates(ifs.Block(), ifs.Block().Succs[0], ins.Block()) {
							okDom = true
						}
					}
				}
				if okDom {
					validated[arg] = true
				}
			}
			// bytes read and validated by a helper that hands them back (readValue): validated when the helper returns
			// them only on the valid edge and the insert is on the helper's nil-error edge
			for _, buf := range []ssa.Value{keyBuf, valBuf} {
				ex, isEx := buf.(*ssa.Extract)
				if !isEx || validated[buf] {
					continue
				}
				hc, isCall := ex.Tuple.(*ssa.Call)
				if !isCall || !guardedByNilErr(hc, ins) {
					continue
				}
				h := hc.Call.StaticCallee()
				if h == nil || !p.Analysed(h) {
					continue
				}
				good, any := true, false
				allInstrs(h, func(x ssa.Instruction) {
					ret, isRet := x.(*ssa.Return)
					if !isRet {
						return
					}
					rs := retResults(ret)
					if ex.Index >= len(rs) || isNilConst(rs[ex.Index]) {
						return
					}
					any = true
					v := canonVal(rs[ex.Index])
					okV := false
					for _, c := range findCalls(h, false, "unicode/utf8.Valid") {
						call := c.(*ssa.Call)
						if canonVal(call.Call.Args[0]) != v || call.Referrers() == nil {
							continue
						}
						for _, ref := range *call.Referrers() {
							if ifs, isIf := ref.(*ssa.If); isIf && edgeDominates(ifs.Block(), ifs.Block().Succs[0], ret.Block()) {
								okV = true
							}
						}
					}
					if !okV {
						good = false
					}
				})
				if good && any {
					validated[buf] = true
				}
			}
			r.Check(name+" key UTF-8", keyBuf != nil && validated[keyBuf], posOf(p, ins), name, "utf8.Valid is applied to the bytes that become the inserted key, on an edge dominating the insert")
			r.Check(name+" value UTF-8", valBuf != nil && validated[valBuf], posOf(p, ins), name, "utf8.Valid is applied to the bytes that become the inserted value (a copy-paste of the key check would accept invalid values, which encoding/json later rewrites to U+FFFD)")
			// duplicate test
			okDup := false
			allInstrs(rk, func(x ssa.Instruction) {
				lk, ok := x.(*ssa.Lookup)
				if !ok || !lk.CommaOk || canonVal(lk.X) != canonVal(ins.Map) || canonVal(lk.Index) != canonVal(ins.Key) || lk.Referrers() == nil {
					return
				}
				for _, ref := range *lk.Referrers() {
					if ex, isEx := ref.(*ssa.Extract); isEx && ex.Index == 1 {
						allInstrs(rk, func(y ssa.Instruction) {
							if ifs, isIf := y.(*ssa.If); isIf && sameValue(ifs.Cond, ex) && edgeDominates(ifs.Block(), ifs.Block().Succs[1], ins.Block()) {
								okDup = true
							}
						})
					}
				}
			})
			r.Check(name+" duplicate keys rejected", okDup, posOf(p, ins), name, "the insert happens only on the not-found edge of a lookup of the same key in the same map")
			// empty key
			okEmpty := false
			allInstrs(rk, func(x ssa.Instruction) {
				bo, ok := x.(*ssa.BinOp)
				if !ok || bo.Op != token.EQL {
					return
				}
				if k, isK := constInt(bo.Y); isK && k == 0 && bo.Referrers() != nil {
					for _, ref := range *bo.Referrers() {
						if ifs, isIf := ref.(*ssa.If); isIf && edgeDominates(ifs.Block(), ifs.Block().Succs[1], ins.Block()) {
							okEmpty = true
						}
					}
				}
			})
			r.Check(name+" empty key rejected", okEmpty, posOf(p, ins), name, "a zero key length returns an error before anything is inserted")
		}
	}
	uv := r.method("/transport/websocket", "NegotiationParams", "UnmarshalURLValues")
	if uv != nil {
		name := fnName(uv)
		okLenK, okLenV := false, false
		allInstrs(uv, func(x ssa.Instruction) {
			bo, ok := x.(*ssa.BinOp)
			if !ok {
				return
			}
			if k, isK := constInt(bo.Y); isK {
				if k == 0 && bo.Op == token.EQL {
					okLenK = true
				}
				if k == 1 && bo.Op == token.NEQ {
					okLenV = true
				}
			}
		})
		r.Check(name+" rejects empty and multi-valued keys", okLenK && okLenV, p.pos(uv.Pos()), name, fmt.Sprintf("empty key test: %v; exactly-one-value test: %v", okLenK, okLenV))
	}
	// writer width == reader width
	mw := r.method("/transport/quic", "NegotiationParams", "Marshal")
	if mw != nil && rk != nil {
		width := func(fn *ssa.Function, prefix string) map[string]bool {
			out := map[string]bool{}
			allInstrs(fn, func(x ssa.Instruction) {
				if cc := instrCall(x); cc != nil {
					if o := calleeObj(cc); o != nil && o.Pkg() != nil && o.Pkg().Path() == "encoding/binary" && strings.HasPrefix(o.Name(), prefix) {
						out[recvNamed(o)+"."+strings.TrimPrefix(o.Name(), prefix)] = true
					}
				}
			})
			return out
		}
		w, rd := width(mw, "Put"), width(rk, "")
		// the reader may read its length prefixes in a helper (readLengthPrefixed)
		allInstrs(rk, func(x ssa.Instruction) {
			if c, isC := x.(*ssa.Call); isC {
				if cal := c.Call.StaticCallee(); cal != nil && p.Analysed(cal) && fnPkgPath(cal) == fnPkgPath(rk) {
					for k := range width(cal, "") {
						rd[k] = true
					}
				}
			}
		})
		same := len(w) == 1 && len(rd) == 1
		for k := range w {
			if !rd[k] {
				same = false
			}
		}
		r.Check("binary prefix width agrees", same, p.pos(mw.Pos()), fnName(mw), fmt.Sprintf("writer uses %v, reader uses %v", keysOf(w), keysOf(rd)))
		// a clean end of the message is an EOF on a LENGTH read only: the error that is compared with io.EOF comes,
		// unwrapped, only from ReadFull calls into a fixed-size (prefix) buffer — an EOF while reading a body that a
		// prefix announced is a truncated message
		var sources func(v ssa.Value, d int, out *[]*ssa.Call)
		sources = func(v ssa.Value, d int, out *[]*ssa.Call) {
			if d > 5 || v == nil {
				return
			}
			switch x := v.(type) {
			case *ssa.Extract:
				if c, isC := x.Tuple.(*ssa.Call); isC {
					if isCallNamed(c, "io.ReadFull") {
						*out = append(*out, c)
						return
					}
					if cal := c.Call.StaticCallee(); cal != nil && p.Analysed(cal) && cal.Blocks != nil {
						allInstrs(cal, func(y ssa.Instruction) {
							if ret, isRet := y.(*ssa.Return); isRet && x.Index < len(ret.Results) {
								sources(ret.Results[x.Index], d+1, out)
							}
						})
					}
				}
			case *ssa.Phi:
				for _, e := range x.Edges {
					sources(e, d+1, out)
				}
			case *ssa.UnOp:
				if x.Op == token.MUL {
					if a, isA := x.X.(*ssa.Alloc); isA && a.Referrers() != nil {
						for _, ref := range *a.Referrers() {
							if st, isSt := ref.(*ssa.Store); isSt && st.Addr == ssa.Value(a) {
								sources(st.Val, d+1, out)
							}
						}
					}
				}
			}
		}
		nEOF := 0
		allInstrs(rk, func(x ssa.Instruction) {
			bo, isBo := x.(*ssa.BinOp)
			if !isBo || bo.Op != token.EQL {
				return
			}
			var errV ssa.Value
			isEOF := func(v ssa.Value) bool {
				u, isU := v.(*ssa.UnOp)
				if !isU || u.Op != token.MUL {
					return false
				}
				g, isG := u.X.(*ssa.Global)
				return isG && g.Pkg != nil && g.Pkg.Pkg.Path() == "io" && g.Name() == "EOF"
			}
			if isEOF(bo.Y) {
				errV = bo.X
			} else if isEOF(bo.X) {
				errV = bo.Y
			}
			if errV == nil {
				return
			}
			nEOF++
			var srcs []*ssa.Call
			sources(errV, 0, &srcs)
			bad := ""
			for _, c := range srcs {
				fixed := false
				if len(c.Call.Args) > 1 {
					switch b := canonVal(c.Call.Args[1]).(type) {
					case *ssa.MakeSlice:
						_, fixed = b.Len.(*ssa.Const)
					case *ssa.Slice:
						_, fixed = b.X.(*ssa.Alloc)
					}
				}
				if !fixed {
					bad = posOf(p, c)
				}
			}
			r.Check(fmt.Sprintf("%s clean end#%d only on a length read", fnName(rk), nEOF), bad == "" && len(srcs) > 0, posOf(p, bo), fnName(rk), "the error compared with io.EOF can be the unwrapped error of the body read at "+bad+": a message truncated right after a length prefix is then taken for a shorter, complete parameter set")
		})
	}
}

func keysOf(m map[string]bool) []string {
	var out []string
	for k := range m {
		out = append(out, k)
	}
	sort.Strings(out)
	return out
}

// ruleC17N6: each key stands for its own field. Where the key/value form is built by hand (m["reconnect"] = …), whether
// a key is emitted may depend on the field that supplies its value and on nothing else: a key nested under the
// presence test of ANOTHER field is silently dropped for parameter sets that lack that other field.
func ruleC17N6(r *Run) {
	r.Begin("N6", "each key depends on its own field only: in NegotiationParams.MarshalKeyValues (and the helpers it hands key and value to), every map insertion under a constant key is controlled only by conditions over the field its value is taken from", 0)
	p := r.P
	mk := r.method("/transport", "NegotiationParams", "MarshalKeyValues")
	if mk == nil {
		r.Check("hand-built key/value emissions", true, "", "", "MarshalKeyValues not found")
		return
	}
	fieldLeaves := func(v ssa.Value) map[string]bool {
		out := map[string]bool{}
		for _, l := range p.Leaves(v, provOpts{}) {
			if strings.HasPrefix(l, "field:/transport.NegotiationParams.") {
				out[l] = true
			}
		}
		return out
	}
	// conditions that decide whether ins runs: Ifs of its function with exactly one edge dominating it
	controlling := func(ins ssa.Instruction) []*ssa.If {
		var out []*ssa.If
		allInstrs(ins.Parent(), func(x ssa.Instruction) {
			ifs, ok := x.(*ssa.If)
			if !ok {
				return
			}
			a := edgeDominates(ifs.Block(), ifs.Block().Succs[0], ins.Block())
			b := edgeDominates(ifs.Block(), ifs.Block().Succs[1], ins.Block())
			if a != b {
				out = append(out, ifs)
			}
		})
		return out
	}
	n := 0
	judge := func(key string, val ssa.Value, site ssa.Instruction) {
		own := fieldLeaves(val)
		ctl := controlling(site)
		if len(own) == 0 {
			// a constant value ("true"): the key's own field is the one its innermost condition tests
			var inner *ssa.If
			for _, ifs := range ctl {
				if inner == nil || inner.Block().Dominates(ifs.Block()) {
					inner = ifs
				}
			}
			if inner != nil {
				own = fieldLeaves(inner.Cond)
			}
		}
		if len(own) == 0 {
			return
		}
		n++
		bad := ""
		for _, ifs := range ctl {
			for f := range fieldLeaves(ifs.Cond) {
				if !own[f] {
					bad = f[strings.LastIndexByte(f, '.')+1:]
				}
			}
		}
		r.Check(fmt.Sprintf("key %q depends on its own field", key), bad == "", posOf(p, site), fnName(site.Parent()), "the key is emitted only when field "+bad+" — not the field its value comes from — passes a test: a parameter set without "+bad+" loses this key")
	}
	allInstrs(mk, func(ins ssa.Instruction) {
		switch x := ins.(type) {
		case *ssa.MapUpdate:
			if k, isK := x.Key.(*ssa.Const); isK && k.Value != nil && k.Value.Kind() == constant.String {
				judge(constant.StringVal(k.Value), x.Value, x)
			}
		case *ssa.Call:
			cal := x.Call.StaticCallee()
			if cal == nil || !p.Analysed(cal) || cal.Blocks == nil {
				return
			}
			// a put helper: (map, key, value): key constant here, value from a field
			var key string
			var val ssa.Value
			for _, a := range x.Call.Args {
				if k, isK := a.(*ssa.Const); isK && k.Value != nil && k.Value.Kind() == constant.String {
					key = constant.StringVal(k.Value)
				} else if len(fieldLeaves(a)) > 0 {
					val = a
				}
			}
			hasUpdate := false
			allInstrs(cal, func(y ssa.Instruction) {
				if _, isMU := y.(*ssa.MapUpdate); isMU {
					hasUpdate = true
				}
			})
			if key != "" && val != nil && hasUpdate {
				judge(key, val, x)
			}
		}
	})
	if n == 0 {
		r.Check("hand-built key/value emissions", true, "", "", "MarshalKeyValues does not insert keys by hand (the form is derived from the struct tags)")
	}
}

// allInstrsDeep: the instructions of fn and of the unexported methods of the same type it calls (Validate split into
// validateEncoding and validateCompress).
func allInstrsDeep(p *Prog, fn *ssa.Function, f func(ssa.Instruction)) {
	p.withHelpers(fn, 1, func(g *ssa.Function) {
		if g == fn || (g.Parent() == nil && recvTypeName(g) == recvTypeName(fn)) || topFunc(g) == fn {
			allInstrs(g, f)
		}
	})
}

func storesInDeep(p *Prog, fn *ssa.Function, fk string) []*ssa.Store {
	var out []*ssa.Store
	p.withHelpers(fn, 1, func(g *ssa.Function) {
		if g == fn || (g.Parent() == nil && recvTypeName(g) == recvTypeName(fn)) || topFunc(g) == fn {
			out = append(out, storesIn(g, fk)...)
		}
	})
	return out
}
