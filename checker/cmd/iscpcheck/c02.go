package main

import (
	"fmt"
	"go/token"
	"go/types"
	"strings"

	"golang.org/x/tools/go/ssa"
)

func init() {
	register(&PropSpec{
		ID:          "C02",
		Explanation: "Structural necessary conditions for 'a reliable upstream loses nothing across disconnect and resume'. R1: in the cut, the unacknowledged-chunk store's Store dominates the start of transmission, its error path returns without transmitting, and stored and sent groups come from the same cut. R2: the per-chunk waiter removes a stored chunk only after the send returned nil and a value was actually received from the waiter channel (comma-ok true); a closed channel (cancellation) reaches return without Remove. R3: the function producing the waiter channel never lets select-chance decide between 'timeout' and 'cancelled': the send of the timeout marker is preceded by a sequential test that the run context is not done. R4: the resume request carries Upstream.ID, which only the constructor stores. R5: after a resume, reliable streams list and retransmit under the stored sequence numbers, and Clear is unreachable on the reliable branch. R6: at least one store that can flow into a stream keeps the payload it is given. R7: after a successful resume the ack subscription and the stream alias come from the resume response.",
		NotDecided:  []string{"eventual delivery (liveness)", "multiple failures", "which chunks the broker saw", "totals after several outages"},
		Assumptions: []string{"the cut and the per-chunk waiter are discovered by the calls they make (Store/Remove on the sentStorage interface)"},
		Rules: func(r *Run) {
			ruleC02R1(r)
			ruleC02R2(r)
			ruleC02R3(r)
			ruleC02R4(r)
			r.Begin("R5", "after a resume: sentStorage.Clear only on the non-reliable branch and only with the stream's own id; List with the stream's own id; the retransmit loop sends every listed entry", 4)
			ruleClearOnlyNonReliable(r)
			ruleC02R5b(r)
			ruleC02R6(r)
			ruleC02R7(r)
			ruleC02R8(r)
			ruleResumeRestoresConnected(r, "R9", "Upstream")
			ruleNoSwallowedErrors(r, "R10", 30, false, "/iscp")
			ruleC02R11(r)
			r.borrow("C05", func() { ruleC05R6(r) }) // the outage watcher moves the stream to Resuming from every live status (a draining stream must be resumed too)
			ruleAlwaysCancels(r, "R12")
			r.borrow("C01", func() { ruleC01R5(r) }) // Close waits for the sent-storage to drain: a resend still running after a resume is outstanding too
			r.borrow("C07", func() { ruleC07R1(r) }) // the shared store is keyed by stream id (anchor iscp/storage.go)
			ruleC01R8(r)
		},
	})
}

// sendStarters: instructions in fn that start transmission: call/go of a function reaching SendUpstreamChunk.
func sendStarters(p *Prog, fn *ssa.Function) []ssa.Instruction {
	var out []ssa.Instruction
	allInstrs(fn, func(ins ssa.Instruction) {
		cc := instrCall(ins)
		if cc == nil {
			return
		}
		if isCallNamed(ins, "/wire.ClientConn.SendUpstreamChunk") {
			out = append(out, ins)
			return
		}
		var cf *ssa.Function
		if c := cc.StaticCallee(); c != nil {
			cf = c
		} else if c := closureOf(cc.Value); c != nil {
			cf = c
		}
		if cf != nil && p.Analysed(cf) && fnPkgPath(cf) == modPath+"/iscp" && p.reachesCall(cf, 2, "/wire.ClientConn.SendUpstreamChunk") {
			out = append(out, ins)
		}
	})
	return out
}

func ruleC02R1(r *Run) {
	r.Begin("R1", "store before send: in every function that stores a chunk (sentStorage.Store, outside store implementations), the Store call dominates every start of transmission, transmission is reachable only on the Store's nil-error edge, and the stored groups and the sent chunk come from the same cut call", 3)
	p := r.P
	n := 0
	for _, st := range p.moduleCalls("/iscp.sentStorage.Store") {
		fn := st.Parent()
		if rn := recvTypeName(fn); strings.Contains(rn, "Storage") {
			continue // delegating store implementations
		}
		restore := false
		for _, rm := range findCalls(fn, false, "/iscp.sentStorage.Remove") {
			if at, isRepl := replacesEntry(p, rm); isRepl && at == st {
				restore = true
			}
		}
		if restore {
			continue // puts back (a form of) an entry it has just taken out: not the storing of a new chunk
		}
		n++
		name := fnName(fn)
		sends := sendStarters(p, fn)
		if len(sends) == 0 {
			r.Check(name+" sends", false, posOf(p, st), name, "the function stores a chunk but never starts its transmission")
			continue
		}
		call, _ := st.(*ssa.Call)
		for i, s := range sends {
			dom := dominatesInstr(st, s)
			guarded := call != nil && guardedByNilErr(call, s)
			r.Check(fmt.Sprintf("%s store dominates send#%d", name, i+1), dom && guarded, posOf(p, s), name,
				fmt.Sprintf("Store dominates the transmission: %v; transmission only on Store's nil-error edge: %v", dom, guarded),
				"entry: "+name, "store: "+posOf(p, st), "transmission: "+posOf(p, s))
			// same snapshot
			stored := p.Leaves(instrCall(st).Args[3], provOpts{WithBase: true})
			var sentLeaves []string
			for _, a := range instrCall(s).Args {
				sentLeaves = append(sentLeaves, p.Leaves(a, provOpts{WithBase: true})...)
			}
			common := ""
			for _, l := range stored {
				l = strings.TrimPrefix(l, "base:")
				if strings.HasPrefix(l, "call:/iscp.") && (hasLeaf(sentLeaves, l) || hasLeaf(sentLeaves, "base:"+l)) {
					common = l
				}
			}
			r.Check(fmt.Sprintf("%s same snapshot send#%d", name, i+1), common != "", posOf(p, s), name, "stored groups derive from ["+joinLeaves(stored)+"]; the sent chunk must come from the same chunk-construction call ("+common+")")
		}
		// the sequence number stored is the chunk's
		seqLeaves := p.Leaves(instrCall(st).Args[2], provOpts{})
		okSeq := hasLeaf(seqLeaves, "field:/message.StreamChunk.SequenceNumber") || hasLeaf(seqLeaves, "field:/iscp.UpstreamChunk.SequenceNumber")
		r.Check(name+" stored under the chunk's number", okSeq, posOf(p, st), name, "Store's sequence argument derives from ["+joinLeaves(seqLeaves)+"]")
		idLeaves := p.Leaves(instrCall(st).Args[1], provOpts{})
		r.Check(name+" stored under the stream's id", hasLeaf(idLeaves, "field:/iscp.Upstream.ID"), posOf(p, st), name, "Store's stream id argument derives from ["+joinLeaves(idLeaves)+"]")
	}
	r.Stat("store_sites", n)
}

func recvTypeName(fn *ssa.Function) string {
	// a closure belongs to the method it is written in (critical sections wrapped in x.locked(func(){…}))
	if fn != nil && fn.Parent() != nil {
		fn = topFunc(fn)
	}
	if fn.Signature.Recv() == nil {
		return ""
	}
	if n := namedOf(fn.Signature.Recv().Type()); n != nil {
		return n.Obj().Name()
	}
	return ""
}

func ruleC02R2(r *Run) {
	r.Begin("R2", "remove only for ack or ack-timeout: sentStorage.Remove in the per-chunk waiter is reachable only after the send returned nil and a value was received (comma-ok true) from the waiter channel; Remove is keyed by the stream's id and the chunk's own sequence number", 3)
	p := r.P
	n := 0
	for _, rm := range p.moduleCalls("/iscp.sentStorage.Remove") {
		fn := rm.Parent()
		if rn := recvTypeName(fn); strings.Contains(rn, "Storage") {
			continue
		}
		if _, isRepl := replacesEntry(p, rm); isRepl {
			continue // Remove + Store of what was removed under the same key: the entry is replaced, not taken out
		}
		n++
		name := fnName(fn)
		// (a) send nil-error edge
		sends := findCalls(fn, false, "/wire.ClientConn.SendUpstreamChunk")
		// (the removal may sit in a helper of the waiter, settleChunk(chunk, result): then judged at its call sites)
		okSend := p.liftToCallers(rm, func(f *ssa.Function, at ssa.Instruction) bool {
			for _, s := range findCalls(f, false, "/wire.ClientConn.SendUpstreamChunk") {
				if c, ok := s.(*ssa.Call); ok && guardedByNilErr(c, at) {
					return true
				}
			}
			return false
		}, 0)
		r.Check(name+" remove after successful send", okSend, posOf(p, rm), name, fmt.Sprintf("%d send call(s) in the waiter; Remove must lie on the nil-error edge of the send", len(sends)))
		// (b) comma-ok receive true edge
		okRecv := p.liftToCallers(rm, func(f *ssa.Function, at ssa.Instruction) bool {
			found := false
			allInstrs(f, func(ins ssa.Instruction) {
				u, ok := ins.(*ssa.UnOp)
				if !ok || u.Op != token.ARROW || !u.CommaOk || u.Referrers() == nil {
					return
				}
				for _, ref := range *u.Referrers() {
					if ex, ok := ref.(*ssa.Extract); ok && ex.Index == 1 {
						if condTrueDominates(f, ex, at) {
							found = true
						}
					}
				}
			})
			return found
		}, 0)
		r.Check(name+" remove only after a received result", okRecv, posOf(p, rm), name, "Remove must be dominated by the ok==true edge of a comma-ok receive from the waiter channel (a closed channel means cancellation: keep the chunk)")
		// keys
		idL := p.Leaves(instrCall(rm).Args[1], provOpts{ParamDepth: 1})
		seqL := p.Leaves(instrCall(rm).Args[2], provOpts{ParamDepth: 1})
		okKeys := hasLeaf(idL, "field:/iscp.Upstream.ID") && hasLeaf(seqL, "field:/message.StreamChunk.SequenceNumber")
		r.Check(name+" remove keyed by own id and number", okKeys, posOf(p, rm), name, "Remove(id from ["+joinLeaves(idL)+"], seq from ["+joinLeaves(seqL)+"])")
	}
	r.Stat("remove_sites", n)
}

// ruleC02R3: cancellation is not a timeout.
func ruleC02R3(r *Run) {
	r.Begin("R3", "cancellation is not a timeout: a select that sends the timeout marker (a nil result) while also watching Done() channels must be preceded, on the path from the timeout case, by a sequential test of the run context's Err(); otherwise a disconnect is reported as an ack timeout with probability 1/2 and the stored chunk is dropped", 1)
	p := r.P
	n := 0
	for _, fn := range p.Funcs {
		if fnPkgPath(fn) != modPath+"/iscp" {
			continue
		}
		allInstrs(fn, func(ins ssa.Instruction) {
			sel, ok := ins.(*ssa.Select)
			if !ok {
				return
			}
			// inner select: has a send of a nil *UpstreamChunkResult (directly, or of a parameter for which some caller
			// passes nil — a local deliver(val) closure) and at least one Done() receive
			var nilSend *ssa.SelectState
			var dones []ssa.Value
			var sites []ssa.Instruction // where the marker is decided: the select itself, or the calls passing nil
			for _, st := range sel.States {
				if st.Dir == types.SendOnly && typeIs(st.Send.Type(), modPath+"/message", "UpstreamChunkResult") {
					if isNilConst(st.Send) {
						nilSend = st
						sites = append(sites, sel)
					} else if prm, isP := canonVal(st.Send).(*ssa.Parameter); isP && prm.Parent() == fn {
						idx := -1
						for i, q := range fn.Params {
							if q == prm {
								idx = i
							}
						}
						var calls []ssa.Instruction
						if fn.Parent() != nil {
							if val, uses, okU := funcValueUses(fn); okU {
								for _, u := range uses {
									if cc := instrCall(u); cc != nil && cc.Value == val {
										calls = append(calls, u)
									}
									// captured by a sibling closure (the goroutine body calls deliver(nil)): calls through its free variable
									if mc, isMC := u.(*ssa.MakeClosure); isMC {
										if g, isF := mc.Fn.(*ssa.Function); isF {
											for bi, b := range mc.Bindings {
												if b != val || bi >= len(g.FreeVars) {
													continue
												}
												fv := g.FreeVars[bi]
												withAnon(g, func(h *ssa.Function) {
													allInstrs(h, func(x ssa.Instruction) {
														if cc := instrCall(x); cc != nil && (cc.Value == ssa.Value(fv) || canonVal(cc.Value) == val) {
															calls = append(calls, x)
														}
													})
												})
											}
										}
									}
									// the closure kept in a local variable: calls through loads of that variable
									if stv, isSt := u.(*ssa.Store); isSt && stv.Val == val {
										// the variable itself captured by a sibling closure: calls through loads of its free variable
										if stv.Addr.Referrers() != nil {
											for _, ar := range *stv.Addr.Referrers() {
												mc, isMC := ar.(*ssa.MakeClosure)
												if !isMC {
													continue
												}
												g, isF := mc.Fn.(*ssa.Function)
												if !isF {
													continue
												}
												for bi, b := range mc.Bindings {
													if b != stv.Addr || bi >= len(g.FreeVars) {
														continue
													}
													fv := g.FreeVars[bi]
													allInstrs(g, func(x ssa.Instruction) {
														cc := instrCall(x)
														if cc == nil {
															return
														}
														if ld, isLd := cc.Value.(*ssa.UnOp); isLd && ld.Op == token.MUL && ld.X == ssa.Value(fv) {
															calls = append(calls, x)
														}
													})
												}
											}
										}
										for _, ld := range loadsOfAddr(stv.Addr) {
											if ld.Referrers() != nil {
												for _, r2 := range *ld.Referrers() {
													if cc := instrCall(r2); cc != nil && cc.Value == ld {
														calls = append(calls, r2)
													}
												}
											}
										}
									}
								}
							}
						} else {
							calls = p.staticCallSites(fn)
						}
						for _, c := range calls {
							if cc := instrCall(c); cc != nil && idx >= 0 && idx < len(cc.Args) && isNilConst(cc.Args[idx]) {
								nilSend = st
								sites = append(sites, c)
							}
						}
					}
				}
				if st.Dir == types.RecvOnly {
					if cx := doneCtx(st.Chan); cx != nil {
						dones = append(dones, cx)
					}
				}
			}
			if nilSend == nil {
				return
			}
			n++
			name := fnName(fn)
			if len(dones) == 0 {
				// no race inside this select; fine
				r.Check(name+" timeout marker", true, p.pos(sel.Pos()), name, "the timeout marker is sent without competing Done() cases")
				return
			}
			// is there a dominating sequential Err() test on one of the watched contexts' roots (before every site)?
			okTest := true
			var tested []string
			for _, site := range sites {
				okSite := false
				allInstrs(site.Parent(), func(x ssa.Instruction) {
					c, ok := x.(*ssa.Call)
					if !ok || !c.Call.IsInvoke() || c.Call.Method.Name() != "Err" || !isContextType(c.Call.Value.Type()) {
						return
					}
					if !dominatesInstr(c, site) {
						return
					}
					// result must feed an If (possibly through a comparison)
					feeds := false
					if c.Referrers() != nil {
						for _, ref := range *c.Referrers() {
							switch y := ref.(type) {
							case *ssa.BinOp:
								if y.Referrers() != nil {
									for _, r2 := range *y.Referrers() {
										if ifs, isIf := r2.(*ssa.If); isIf {
											// polarity: the marker is sent only on the edge where Err() is nil
											if ne := nilEdge(ifs, ssa.Value(c)); ne != nil && edgeDominates(ifs.Block(), ne, site.Block()) {
												feeds = true
											}
										}
									}
								}
							case *ssa.Call: // errors.Is(ctx.Err(), …)
								feeds = true
							}
						}
					}
					if !feeds {
						return
					}
					tv := canonVal(c.Call.Value)
					for _, d := range dones {
						for _, rt := range ctxRoots(d) {
							rv := canonVal(rt)
							// a context the helper got as a parameter is, at the call, the argument handed in
							if prm, isP := rv.(*ssa.Parameter); isP && prm.Parent() == fn && site != ssa.Instruction(sel) {
								if cc := instrCall(site); cc != nil {
									for i, q := range fn.Params {
										if q == prm && i < len(cc.Args) {
											rv = canonVal(cc.Args[i])
										}
									}
								}
							}
							// the same field of the same receiver read in helper and caller (u.ctx)
							sameField := false
							if pa, pb := pathOf(rt), pathOf(c.Call.Value); pa != nil && pb != nil && pa.Last() != nil && pa.Last() == pb.Last() {
								sameField = true
							}
							if rv == tv || sameField {
								okSite = true
								tested = append(tested, pathOf(c.Call.Value).String())
							}
						}
					}
				})
				if !okSite {
					okTest = false
				}
			}
			r.Check(name+" timeout marker", okTest, p.pos(sel.Pos()), name,
				fmt.Sprintf("select sends the nil (timeout) result while watching %d Done() channel(s); dominating sequential Err() test on a watched context: %v %v", len(dones), okTest, tested),
				"entry: "+name, "select: "+p.pos(sel.Pos()))
		})
	}
	r.Stat("timeout_marker_selects", n)
}

func ruleC02R4(r *Run) {
	r.Begin("R4", "resume keeps identity: UpstreamResumeRequest.StreamID derives only from Upstream.ID; Upstream.ID is stored only by the constructor literal", 2)
	p := r.P
	req := r.named("/message", "UpstreamResumeRequest")
	if req == nil {
		return
	}
	n := 0
	for _, lit := range p.allLiterals(req) {
		if fnPkgPath(lit.Fn) != modPath+"/iscp" {
			continue
		}
		n++
		name := fnName(lit.Fn)
		v, ok := lit.Fields["StreamID"]
		if !ok {
			r.Check(name+" StreamID", false, p.pos(lit.Alloc.Pos()), name, "resume request without StreamID")
			continue
		}
		leaves := p.Leaves(v, provOpts{})
		bad := leavesWithin(leaves, []string{"field:/iscp.Upstream.ID", "param:*"})
		r.Check(name+" StreamID", hasLeaf(leaves, "field:/iscp.Upstream.ID") && len(bad) == 0, p.pos(lit.Alloc.Pos()), name, "StreamID derives from ["+joinLeaves(leaves)+"]")
	}
	if n == 0 {
		r.Undecided("resume request literal", "no UpstreamResumeRequest literal in package iscp")
	}
	if f := r.field("/iscp", "Upstream", "ID"); f != nil {
		for _, st := range p.fieldStores(f) {
			fa := st.Addr.(*ssa.FieldAddr)
			r.Check("Upstream.ID stored in "+fnName(st.Parent()), isLocalObject(pathOf(fa.X)), p.pos(st.Pos()), fnName(st.Parent()), "Upstream.ID may be set only while constructing the stream")
		}
	}
}

func ruleC02R5b(r *Run) {
	p := r.P
	// the retransmit closure: ranges over List's result and starts a transmission per entry
	n := 0
	for _, ls := range p.moduleCalls("/iscp.sentStorage.List") {
		fn := ls.Parent()
		if strings.Contains(recvTypeName(fn), "Storage") {
			continue
		}
		// only the retransmit site: a function that also builds an UpstreamChunk
		up := p.Named("/message", "UpstreamChunk")
		if up == nil {
			continue
		}
		builds := len(literalsOf(fn, up)) > 0
		if !builds {
			// the chunk may be rebuilt in a helper the loop calls
			allInstrs(fn, func(ins ssa.Instruction) {
				if c, ok := ins.(*ssa.Call); ok {
					if cf := c.Call.StaticCallee(); cf != nil && p.Analysed(cf) && len(literalsOf(cf, up)) > 0 {
						builds = true
					}
				}
			})
		}
		if !builds {
			continue
		}
		n++
		name := fnName(fn)
		sends := sendStarters(p, fn)
		inLoopSend := false
		for _, s := range sends {
			if inLoop(s) {
				inLoopSend = true
			}
		}
		r.Check(name+" retransmits each entry", inLoopSend, posOf(p, ls), name, fmt.Sprintf("%d transmission call(s), inside the range loop: %v", len(sends), inLoopSend))
		// …and no iteration is skipped: from the loop body the next iteration is not reachable without a transmission
		allInstrs(fn, func(ins ssa.Instruction) {
			nx, isNext := ins.(*ssa.Next)
			if !isNext || !hasLeafPrefix(p.Leaves(nx.Iter.(*ssa.Range).X, provOpts{}), "call:/iscp.sentStorage.List") {
				return
			}
			var body *ssa.BasicBlock
			if ifs, isIf := nx.Block().Instrs[len(nx.Block().Instrs)-1].(*ssa.If); isIf {
				body = ifs.Block().Succs[0]
			}
			if body == nil {
				return
			}
			isSend := map[ssa.Instruction]bool{}
			for _, s := range sends {
				isSend[s] = true
			}
			w := reachesWithoutFromBlock(body, func(x ssa.Instruction) bool { return x == ssa.Instruction(nx) }, func(x ssa.Instruction) bool { return isSend[x] })
			r.Check(name+" skips no stored chunk", w == nil, posOf(p, nx), name, "from the body of the loop over the stored chunks the next iteration is reachable without starting a transmission: that chunk stays unacknowledged in the store and never reaches the broker")
		})
		// the retransmit goroutine is created only on the reliable branch
		reliable, _ := p.enumConst("/message", "QoSReliable")
		parent := fn.Parent()
		if parent != nil {
			val, uses, ok := funcValueUses(fn)
			_ = val
			okBranch := false
			if ok {
				for _, u := range uses {
					allInstrs(parent, func(ins ssa.Instruction) {
						ifs, isIf := ins.(*ssa.If)
						if !isIf {
							return
						}
						bo, isBo := ifs.Cond.(*ssa.BinOp)
						if !isBo || bo.Op != token.EQL {
							return
						}
						if v, isC := constInt(bo.Y); isC && v == reliable {
							if edgeDominates(ifs.Block(), ifs.Block().Succs[0], u.Block()) {
								okBranch = true
							}
						}
					})
				}
			}
			r.Check(name+" only for reliable", okBranch, posOf(p, ls), name, "the retransmission of stored chunks must be started on the QoS == QoSReliable edge")
		}
	}
	if n == 0 {
		r.Check("retransmit site exists", false, "", "", "no function lists the stored chunks and rebuilds UpstreamChunk messages from them: unacknowledged chunks are never retransmitted")
	}
}

// ruleC02R6: some store that can flow into a stream keeps what it is given.
func ruleC02R6(r *Run) {
	r.Begin("R6", "payload retention: among the concrete sentStorage values that can flow into Upstream.sent (followed through Conn.sentStorage and ConnConfig.sentStorage to the constructors that create them), at least one keeps the groups it is given unchanged (its Store puts its parameter, not a transformation of it, into the map it Lists from)", 1)
	p := r.P
	flow := p.fieldStoreLeaves("/iscp.Upstream.sent", provOpts{IntoCallees: true})
	// expand through the config chain
	seenF := map[string]bool{}
	var ctors []string
	work := flow
	for round := 0; round < 5; round++ {
		var next []string
		for _, l := range work {
			switch {
			case strings.HasPrefix(l, "field:"):
				k := l[6:]
				if !seenF[k] {
					seenF[k] = true
					next = append(next, p.fieldStoreLeaves(k, provOpts{IntoCallees: true})...)
				}
			case strings.HasPrefix(l, "zero:"):
				k := l[5:]
				if !seenF[k] {
					seenF[k] = true
					next = append(next, p.fieldStoreLeaves(k, provOpts{IntoCallees: true})...)
				}
			case strings.HasPrefix(l, "alloc:"):
				ctors = append(ctors, l[6:])
			}
		}
		work = next
		if len(work) == 0 {
			break
		}
	}
	// candidate concrete types: allocations of named types implementing sentStorage
	ifaceN := r.named("/iscp", "sentStorage")
	if ifaceN == nil {
		return
	}
	iface := ifaceN.Underlying().(*types.Interface)
	cands := map[string]*types.Named{}
	for _, n := range p.implementers(iface, false) {
		tn := strings.TrimPrefix(typeKey(n), modPath)
		tn = strings.Replace(tn, "/iscp.", "/iscp.", 1)
		for _, c := range ctors {
			if c == "/iscp."+n.Obj().Name() || c == tn {
				cands[n.Obj().Name()] = n
			}
		}
	}
	if len(cands) == 0 {
		r.Undecided("candidates", fmt.Sprintf("no concrete sentStorage allocation found flowing into Upstream.sent (flow leaves: %v, allocs: %v)", flow, ctors))
		return
	}
	var names []string
	lossless := 0
	for name, n := range cands {
		names = append(names, name)
		if storeKeepsPayload(p, n, 0) {
			lossless++
		}
	}
	r.Check("a payload-retaining store can reach a stream", lossless > 0, "", "", fmt.Sprintf("stores that can flow into Upstream.sent: %v; %d of them keep the payload. With none, every retransmitted chunk of a reliable stream carries empty payloads", names, lossless))
}

// storeKeepsPayload: the Store method of n puts its groups parameter itself into a map, or hands it
// unchanged to the Store of a field whose type keeps it.
func storeKeepsPayload(p *Prog, n *types.Named, depth int) bool {
	if depth > 3 {
		return false
	}
	fn := p.methodOf(n, "Store")
	if fn == nil || fn.Blocks == nil {
		return false
	}
	var groups *ssa.Parameter
	for _, prm := range fn.Params {
		if typeIs(prm.Type(), modPath+"/iscp", "DataPointGroups") {
			groups = prm
		}
	}
	if groups == nil {
		return false
	}
	keeps := false
	isGroups := func(v ssa.Value) bool { return canonVal(v) == ssa.Value(groups) || paramOf(v) == groups }
	// (the method body and the closures it hands to helpers such as x.locked(func(){…}))
	withAnon(fn, func(f *ssa.Function) {
		allInstrs(f, func(ins ssa.Instruction) {
			switch x := ins.(type) {
			case *ssa.MapUpdate:
				if isGroups(x.Value) {
					keeps = true
				}
			case *ssa.Call:
				// delegation: inner.Store(ctx, id, seq, groups)
				if o := calleeObj(&x.Call); o != nil && o.Name() == "Store" {
					args := x.Call.Args
					if len(args) > 0 && isGroups(args[len(args)-1]) {
						var inner *types.Named
						if x.Call.IsInvoke() {
							return // unknown concrete type behind an interface: not counted
						}
						if cf := x.Call.StaticCallee(); cf != nil && cf.Signature.Recv() != nil {
							inner = namedOf(cf.Signature.Recv().Type())
						}
						if inner != nil && storeKeepsPayload(p, inner, depth+1) {
							keeps = true
						}
					}
				}
			}
		})
	})
	return keeps
}

func ruleC02R7(r *Run) {
	r.Begin("R7", "resume re-subscribes under the new alias: in Upstream.resume the ack subscription stored in Upstream.ackCh is obtained with the resume response's AssignedStreamIDAlias, and Upstream.idAlias is set from the same field", 2)
	p := r.P
	fn := r.method("/iscp", "Upstream", "resume")
	if fn == nil {
		return
	}
	name := fnName(fn)
	okAlias, okSub := false, false
	detail := ""
	allInstrs(fn, func(ins ssa.Instruction) {
		if isStoreTo(ins, "/iscp.Upstream.idAlias") {
			l := p.Leaves(ins.(*ssa.Store).Val, provOpts{})
			detail += " idAlias<-[" + joinLeaves(l) + "]"
			if hasLeaf(l, "field:/message.UpstreamResumeResponse.AssignedStreamIDAlias") {
				okAlias = true
			}
		}
		if isStoreTo(ins, "/iscp.Upstream.ackCh") {
			l := p.Leaves(ins.(*ssa.Store).Val, provOpts{})
			detail += " ackCh<-[" + joinLeaves(l) + "]"
			if hasLeaf(l, "call:/wire.ClientConn.SubscribeUpstreamChunkAck") && hasLeaf(l, "field:/message.UpstreamResumeResponse.AssignedStreamIDAlias") {
				okSub = true
			}
		}
	})
	r.Check(name+" alias from response", okAlias, p.pos(fn.Pos()), name, detail)
	r.Check(name+" subscription from response alias", okSub, p.pos(fn.Pos()), name, detail)
}

// ruleC02R8: a closed result channel (cancellation) is never forwarded as a result.
func ruleC02R8(r *Run) {
	r.Begin("R8", "a closed result channel is not a result: wherever a select receives from a per-chunk result channel (element type *message.UpstreamChunkResult) and forwards what it got, the receive is a comma-ok receive and the closed edge forwards nothing — the library closes those channels on teardown, and a nil 'result' would be taken for an ack timeout and drop the stored chunk", 1)
	p := r.P
	n := 0
	for _, fn := range p.Funcs {
		if fnPkgPath(fn) != modPath+"/iscp" {
			continue
		}
		allInstrs(fn, func(ins ssa.Instruction) {
			sel, ok := ins.(*ssa.Select)
			if !ok {
				return
			}
			for i, st := range sel.States {
				if st.Dir != types.RecvOnly {
					continue
				}
				ch, isCh := st.Chan.Type().Underlying().(*types.Chan)
				if !isCh || !typeIs(ch.Elem(), modPath+"/message", "UpstreamChunkResult") {
					continue
				}
				// forwards? some send state in this function sends a value of that type
				forwards := false
				allInstrs(fn, func(x ssa.Instruction) {
					if s2, isSel := x.(*ssa.Select); isSel {
						for _, st2 := range s2.States {
							if st2.Dir == types.SendOnly && typeIs(st2.Send.Type(), modPath+"/message", "UpstreamChunkResult") {
								forwards = true
							}
						}
					}
				})
				// or hands what it got to a call (a local deliver(val) closure): the received value is an argument
				if !forwards && sel.Referrers() != nil {
					for _, ref := range *sel.Referrers() {
						ex, isEx := ref.(*ssa.Extract)
						if !isEx || ex.Index < 2 || ex.Referrers() == nil || !typeIs(ex.Type(), modPath+"/message", "UpstreamChunkResult") {
							continue
						}
						for _, r2 := range *ex.Referrers() {
							if cc := instrCall(r2); cc != nil {
								for _, a := range cc.Args {
									if a == ssa.Value(ex) {
										forwards = true
									}
								}
							}
						}
					}
				}
				if !forwards {
					continue
				}
				n++
				name := fnName(fn)
				// recvOk = Extract #1 used by an If
				okChk := false
				if sel.Referrers() != nil {
					for _, ref := range *sel.Referrers() {
						if ex, isEx := ref.(*ssa.Extract); isEx && ex.Index == 1 && ex.Referrers() != nil {
							for _, r2 := range *ex.Referrers() {
								if _, isIf := r2.(*ssa.If); isIf {
									okChk = true
								}
							}
						}
					}
				}
				r.Check(fmt.Sprintf("%s case#%d comma-ok", name, i), okChk, p.pos(sel.Pos()), name, "receive from a per-chunk result channel without testing whether the channel was closed")
			}
		})
	}
	if n == 0 {
		r.Undecided("result forwarders", "no select forwards per-chunk results")
	}
}

// ruleC02R11: a chunk's acknowledgement is routed to the goroutine waiting for it through the table
// upstreamChunkResultChs. Every start of a transmission-and-wait (first transmission and retransmission after a resume)
// must therefore be preceded by the registration of the very channel it is going to wait on, under the chunk's own
// sequence number; otherwise the result is never delivered, the chunk never leaves the store and Close waits in vain.
func ruleC02R11(r *Run) {
	r.Begin("R11", "the waiter is registered before it waits: every call (or go statement) of Upstream.sendChunkAndWaitAck is dominated by a map update that stores its channel argument into Upstream.upstreamChunkResultChs under a key that derives from the chunk's sequence number", 2)
	p := r.P
	target := r.method("/iscp", "Upstream", "sendChunkAndWaitAck")
	if target == nil {
		return
	}
	n := 0
	for _, fn := range p.Funcs {
		if fnPkgPath(fn) != modPath+"/iscp" || fn.Blocks == nil {
			continue
		}
		k := 0
		allInstrs(fn, func(ins ssa.Instruction) {
			cc := instrCall(ins)
			if cc == nil || cc.StaticCallee() != target {
				return
			}
			n++
			k++
			name := fnName(fn)
			chArg := cc.Args[len(cc.Args)-1]
			chunkArg := cc.Args[len(cc.Args)-2]
			ok, keyOK := false, false
			allInstrs(fn, func(x ssa.Instruction) {
				mu, isMU := x.(*ssa.MapUpdate)
				if !isMU || !hasLeaf(p.Leaves(mu.Map, provOpts{}), "field:/iscp.Upstream.upstreamChunkResultChs") {
					return
				}
				if !(canonVal(mu.Value) == canonVal(chArg) || sameValue(mu.Value, chArg)) || !dominatesInstr(mu, ins) {
					return
				}
				ok = true
				kl := p.Leaves(mu.Key, provOpts{})
				if hasLeaf(kl, "field:/message.StreamChunk.SequenceNumber") || hasLeafPrefix(kl, "rangekey:") || hasLeaf(kl, "call:/iscp.sequenceNumberGenerator.Next") {
					keyOK = true
				}
			})
			_ = chunkArg
			r.Check(fmt.Sprintf("%s transmission#%d waiter registered", name, k), ok && keyOK, posOf(p, ins), name, fmt.Sprintf("channel stored into upstreamChunkResultChs before the call: %v; under the chunk's sequence number: %v", ok, keyOK))
		})
	}
	if n == 0 {
		r.Undecided("transmission sites", "no call of sendChunkAndWaitAck found")
	}
	// the non-reliable branch of a resume clears the store (chunks that will not be retransmitted must not keep Close waiting)
	run := r.method("/iscp", "Upstream", "run")
	if run != nil {
		clears := 0
		withAnon(run, func(f *ssa.Function) {
			clears += len(findCalls(f, false, "/iscp.sentStorage.Clear"))
		})
		r.Check(fnName(run)+" clears the store when a non-reliable stream resumes", clears > 0, p.pos(run.Pos()), fnName(run), fmt.Sprintf("%d call(s) of sentStorage.Clear in run: chunks of an unreliable stream are not retransmitted after a resume, so they have to leave the store or Close waits for acknowledgements that cannot come", clears))
		// …and it does so on the resume edge
		for _, c := range findCalls(run, false, "/iscp.sentStorage.Clear") {
			okEdge := false
			allInstrs(run, func(x ssa.Instruction) {
				ifs, isIf := x.(*ssa.If)
				if !isIf {
					return
				}
				if prm, isP := ifs.Cond.(*ssa.Parameter); isP && prm.Type().String() == "bool" && edgeDominates(ifs.Block(), ifs.Block().Succs[0], c.Block()) {
					okEdge = true
				}
			})
			r.Check(fnName(run)+" clears only on resume", okEdge, posOf(p, c), fnName(run), "the Clear must lie on the true edge of the isResume parameter")
		}
	}
}

// replacesEntry: the Remove at rm and a Store in the same function form a replacement of the entry — the Store is keyed
// by the same sequence-number value, what it stores derives from what the Remove returned, and it is reached whenever
// the Remove succeeded (it lies on the nil-error edge and no return is reachable from that edge without it). The chunk
// never leaves the storage as far as other goroutines holding the same lock can tell.
func replacesEntry(p *Prog, rm ssa.Instruction) (ssa.Instruction, bool) {
	fn := rm.Parent()
	rmc, ok := rm.(*ssa.Call)
	if !ok {
		return nil, false
	}
	rargs := callArgs(&rmc.Call)
	var found ssa.Instruction
	for _, st := range findCalls(fn, false, "/iscp.sentStorage.Store") {
		sc, isC := st.(*ssa.Call)
		if !isC {
			continue
		}
		sargs := callArgs(&sc.Call)
		if len(sargs) < 5 || len(rargs) < 4 {
			continue
		}
		if canonVal(sargs[3]) != canonVal(rargs[3]) {
			continue
		}
		from := false
		for _, l := range p.Leaves(sargs[4], provOpts{}) {
			if l == "call:/iscp.sentStorage.Remove" {
				from = true
			}
		}
		if !from || !guardedByNilErr(rmc, st) {
			continue
		}
		found = st
	}
	return found, found != nil
}
