package main

import (
	"fmt"
	"go/token"
	"go/types"
	"sort"
	"strings"

	"golang.org/x/tools/go/ssa"
)

// ---- lock events ----

type lockOp int

const (
	opNone lockOp = iota
	opLock
	opUnlock
	opRLock
	opRUnlock
	opWait // (*sync.Cond).Wait: needs L held
)

const (
	modeR = 1
	modeW = 2
)

// classifyLockCall recognises lock operations by resolved callee, never by name alone.
func classifyLockCall(c *ssa.CallCommon) (op lockOp, recv ssa.Value) {
	o := calleeObj(c)
	if o == nil || o.Pkg() == nil || o.Pkg().Path() != "sync" {
		return opNone, nil
	}
	args := callArgs(c)
	if len(args) == 0 {
		return opNone, nil
	}
	rn := recvNamed(o)
	if c.IsInvoke() {
		// sync.Locker
		if it, ok := c.Value.Type().Underlying().(*types.Interface); ok && it.NumMethods() == 2 {
			switch o.Name() {
			case "Lock":
				return opLock, c.Value
			case "Unlock":
				return opUnlock, c.Value
			}
		}
		return opNone, nil
	}
	switch rn {
	case "Mutex":
		switch o.Name() {
		case "Lock":
			return opLock, args[0]
		case "Unlock":
			return opUnlock, args[0]
		}
	case "RWMutex":
		switch o.Name() {
		case "Lock":
			return opLock, args[0]
		case "Unlock":
			return opUnlock, args[0]
		case "RLock":
			return opRLock, args[0]
		case "RUnlock":
			return opRUnlock, args[0]
		}
	case "Cond":
		if o.Name() == "Wait" {
			return opWait, args[0]
		}
	}
	return opNone, nil
}

// ---- alias table: cond.L ≡ embedded RWMutex, verified from constructors ----

type lockAliases struct {
	// owner struct type name (pkgpath.Type) -> true when cond.L and RWMutex are the same lock
	condIsRW map[string]bool
	verified []string
}

func typeKey(n *types.Named) string {
	if n == nil || n.Obj().Pkg() == nil {
		return ""
	}
	return n.Obj().Pkg().Path() + "." + n.Obj().Name()
}

// buildLockAliases verifies, for every struct with fields {RWMutex *sync.RWMutex (embedded), cond *sync.Cond},
// that its constructor passes the same &mu to both.
func buildLockAliases(p *Prog) *lockAliases {
	la := &lockAliases{condIsRW: map[string]bool{}}
	for _, fn := range p.Funcs {
		// look for: store X into field RWMutex of alloc A; store NewCond(MakeInterface(X)) into field cond of A
		type rec struct{ rw, cond ssa.Value }
		recs := map[string]*rec{}
		allInstrs(fn, func(ins ssa.Instruction) {
			st, ok := ins.(*ssa.Store)
			if !ok {
				return
			}
			fa, ok := st.Addr.(*ssa.FieldAddr)
			if !ok {
				return
			}
			f := fieldOf(fa.X.Type(), fa.Field)
			owner := namedOf(fa.X.Type())
			if f == nil || owner == nil {
				return
			}
			k := typeKey(owner)
			if recs[k] == nil {
				recs[k] = &rec{}
			}
			if f.Embedded() && typeIs(f.Type(), "sync", "RWMutex") {
				recs[k].rw = st.Val
			}
			if f.Name() == "cond" && typeIs(f.Type(), "sync", "Cond") {
				if call, ok := st.Val.(*ssa.Call); ok {
					if o := calleeObj(&call.Call); o != nil && isFuncNamed(o, "sync", "", "NewCond") {
						a := call.Call.Args[0]
						if mi, ok := a.(*ssa.MakeInterface); ok {
							a = mi.X
						}
						recs[k].cond = a
					}
				}
			}
		})
		for k, r := range recs {
			if r.rw != nil && r.cond != nil && r.rw == r.cond {
				if !la.condIsRW[k] {
					la.condIsRW[k] = true
					la.verified = append(la.verified, k+" (in "+fnName(fn)+")")
				}
			}
		}
	}
	sort.Strings(la.verified)
	return la
}

// canonKey renders a lock path as canonical key string, folding verified aliases.
func (la *lockAliases) canonKey(pt *Path) string {
	if pt == nil {
		return ""
	}
	n := len(pt.Fields)
	if n >= 2 && pt.Fields[n-1].Name() == "L" && pt.Fields[n-2].Name() == "cond" {
		// owner of cond
		var ownerT types.Type
		if n >= 3 {
			ownerT = pt.Fields[n-3].Type()
		} else if pt.Root != nil {
			ownerT = pt.Root.Type()
			// allocs/freevars are pointers to the variable
			if _, ok := pt.Root.(*ssa.Alloc); ok {
				ownerT = deref(ownerT)
			}
			if _, ok := pt.Root.(*ssa.FreeVar); ok {
				if nn := namedOf(ownerT); nn == nil {
					ownerT = deref(ownerT)
				}
			}
		}
		if on := namedOf(ownerT); on != nil && la.condIsRW[typeKey(on)] {
			base := pt.Prefix(2)
			return base.String() + ".RWMutex"
		}
	}
	return pt.String()
}

// ---- per-function dataflow ----

type heldInfo struct {
	Mode  int
	Depth int
	Site  token.Pos
}

type deferAct struct {
	op    lockOp
	key   string
	delta map[string]heldInfo // closure summary (applied as delta)
	pos   token.Pos
}

type lstate struct {
	held   map[string]heldInfo
	defers []deferAct
}

func (s *lstate) clone() *lstate {
	n := &lstate{held: make(map[string]heldInfo, len(s.held))}
	for k, v := range s.held {
		n.held[k] = v
	}
	n.defers = append([]deferAct{}, s.defers...)
	return n
}

func (s *lstate) key() string {
	ks := make([]string, 0, len(s.held))
	for k, v := range s.held {
		ks = append(ks, fmt.Sprintf("%s:%d:%d", k, v.Mode, v.Depth))
	}
	sort.Strings(ks)
	var sb strings.Builder
	sb.WriteString(strings.Join(ks, ","))
	sb.WriteByte('|')
	for _, d := range s.defers {
		fmt.Fprintf(&sb, "%d:%s:%d;", d.op, d.key, d.pos)
	}
	return sb.String()
}

type lockReport struct {
	Kind   string // leak | reacquire | release-unheld | wait-without-L | inconsistent-exit | unresolved
	Fn     *ssa.Function
	Key    string
	Site   token.Pos // acquire site (or op site)
	At     token.Pos // where it manifests
	Detail string
	Trace  []string
}

type fnLockInfo struct {
	Fn       *ssa.Function
	Events   int
	Acquires []token.Pos
	// summary: net effect at exit relative to entry (consistent over all returns), nil if zero
	Summary    map[string]heldInfo
	Reports    []lockReport
	heldAt     map[ssa.Instruction]map[string]int // must-held (intersection over states): key -> mode
	mayHeldAt  map[ssa.Instruction]map[string]int // may-held (union over states): key -> strongest mode seen
	keyField   map[string]*types.Var              // lock key -> the lock's field object (nil for non-field locks)
	keyLock    map[string]*types.Var              // lock key -> lock identity (cond.L folded onto its cond field / embedded RWMutex)
	Returns    int
	StatesSeen int
}

type LockEngine struct {
	P       *Prog
	Aliases *lockAliases
	info    map[*ssa.Function]*fnLockInfo
	busy    map[*ssa.Function]bool
	callers map[*ssa.Function]int // number of static call sites (call/defer) in analysed code
}

func newLockEngine(p *Prog) *LockEngine {
	le := &LockEngine{P: p, Aliases: buildLockAliases(p), info: map[*ssa.Function]*fnLockInfo{}, busy: map[*ssa.Function]bool{}, callers: map[*ssa.Function]int{}}
	for _, fn := range p.Funcs {
		allInstrs(fn, func(ins ssa.Instruction) {
			switch x := ins.(type) {
			case *ssa.Call:
				if c := x.Call.StaticCallee(); c != nil {
					le.callers[c]++
				} else if cf := closureOf(x.Call.Value); cf != nil {
					le.callers[cf]++
				}
			case *ssa.Defer:
				if c := x.Call.StaticCallee(); c != nil {
					le.callers[c]++
				} else if cf := closureOf(x.Call.Value); cf != nil {
					le.callers[cf]++
				}
			}
		})
	}
	return le
}

func (le *LockEngine) Info(fn *ssa.Function) *fnLockInfo {
	if fi, ok := le.info[fn]; ok {
		return fi
	}
	if le.busy[fn] || fn.Blocks == nil {
		return &fnLockInfo{Fn: fn}
	}
	le.busy[fn] = true
	fi := le.analyse(fn)
	le.busy[fn] = false
	le.info[fn] = fi
	return fi
}

// translate maps a callee-summary key (rooted at a callee parameter) into the caller's terms.
func (le *LockEngine) translateSummary(calleeFn *ssa.Function, sum map[string]heldInfo, args []ssa.Value) (map[string]heldInfo, bool) {
	out := map[string]heldInfo{}
	for k, v := range sum {
		done := false
		for i, prm := range calleeFn.Params {
			pn := prm.Name()
			if k == pn || strings.HasPrefix(k, pn+".") {
				if i >= len(args) {
					return nil, false
				}
				ap := pathOf(args[i])
				if ap == nil {
					return nil, false
				}
				nk := ap.String() + strings.TrimPrefix(k, pn)
				out[nk] = v
				done = true
				break
			}
		}
		if !done {
			// free variables are already expressed in the parent's terms; globals stay
			out[k] = v
		}
	}
	return out, true
}

func (le *LockEngine) analyse(fn *ssa.Function) *fnLockInfo {
	fi := &fnLockInfo{Fn: fn, heldAt: map[ssa.Instruction]map[string]int{}, keyField: map[string]*types.Var{}, keyLock: map[string]*types.Var{}}
	if len(fn.Blocks) == 0 {
		return fi
	}
	type item struct {
		b *ssa.BasicBlock
		s *lstate
	}
	visited := map[string]bool{}
	work := []item{{fn.Blocks[0], &lstate{held: map[string]heldInfo{}}}}
	reported := map[string]bool{}
	report := func(r lockReport) {
		k := r.Kind + "|" + r.Key + "|" + fmt.Sprint(r.Site) + "|" + fmt.Sprint(r.At)
		if reported[k] {
			return
		}
		reported[k] = true
		r.Fn = fn
		fi.Reports = append(fi.Reports, r)
	}
	var exitSummaries []map[string]heldInfo
	var exitPos []token.Pos
	acqSeen := map[token.Pos]bool{}

	apply := func(s *lstate, op lockOp, key string, pos token.Pos, isDefer bool) {
		h := s.held[key]
		switch op {
		case opLock, opRLock:
			mode := modeW
			if op == opRLock {
				mode = modeR
			}
			if h.Depth > 0 {
				report(lockReport{Kind: "reacquire", Key: key, Site: h.Site, At: pos,
					Detail: fmt.Sprintf("lock %s acquired at %s is acquired again at %s while still held (self-deadlock for Lock; RLock nesting deadlocks with a waiting writer)", key, le.P.pos(h.Site), le.P.pos(pos))})
				return // keep depth bounded
			}
			s.held[key] = heldInfo{Mode: mode, Depth: h.Depth + 1, Site: pos}
		case opUnlock, opRUnlock:
			if h.Depth <= 0 {
				// release of something not acquired here: entry-held (negative) — legal for helpers; recorded in summary
				if h.Depth <= -1 {
					report(lockReport{Kind: "release-unheld", Key: key, Site: pos, At: pos,
						Detail: fmt.Sprintf("lock %s released twice at %s without being held", key, le.P.pos(pos))})
					return
				}
				mode := modeW
				if op == opRUnlock {
					mode = modeR
				}
				s.held[key] = heldInfo{Mode: mode, Depth: -1, Site: pos}
				return
			}
			if (op == opRUnlock) != (h.Mode == modeR) {
				report(lockReport{Kind: "mode-mismatch", Key: key, Site: h.Site, At: pos,
					Detail: fmt.Sprintf("lock %s acquired at %s in mode %s is released at %s with the other mode's unlock", key, le.P.pos(h.Site), modeName(h.Mode), le.P.pos(pos))})
			}
			if h.Depth == 1 {
				delete(s.held, key)
			} else {
				h.Depth--
				s.held[key] = h
			}
		case opWait:
			if h.Depth <= 0 {
				report(lockReport{Kind: "wait-without-L", Key: key, Site: pos, At: pos,
					Detail: fmt.Sprintf("sync.Cond.Wait at %s without holding %s", le.P.pos(pos), key)})
			}
		}
	}
	applyDelta := func(s *lstate, delta map[string]heldInfo, pos token.Pos) {
		keys := make([]string, 0, len(delta))
		for k := range delta {
			keys = append(keys, k)
		}
		sort.Strings(keys)
		for _, k := range keys {
			d := delta[k]
			if d.Depth > 0 {
				op := opLock
				if d.Mode == modeR {
					op = opRLock
				}
				apply(s, op, k, pos, false)
			} else if d.Depth < 0 {
				op := opUnlock
				if d.Mode == modeR {
					op = opRUnlock
				}
				apply(s, op, k, pos, false)
			}
		}
	}

	for len(work) > 0 {
		it := work[len(work)-1]
		work = work[:len(work)-1]
		vk := fmt.Sprintf("%d#%s", it.b.Index, it.s.key())
		if visited[vk] {
			continue
		}
		visited[vk] = true
		fi.StatesSeen++
		if fi.StatesSeen > 20000 {
			report(lockReport{Kind: "unresolved", Key: "state-explosion", Detail: "lock-state exploration exceeded 20000 states"})
			break
		}
		s := it.s.clone()
		terminated := false
		for _, ins := range it.b.Instrs {
			// record may-held (union over the explored states)
			if fi.mayHeldAt == nil {
				fi.mayHeldAt = map[ssa.Instruction]map[string]int{}
			}
			mh := fi.mayHeldAt[ins]
			if mh == nil {
				mh = map[string]int{}
				fi.mayHeldAt[ins] = mh
			}
			for k, v := range s.held {
				if v.Depth > 0 && v.Mode > mh[k] {
					mh[k] = v.Mode
				}
			}
			// record must-held
			cur := fi.heldAt[ins]
			if cur == nil {
				cur = map[string]int{}
				for k, v := range s.held {
					if v.Depth > 0 {
						cur[k] = v.Mode
					}
				}
				fi.heldAt[ins] = cur
			} else {
				for k, m := range cur {
					v, ok := s.held[k]
					if !ok || v.Depth <= 0 {
						delete(cur, k)
					} else if v.Mode < m {
						cur[k] = v.Mode
					}
				}
			}
			switch x := ins.(type) {
			case *ssa.Call:
				op, recv := classifyLockCall(&x.Call)
				if op != opNone {
					fi.Events++
					pt := pathOf(recv)
					if pt == nil {
						report(lockReport{Kind: "unresolved", Key: "recv@" + fnName(fn), Site: x.Pos(), At: x.Pos(), Detail: "lock operation on a receiver whose access path cannot be resolved"})
						continue
					}
					key := le.Aliases.canonKey(pt)
					fi.keyField[key] = pt.Last()
					fi.keyLock[key] = le.lockField(pt)
					if op == opWait {
						key = le.Aliases.canonKey(pt.with(condLField(recv)))
					}
					if (op == opLock || op == opRLock) && !acqSeen[x.Pos()] {
						acqSeen[x.Pos()] = true
						fi.Acquires = append(fi.Acquires, x.Pos())
					}
					apply(s, op, key, x.Pos(), false)
					continue
				}
				// calls with lock summaries
				var cf *ssa.Function
				if c := x.Call.StaticCallee(); c != nil {
					cf = c
				} else if c := closureOf(x.Call.Value); c != nil {
					cf = c
				}
				if cf != nil && le.P.Analysed(cf) {
					ci := le.Info(cf)
					if len(ci.Summary) > 0 {
						d, ok := le.translateSummary(cf, ci.Summary, x.Call.Args)
						if !ok {
							report(lockReport{Kind: "unresolved", Key: "summary@" + fnName(cf), Site: x.Pos(), At: x.Pos(), Detail: "cannot map lock summary of callee " + fnName(cf) + " to this call site"})
						} else {
							applyDelta(s, d, x.Pos())
						}
					}
				}
			case *ssa.Defer:
				op, recv := classifyLockCall(&x.Call)
				if op != opNone {
					fi.Events++
					pt := pathOf(recv)
					if pt == nil {
						report(lockReport{Kind: "unresolved", Key: "recv@" + fnName(fn), Site: x.Pos(), At: x.Pos(), Detail: "deferred lock operation on a receiver whose access path cannot be resolved"})
						continue
					}
					s.defers = append(s.defers, deferAct{op: op, key: le.Aliases.canonKey(pt), pos: x.Pos()})
					continue
				}
				var cf *ssa.Function
				if c := x.Call.StaticCallee(); c != nil {
					cf = c
				} else if c := closureOf(x.Call.Value); c != nil {
					cf = c
				}
				if cf != nil && le.P.Analysed(cf) {
					ci := le.Info(cf)
					if len(ci.Summary) > 0 {
						d, ok := le.translateSummary(cf, ci.Summary, x.Call.Args)
						if !ok {
							report(lockReport{Kind: "unresolved", Key: "summary@" + fnName(cf), Site: x.Pos(), At: x.Pos(), Detail: "cannot map lock summary of deferred callee"})
						} else {
							s.defers = append(s.defers, deferAct{delta: d, pos: x.Pos()})
						}
					}
				}
			case *ssa.RunDefers:
				for i := len(s.defers) - 1; i >= 0; i-- {
					d := s.defers[i]
					if d.delta != nil {
						applyDelta(s, d.delta, d.pos)
					} else {
						apply(s, d.op, d.key, d.pos, true)
					}
				}
				s.defers = nil
			case *ssa.Return:
				fi.Returns++
				sum := map[string]heldInfo{}
				for k, v := range s.held {
					if v.Depth != 0 {
						sum[k] = v
					}
				}
				exitSummaries = append(exitSummaries, sum)
				exitPos = append(exitPos, x.Pos())
				terminated = true
			case *ssa.Panic:
				terminated = true
			}
		}
		if terminated {
			continue
		}
		for _, succ := range it.b.Succs {
			work = append(work, item{succ, s})
		}
	}

	// summary: consistent across exits?
	if len(exitSummaries) > 0 {
		first := exitSummaries[0]
		consistent := true
		for _, e := range exitSummaries[1:] {
			if !sameSummary(first, e) {
				consistent = false
			}
		}
		static := le.callers[fn] > 0
		exported := fn.Object() != nil && fn.Object().Exported() && fn.Parent() == nil
		positive := false
		for _, v := range first {
			if v.Depth > 0 {
				positive = true
			}
		}
		if consistent && static && len(first) > 0 && !(exported && positive) {
			fi.Summary = first // a wrapper: callers account for it
		} else {
			// (an exported function that returns holding a lock is never a wrapper: its callers outside the module,
			// or through an interface, cannot release an unexported mutex)
			// every held lock at an exit is a leak; every negative is a release of unheld
			seen := map[string]bool{}
			for i, e := range exitSummaries {
				for k, v := range e {
					id := fmt.Sprintf("%s|%d", k, v.Site)
					if seen[id] {
						continue
					}
					seen[id] = true
					if v.Depth > 0 {
						report(lockReport{Kind: "leak", Key: k, Site: v.Site, At: exitPos[i],
							Detail: fmt.Sprintf("lock %s (%s) acquired at %s is still held at the function exit at %s; no deferred release covers this path", k, modeName(v.Mode), le.P.pos(v.Site), le.P.pos(exitPos[i]))})
					} else if v.Depth < 0 {
						report(lockReport{Kind: "release-unheld", Key: k, Site: v.Site, At: v.Site,
							Detail: fmt.Sprintf("lock %s released at %s is not held on some path reaching it (and no static caller holds it)", k, le.P.pos(v.Site))})
					}
				}
			}
		}
	}
	sort.Slice(fi.Reports, func(i, j int) bool { return fi.Reports[i].At < fi.Reports[j].At })
	return fi
}

func sameSummary(a, b map[string]heldInfo) bool {
	if len(a) != len(b) {
		return false
	}
	for k, v := range a {
		w, ok := b[k]
		if !ok || w.Depth != v.Depth || w.Mode != v.Mode {
			return false
		}
	}
	return true
}

func modeName(m int) string {
	if m == modeR {
		return "read"
	}
	return "write"
}

// condLField returns the field object L of sync.Cond for building the key of Wait.
func condLField(condRecv ssa.Value) *types.Var {
	n := namedOf(condRecv.Type())
	if n == nil {
		return nil
	}
	st, ok := n.Underlying().(*types.Struct)
	if !ok {
		return nil
	}
	for i := 0; i < st.NumFields(); i++ {
		if st.Field(i).Name() == "L" {
			return st.Field(i)
		}
	}
	return nil
}

// MayHeldAt returns the locks that are held on some explored path reaching ins (key -> strongest mode).
func (le *LockEngine) MayHeldAt(ins ssa.Instruction) map[string]int {
	fi := le.Info(ins.Parent())
	return fi.mayHeldAt[ins]
}

// HeldAt returns the locks that are held on every explored path reaching ins (key -> mode).
func (le *LockEngine) HeldAt(ins ssa.Instruction) map[string]int {
	fn := ins.Parent()
	fi := le.Info(fn)
	return fi.heldAt[ins]
}

// EffectiveReports returns fn's lock reports without those that are discharged by its callers: a sync.Cond.Wait made
// without the cond's lock held locally is in order when the function is an unexported helper that is only called
// statically and every call site holds that lock (the wait loop of a method moved into waitXWithoutLock(ctx)).
func (le *LockEngine) EffectiveReports(fn *ssa.Function) []lockReport {
	fi := le.Info(fn)
	var out []lockReport
	for _, rep := range fi.Reports {
		if rep.Kind == "wait-without-L" && le.heldByAllCallers(fn, rep.Key, 0) {
			continue
		}
		out = append(out, rep)
	}
	return out
}

func (le *LockEngine) heldByAllCallers(fn *ssa.Function, key string, depth int) bool {
	if fn.Parent() != nil || depth >= 2 || (fn.Object() != nil && fn.Object().Exported()) {
		return false
	}
	sites := le.P.staticCallSites(fn)
	if len(sites) == 0 {
		return false
	}
	for _, s := range sites {
		call, ok := s.(*ssa.Call)
		if !ok {
			return false
		}
		tk, okT := translateKey(fn, key, call.Call.Args)
		if !okT {
			return false
		}
		if _, held := le.HeldAt(call)[tk]; held {
			continue
		}
		if !le.heldByAllCallers(call.Parent(), tk, depth+1) {
			return false
		}
	}
	return true
}

// ModeAtOrByCallers: the mode in which key is held at ins — locally, or, when the function is an unexported helper
// that is only called statically and does not take the lock itself, the weakest mode in which every call site holds it
// (the "…WithoutLock" helper of a critical section). 0 when some caller does not hold it.
func (le *LockEngine) ModeAtOrByCallers(ins ssa.Instruction, key string) int {
	if m, ok := le.HeldAt(ins)[key]; ok {
		return m
	}
	var rec func(fn *ssa.Function, key string, depth int) int
	rec = func(fn *ssa.Function, key string, depth int) int {
		if fn.Parent() != nil || depth >= 2 || (fn.Object() != nil && fn.Object().Exported()) {
			return 0
		}
		sites := le.P.staticCallSites(fn)
		if len(sites) == 0 {
			return 0
		}
		min := 0
		for _, s := range sites {
			call, ok := s.(*ssa.Call)
			if !ok {
				return 0
			}
			tk, okT := translateKey(fn, key, call.Call.Args)
			if !okT {
				return 0
			}
			m, held := le.HeldAt(call)[tk]
			if !held {
				m = rec(call.Parent(), tk, depth+1)
			}
			if m == 0 {
				return 0
			}
			if min == 0 || m < min {
				min = m
			}
		}
		return min
	}
	return rec(ins.Parent(), key, 0)
}

// heldWhereInvoked: for a function literal that its enclosing function hands to a pure invoker (x.withLock(func(){…})),
// the locks held at the invocation inside the invoker, with the invoker's receiver renamed to the argument at the call.
func (le *LockEngine) heldWhereInvoked(cl *ssa.Function) map[string]int {
	out := map[string]int{}
	if cl == nil || cl.Parent() == nil {
		return out
	}
	allInstrs(cl.Parent(), func(ins ssa.Instruction) {
		call, ok := ins.(*ssa.Call)
		if !ok {
			return
		}
		for _, ic := range invokedClosureArgs(le.P, &call.Call) {
			if ic.closure != cl {
				continue
			}
			for _, site := range ic.sites {
				for k, m := range le.HeldAt(site) {
					// translate helper-local key to the caller's naming through the receiver argument
					name := k
					if len(ic.helper.Params) > 0 && len(call.Call.Args) > 0 {
						hp := ic.helper.Params[0].Name() + "."
						if strings.HasPrefix(k, hp) {
							if pa := pathOf(call.Call.Args[0]); pa != nil {
								name = pa.String() + "." + strings.TrimPrefix(k, hp)
							}
						}
					}
					if old, seen := out[name]; !seen || m < old {
						out[name] = m
					}
				}
			}
		}
	})
	return out
}
