package main

import (
	"fmt"
	"go/token"
	"go/types"
	"strings"

	"golang.org/x/tools/go/ssa"
)

func init() {
	register(&PropSpec{
		ID:          "C05",
		Explanation: "Structural necessary conditions for 'a lost transport is survived'. R1: the token source is asked inside connectWire before the dial on every (re)connect, the access token handed to the wire connection derives only from that call, and both the initial connect and the reconnect retry closure reach connectWire. R2: open, metadata and call requests of package iscp are issued only inside closures passed to the retry wrapper (*Conn).send, whose connection-closed branch loops back unless the connection is closed. R3: the downstream resume request carries Downstream.ID and Downstream.idAlias, which only the constructor stores. R4: in each stream's resume, every error return after the resume exchange has started is preceded by closeWithError. R5: the closed-connection sentinel of the status wait primitive is feasible. R6: each stream's watcher returns a non-nil error after observing Reconnecting, and the supervisor loop goes run → wait for Connected → resume → run.",
		NotDecided:  []string{"that streams actually resume (liveness)", "once-per-outage notifications", "back-to-back failures", "whether a level-triggered watcher can miss a very fast redial"},
		Rules: func(r *Run) {
			ruleC05R1(r)
			ruleC05R2(r)
			ruleC05R3(r)
			ruleC05R4(r)
			ruleE1(r) // R5 (shared with C08)
			ruleC05R6(r)
			ruleErrorDiscipline(r, "R7")
			ruleFailFastOnlyWhenClosed(r, "R8")
			ruleC05R9(r)
			ruleC05R10(r)
			ruleAlwaysCancels(r, "R11")
			ruleAsTargetMatchesProducer(r, "R12")
			ruleC05R13(r)
			ruleClosedChannelsRecognised(r, "R14", "/wire", "/iscp", "/transport/reconnect", "/transport/multi", "/transport/quic", "/transport/webtransport", "/transport/websocket", "/transport", "/internal/ch", "/encoding")
			ruleAttemptUsesCurrentConn(r, "R15")
			r.borrow("C03", func() { ruleC03R11(r) }) // a resume repeated after a conflict must not subscribe twice
		},
	})
}

func ruleC05R1(r *Run) {
	r.Begin("R1", "token per attempt: every retry body (function literal handed to retry.Do) of package iscp that reaches wire.Connect also reaches TokenSource.Token() — the token is fetched inside the attempt, not once per outage; ClientConnConfig.AccessToken derives only from that call's result; ConnectWithConfig reaches both", 3)
	p := r.P
	const tokenCall, connectCall = "/iscp.TokenSource.Token", "/wire.Connect"
	// retry bodies
	n := 0
	for _, c := range p.moduleCalls("/internal/retry.Do", "/internal/retry.Retry.Do") {
		fn := c.Parent()
		if fnPkgPath(fn) != modPath+"/iscp" {
			continue
		}
		cc := instrCall(c)
		for _, a := range cc.Args {
			cl := closureOf(a)
			if cl == nil || !p.reachesCall(cl, 4, connectCall) {
				continue
			}
			n++
			name := fnName(cl)
			r.Check(name+" fetches the token inside the attempt", p.reachesCall(cl, 4, tokenCall), posOf(p, c), name, "a retry body that dials and connects without asking the token source: every attempt of one outage presents the same token (a one-time or expired token fails for as long as the outage lasts)")
		}
	}
	if n == 0 {
		r.Undecided("retry bodies that connect", "no function literal handed to retry.Do reaches wire.Connect")
	}
	// the token's way into the connect request
	cc := r.named("/wire", "ClientConnConfig")
	lits := 0
	if cc != nil {
		for _, lit := range p.allLiterals(cc) {
			if fnPkgPath(lit.Fn) != modPath+"/iscp" {
				continue
			}
			name := fnName(lit.Fn)
			v, has := lit.Fields["AccessToken"]
			if !has {
				continue
			}
			lits++
			l := p.Leaves(v, provOpts{ParamDepth: 2})
			bad := leavesWithin(l, []string{"call:" + tokenCall, "field:/iscp.ConnConfig.TokenSource", "param:*", "recv*"})
			r.Check(name+" AccessToken", hasLeaf(l, "call:"+tokenCall) && len(bad) == 0, p.pos(lit.Alloc.Pos()), name, "AccessToken <- ["+joinLeaves(l)+"]; a cached token (field or global) would expire across reconnects")
		}
	}
	if lits == 0 {
		r.Check("AccessToken is set", false, "", "", "no ClientConnConfig literal of package iscp sets AccessToken")
	}
	// first connect
	if f := r.function("/iscp", "ConnectWithConfig"); f != nil {
		name := fnName(f)
		r.Check(name+" fetches a token and connects", p.reachesCall(f, 4, tokenCall) && p.reachesCall(f, 4, connectCall), p.pos(f.Pos()), name, "the first connect asks the token source and performs the wire connect")
	}
}

func ruleC05R2(r *Run) {
	r.Begin("R2", "requests go through the retry wrapper: in package iscp, SendUpstreamOpenRequest, SendDownstreamOpenRequest, SendUpstreamMetadata and SendUpstreamCall are called only inside closures passed to (*Conn).send; in send the branch errors.Is(err, ErrConnectionClosed) leads back to the loop head unless the status is Closed", 5)
	p := r.P
	send := r.method("/iscp", "Conn", "send")
	if send == nil {
		return
	}
	calls := p.moduleCalls("/wire.ClientConn.SendUpstreamOpenRequest", "/wire.ClientConn.SendDownstreamOpenRequest", "/wire.ClientConn.SendUpstreamMetadata", "/wire.ClientConn.SendUpstreamCall")
	n := 0
	for _, c := range calls {
		fn := c.Parent()
		if fnPkgPath(fn) != modPath+"/iscp" {
			continue
		}
		n++
		name := fnName(fn)
		// in a function literal handed to send — or in an unexported helper that is only ever called from such literals
		var inSendLiteral func(f *ssa.Function, depth int) bool
		inSendLiteral = func(f *ssa.Function, depth int) bool {
			if f.Parent() != nil {
				val, uses, okv := funcValueUses(f)
				if okv {
					for _, u := range uses {
						if cc := instrCall(u); cc != nil && cc.StaticCallee() == send {
							for _, a := range cc.Args {
								if a == val {
									return true
								}
							}
						}
					}
				}
				return false
			}
			if depth >= 2 || (f.Object() != nil && f.Object().Exported()) {
				return false
			}
			sites := p.staticCallSites(f)
			if len(sites) == 0 {
				return false
			}
			for _, s := range sites {
				if _, isCall := s.(*ssa.Call); !isCall || !inSendLiteral(s.Parent(), depth+1) {
					return false
				}
			}
			return true
		}
		ok := inSendLiteral(fn, 0)
		r.Check(name+" "+callName(c)[strings.LastIndexByte(callName(c), '.')+1:], ok, posOf(p, c), name, "the request must be issued inside a closure passed to (*Conn).send so that it is re-sent after a reconnect")
	}
	if n < 4 {
		r.Undecided("request call sites", fmt.Sprintf("only %d of the four request calls found in package iscp", n))
	}
	// send's loop; one attempt may be split out into a function of its own that reports "again" through its result
	sname := fnName(send)
	att, _, site := p.attemptOf(send)
	if att == nil {
		att = send
	}
	var isCall *ssa.Call
	allInstrs(att, func(ins ssa.Instruction) {
		if c, ok := ins.(*ssa.Call); ok && isCallNamed(c, "/errors.Is") {
			if hasLeaf(p.Leaves(c.Call.Args[1], provOpts{}), "global:/errors.ErrConnectionClosed") {
				isCall = c
			}
		}
	})
	if isCall == nil {
		r.Check(sname+" retries on connection closed", false, p.pos(send.Pos()), sname, "send does not test the closure's error against ErrConnectionClosed")
		return
	}
	// from the true edge of errors.Is, some path reaches the wait-for-connected call again (loop back edge)
	var ifs *ssa.If
	if isCall.Referrers() != nil {
		for _, ref := range *isCall.Referrers() {
			if i, ok := ref.(*ssa.If); ok {
				ifs = i
			}
		}
	}
	waits := findCalls(att, false, "/iscp.connStatus.WaitUntilOrClosed", "/iscp.connStatus.WaitUntil")
	okLoop := false
	if ifs != nil && len(waits) > 0 {
		// errors.Is true edge (cond may be negated by the builder: find the successor from which the wait is reachable)
		for _, s := range ifs.Block().Succs {
			if site == nil {
				if reachesWithoutBlock(s, waits[0].Block()) && inLoop(waits[0]) {
					okLoop = true
				}
				continue
			}
			// the attempt returns; with what that return tells the caller, the caller comes back to the attempt
			for _, ret := range returnsOf(att) {
				if edgeReaches(ifs.Block(), s, ret) && pathsFrom(site, resultsKnownAt(site, ret), nil, site) != "unreached" {
					okLoop = true
				}
			}
		}
	}
	r.Check(sname+" retries on connection closed", okLoop, posOf(p, isCall), sname, "after a connection-closed error the wrapper must loop back to waiting for Connected")
	// waits for Connected with the closed hook
	okWait := false
	for _, w := range waits {
		if isCallNamed(w, "/iscp.connStatus.WaitUntilOrClosed") {
			if v, isC := constInt(instrCall(w).Args[2]); isC {
				if cv, _ := p.enumConst("/iscp", "connStatusConnected"); cv == v {
					okWait = true
				}
			}
		}
	}
	// the wrapper gives up with ErrConnectionClosed only when the status is Closed
	closedC, _ := p.enumConst("/iscp", "connStatusClosed")
	allInstrs(att, func(ins ssa.Instruction) {
		ret, isRet := ins.(*ssa.Return)
		if !isRet {
			return
		}
		sentinel := false
		for _, v := range retValuesDeep(ret) {
			if _, isErr := v.Type().Underlying().(*types.Interface); isErr && sentinelName(v) == "ErrConnectionClosed" {
				sentinel = true
			}
		}
		if !sentinel {
			return
		}
		okGuard := false
		allInstrs(att, func(x ssa.Instruction) {
			ifs, isIf := x.(*ssa.If)
			if !isIf {
				return
			}
			c, isCall := ifs.Cond.(*ssa.Call)
			if !isCall {
				return
			}
			cf := c.Call.StaticCallee()
			if cf == nil || recvTypeName(cf) != "connStatus" {
				return
			}
			hasClosed := false
			for _, a := range c.Call.Args {
				if v, isC := constInt(a); isC && v == closedC {
					hasClosed = true
				}
			}
			if hasClosed && (ifs.Block().Dominates(ret.Block())) {
				okGuard = true
			}
		})
		r.Check(sname+" gives up only when Closed", okGuard, posOf(p, ret), sname, "the return of ErrConnectionClosed after a connection-closed error must be decided by a status test that names connStatusClosed; any other test makes requests interrupted by an outage fail although Close was never called")
	})
	r.Check(sname+" waits for Connected or Closed", okWait, p.pos(send.Pos()), sname, "send must wait with WaitUntilOrClosed(ctx, connStatusConnected) so that a closed connection ends the wait")
}

func ruleC05R3(r *Run) {
	r.Begin("R3", "resume under original ids: DownstreamResumeRequest.StreamID derives only from Downstream.ID and DesiredStreamIDAlias only from Downstream.idAlias; both fields are stored only while constructing the stream", 3)
	p := r.P
	req := r.named("/message", "DownstreamResumeRequest")
	if req == nil {
		return
	}
	n := 0
	for _, lit := range p.allLiterals(req) {
		if fnPkgPath(lit.Fn) != modPath+"/iscp" {
			continue
		}
		n++
		name := fnName(lit.Fn)
		for f, want := range map[string]string{"StreamID": "field:/iscp.Downstream.ID", "DesiredStreamIDAlias": "field:/iscp.Downstream.idAlias"} {
			v, has := lit.Fields[f]
			if !has {
				r.Check(name+" "+f, false, p.pos(lit.Alloc.Pos()), name, f+" not set")
				continue
			}
			l := p.Leaves(v, provOpts{})
			bad := leavesWithin(l, []string{want, "param:*"})
			r.Check(name+" "+f, hasLeaf(l, want) && len(bad) == 0, p.pos(lit.Alloc.Pos()), name, f+" <- ["+joinLeaves(l)+"]")
		}
	}
	if n == 0 {
		r.Undecided("resume request literal", "no DownstreamResumeRequest literal in package iscp")
	}
	for _, fname := range []string{"ID", "idAlias"} {
		if f := p.Field("/iscp", "Downstream", fname); f != nil {
			for _, st := range p.fieldStores(f) {
				fa := st.Addr.(*ssa.FieldAddr)
				r.Check("Downstream."+fname+" stored in "+fnName(st.Parent()), isLocalObject(pathOf(fa.X)), p.pos(st.Pos()), fnName(st.Parent()), "may be set only while constructing the stream")
			}
		}
	}
}

// nonNilErrReturn: the Return's last result is not the nil constant.
func nonNilErrReturn(ret *ssa.Return) bool {
	if len(ret.Results) == 0 {
		return false
	}
	rs := retResults(ret)
	return !isNilConst(rs[len(rs)-1])
}

func ruleC05R4(r *Run) {
	r.Begin("R4", "a failed resume closes the stream: in Upstream.resume and Downstream.resume, every return of a non-nil error that is reachable after the resume exchange has started (the retry of the resume request) passes a call of closeWithError first", 2)
	p := r.P
	for _, typ := range []string{"Upstream", "Downstream"} {
		fn := r.method("/iscp", typ, "resume")
		if fn == nil {
			continue
		}
		name := fnName(fn)
		// anchor: the retry.Do call (or the first resume-request call)
		var anchor ssa.Instruction
		allInstrs(fn, func(ins ssa.Instruction) {
			if anchor != nil {
				return
			}
			if isCallNamed(ins, "/internal/retry.Do", "/internal/retry.Retry.Do") || isCallNamed(ins, "/wire.ClientConn.SendUpstreamResumeRequest", "/wire.ClientConn.SendDownstreamResumeRequest") {
				anchor = ins
			}
		})
		if anchor == nil {
			r.Undecided(name+" anchor", "no resume exchange found in resume")
			continue
		}
		isClose := func(ins ssa.Instruction) bool {
			if c, ok := ins.(*ssa.Call); ok {
				if cf := c.Call.StaticCallee(); cf != nil && strings.HasPrefix(cf.Name(), "closeWithError") && recvTypeName(cf) == typ {
					// with a non-nil cause
					if len(c.Call.Args) >= 3 && isNilConst(c.Call.Args[2]) {
						return false
					}
					return true
				}
			}
			return false
		}
		w := reachesWithout(anchor, func(ins ssa.Instruction) bool {
			ret, ok := ins.(*ssa.Return)
			return ok && nonNilErrReturn(ret)
		}, isClose)
		r.Check(name+" error exits close the stream", w == nil, posOf(p, w), name,
			"an error return of resume is reachable without closeWithError: the supervisor then exits and the stream stays detached — not closed, never resumed, still accepting writes",
			"entry: "+name, "resume exchange: "+posOf(p, anchor), "offending exit: "+posOf(p, w))
		// the retry closure gives up on a transport error (the connection it was given is dead; retrying on it can never succeed)
		for _, cl := range fn.AnonFuncs {
			var reqCalls []ssa.Instruction
			allInstrs(cl, func(ins ssa.Instruction) {
				if n := callName(ins); strings.HasPrefix(n, "/wire.ClientConn.Send") && strings.HasSuffix(n, "ResumeRequest") {
					reqCalls = append(reqCalls, ins)
				}
			})
			for _, rc := range reqCalls {
				call, isCall := rc.(*ssa.Call)
				if !isCall {
					continue
				}
				okEnd := false
				for _, ev := range errResultsOf(call) {
					for _, ifs := range nilTestsOf(cl, ev) {
						bo := ifs.Cond.(*ssa.BinOp)
						ne := nilEdge(ifs, bo.X)
						if ne == nil {
							ne = nilEdge(ifs, bo.Y)
						}
						for _, s := range ifs.Block().Succs {
							if s == ne {
								continue
							}
							all, any := true, false
							seenB := map[*ssa.BasicBlock]bool{}
							var walk func(b *ssa.BasicBlock)
							walk = func(b *ssa.BasicBlock) {
								if seenB[b] {
									return
								}
								seenB[b] = true
								for _, x := range b.Instrs {
									if ret, isRet := x.(*ssa.Return); isRet {
										any = true
										// a constant decides: true ends the retry. A computed value (the outcome of a
										// classification helper applied to the error) is not decided here
										rv := retResults(ret)[0]
										if cv, isC := rv.(*ssa.Const); isC {
											if cv.Value == nil || cv.Value.ExactString() != "true" {
												all = false
											}
										} else {
											// computed: accepted only when it is computed from the request's error
											fromErr := false
											for _, l := range p.Leaves(rv, provOpts{}) {
												if strings.HasPrefix(l, "call:/wire.ClientConn.Send") && strings.HasSuffix(l, "ResumeRequest") {
													fromErr = true
												}
											}
											// or from the variable the request's error was stored into (a captured result variable)
											errVars := map[ssa.Value]bool{}
											for _, ev := range errResultsOf(call) {
												if ev.Referrers() != nil {
													for _, ref := range *ev.Referrers() {
														if st, isSt := ref.(*ssa.Store); isSt && st.Val == ev {
															errVars[st.Addr] = true
														}
													}
												}
											}
											inner := rv
											if u, isU := inner.(*ssa.UnOp); isU && u.Op == token.NOT {
												inner = u.X
											}
											if cl, isCl := inner.(*ssa.Call); isCl {
												for _, a := range cl.Call.Args {
													if ld, isLd := a.(*ssa.UnOp); isLd && ld.Op == token.MUL && errVars[ld.X] {
														fromErr = true
													}
												}
											}
											if !fromErr {
												all = false
											}
										}
										return
									}
								}
								for _, nx := range b.Succs {
									walk(nx)
								}
							}
							walk(s)
							if any && all {
								okEnd = true
							}
						}
					}
				}
				r.Check(fnName(cl)+" retry ends on a transport error", okEnd, posOf(p, rc), fnName(cl), "when the resume request itself fails (the connection died mid-exchange) the retry closure must return true, or a value computed from that error by a classification helper (not decided further); retrying on the same dead connection loops forever and the stream is never closed nor moved to the next connection")
			}
		}
	}
}

func ruleC05R6(r *Run) {
	r.Begin("R6", "watcher and supervisor: in each stream's run, the errgroup member that waits on the connection status for Reconnecting swaps the stream status to Resuming and returns a non-nil error; in the supervisor closure a failed run on an open connection is followed by WaitUntil(Connected), then resume, then the loop head", 4)
	p := r.P
	reconnecting, _ := p.enumConst("/iscp", "connStatusReconnecting")
	resuming, _ := p.enumConst("/iscp", "streamStatusResuming")
	connected, _ := p.enumConst("/iscp", "connStatusConnected")
	for _, typ := range []string{"Upstream", "Downstream"} {
		run := r.method("/iscp", typ, "run")
		if run == nil {
			continue
		}
		found := false
		// errgroup members: the closures of run, and named methods a closure merely forwards to
		members := append([]*ssa.Function{}, run.AnonFuncs...)
		for _, cl := range run.AnonFuncs {
			// a closure that merely forwards to a named method (return x.m(ctx)): the method is the member
			var only *ssa.Call
			calls, forwards := 0, false
			allInstrs(cl, func(ins ssa.Instruction) {
				switch x := ins.(type) {
				case *ssa.Call:
					calls++
					only = x
				case *ssa.Return:
					for _, rv := range retResults(x) {
						if only != nil && (rv == ssa.Value(only) || canonVal(rv) == ssa.Value(only)) {
							forwards = true
						}
					}
				}
			})
			if calls == 1 && forwards {
				if cf := only.Call.StaticCallee(); cf != nil && p.Analysed(cf) && recvTypeName(cf) == typ {
					members = append(members, cf)
				}
			}
		}
		for _, cl := range members {
			// the watcher: calls IsWithoutLock(connStatusReconnecting) and a Cond.Wait
			watches := false
			var scanW func(f *ssa.Function, d int)
			scanW = func(f *ssa.Function, d int) {
				if f == nil || f.Blocks == nil || d > 2 {
					return
				}
				allInstrs(f, func(ins ssa.Instruction) {
					if c, ok := ins.(*ssa.Call); ok {
						cf := c.Call.StaticCallee()
						if cf != nil && recvTypeName(cf) == "connStatus" {
							for _, a := range c.Call.Args {
								if v, isC := constInt(a); isC && v == reconnecting {
									watches = true
								}
							}
						} else if cf != nil && p.Analysed(cf) && recvTypeName(cf) == typ {
							scanW(cf, d+1) // the wait loop or its predicate moved into a method of the stream
						}
					}
				})
			}
			scanW(cl, 0)
			if !watches {
				continue
			}
			found = true
			name := fnName(cl)
			var swap ssa.Instruction
			allInstrs(cl, func(ins ssa.Instruction) {
				if c, ok := ins.(*ssa.Call); ok {
					if cf := c.Call.StaticCallee(); cf != nil && recvTypeName(cf) == "streamState" {
						// the helper is evaluated, not matched by name: from every status a live stream can be in
						// (Connected, or Draining while a Close waits for acks) it must leave Resuming — a stream that
						// stays Draining is refused by resume() and silently detached from the new connection
						fld := p.Field("/iscp", "streamState", "current")
						sc, ok1 := p.enumConst("/iscp", "streamStatusConnected")
						sd, ok2 := p.enumConst("/iscp", "streamStatusDraining")
						if fld != nil && ok1 && ok2 {
							a1, e1 := stateAfter(c, fld, sc)
							a2, e2 := stateAfter(c, fld, sd)
							if e1 == "" && e2 == "" && a1 == resuming && a2 == resuming {
								swap = ins
							}
						}
					}
				}
			})
			okRet := false
			if swap != nil {
				// every return reachable after the swap is a non-nil error
				okRet = true
				any := false
				allInstrs(cl, func(ins ssa.Instruction) {
					if ret, ok := ins.(*ssa.Return); ok && dominatesInstr(swap, ret) {
						any = true
						if !nonNilErrReturn(ret) {
							okRet = false
						}
					}
				})
				okRet = okRet && any
			}
			r.Check(name+" fails the run group", swap != nil && okRet, p.pos(cl.Pos()), name, fmt.Sprintf("swaps the stream to Resuming: %v; returns a non-nil error afterwards (so that run ends and the supervisor resumes): %v", swap != nil, okRet))
		}
		if !found {
			r.Check(fnName(run)+" has a watcher", false, p.pos(run.Pos()), fnName(run), "no errgroup member waits for connStatusReconnecting: the stream never notices an outage")
		}
		// supervisor: the closure (in Conn.OpenUpstream/OpenDownstream) that calls run in a loop
		resume := p.Method("/iscp", typ, "resume")
		for _, s := range p.staticCallSites(run) {
			sup := s.Parent()
			name := fnName(sup)
			var waitC, resumeC ssa.Instruction
			allInstrs(sup, func(ins ssa.Instruction) {
				if isCallNamed(ins, "/iscp.connStatus.WaitUntil", "/iscp.connStatus.WaitUntilOrClosed") {
					if v, isC := constInt(instrCall(ins).Args[2]); isC && v == connected {
						waitC = ins
					}
				}
				if c, ok := ins.(*ssa.Call); ok && c.Call.StaticCallee() == resume {
					resumeC = ins
				}
			})
			stepForm := false
			var argWait, argResume ssa.Instruction
			argFn := sup
			if waitC == nil || resumeC == nil {
				// "wait for the connection, then resume" may be one step of the supervisor moved into a helper that the
				// loop calls: the helper contains both, in that order; the call of the helper stands for them
				allInstrs(sup, func(ins ssa.Instruction) {
					c, isC := ins.(*ssa.Call)
					if !isC || stepForm {
						return
					}
					h := c.Call.StaticCallee()
					if h == nil || !p.Analysed(h) || h.Pkg != sup.Pkg || h == run || h == resume {
						return
					}
					var w2, r2 ssa.Instruction
					allInstrs(h, func(x ssa.Instruction) {
						if isCallNamed(x, "/iscp.connStatus.WaitUntil", "/iscp.connStatus.WaitUntilOrClosed") {
							if v, isK := constInt(instrCall(x).Args[2]); isK && v == connected {
								w2 = x
							}
						}
						if c2, ok := x.(*ssa.Call); ok && c2.Call.StaticCallee() == resume {
							r2 = x
						}
					})
					if w2 != nil && r2 != nil && dominatesInstr(w2, r2) {
						waitC, resumeC, stepForm = ins, ins, true
						argWait, argResume, argFn = w2, r2, h
					}
				})
			}
			ok := inLoop(s) && waitC != nil && resumeC != nil && (stepForm || dominatesInstr(waitC, resumeC)) && reachesWithoutBlock(resumeC.Block(), s.Block())
			// the run failure edge reaches the wait
			if ok {
				if c, isCall := s.(*ssa.Call); isCall {
					ok = false
					for _, ev := range errResultsOf(c) {
						for _, ifs := range nilTestsOf(sup, ev) {
							ne := nilEdge(ifs, ifs.Cond.(*ssa.BinOp).X)
							if ne == nil {
								ne = nilEdge(ifs, ifs.Cond.(*ssa.BinOp).Y)
							}
							for _, succ := range ifs.Block().Succs {
								if succ != ne && reachesWithoutBlock(succ, waitC.Block()) {
									ok = true
								}
							}
						}
					}
				}
			}
			r.Check(name+" supervises "+typ, ok, posOf(p, s), name, "run in a loop; on failure: WaitUntil(Connected) then resume then run again")
			// the wire connection handed to resume is read after the wait returned, never before it (a value read before
			// the wait is the connection that just died)
			if !stepForm {
				argWait, argResume = waitC, resumeC
			}
			if argWait != nil && argResume != nil {
				waitC, resumeC, sup := argWait, argResume, argFn
				for i, a := range instrCall(resumeC).Args[1:] {
					var defs []ssa.Instruction
					switch x := a.(type) {
					case *ssa.UnOp:
						if al, isAl := x.X.(*ssa.Alloc); isAl && x.Op == token.MUL && al.Referrers() != nil {
							for _, ref := range *al.Referrers() {
								if st, isSt := ref.(*ssa.Store); isSt && st.Addr == ssa.Value(al) {
									defs = append(defs, st)
								}
							}
						} else {
							defs = append(defs, x)
						}
					case ssa.Instruction:
						defs = append(defs, x)
					}
					if len(defs) == 0 {
						continue
					}
					fresh := true
					for _, d := range defs {
						if d.Parent() == sup && !dominatesInstr(waitC, d) {
							fresh = false
						}
					}
					r.Check(fmt.Sprintf("%s resume argument #%d of %s is read after the wait", name, i+1, typ), fresh, posOf(p, resumeC), name, "the value passed to resume is computed at "+posOf(p, defs[0])+"; it must be computed after WaitUntil(Connected) returned, otherwise the stream resumes on the connection that was just lost")
				}
			}
		}
	}
	_ = token.NoPos
}

// ruleC05R9: the retry wrapper of iscp.Conn re-sends a request only when its error is ErrConnectionClosed. The wire
// layer must therefore report "my connection went away while you were waiting" with exactly that sentinel: every
// branch of package wire that is entered by receiving from the connection's own Done() and returns an error returns
// ErrConnectionClosed (or an error wrapping it).
func ruleC05R9(r *Run) {
	r.Begin("R9", "a lost connection is reported in the retry wrapper's vocabulary: in package wire, a select branch entered by receiving from the Done() of the connection's own context (ClientConn.ctx) that returns an error returns errors.ErrConnectionClosed or an error wrapping it", 3)
	p := r.P
	for _, fn := range p.Funcs {
		if fnPkgPath(fn) != modPath+"/wire" || fn.Blocks == nil || !returnsError(fn) {
			continue
		}
		k := 0
		allInstrs(fn, func(ins ssa.Instruction) {
			sel, ok := ins.(*ssa.Select)
			if !ok {
				return
			}
			for i, st := range sel.States {
				if st.Dir != types.RecvOnly {
					continue
				}
				cx := doneCtx(st.Chan)
				if cx == nil {
					continue
				}
				own := false
				for _, rt := range ctxRoots(cx) {
					if hasLeaf(p.Leaves(rt, provOpts{}), "field:/wire.ClientConn.ctx") {
						own = true
					}
				}
				if !own {
					continue
				}
				sb := selectStateBlock(sel, i)
				if sb == nil {
					continue
				}
				ret := firstReturnFrom(sb)
				if ret == nil {
					continue
				}
				rs := retResults(ret)
				if len(rs) == 0 {
					continue
				}
				k++
				name := fnName(fn)
				l := p.Leaves(rs[len(rs)-1], provOpts{})
				r.Check(fmt.Sprintf("%s connection-done branch#%d", name, k), hasLeaf(l, "global:/errors.ErrConnectionClosed"), posOf(p, ret), name, "the error returned when the connection's own context ended derives from ["+joinLeaves(l)+"]; iscp.(*Conn).send re-sends a request only for ErrConnectionClosed, anything else fails the caller although the library is about to reconnect")
			}
		})
	}
}

// ruleC05R10: the retry wrapper may declare the connection lost (status Reconnecting) on the strength of a request
// error only if that error belongs to the wire connection that is current now. An error that surfaces late — from a
// connection that the reconnect supervisor has already replaced — must lead to a plain re-send; flipping the status
// of the healthy new connection makes the run group fail, the new connection is closed and redialled, and the
// application sees a second disconnected/reconnected pair for one outage.
func ruleC05R10(r *Run) {
	r.Begin("R10", "no reconnect on a stale error: in (*Conn).send the status call that can move a Connected connection to Reconnecting is conditional — evaluated from Connected it can also leave the status alone — and the condition is a ticket taken from the status holder for this attempt (an argument whose defining call dominates the call of the request function, lies in the same retry loop and has no blocking wait on the holder between itself and the request)", 1)
	p := r.P
	fn := r.method("/iscp", "Conn", "send")
	fld := r.field("/iscp", "connStatus", "current")
	holder := r.named("/iscp", "connStatus")
	if fn == nil || fld == nil || holder == nil {
		return
	}
	connected, ok1 := p.enumConst("/iscp", "connStatusConnected")
	reconnecting, ok2 := p.enumConst("/iscp", "connStatusReconnecting")
	if !ok1 || !ok2 {
		r.Undecided("status constants", "not found")
		return
	}
	name := fnName(fn)
	// the attempt may be a function of its own that send calls in its loop
	att, fcall, _ := p.attemptOf(fn)
	if att != nil {
		fn = att
	}
	if fcall == nil {
		r.Undecided(name+" request call", "the call of the function parameter was not found")
		return
	}
	onHolder := func(c *ssa.Call) bool {
		cal := c.Call.StaticCallee()
		return cal != nil && cal.Signature.Recv() != nil && namedOf(cal.Signature.Recv().Type()) == holder
	}
	k := 0
	allInstrs(fn, func(ins ssa.Instruction) {
		c, ok := ins.(*ssa.Call)
		if !ok || !onHolder(c) || !dominatesInstr(fcall, c) {
			return
		}
		outs, err := stateOutcomes(c, fld, connected)
		if err != "" {
			return
		}
		canFlip, canStay := false, false
		for _, o := range outs {
			if o.after == reconnecting {
				canFlip = true
			}
			if o.after == connected {
				canStay = true
			}
		}
		if !canFlip {
			return
		}
		k++
		ticket := false
		for _, a := range c.Call.Args[1:] {
			if _, isK := a.(*ssa.Const); isK {
				continue
			}
			if tc, isCall := canonVal(a).(*ssa.Call); isCall && onHolder(tc) && dominatesInstr(tc, fcall) {
				ticket = true
				// the ticket belongs to this attempt: taken inside the retry loop the request sits in, and after the
				// wait for Connected (a ticket from before a redial blames the new connection for nothing it did, or
				// — taken once — stops matching after the first redial so that later failures never trigger one)
				if inLoop(fcall) && !loopBlocks(fcall.Block())[tc.Block()] {
					ticket = false
				}
				allInstrs(fn, func(w ssa.Instruction) {
					wc, isC := w.(*ssa.Call)
					if !isC || !onHolder(wc) || wc == tc || wc == c {
						return
					}
					if dominatesInstr(tc, wc) && dominatesInstr(wc, fcall) && p.reachesCall(wc.Call.StaticCallee(), 3, "sync.Cond.Wait") {
						ticket = false
					}
				})
			}
		}
		r.Check(fmt.Sprintf("%s flip#%d to Reconnecting", name, k), canStay && ticket, posOf(p, c), name, fmt.Sprintf("%s can move a Connected connection to Reconnecting after a request failed; it can also leave it alone: %v; the decision uses a ticket read from the status before the request: %v. An unconditional flip lets the late error of an already replaced wire connection take the new one down", callName(c), canStay, ticket))
	})
	if k == 0 {
		r.Undecided(name+" flip", "no status call after the request in send can move Connected to Reconnecting")
	}
}

// ruleAsTargetMatchesProducer: errors.As matches by the dynamic type of the error. An error that this module wraps as
// *T is not found by a target of type T (and the other way round); the test is then constantly false and the branch
// it guards (retry on a conflict, recognise a refusal) is dead. For every errors.As in the module the dynamic types
// that reach its error argument — followed through parameters to the call sites, through helper results and local
// variables — are collected where they are visible; a visible producer of *T with target T, or of T with target *T,
// is a contradiction between producer and matcher.
func ruleAsTargetMatchesProducer(r *Run, id string) {
	r.Begin(id, "errors.As targets match how the error is produced: no error value that visibly reaches an errors.As (through locals, helper results and parameters) is produced as *T while the target is T, or as T while the target is *T", 1)
	p := r.P
	var dyn func(v ssa.Value, depth int, seen map[ssa.Value]bool, out map[string]types.Type)
	dyn = func(v ssa.Value, depth int, seen map[ssa.Value]bool, out map[string]types.Type) {
		if v == nil || depth > 7 || seen[v] {
			return
		}
		seen[v] = true
		switch x := v.(type) {
		case *ssa.MakeInterface:
			out[x.X.Type().String()] = x.X.Type()
		case *ssa.ChangeInterface:
			dyn(x.X, depth+1, seen, out)
		case *ssa.Phi:
			for _, e := range x.Edges {
				dyn(e, depth+1, seen, out)
			}
		case *ssa.UnOp:
			if x.Op == token.MUL {
				addr := x.X
				if fv, isFV := addr.(*ssa.FreeVar); isFV {
					if b, ok := theClosures.bind[fv]; ok {
						addr = b
					}
				}
				if a, isA := addr.(*ssa.Alloc); isA {
					// every store into the variable, in the declaring function and in its closures
					withAnon(topFunc(a.Parent()), func(g *ssa.Function) {
						allInstrs(g, func(ins ssa.Instruction) {
							st, isSt := ins.(*ssa.Store)
							if !isSt {
								return
							}
							tgt := st.Addr
							if fv, isFV := tgt.(*ssa.FreeVar); isFV {
								if b, ok := theClosures.bind[fv]; ok {
									tgt = b
								}
							}
							if tgt == ssa.Value(a) {
								dyn(st.Val, depth+1, seen, out)
							}
						})
					})
				}
			}
		case *ssa.Extract:
			if c, isC := x.Tuple.(*ssa.Call); isC {
				if cal := c.Call.StaticCallee(); cal != nil && p.Analysed(cal) {
					allInstrs(cal, func(ins ssa.Instruction) {
						if ret, isRet := ins.(*ssa.Return); isRet && x.Index < len(ret.Results) {
							dyn(ret.Results[x.Index], depth+1, seen, out)
						}
					})
				}
			}
		case *ssa.Call:
			if cal := x.Call.StaticCallee(); cal != nil && p.Analysed(cal) {
				allInstrs(cal, func(ins ssa.Instruction) {
					if ret, isRet := ins.(*ssa.Return); isRet && len(ret.Results) == 1 {
						dyn(ret.Results[0], depth+1, seen, out)
					}
				})
			}
		case *ssa.Parameter:
			fn := x.Parent()
			idx := -1
			for i, q := range fn.Params {
				if q == x {
					idx = i
				}
			}
			for _, site := range p.staticCallSites(fn) {
				if cc := instrCall(site); cc != nil && idx >= 0 && idx < len(cc.Args) {
					dyn(cc.Args[idx], depth+1, seen, out)
				}
			}
		}
	}
	n := 0
	for _, fn := range p.Funcs {
		if fn.Blocks == nil || !p.Analysed(fn) {
			continue
		}
		name := fnName(fn)
		k := 0
		allInstrs(fn, func(ins ssa.Instruction) {
			c, ok := ins.(*ssa.Call)
			if !ok || !isCallNamed(c, "errors.As", "/errors.As") || len(c.Call.Args) < 2 {
				return
			}
			// target: any(&t)
			var tt types.Type
			if mi, isMI := c.Call.Args[1].(*ssa.MakeInterface); isMI {
				if pt, isP := mi.X.Type().Underlying().(*types.Pointer); isP {
					tt = pt.Elem()
				}
			}
			if tt == nil {
				return
			}
			if _, isIface := tt.Underlying().(*types.Interface); isIface {
				return
			}
			k++
			n++
			out := map[string]types.Type{}
			dyn(c.Call.Args[0], 0, map[ssa.Value]bool{}, out)
			bad := ""
			for s, pt := range out {
				if ptr, isP := pt.(*types.Pointer); isP && types.Identical(ptr.Elem(), tt) {
					bad = "produced as " + s + ", matched as " + tt.String()
				}
				if ptr, isP := tt.(*types.Pointer); isP && types.Identical(ptr.Elem(), pt) {
					bad = "produced as " + s + ", matched as " + tt.String()
				}
			}
			r.Check(fmt.Sprintf("%s errors.As#%d target matches the producers in sight", name, k), bad == "", posOf(p, c), name, "an error "+bad+": errors.As compares dynamic types, this match can never succeed for that error and the branch it guards is dead")
		})
	}
	r.Stat("errors_as_sites", n)
	if n == 0 {
		r.Check("errors.As sites", true, "", "", "no errors.As with a concrete target in the module")
	}
}

// ruleC05R13: the stream watcher is edge-triggered. The errgroup member of a stream's run that waits on the
// connection's status condition must notice an outage that is already over when it gets to look: a redial that
// completes (Reconnecting -> Connected) before the watcher is scheduled leaves a level test "is it Reconnecting now?"
// false for ever, the run is never ended and the stream stays on the dead wire connection. The loop condition has to
// involve the connection generation (connStatus.connects) as well.
func ruleC05R13(r *Run) {
	r.Begin("R13", "stream watchers are edge-triggered: in package iscp, every wait loop on the connection status condition that tests for Reconnecting (the watcher of a stream's run) also reads the connection generation connStatus.connects inside the loop, directly or through a connStatus method", 2)
	p := r.P
	reconnecting, ok := p.enumConst("/iscp", "connStatusReconnecting")
	holder := r.named("/iscp", "connStatus")
	if !ok || holder == nil {
		r.Undecided("anchors", "connStatusReconnecting or connStatus not found")
		return
	}
	const gen = "/iscp.connStatus.connects"
	var readsGen func(fn *ssa.Function, depth int) bool
	readsGen = func(fn *ssa.Function, depth int) bool {
		if fn == nil || fn.Blocks == nil || depth > 2 {
			return false
		}
		found := false
		allInstrs(fn, func(ins ssa.Instruction) {
			if u, isU := ins.(*ssa.UnOp); isU && u.Op == token.MUL && fieldKeyOfAddr(u.X) == gen {
				found = true
			}
			if c, isC := ins.(*ssa.Call); isC && !found {
				if cal := c.Call.StaticCallee(); cal != nil && cal.Signature.Recv() != nil && namedOf(cal.Signature.Recv().Type()) == holder && readsGen(cal, depth+1) {
					found = true
				}
			}
		})
		return found
	}
	n := 0
	for _, fn := range p.Funcs {
		if fnPkgPath(fn) != modPath+"/iscp" || fn.Blocks == nil {
			continue
		}
		// not the status holder's own waits
		if t := topFunc(fn); t.Signature.Recv() != nil && namedOf(t.Signature.Recv().Type()) == holder {
			continue
		}
		allInstrs(fn, func(ins ssa.Instruction) {
			c, isC := ins.(*ssa.Call)
			if !isC {
				return
			}
			if op, _ := classifyLockCall(&c.Call); op != opWait || !inLoop(c) {
				return
			}
			loop := loopBlocks(c.Block())
			level, genRead := false, false
			for b := range loop {
				for _, x := range b.Instrs {
					cc, isCall := x.(*ssa.Call)
					if !isCall {
						if u, isU := x.(*ssa.UnOp); isU && u.Op == token.MUL && fieldKeyOfAddr(u.X) == gen {
							genRead = true
						}
						continue
					}
					cal := cc.Call.StaticCallee()
					if cal == nil || cal.Signature.Recv() == nil {
						continue
					}
					if namedOf(cal.Signature.Recv().Type()) != holder {
						// the loop predicate moved into a helper of the stream (attachedWithoutLock()): look inside
						if p.Analysed(cal) && cal.Blocks != nil && fnPkgPath(cal) == modPath+"/iscp" {
							allInstrs(cal, func(y ssa.Instruction) {
								c2, isC2 := y.(*ssa.Call)
								if !isC2 {
									if u, isU := y.(*ssa.UnOp); isU && u.Op == token.MUL && fieldKeyOfAddr(u.X) == gen {
										genRead = true
									}
									return
								}
								cal2 := c2.Call.StaticCallee()
								if cal2 == nil || cal2.Signature.Recv() == nil || namedOf(cal2.Signature.Recv().Type()) != holder {
									return
								}
								for _, a := range c2.Call.Args[1:] {
									if v, isK := constInt(a); isK && v == reconnecting {
										level = true
									}
								}
								if readsGen(cal2, 0) {
									genRead = true
								}
							})
						}
						continue
					}
					for _, a := range cc.Call.Args[1:] {
						if v, isK := constInt(a); isK && v == reconnecting {
							level = true
						}
					}
					if readsGen(cal, 0) {
						genRead = true
					}
				}
			}
			if !level {
				return
			}
			n++
			name := fnName(fn)
			r.Check(name+" watcher also looks at the connection generation", genRead, posOf(p, c), name, "the wait loop ends only while the status IS Reconnecting; a redial that is over before this goroutine looks is never noticed and the stream is not resumed on the new connection")
		})
	}
	if n == 0 {
		r.Undecided("stream watchers", "no wait loop testing for Reconnecting found outside the status holder")
	}
}

// ruleClosedChannelsRecognised: a receive from a closed channel succeeds at once with the zero value. Where the module
// closes the channels it keeps in a table (close(ch) on an element of a map field), every function that registers a
// channel in that table and receives from it must use the two-value form — otherwise "the table was torn down" reads
// as "a nil reply arrived", and the error that makes the caller retry after a reconnect is lost.
func ruleClosedChannelsRecognised(r *Run, id string, pkgs ...string) {
	r.Begin(id, "closed channels are recognised: for every map field whose element channels are closed somewhere in the module, each receive on a channel that the receiving function itself registered in that map is in comma-ok form (for a select case: the select's receive-ok result is used); likewise every receive from the channel of a struct field (other than a struct{} signal) that some function closes", 10)
	p := r.P
	inPkgs := func(fn *ssa.Function) bool {
		for _, pk := range pkgs {
			if fnPkgPath(fn) == modPath+pk {
				return true
			}
		}
		return false
	}
	closed := map[string]string{} // field key -> where closed
	for _, fn := range p.Funcs {
		if !inPkgs(fn) || fn.Blocks == nil {
			continue
		}
		allInstrs(fn, func(ins ssa.Instruction) {
			cc := instrCall(ins)
			if cc == nil {
				return
			}
			if b, isB := cc.Value.(*ssa.Builtin); !isB || b.Name() != "close" {
				return
			}
			for _, l := range p.Leaves(cc.Args[0], provOpts{}) {
				if (strings.HasPrefix(l, "elem:") || strings.HasPrefix(l, "rangeval:")) && strings.Contains(l, "/") {
					closed[l[strings.IndexByte(l, '/'):]] = posOf(p, ins)
				}
			}
		})
	}
	n := 0
	for _, fn := range p.Funcs {
		if !inPkgs(fn) || fn.Blocks == nil {
			continue
		}
		k := 0
		allInstrs(fn, func(ins ssa.Instruction) {
			mu, ok := ins.(*ssa.MapUpdate)
			if !ok {
				return
			}
			u, isU := mu.Map.(*ssa.UnOp)
			if !isU {
				return
			}
			fk := fieldKeyOfAddr(u.X)
			where, isClosed := closed[fk]
			if !isClosed {
				return
			}
			ch := canonVal(mu.Value)
			same := func(v ssa.Value) bool {
				c := canonVal(v)
				if ct, isCT := c.(*ssa.ChangeType); isCT {
					c = canonVal(ct.X)
				}
				return c == ch
			}
			allInstrs(fn, func(x ssa.Instruction) {
				switch y := x.(type) {
				case *ssa.UnOp:
					if y.Op == token.ARROW && same(y.X) {
						n++
						k++
						r.Check(fmt.Sprintf("%s receive#%d from %s", fnName(fn), k, shortKey(fk)), y.CommaOk, posOf(p, y), fnName(fn), "the channels of "+fk+" are closed at "+where+"; this receive does not ask whether the channel was closed and takes the zero value for a message")
					}
				case *ssa.Select:
					for i, st := range y.States {
						if st.Dir != types.RecvOnly || !same(st.Chan) {
							continue
						}
						_ = i
						n++
						k++
						used := false
						if y.Referrers() != nil {
							for _, ref := range *y.Referrers() {
								if ex, isEx := ref.(*ssa.Extract); isEx && ex.Index == 1 && ex.Referrers() != nil && len(*ex.Referrers()) > 0 {
									used = true
								}
							}
						}
						r.Check(fmt.Sprintf("%s receive#%d from %s", fnName(fn), k, shortKey(fk)), used, posOf(p, y), fnName(fn), "the channels of "+fk+" are closed at "+where+"; this select case does not ask whether the channel was closed and takes the zero value for a message")
					}
				}
			})
		})
	}
	// the same for channels kept in struct fields: where the module closes the channel of a field (a data channel, not a
	// struct{} signal), every receive from that field's channel asks whether it was closed
	closedField := map[string]string{}
	for _, fn := range p.Funcs {
		if !inPkgs(fn) || fn.Blocks == nil {
			continue
		}
		allInstrs(fn, func(ins ssa.Instruction) {
			cc := instrCall(ins)
			if cc == nil {
				return
			}
			if b, isB := cc.Value.(*ssa.Builtin); !isB || b.Name() != "close" {
				return
			}
			ch, isCh := cc.Args[0].Type().Underlying().(*types.Chan)
			if !isCh {
				return
			}
			if st, isSt := ch.Elem().Underlying().(*types.Struct); isSt && st.NumFields() == 0 {
				return
			}
			if u, isU := canonVal(cc.Args[0]).(*ssa.UnOp); isU && u.Op == token.MUL {
				if fk := fieldKeyOfAddr(u.X); fk != "" {
					closedField[fk] = posOf(p, ins)
				}
			}
		})
	}
	for _, fn := range p.Funcs {
		if !inPkgs(fn) || fn.Blocks == nil {
			continue
		}
		k := 0
		fieldOfChan := func(v ssa.Value) string {
			c := canonVal(v)
			if ct, isCT := c.(*ssa.ChangeType); isCT {
				c = canonVal(ct.X)
			}
			if u, isU := c.(*ssa.UnOp); isU && u.Op == token.MUL {
				return fieldKeyOfAddr(u.X)
			}
			return ""
		}
		allInstrs(fn, func(x ssa.Instruction) {
			switch y := x.(type) {
			case *ssa.UnOp:
				if y.Op != token.ARROW {
					return
				}
				fk := fieldOfChan(y.X)
				where, isClosed := closedField[fk]
				if !isClosed {
					return
				}
				n++
				k++
				r.Check(fmt.Sprintf("%s receive#%d from field %s", fnName(fn), k, shortKey(fk)), y.CommaOk, posOf(p, y), fnName(fn), "the channel of "+fk+" is closed at "+where+"; this receive does not ask whether it was closed and takes the zero value for a message")
			case *ssa.Select:
				for _, st := range y.States {
					if st.Dir != types.RecvOnly {
						continue
					}
					fk := fieldOfChan(st.Chan)
					where, isClosed := closedField[fk]
					if !isClosed {
						continue
					}
					n++
					k++
					used := false
					if y.Referrers() != nil {
						for _, ref := range *y.Referrers() {
							if ex, isEx := ref.(*ssa.Extract); isEx && ex.Index == 1 && ex.Referrers() != nil && len(*ex.Referrers()) > 0 {
								used = true
							}
						}
					}
					r.Check(fmt.Sprintf("%s receive#%d from field %s", fnName(fn), k, shortKey(fk)), used, posOf(p, y), fnName(fn), "the channel of "+fk+" is closed at "+where+"; this select case does not ask whether it was closed and takes the zero value for a message")
				}
			}
		})
	}
	r.Stat("closed_tables", len(closed))
	r.Stat("closed_fields", len(closedField))
	r.Stat("receives_examined", n)
	if n == 0 {
		r.Check("receives from closed tables", true, "", "", fmt.Sprintf("%d map fields have their element channels closed; no registering function receives from one", len(closed)))
	}
}

// ruleAttemptUsesCurrentConn: the function literal handed to (*Conn).send is run again after a reconnect. The wire
// connection it talks to has to be looked up inside the literal; a *wire.ClientConn captured from the enclosing function
// is the connection of the first attempt, which is closed by the time the second attempt runs.
func ruleAttemptUsesCurrentConn(r *Run, id string) {
	r.Begin(id, "every attempt talks to the current connection: in a function literal handed to (*Conn).send, no method of wire.ClientConn is called on a connection captured from outside the literal", 3)
	p := r.P
	send := r.method("/iscp", "Conn", "send")
	if send == nil {
		return
	}
	n := 0
	for _, site := range p.staticCallSites(send) {
		for _, a := range instrCall(site).Args {
			unit := closureOf(a)
			if unit == nil {
				continue
			}
			n++
			name := fnName(unit)
			bad := ""
			where := posOf(p, site)
			withAnon(unit, func(g *ssa.Function) {
				allInstrs(g, func(ins ssa.Instruction) {
					cc := instrCall(ins)
					if cc == nil {
						return
					}
					cal := cc.StaticCallee()
					if cal == nil || len(cc.Args) == 0 {
						return
					}
					for _, arg := range cc.Args {
						if n := namedOf(deref(arg.Type())); n == nil || n.Obj().Name() != "ClientConn" || n.Obj().Pkg() == nil || n.Obj().Pkg().Path() != modPath+"/wire" {
							continue
						}
						v := arg
						if u, isU := v.(*ssa.UnOp); isU && u.Op == token.MUL {
							v = u.X
						}
						fv, isFV := v.(*ssa.FreeVar)
						if !isFV {
							continue
						}
						// the captured variable is fine when it is assigned inside the literal before this use
						assigned := false
						allInstrs(g, func(y ssa.Instruction) {
							if st, isSt := y.(*ssa.Store); isSt && st.Addr == ssa.Value(fv) && dominatesInstr(st, ins) {
								assigned = true
							}
						})
						if !assigned {
							bad = fv.Name()
							where = posOf(p, ins)
						}
					}
				})
			})
			r.Check(name+" looks the connection up per attempt", bad == "", where, name, "the attempt uses the wire connection captured in "+bad+" by the enclosing function: after a reconnect the second attempt talks to the closed connection of the first")
		}
	}
	if n == 0 {
		r.Undecided("retried units", "no function literal is handed to (*Conn).send")
	}
}
