package main

import (
	"fmt"
	"go/token"
	"go/types"
	"sort"
	"strings"

	"golang.org/x/tools/go/ssa"
)

// ---- lock-order graph ----

type lockEdge struct {
	From, To *types.Var
	Fn       *ssa.Function
	Pos      token.Pos
	Via      string
}

func lockFieldName(f *types.Var, owner map[*types.Var]string) string {
	if n, ok := owner[f]; ok {
		return n
	}
	return f.Name()
}

// acquiredFields: lock fields acquired by fn itself or by its static callees (transitively, memoised).
func (le *LockEngine) acquiredFields(fn *ssa.Function, memo map[*ssa.Function]map[*types.Var]bool, busy map[*ssa.Function]bool) map[*types.Var]bool {
	if m, ok := memo[fn]; ok {
		return m
	}
	if busy[fn] || fn.Blocks == nil {
		return nil
	}
	busy[fn] = true
	out := map[*types.Var]bool{}
	allInstrs(fn, func(ins ssa.Instruction) {
		c, ok := ins.(*ssa.Call)
		if !ok {
			return
		}
		if op, recv := classifyLockCall(&c.Call); op == opLock || op == opRLock {
			if pt := pathOf(recv); pt != nil {
				if f := le.lockField(pt); f != nil {
					out[f] = true
				}
			}
			return
		}
		var cf *ssa.Function
		if x := c.Call.StaticCallee(); x != nil {
			cf = x
		} else if x := closureOf(c.Call.Value); x != nil {
			cf = x
		}
		if cf != nil && le.P.Analysed(cf) {
			for f := range le.acquiredFields(cf, memo, busy) {
				out[f] = true
			}
		}
	})
	busy[fn] = false
	memo[fn] = out
	return out
}

// lockField: the field object identifying a lock (after folding cond.L onto the embedded RWMutex).
func (le *LockEngine) lockField(pt *Path) *types.Var {
	n := len(pt.Fields)
	if n >= 2 && pt.Fields[n-1].Name() == "L" && pt.Fields[n-2].Name() == "cond" {
		var ownerT types.Type
		if n >= 3 {
			ownerT = pt.Fields[n-3].Type()
		} else if pt.Root != nil {
			ownerT = pt.Root.Type()
		}
		if on := namedOf(ownerT); on != nil && le.Aliases.condIsRW[typeKey(on)] {
			if st, ok := on.Underlying().(*types.Struct); ok {
				for i := 0; i < st.NumFields(); i++ {
					if st.Field(i).Embedded() && typeIs(st.Field(i).Type(), "sync", "RWMutex") {
						return st.Field(i)
					}
				}
			}
		}
	}
	if n >= 2 && pt.Fields[n-1].Name() == "L" && typeIs(pt.Fields[n-2].Type(), "sync", "Cond") {
		return pt.Fields[n-2] // the lock of a sync.Cond field is identified by that field
	}
	return pt.Last()
}

func ruleLockOrder(r *Run, le *LockEngine) {
	r.Begin("O1", "lock order is acyclic: build the graph 'lock A is held while lock B is acquired' over lock fields (directly, or inside a statically called function) for every function of the analysed packages; a cycle is a possible deadlock between two goroutines taking the locks in opposite orders", 5)
	p := r.P
	memo := map[*ssa.Function]map[*types.Var]bool{}
	busy := map[*ssa.Function]bool{}
	ownerName := map[*types.Var]string{}
	var edges []lockEdge
	for _, fn := range p.Funcs {
		fi := le.Info(fn)
		if fi.Events == 0 {
			// still may call lock-taking functions while holding nothing: no edge
		}
		allInstrs(fn, func(ins ssa.Instruction) {
			c, ok := ins.(*ssa.Call)
			if !ok {
				return
			}
			held := le.HeldAt(ins)
			if len(held) == 0 {
				return
			}
			var heldFields []*types.Var
			for k := range held {
				if f := fi.keyLock[k]; f != nil {
					heldFields = append(heldFields, f)
					ownerName[f] = k[strings.LastIndexByte(k, '.')+1:]
				}
			}
			if len(heldFields) == 0 {
				return
			}
			var acquired map[*types.Var]bool
			via := ""
			if op, recv := classifyLockCall(&c.Call); op == opLock || op == opRLock {
				if pt := pathOf(recv); pt != nil {
					if f := le.lockField(pt); f != nil {
						acquired = map[*types.Var]bool{f: true}
					}
				}
			} else {
				var cf *ssa.Function
				if x := c.Call.StaticCallee(); x != nil {
					cf = x
				} else if x := closureOf(c.Call.Value); x != nil {
					cf = x
				}
				if cf != nil && p.Analysed(cf) {
					acquired = le.acquiredFields(cf, memo, busy)
					via = fnName(cf)
				}
			}
			for to := range acquired {
				for _, from := range heldFields {
					if from == to {
						continue // same field: re-entrancy on the same object is L1's business; on different objects it is not an order
					}
					edges = append(edges, lockEdge{From: from, To: to, Fn: fn, Pos: c.Pos(), Via: via})
				}
			}
		})
	}
	// qualified names
	qn := func(f *types.Var) string {
		for _, pk := range p.Pkgs {
			sc := pk.Types.Scope()
			for _, nm := range sc.Names() {
				if tn, ok := sc.Lookup(nm).(*types.TypeName); ok {
					if st, ok := tn.Type().Underlying().(*types.Struct); ok {
						for i := 0; i < st.NumFields(); i++ {
							if st.Field(i) == f {
								return strings.TrimPrefix(pk.PkgPath, modPath) + "." + nm + "." + f.Name()
							}
						}
					}
				}
			}
		}
		return f.Name()
	}
	adj := map[*types.Var]map[*types.Var]lockEdge{}
	for _, e := range edges {
		if adj[e.From] == nil {
			adj[e.From] = map[*types.Var]lockEdge{}
		}
		if _, ok := adj[e.From][e.To]; !ok {
			adj[e.From][e.To] = e
		}
	}
	// report each edge as an obligation: it must not lie on a cycle
	var froms []*types.Var
	for f := range adj {
		froms = append(froms, f)
	}
	sort.Slice(froms, func(i, j int) bool { return qn(froms[i]) < qn(froms[j]) })
	reach := func(src, dst *types.Var) []lockEdge {
		// DFS path src -> dst
		seen := map[*types.Var]bool{}
		var path []lockEdge
		var dfs func(x *types.Var) bool
		dfs = func(x *types.Var) bool {
			if x == dst {
				return true
			}
			if seen[x] {
				return false
			}
			seen[x] = true
			for to, e := range adj[x] {
				path = append(path, e)
				if dfs(to) {
					return true
				}
				path = path[:len(path)-1]
			}
			return false
		}
		if dfs(src) {
			return path
		}
		return nil
	}
	nEdges := 0
	for _, from := range froms {
		var tos []*types.Var
		for t := range adj[from] {
			tos = append(tos, t)
		}
		sort.Slice(tos, func(i, j int) bool { return qn(tos[i]) < qn(tos[j]) })
		for _, to := range tos {
			e := adj[from][to]
			nEdges++
			back := reach(to, from)
			key := qn(from) + " -> " + qn(to)
			if back == nil {
				r.Check(key, true, p.pos(e.Pos), fnName(e.Fn), "held-while-acquiring edge; no path back: not on a cycle")
				continue
			}
			var tr []string
			tr = append(tr, fmt.Sprintf("%s: %s holds %s and acquires %s %s", p.pos(e.Pos), fnName(e.Fn), qn(from), qn(to), viaStr(e.Via)))
			for _, b := range back {
				tr = append(tr, fmt.Sprintf("%s: %s holds %s and acquires %s %s", p.pos(b.Pos), fnName(b.Fn), qn(b.From), qn(b.To), viaStr(b.Via)))
			}
			r.Check(key, false, p.pos(e.Pos), fnName(e.Fn), "this edge lies on a lock-order cycle: two goroutines taking these locks in opposite orders deadlock", tr...)
		}
	}
	r.Stat("lock_order_edges", nEdges)
}

func viaStr(v string) string {
	if v == "" {
		return ""
	}
	return "(inside " + v + ")"
}
