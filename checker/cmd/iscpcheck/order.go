package main

import (
	"go/token"
	"go/types"

	"golang.org/x/tools/go/ssa"
)

// instrIndex returns the index of ins in its block.
func instrIndex(ins ssa.Instruction) int {
	for i, x := range ins.Block().Instrs {
		if x == ins {
			return i
		}
	}
	return -1
}

// dominatesInstr: does a execute before b on every path reaching b (same function)?
func dominatesInstr(a, b ssa.Instruction) bool {
	if a.Parent() != b.Parent() {
		return false
	}
	if a.Block() == b.Block() {
		return instrIndex(a) < instrIndex(b)
	}
	return a.Block().Dominates(b.Block())
}

// staticCallSites returns the call/defer/go instructions in analysed code whose static callee is fn.
func (p *Prog) staticCallSites(fn *ssa.Function) []ssa.Instruction {
	var out []ssa.Instruction
	for _, f := range p.Funcs {
		allInstrs(f, func(ins ssa.Instruction) {
			cc := instrCall(ins)
			if cc == nil {
				return
			}
			if c := cc.StaticCallee(); c == fn {
				out = append(out, ins)
			} else if c := closureOf(cc.Value); c != nil && c == fn {
				out = append(out, ins)
			}
		})
	}
	return out
}

// callsTo returns call instructions (Call/Defer/Go) in fn (optionally including nested closures)
// whose callee object satisfies pred.
func callsTo(fn *ssa.Function, nested bool, pred func(*types.Func, *ssa.CallCommon) bool) []ssa.Instruction {
	var out []ssa.Instruction
	visit := func(f *ssa.Function) {
		allInstrs(f, func(ins ssa.Instruction) {
			cc := instrCall(ins)
			if cc == nil {
				return
			}
			if pred(calleeObj(cc), cc) {
				out = append(out, ins)
			}
		})
	}
	if nested {
		withAnon(fn, visit)
	} else {
		visit(fn)
	}
	return out
}

// fieldStores returns all Store instructions (module-wide) whose address is field f of owner.
func (p *Prog) fieldStores(f *types.Var) []*ssa.Store {
	var out []*ssa.Store
	for _, fn := range p.Funcs {
		allInstrs(fn, func(ins ssa.Instruction) {
			st, ok := ins.(*ssa.Store)
			if !ok {
				return
			}
			fa, ok := st.Addr.(*ssa.FieldAddr)
			if !ok {
				return
			}
			if fieldOf(fa.X.Type(), fa.Field) == f {
				out = append(out, st)
			}
		})
	}
	return out
}

// reachesWithout reports whether, starting right after `from`, some path reaches an instruction
// satisfying target without first passing an instruction satisfying barrier. It returns a
// witness target instruction (nil if none). Search is over the CFG of one function.
func reachesWithout(from ssa.Instruction, target, barrier func(ssa.Instruction) bool) ssa.Instruction {
	type pos struct {
		b *ssa.BasicBlock
		i int
	}
	seen := map[*ssa.BasicBlock]bool{}
	var stack []pos
	stack = append(stack, pos{from.Block(), instrIndex(from) + 1})
	for len(stack) > 0 {
		cur := stack[len(stack)-1]
		stack = stack[:len(stack)-1]
		blocked := false
		for i := cur.i; i < len(cur.b.Instrs); i++ {
			ins := cur.b.Instrs[i]
			if barrier != nil && barrier(ins) {
				blocked = true
				break
			}
			if target(ins) {
				return ins
			}
		}
		if blocked {
			continue
		}
		for _, s := range cur.b.Succs {
			if !seen[s] {
				seen[s] = true
				stack = append(stack, pos{s, 0})
			}
		}
	}
	return nil
}

// reachesFromEntryWithout: from function entry.
func reachesFromEntryWithout(fn *ssa.Function, target, barrier func(ssa.Instruction) bool) ssa.Instruction {
	if len(fn.Blocks) == 0 {
		return nil
	}
	type pos struct {
		b *ssa.BasicBlock
	}
	seen := map[*ssa.BasicBlock]bool{fn.Blocks[0]: true}
	stack := []*ssa.BasicBlock{fn.Blocks[0]}
	for len(stack) > 0 {
		b := stack[len(stack)-1]
		stack = stack[:len(stack)-1]
		blocked := false
		for _, ins := range b.Instrs {
			if barrier != nil && barrier(ins) {
				blocked = true
				break
			}
			if target(ins) {
				return ins
			}
		}
		if blocked {
			continue
		}
		for _, s := range b.Succs {
			if !seen[s] {
				seen[s] = true
				stack = append(stack, s)
			}
		}
	}
	return nil
}

func isReturn(ins ssa.Instruction) bool {
	_, ok := ins.(*ssa.Return)
	return ok
}

// inLoop reports whether the block of ins is part of a CFG cycle.
func inLoop(ins ssa.Instruction) bool {
	b := ins.Block()
	seen := map[*ssa.BasicBlock]bool{}
	stack := append([]*ssa.BasicBlock{}, b.Succs...)
	for len(stack) > 0 {
		x := stack[len(stack)-1]
		stack = stack[:len(stack)-1]
		if x == b {
			return true
		}
		if seen[x] {
			continue
		}
		seen[x] = true
		stack = append(stack, x.Succs...)
	}
	return false
}

var _ = token.NoPos

// isErrCtor: a call that always yields a non-nil error (errors.New, fmt.Errorf and the module's own errors package).
func isErrCtor(v ssa.Value) bool {
	c, ok := v.(*ssa.Call)
	if !ok {
		return false
	}
	switch callName(c) {
	case "errors.New", "fmt.Errorf", "/errors.New", "/errors.Errorf", "/errors.Wrap", "/errors.Wrapf", "/errors.WithStack",
		"github.com/pkg/errors.New", "github.com/pkg/errors.Errorf":
		return true
	}
	return false
}

// successReturnWithout returns a Return of fn whose error result (last result) may be nil on some path from the
// entry that does not execute an instruction satisfying barrier. Phi-merged error values are followed edge by edge,
// so `err = errors.New(…); break` branches merging with the checked path are not reported.
func successReturnWithout(fn *ssa.Function, barrier func(ssa.Instruction) bool) (ssa.Instruction, string) {
	if len(fn.Blocks) == 0 {
		return nil, ""
	}
	// endReach[b]: the end of b is reachable from the entry without passing a barrier
	endReach := map[*ssa.BasicBlock]bool{}
	var visit func(b *ssa.BasicBlock)
	seen := map[*ssa.BasicBlock]bool{}
	visit = func(b *ssa.BasicBlock) {
		if seen[b] {
			return
		}
		seen[b] = true
		for _, ins := range b.Instrs {
			if barrier(ins) {
				return
			}
		}
		endReach[b] = true
		for _, s := range b.Succs {
			visit(s)
		}
	}
	visit(fn.Blocks[0])
	var mayNil func(v ssa.Value, depth int) (bool, string)
	mayNil = func(v ssa.Value, depth int) (bool, string) {
		if depth > 6 {
			return true, "deep phi"
		}
		switch x := v.(type) {
		case *ssa.Const:
			if x.IsNil() {
				return true, "nil"
			}
			return false, ""
		case *ssa.Phi:
			for i, e := range x.Edges {
				if !endReach[x.Block().Preds[i]] {
					continue
				}
				if ok, why := mayNil(e, depth+1); ok {
					return true, why
				}
			}
			return false, ""
		case *ssa.MakeInterface:
			return false, ""
		}
		if isErrCtor(v) {
			return false, ""
		}
		if ins, ok := v.(ssa.Instruction); ok {
			// defined before any barrier on some path?
			if reachesFromEntryWithout(fn, func(i ssa.Instruction) bool { return i == ins }, barrier) != nil {
				return true, v.Name() + " = " + v.String()
			}
			return false, ""
		}
		return true, v.Name()
	}
	var wit ssa.Instruction
	why := ""
	allInstrs(fn, func(ins ssa.Instruction) {
		ret, ok := ins.(*ssa.Return)
		if !ok || wit != nil || !seen[ret.Block()] {
			return
		}
		// the return itself must be reachable without a barrier in its own block
		for _, x := range ret.Block().Instrs {
			if barrier(x) {
				return
			}
		}
		rs := retResults(ret)
		if len(rs) == 0 {
			return
		}
		if ok, w := mayNil(rs[len(rs)-1], 0); ok {
			wit, why = ret, w
		}
	})
	return wit, why
}
