package main

import (
	"fmt"
	"go/token"
	"go/types"
	"strings"

	"golang.org/x/tools/go/ssa"
)

func init() {
	register(&PropSpec{
		ID:          "C15",
		Explanation: "Structural necessary conditions for the keepalive. K1: in the keepalive loop every path from a failed ping to a return passes ClientConn.Close(), except the branch on which the connection's own context is already done. K2: the ping is a request (sendRequest) bounded by a context derived from the connection context with the configured ping timeout (not the interval), and the ticker period is the configured interval. K3: the pong written for a broker ping carries the ping's own request id. K4: the interval and timeout announced in the connect request derive from the configured interval and timeout respectively (never swapped), and the client-side fields are set from the same configuration. K5: the iscp connection's run group has a member that selects on the wire connection's Closed() channel and returns an error, which starts recovery.",
		NotDecided:  []string{"every timing clause (detection bound, no spurious disconnect under load)"},
		Rules: func(r *Run) {
			ruleC15K1(r)
			ruleC15K2(r)
			ruleC15K3(r)
			ruleC15K4(r)
			ruleC15K5(r)
			ruleAlwaysCancels(r, "K7")
			ruleC15K9(r)
			ruleNoTruncatedZeroTest(r, "K10", "/wire", "/iscp")
			ruleDefaultsFillOnlyUnset(r, "K11", "/iscp", "/wire")
			ruleOptionSetters(r, "K12", "conn_options.go")
			ruleDurationUnits(r, "K13", "/iscp", "/wire")
			ruleC15K14(r)
			r.borrow("C07", func() { ruleC07R6(r, newLockEngine(r.P)) }) // a stalled chunk write under the table lock stops the ack router and, behind it, the Pong
			r.borrow("C06", func() { ruleC06R8(r) })                     // a broker ping is never dropped by the demultiplexer
			r.borrow("C07", func() { ruleC07R2(r) })                     // per-alias delivery never blocks the reader that also routes pongs
			r.borrow("C06", func() { ruleC06R5(r) })                     // a request pending when keepalive gives the connection up is released (it may hold the mutex the redial needs)
			ruleLoopDrivers(r, "K8", "the keep-alive stays periodic: in package wire every receive inside a loop from a time source is a Ticker, a time.After, or a Timer that is re-armed inside the loop when its branch continues the loop", func(fn *ssa.Function) bool { return fnPkgPath(fn) == modPath+"/wire" }, 1)
			r.Begin("K6", "pongs are routed without blocking: the reply table the pong is delivered through holds only channels of capacity >= 1 (a reply abandoned by its caller must not stall the router, or live pongs pile up and a live broker is dropped)", 1)
			chanCapRule(r, "/wire.ClientConn.replyCh", 1)
		},
	})
}

// doneBranchBlocks: blocks dominated by the edge on which a non-blocking select chose a Done() case.
// donePredicate: a small function returning one bool whose value tells whether a Done() channel fired: every return on
// a branch entered by a Done() receive returns the constant `when`, every other return the opposite constant.
func donePredicate(fn *ssa.Function) (when bool, ok bool) {
	if fn == nil || fn.Blocks == nil || fn.Signature.Results().Len() != 1 {
		return false, false
	}
	if b, isB := fn.Signature.Results().At(0).Type().Underlying().(*types.Basic); !isB || b.Kind() != types.Bool {
		return false, false
	}
	heads := map[*ssa.BasicBlock]bool{}
	allInstrs(fn, func(ins ssa.Instruction) {
		if sel, isSel := ins.(*ssa.Select); isSel {
			for i, st := range sel.States {
				if st.Dir == types.RecvOnly {
					if _, isDone := doneLike(st.Chan); isDone {
						if sb := selectStateBlock(sel, i); sb != nil {
							heads[sb] = true
						}
					}
				}
			}
		}
	})
	if len(heads) == 0 {
		return false, false
	}
	var doneVals, otherVals []string
	for _, b := range fn.Blocks {
		ret, isRet := b.Instrs[len(b.Instrs)-1].(*ssa.Return)
		if !isRet || b == fn.Recover {
			continue
		}
		rs := retResults(ret)
		k, isK := rs[0].(*ssa.Const)
		if !isK || k.Value == nil {
			return false, false
		}
		under := false
		for h := range heads {
			if h == b || h.Dominates(b) {
				under = true
			}
		}
		if under {
			doneVals = append(doneVals, k.Value.String())
		} else {
			otherVals = append(otherVals, k.Value.String())
		}
	}
	if len(doneVals) == 0 || len(otherVals) == 0 {
		return false, false
	}
	for _, v := range doneVals {
		if v != doneVals[0] {
			return false, false
		}
	}
	for _, v := range otherVals {
		if v == doneVals[0] {
			return false, false
		}
	}
	return doneVals[0] == "true", true
}

func doneBranchHeads(fn *ssa.Function) []*ssa.BasicBlock {
	var out []*ssa.BasicBlock
	// `if x.isDone() { … }` / `if !x.waitTick(c) { … }`: a helper that reports whether a Done() channel fired
	allInstrs(fn, func(ins ssa.Instruction) {
		ifs, ok := ins.(*ssa.If)
		if !ok {
			return
		}
		cond, neg := ifs.Cond, false
		for {
			if u, isU := cond.(*ssa.UnOp); isU && u.Op == token.NOT {
				cond, neg = u.X, !neg
				continue
			}
			break
		}
		c, isCall := cond.(*ssa.Call)
		if !isCall {
			return
		}
		when, isPred := donePredicate(c.Call.StaticCallee())
		if !isPred {
			return
		}
		if when != neg {
			out = append(out, ifs.Block().Succs[0])
		} else {
			out = append(out, ifs.Block().Succs[1])
		}
	})
	// `if ctx.Err() != nil { … }`: the true edge is a done branch as well
	allInstrs(fn, func(ins ssa.Instruction) {
		ifs, ok := ins.(*ssa.If)
		if !ok {
			return
		}
		bo, ok := ifs.Cond.(*ssa.BinOp)
		if !ok || (bo.Op != token.NEQ && bo.Op != token.EQL) || !isNilConst(bo.Y) {
			return
		}
		c, ok := bo.X.(*ssa.Call)
		if !ok || !c.Call.IsInvoke() || c.Call.Method.Name() != "Err" || !isContextType(c.Call.Value.Type()) {
			return
		}
		if bo.Op == token.NEQ {
			out = append(out, ifs.Block().Succs[0])
		} else {
			out = append(out, ifs.Block().Succs[1])
		}
	})
	allInstrs(fn, func(ins ssa.Instruction) {
		sel, ok := ins.(*ssa.Select)
		if !ok {
			return
		}
		doneIdx := map[int64]bool{}
		for i, st := range sel.States {
			if st.Dir == types.RecvOnly {
				if _, isDone := doneLike(st.Chan); isDone {
					doneIdx[int64(i)] = true
				}
			}
		}
		if len(doneIdx) == 0 || sel.Referrers() == nil {
			return
		}
		for _, ref := range *sel.Referrers() {
			ex, isEx := ref.(*ssa.Extract)
			if !isEx || ex.Index != 0 || ex.Referrers() == nil {
				continue
			}
			for _, r2 := range *ex.Referrers() {
				bo, isBo := r2.(*ssa.BinOp)
				if !isBo || bo.Op != token.EQL || bo.Referrers() == nil {
					continue
				}
				k, isK := constInt(bo.Y)
				if !isK || !doneIdx[k] {
					continue
				}
				for _, r3 := range *bo.Referrers() {
					if ifs, isIf := r3.(*ssa.If); isIf {
						out = append(out, ifs.Block().Succs[0])
					}
				}
			}
		}
	})
	return out
}

func ruleC15K1(r *Run) {
	r.Begin("K1", "ping failure closes the wire: in the keepalive loop, from the error edge of the ping, every return is either preceded by ClientConn.Close() or lies on the branch where the connection context is already done", 1)
	p := r.P
	ka := r.method("/wire", "ClientConn", "keepAliveLoop")
	if ka == nil {
		return
	}
	name := fnName(ka)
	// the ping: a call with an error result that gets to sendRequest — in the loop, or in the unexported helper one
	// round of the loop was moved to (the rule is then applied to that helper's exits)
	var ping *ssa.Call
	loop := ka
	p.withHelpers(loop, 1, func(g *ssa.Function) {
		allInstrs(g, func(ins ssa.Instruction) {
			if c, ok := ins.(*ssa.Call); ok && ping == nil {
				if cf := c.Call.StaticCallee(); cf != nil && p.Analysed(cf) && len(errResultsOf(c)) > 0 && p.reachesCall(cf, 1, "/wire.ClientConn.sendRequest") {
					ping = c
					ka = g
				}
			}
		})
	})
	if ping == nil {
		r.Check(name+" pings", false, p.pos(ka.Pos()), name, "the keepalive loop does not send a ping request")
		return
	}
	// error edge
	var errSucc *ssa.BasicBlock
	for _, ev := range errResultsOf(ping) {
		for _, ifs := range nilTestsOf(ka, ev) {
			bo := ifs.Cond.(*ssa.BinOp)
			ne := nilEdge(ifs, bo.X)
			if ne == nil {
				ne = nilEdge(ifs, bo.Y)
			}
			for _, s := range ifs.Block().Succs {
				if s != ne {
					errSucc = s
				}
			}
		}
	}
	if errSucc == nil {
		r.Check(name+" handles ping failure", false, posOf(p, ping), name, "the ping's error is not tested")
		return
	}
	doneHeads := doneBranchHeads(ka)
	w := reachesWithoutFromBlock(errSucc, func(ins ssa.Instruction) bool {
		if !isReturn(ins) {
			return false
		}
		for _, h := range doneHeads {
			if h == ins.Block() || h.Dominates(ins.Block()) {
				return false // already closed by someone else
			}
		}
		return true
	}, func(ins ssa.Instruction) bool { return isCallNamed(ins, "/wire.ClientConn.Close") })
	r.Check(name+" closes on ping failure", w == nil, posOf(p, w), name, "a return is reachable after a failed ping without closing the wire connection: a dead peer is never declared lost and recovery never starts",
		"entry: "+name, "ping: "+posOf(p, ping), "offending exit: "+posOf(p, w))
}

func ruleC15K2(r *Run) {
	r.Begin("K2", "ping is a bounded request: sendPing goes through sendRequest with a context from context.WithTimeout(connection ctx, ClientConn.pingTimeout); the keepalive ticker's period is ClientConn.pingInterval", 2)
	p := r.P
	sp := r.method("/wire", "ClientConn", "sendPing")
	if sp != nil {
		name := fnName(sp)
		ok := false
		detail := "no context.WithTimeout in sendPing"
		for _, c := range findCalls(sp, false, "context.WithTimeout", "context.WithDeadline") {
			args := instrCall(c).Args
			pl := p.Leaves(args[0], provOpts{})
			// (WithDeadline: the deadline is a time plus the timeout, computed here or by the caller; whether that time
			// is the moment the ping is sent is not decided)
			dl := p.Leaves(args[1], provOpts{ParamDepth: 2})
			if isCallNamed(c, "context.WithDeadline") {
				var keep []string
				for _, x := range dl {
					if !strings.HasPrefix(x, "call:time.") && !strings.HasPrefix(x, "recv") && !strings.HasPrefix(x, "field:time.") && !strings.HasPrefix(x, "elem:") && !strings.Contains(x, "Ticker") {
						keep = append(keep, x)
					}
				}
				dl = keep
			}
			okParent := hasLeaf(pl, "field:/wire.ClientConn.ctx")
			okDur := hasLeaf(dl, "field:/wire.ClientConn.pingTimeout") && len(leavesWithin(dl, []string{"field:/wire.ClientConn.pingTimeout", "param:*"})) == 0
			// and the derived context is the one handed to sendRequest
			okUse := false
			for _, sr := range findCalls(sp, false, "/wire.ClientConn.sendRequest") {
				for _, rt := range ctxRoots(instrCall(sr).Args[1]) {
					if rt == c.(ssa.Value) {
						okUse = true
					}
				}
			}
			ok = okParent && okDur && okUse
			detail = fmt.Sprintf("parent from [%s], duration from [%s], used for the request: %v", joinLeaves(pl), joinLeaves(dl), okUse)
		}
		r.Check(name+" timeout", ok, p.pos(sp.Pos()), name, detail)
	}
	ka := r.method("/wire", "ClientConn", "keepAliveLoop")
	if ka != nil {
		name := fnName(ka)
		ok := false
		detail := "no time.NewTicker in the keepalive loop"
		for _, c := range findCalls(ka, false, "time.NewTicker") {
			l := p.Leaves(instrCall(c).Args[0], provOpts{})
			ok = hasLeaf(l, "field:/wire.ClientConn.pingInterval") && len(leavesWithin(l, []string{"field:/wire.ClientConn.pingInterval", "param:*"})) == 0
			detail = "ticker period from [" + joinLeaves(l) + "]"
		}
		r.Check(name+" interval", ok, p.pos(ka.Pos()), name, detail)
	}
}

func ruleC15K3(r *Run) {
	r.Begin("K3", "pong echoes the id: every message.Pong built in package wire takes its RequestID only from the RequestID of a received message.Ping, and is written to the transport", 1)
	p := r.P
	pong := r.named("/message", "Pong")
	if pong == nil {
		return
	}
	n := 0
	for _, lit := range p.allLiterals(pong) {
		if fnPkgPath(lit.Fn) != modPath+"/wire" {
			continue
		}
		n++
		name := fnName(lit.Fn)
		v, has := lit.Fields["RequestID"]
		ok := false
		detail := "RequestID not set"
		if has {
			l := p.Leaves(v, provOpts{})
			ok = hasLeaf(l, "field:/message.Ping.RequestID") && len(leavesWithin(l, []string{"field:/message.Ping.RequestID", "param:*", "rangeval:*", "recvfrom:*"})) == 0
			detail = "RequestID <- [" + joinLeaves(l) + "]"
		}
		r.Check(name+" pong id", ok, p.pos(lit.Alloc.Pos()), name, detail)
		// the pong goes out on the reliable transport (the unreliable one may be absent, and the broker listens for pongs here)
		written := false
		var via []string
		allInstrs(lit.Fn, func(ins ssa.Instruction) {
			cc := instrCall(ins)
			if cc == nil || !cc.IsInvoke() || cc.Method.Name() != "Write" || len(cc.Args) == 0 {
				return
			}
			arg := cc.Args[0]
			if mi, isMI := arg.(*ssa.MakeInterface); isMI {
				arg = mi.X
			}
			if arg != ssa.Value(lit.Alloc) {
				return
			}
			via = p.Leaves(cc.Value, provOpts{})
			if hasLeaf(via, "field:/wire.ClientConn.transport") && !hasLeaf(via, "field:/wire.ClientConn.unreliableTransport") {
				written = true
			}
		})
		r.Check(name+" pong on the reliable transport", written, p.pos(lit.Alloc.Pos()), name, "the pong is written through ["+joinLeaves(via)+"]; it must be ClientConn.transport")
	}
	if n == 0 {
		r.Check("pong is sent", false, "", "wire", "no message.Pong is built in package wire: broker pings are never answered")
	}
}

func ruleC15K4(r *Run) {
	r.Begin("K4", "announced values: ConnectRequest.PingInterval derives from the configured interval (or its default) and never from the timeout, and symmetrically; ClientConn.pingInterval/pingTimeout are set from ClientConnConfig.PingInterval/PingTimeout; iscp hands ConnConfig.PingInterval/PingTimeout to the same-named wire config fields", 6)
	p := r.P
	notMixed := func(l []string, forbid string) bool {
		for _, x := range l {
			if strings.Contains(strings.ToLower(x), strings.ToLower(forbid)) {
				return false
			}
		}
		return true
	}
	cr := r.named("/message", "ConnectRequest")
	if cr != nil {
		for _, lit := range p.allLiterals(cr) {
			if fnPkgPath(lit.Fn) != modPath+"/wire" {
				continue
			}
			name := fnName(lit.Fn)
			for f, other := range map[string]string{"PingInterval": "pingtimeout", "PingTimeout": "pinginterval"} {
				v, has := lit.Fields[f]
				if !has {
					r.Check(name+" announces "+f, false, p.pos(lit.Alloc.Pos()), name, f+" not set in the connect request")
					continue
				}
				l := p.Leaves(v, provOpts{ParamDepth: 2})
				okSrc := hasLeaf(l, "field:/wire.ClientConnConfig."+f)
				r.Check(name+" announces "+f, okSrc && notMixed(l, other), p.pos(lit.Alloc.Pos()), name, f+" <- ["+joinLeaves(l)+"]")
			}
		}
	}
	cc := r.named("/wire", "ClientConn")
	if cc != nil {
		for _, lit := range p.allLiterals(cc) {
			name := fnName(lit.Fn)
			for f, src := range map[string]string{"pingInterval": "PingInterval", "pingTimeout": "PingTimeout"} {
				v, has := lit.Fields[f]
				if !has {
					continue
				}
				l := p.Leaves(v, provOpts{})
				other := "pingtimeout"
				if f == "pingTimeout" {
					other = "pinginterval"
				}
				r.Check(name+" sets "+f, hasLeaf(l, "field:/wire.ClientConnConfig."+src) && notMixed(l, other), p.pos(lit.Alloc.Pos()), name, f+" <- ["+joinLeaves(l)+"]")
			}
		}
	}
	wc := r.named("/wire", "ClientConnConfig")
	if wc != nil {
		for _, lit := range p.allLiterals(wc) {
			if fnPkgPath(lit.Fn) != modPath+"/iscp" {
				continue
			}
			name := fnName(lit.Fn)
			for _, f := range []string{"PingInterval", "PingTimeout"} {
				v, has := lit.Fields[f]
				if !has {
					r.Check(name+" hands over "+f, false, p.pos(lit.Alloc.Pos()), name, f+" not handed to the wire connection")
					continue
				}
				l := p.Leaves(v, provOpts{})
				r.Check(name+" hands over "+f, hasLeaf(l, "field:/iscp.ConnConfig."+f) && len(leavesWithin(l, []string{"field:/iscp.ConnConfig." + f, "param:*"})) == 0, p.pos(lit.Alloc.Pos()), name, f+" <- ["+joinLeaves(l)+"]")
			}
		}
	}
}

func ruleC15K5(r *Run) {
	r.Begin("K5", "a closed wire connection is observed: a member of iscp.Conn's run group selects on wireConn.Closed() and returns a non-nil error from that case", 1)
	p := r.P
	run := r.method("/iscp", "Conn", "run")
	if run == nil {
		return
	}
	ok := false
	where := ""
	check := func(fn *ssa.Function) {
		allInstrs(fn, func(ins ssa.Instruction) {
			sel, isSel := ins.(*ssa.Select)
			if !isSel {
				return
			}
			for i, st := range sel.States {
				if st.Dir != types.RecvOnly {
					continue
				}
				if c, isCall := st.Chan.(*ssa.Call); isCall && isCallNamed(c, "/wire.ClientConn.Closed") {
					// the branch for this case returns a non-nil error
					_ = i
					allInstrs(fn, func(x ssa.Instruction) {
						if ret, isRet := x.(*ssa.Return); isRet && nonNilErrReturn(ret) {
							ok = true
							where = fnName(fn)
						}
					})
				}
			}
		})
	}
	for _, cl := range run.AnonFuncs {
		// the member, and the unexported functions of the package it calls (two levels)
		p.withHelpers(cl, 2, func(g *ssa.Function) { check(g) })
	}
	r.Check(fnName(run)+" observes the wire connection", ok, p.pos(run.Pos()), fnName(run), "observer: "+where)
}

// ruleC15K9: the wire connection's Closed() channel is what iscp.Conn watches to start recovery. Close must fire it
// before it starts tearing the transport down: a transport whose Close blocks on a dead peer (closing handshake)
// would otherwise delay detection by its own timeout.
func ruleC15K9(r *Run) {
	r.Begin("K9", "Close announces before it tears down: in wire.ClientConn.Close the connection's cancel function is called directly (not deferred) and that call dominates the call that closes the transport", 1)
	p := r.P
	fn := r.method("/wire", "ClientConn", "Close")
	if fn == nil {
		return
	}
	name := fnName(fn)
	var cancelCall, deferred, tclose ssa.Instruction
	allInstrs(fn, func(ins ssa.Instruction) {
		var cc *ssa.CallCommon
		switch x := ins.(type) {
		case *ssa.Call:
			cc = &x.Call
		case *ssa.Defer:
			cc = &x.Call
		default:
			return
		}
		if cc.IsInvoke() || cc.StaticCallee() != nil {
			l := []string{}
			if cc.IsInvoke() {
				l = p.Leaves(cc.Value, provOpts{})
			} else if len(cc.Args) > 0 {
				l = p.Leaves(cc.Args[0], provOpts{})
			}
			if hasLeaf(l, "field:/wire.ClientConn.transport") && (callNameCommon(cc) == "Close" || callNameCommon(cc) == ".Close") {
				if _, isDefer := ins.(*ssa.Defer); !isDefer {
					tclose = ins
				}
				return
			}
			// a helper of the same type that calls the cancel function on all its paths counts as the cancel call
			if cf := cc.StaticCallee(); cf != nil && p.Analysed(cf) && cf.Blocks != nil {
				helper := false
				allInstrs(cf, func(x ssa.Instruction) {
					if c2, ok := x.(*ssa.Call); ok && !c2.Call.IsInvoke() && c2.Call.StaticCallee() == nil && c2.Block() == cf.Blocks[0] &&
						hasLeaf(p.Leaves(c2.Call.Value, provOpts{}), "field:/wire.ClientConn.cancel") {
						helper = true
					}
				})
				if helper {
					if _, isDefer := ins.(*ssa.Defer); isDefer {
						deferred = ins
					} else {
						cancelCall = ins
					}
				}
			}
			return
		}
		// dynamic call of a func value: the cancel field
		if hasLeaf(p.Leaves(cc.Value, provOpts{}), "field:/wire.ClientConn.cancel") {
			if _, isDefer := ins.(*ssa.Defer); isDefer {
				deferred = ins
			} else {
				cancelCall = ins
			}
		}
	})
	switch {
	case tclose == nil:
		r.Undecided(name+" transport close", "no direct call closing ClientConn.transport found in Close")
	case cancelCall == nil && deferred != nil:
		r.Check(name+" cancels first", false, posOf(p, deferred), name, "the cancel function is deferred: Closed() fires only after transport.Close() has returned, so a slow teardown delays dead-peer recovery")
	case cancelCall == nil:
		r.Check(name+" cancels first", false, p.pos(fn.Pos()), name, "Close never calls the connection's cancel function")
	default:
		r.Check(name+" cancels first", dominatesInstr(cancelCall, tclose), posOf(p, cancelCall), name, "the cancel call must dominate the transport's Close")
	}
}

func callNameCommon(cc *ssa.CallCommon) string {
	if cc.IsInvoke() {
		return cc.Method.Name()
	}
	if f := cc.StaticCallee(); f != nil {
		return "." + f.Name()
	}
	return ""
}

// ruleC15K14: the goroutine that reads the reliable transport and hands every inbound message to its consumer never
// writes to the transport itself. A write blocks when the peer is not reading; while it blocks nothing is dispatched —
// including the Pong the keep-alive is waiting for, so a live broker is declared lost. Answers (Pong for a broker
// Ping, the close after a Disconnect) are written by their own goroutines, fed through channels.
func ruleC15K14(r *Run) {
	r.Begin("K14", "the reader never writes: no function of package wire that reads the transport in a loop (the dispatcher) reaches a transport Write or Close, directly or through its static callees (two calls deep; go statements excluded)", 1)
	p := r.P
	n := 0
	for _, fn := range p.Funcs {
		if fnPkgPath(fn) != modPath+"/wire" || fn.Blocks == nil {
			continue
		}
		// a reader: invokes Read of the transport inside a loop, in its own body or in a function literal of it (the
		// reading goroutine that feeds the dispatching loop)
		reads := false
		withAnon(fn, func(g *ssa.Function) {
			allInstrs(g, func(ins ssa.Instruction) {
				if c, ok := ins.(*ssa.Call); ok && c.Call.IsInvoke() && (c.Call.Method.Name() == "Read" || c.Call.Method.Name() == "ReadUnreliable") && inLoop(c) {
					reads = true
				}
			})
		})
		if !reads || fn.Parent() != nil {
			continue
		}
		n++
		name := fnName(fn)
		var at ssa.Instruction
		seen := map[*ssa.Function]bool{}
		var visit func(f *ssa.Function, d int)
		visit = func(f *ssa.Function, d int) {
			if f == nil || f.Blocks == nil || seen[f] || d > 2 {
				return
			}
			seen[f] = true
			allInstrs(f, func(ins ssa.Instruction) {
				if _, isGo := ins.(*ssa.Go); isGo {
					return
				}
				c, ok := ins.(*ssa.Call)
				if !ok {
					return
				}
				if c.Call.IsInvoke() && (c.Call.Method.Name() == "Write" || c.Call.Method.Name() == "WriteUnreliable" || c.Call.Method.Name() == "Close" || c.Call.Method.Name() == "CloseWithStatus") && strings.Contains(c.Call.Value.Type().String(), "Transport") {
					at = ins
					return
				}
				if cal := c.Call.StaticCallee(); cal != nil && fnPkgPath(cal) == modPath+"/wire" {
					visit(cal, d+1)
				}
			})
		}
		// the dispatching part: the function itself without the goroutines it starts
		visit(fn, 0)
		where := p.pos(fn.Pos())
		if at != nil {
			where = posOf(p, at)
		}
		r.Check(name+" does not write to the transport", at == nil, where, name, "the goroutine that dispatches inbound messages writes to (or closes) the transport itself: while that call blocks no message is dispatched, the Pong for the client's keep-alive included")
	}
	if n == 0 {
		r.Undecided("transport readers", "no function of package wire reads the transport in a loop")
	}
}
