package main

import (
	"fmt"
	"go/token"
	"go/types"
	"os"
	"sort"
	"strings"

	"golang.org/x/tools/go/ssa"
)

// Access is one read or write of a struct field (or of the contents of the
// map/slice stored in it).
type Access struct {
	Field *types.Var
	Owner *types.Named // struct type declaring the field
	Base  *Path        // path of the object owning the field
	Write bool
	Ins   ssa.Instruction
	Fn    *ssa.Function
	What  string // load | store | mapupdate | delete | range | elemstore
}

func fieldKey(owner *types.Named, f *types.Var) string {
	pk := ""
	if owner.Obj().Pkg() != nil {
		pk = strings.TrimPrefix(owner.Obj().Pkg().Path(), modPath)
	}
	return pk + "." + owner.Obj().Name() + "." + canon(f)
}

// ownerOfField returns the named struct type whose field list contains f, given the base value type.
func ownerOfField(baseT types.Type) *types.Named { return namedOf(baseT) }

// collectAccesses walks fn and reports field accesses.
func collectAccesses(fn *ssa.Function) []Access {
	var out []Access
	add := func(fa ssa.Value, write bool, ins ssa.Instruction, what string) {
		var x ssa.Value
		var idx int
		switch v := fa.(type) {
		case *ssa.FieldAddr:
			x, idx = v.X, v.Field
		case *ssa.Field:
			x, idx = v.X, v.Field
		default:
			return
		}
		f := fieldOf(x.Type(), idx)
		owner := ownerOfField(x.Type())
		if f == nil || owner == nil {
			return
		}
		base := pathOf(x)
		out = append(out, Access{Field: f, Owner: owner, Base: base, Write: write, Ins: ins, Fn: fn, What: what})
	}
	// fieldSource: if v is (a chain of lookups/index on) a load of a FieldAddr, return that FieldAddr
	var fieldSource func(v ssa.Value, depth int) ssa.Value
	fieldSource = func(v ssa.Value, depth int) ssa.Value {
		if depth > 6 {
			return nil
		}
		switch x := v.(type) {
		case *ssa.UnOp:
			if x.Op == token.MUL {
				if fa, ok := x.X.(*ssa.FieldAddr); ok {
					return fa
				}
				if ia, ok := x.X.(*ssa.IndexAddr); ok {
					return fieldSource(ia.X, depth+1)
				}
			}
		case *ssa.Field:
			return x
		case *ssa.Lookup:
			return fieldSource(x.X, depth+1)
		case *ssa.Extract:
			if l, ok := x.Tuple.(*ssa.Lookup); ok {
				return fieldSource(l.X, depth+1)
			}
		case *ssa.Slice:
			return fieldSource(x.X, depth+1)
		case *ssa.FieldAddr:
			return x
		}
		return nil
	}
	allInstrs(fn, func(ins ssa.Instruction) {
		switch x := ins.(type) {
		case *ssa.Store:
			if fa, ok := x.Addr.(*ssa.FieldAddr); ok {
				add(fa, true, ins, "store")
			} else if ia, ok := x.Addr.(*ssa.IndexAddr); ok {
				if src := fieldSource(ia.X, 0); src != nil {
					add(src, true, ins, "elemstore")
				}
			}
		case *ssa.UnOp:
			if x.Op == token.MUL {
				if fa, ok := x.X.(*ssa.FieldAddr); ok {
					add(fa, false, ins, "load")
				}
			}
		case *ssa.Field:
			add(x, false, ins, "load")
		case *ssa.MapUpdate:
			if src := fieldSource(x.Map, 0); src != nil {
				add(src, true, ins, "mapupdate")
			}
		case *ssa.Call:
			if b, ok := x.Call.Value.(*ssa.Builtin); ok {
				switch b.Name() {
				case "delete":
					if src := fieldSource(x.Call.Args[0], 0); src != nil {
						add(src, true, ins, "delete")
					}
				case "clear":
					if src := fieldSource(x.Call.Args[0], 0); src != nil {
						add(src, true, ins, "clear")
					}
				}
			}
		}
	})
	return out
}

// ---- guarded-by table ----

type GuardSpec struct {
	Owner string   // "/iscp.Upstream"
	Field string   // "sendBuffer"
	Lock  []string // lock field path relative to the owner object, e.g. ["mu"] or ["RWMutex"]
	// UpLock: the lock lives on the parent object: drop UpN trailing path fields of the base, then append Lock
	UpN    int
	Reason string
}

type GuardExempt struct {
	Func   string // fnName of the function (or its top-level function)
	Field  string // owner.field key
	Reason string
}

// requirement: lock needed by a function on entry, expressed on its own parameters / free variables.
type lockReq struct {
	Key    string // canonical lock key in the function's own terms
	Mode   int
	Field  string // which guarded field needs it
	Pos    token.Pos
	Chain  []string
	Origin string // accessing function | field | read/write
}

type GuardEngine struct {
	P      *Prog
	LE     *LockEngine
	Table  map[string]*GuardSpec // by fieldKey
	Exempt map[string]string     // "func|fieldKey" -> reason
	reqs   map[*ssa.Function][]lockReq
	busy   map[*ssa.Function]bool
	acc    map[*ssa.Function][]Access
	// statistics
	NAccess int
	NLocal  int // discharged by a lock held in the same function
	NProp   int // propagated to callers
	NExempt int
}

func newGuardEngine(p *Prog, le *LockEngine, table []GuardSpec, exempt []GuardExempt) *GuardEngine {
	g := &GuardEngine{P: p, LE: le, Table: map[string]*GuardSpec{}, Exempt: map[string]string{}, reqs: map[*ssa.Function][]lockReq{}, busy: map[*ssa.Function]bool{}, acc: map[*ssa.Function][]Access{}}
	for i := range table {
		s := &table[i]
		g.Table[s.Owner+"."+s.Field] = s
	}
	for _, e := range exempt {
		g.Exempt[e.Func+"|"+e.Field] = e.Reason
	}
	return g
}

// requiredKey computes the lock key guarding an access, in the function's own terms.
func (g *GuardEngine) requiredKey(a *Access, spec *GuardSpec) (string, bool) {
	if a.Base == nil {
		return "", false
	}
	base := a.Base
	if spec.UpN > 0 {
		base = base.Prefix(spec.UpN)
		if base == nil {
			return "", false
		}
	}
	// resolve lock field objects along the owner type
	t := types.Type(nil)
	if n := len(base.Fields); n > 0 {
		t = base.Fields[n-1].Type()
	} else if base.Root != nil {
		t = base.Root.Type()
	}
	pt := base
	for _, lf := range spec.Lock {
		n := namedOf(t)
		if n == nil {
			// root alloc of pointer to struct etc.
			n = namedOf(deref(t))
		}
		if n == nil {
			return "", false
		}
		st, ok := n.Underlying().(*types.Struct)
		if !ok {
			return "", false
		}
		var fv *types.Var
		for i := 0; i < st.NumFields(); i++ {
			if canon(st.Field(i)) == lf {
				fv = st.Field(i)
			}
		}
		if fv == nil {
			return "", false
		}
		pt = pt.with(fv)
		t = fv.Type()
	}
	return g.LE.Aliases.canonKey(pt), true
}

// isConstructionAccess: the owning object is allocated in this function (or its parent for
// closures) — construction before publication.
func isLocalObject(base *Path) bool {
	if base == nil {
		return false
	}
	switch r := base.Root.(type) {
	case *ssa.Alloc:
		// the object itself is a local allocation only when no field hop goes through a pointer
		// (a pointer field of a local struct may point to a shared object)
		if _, isPtrVar := deref(r.Type()).Underlying().(*types.Pointer); isPtrVar {
			// a local variable holding a pointer: local object only if its single stored value is a local allocation
			v := singleStoredValue(r)
			a2, ok := v.(*ssa.Alloc)
			if !ok {
				return false
			}
			if _, again := deref(a2.Type()).Underlying().(*types.Pointer); again {
				return false
			}
		}
		if len(base.Fields) == 0 {
			return true
		}
		// fields that are themselves struct values are still inside the allocation
		for _, f := range base.Fields {
			if _, isPtr := f.Type().Underlying().(*types.Pointer); isPtr {
				return false
			}
		}
		return true
	}
	return false
}

// Requires computes the locks fn needs its callers to hold.
func (g *GuardEngine) Requires(fn *ssa.Function) []lockReq {
	if r, ok := g.reqs[fn]; ok {
		return r
	}
	if g.busy[fn] {
		return nil
	}
	g.busy[fn] = true
	defer func() { g.busy[fn] = false }()
	var out []lockReq
	seen := map[string]bool{}
	addReq := func(r lockReq) {
		k := fmt.Sprintf("%s|%d|%s|%s", r.Key, r.Mode, r.Field, r.Origin)
		if seen[k] {
			return
		}
		seen[k] = true
		out = append(out, r)
	}
	name := fnName(fn)
	topName := fnName(topFunc(fn))
	accs := collectAccesses(fn)
	g.acc[fn] = accs
	for i := range accs {
		a := &accs[i]
		fk := fieldKey(a.Owner, a.Field)
		spec := g.Table[fk]
		if spec == nil {
			continue
		}
		g.NAccess++
		if _, ok := g.Exempt[name+"|"+fk]; ok {
			g.NExempt++
			continue
		}
		if _, ok := g.Exempt[topName+"|"+fk]; ok {
			g.NExempt++
			continue
		}
		if isLocalObject(a.Base) {
			g.NExempt++
			if os.Getenv("ISCP_DEBUG") != "" {
				fmt.Printf("DEBUG local-object exempt: %s %s %s base=%s\n", g.P.pos(a.Ins.Pos()), name, fk, a.Base)
			}
			continue
		}
		key, ok := g.requiredKey(a, spec)
		mode := modeR
		if a.Write {
			mode = modeW
		}
		// a container handed, together with its lock, to a helper that operates on it under that lock
		// (lookup(&x.mu, x.table, key)): reading the field to pass it on is harmless when the field is never
		// re-assigned after construction; the operations inside the helper are judged with the helper's locks
		// translated to this call site
		if ok && g.handedOverUnderLock(a, key) {
			g.NProp++
			continue
		}
		if !ok {
			addReq(lockReq{Key: "?unresolved:" + fk, Mode: mode, Field: fk, Pos: a.Ins.Pos(), Origin: name + "|" + fk + "|" + rw(a.Write), Chain: []string{fmt.Sprintf("%s: %s of %s (base path unresolved)", g.P.pos(a.Ins.Pos()), a.What, fk)}})
			continue
		}
		held := g.LE.HeldAt(a.Ins)
		if m, ok := held[key]; ok && m >= mode {
			g.NLocal++
			continue
		}
		why := "not held"
		if m, ok := held[key]; ok && m < mode {
			why = "held only in read mode"
		}
		addReq(lockReq{Key: key, Mode: mode, Field: fk, Pos: a.Ins.Pos(), Origin: name + "|" + fk + "|" + rw(a.Write),
			Chain: []string{fmt.Sprintf("%s: %s %s of %s in %s needs %s (%s) — %s here", g.P.pos(a.Ins.Pos()), a.What, rw(a.Write), fk, name, key, modeName(mode), why)}})
	}
	// calls: propagate callee requirements
	allInstrs(fn, func(ins ssa.Instruction) {
		var cc *ssa.CallCommon
		switch x := ins.(type) {
		case *ssa.Call:
			cc = &x.Call
		case *ssa.Defer:
			cc = &x.Call
		default:
			return
		}
		// closures handed to a helper that only calls them (x.locked(func(){…})): they run with the caller's locks
		// plus whatever the helper holds at the point where it calls its argument
		if _, isDefer := ins.(*ssa.Defer); !isDefer {
			for _, ic := range invokedClosureArgs(g.P, cc) {
				creqs := g.Requires(ic.closure)
				if len(creqs) == 0 {
					continue
				}
				held := map[string]int{}
				for k, m := range g.LE.HeldAt(ins) {
					held[k] = m
				}
				for i, s := range ic.sites {
					hh := map[string]int{}
					for k, m := range g.LE.HeldAt(s) {
						if tk, ok := translateKey(ic.helper, k, cc.Args); ok {
							hh[tk] = m
						}
					}
					if i == 0 {
						for k, m := range hh {
							if held[k] < m {
								held[k] = m
							}
						}
					}
				}
				for _, cr := range creqs {
					if m, ok := held[cr.Key]; ok && m >= cr.Mode {
						g.NProp++
						continue
					}
					addReq(lockReq{Key: cr.Key, Mode: cr.Mode, Field: cr.Field, Pos: ins.Pos(), Origin: cr.Origin, Chain: append([]string{fmt.Sprintf("%s: %s hands a closure to %s, which calls it without %s", g.P.pos(ins.Pos()), name, fnName(ic.helper), cr.Key)}, cr.Chain...)})
				}
			}
		}
		var cf *ssa.Function
		if c := cc.StaticCallee(); c != nil {
			cf = c
		} else if c := closureOf(cc.Value); c != nil {
			cf = c
		}
		if cf == nil || !g.P.Analysed(cf) || cf == fn {
			return
		}
		creqs := g.Requires(cf)
		if len(creqs) == 0 {
			return
		}
		var held map[string]int
		if _, isDefer := ins.(*ssa.Defer); isDefer {
			// a deferred call runs at function exit; conservatively use the locks held at the
			// defer statement that are released only by later-registered... we use: held at exit = none,
			// except locks whose unlock was deferred BEFORE this defer (they are released after it, LIFO).
			held = g.heldAtDeferredRun(ins.(*ssa.Defer))
		} else {
			held = g.LE.HeldAt(ins)
		}
		for _, cr := range creqs {
			key := cr.Key
			if !strings.HasPrefix(key, "?") {
				tk, ok := translateKey(cf, key, cc.Args)
				if !ok {
					addReq(lockReq{Key: "?unmapped:" + key, Mode: cr.Mode, Field: cr.Field, Pos: ins.Pos(), Origin: cr.Origin, Chain: append([]string{fmt.Sprintf("%s: call %s (cannot map %s to this call site)", g.P.pos(ins.Pos()), fnName(cf), key)}, cr.Chain...)})
					continue
				}
				key = g.canonString(tk)
			}
			if m, ok := held[key]; ok && m >= cr.Mode {
				g.NProp++
				continue
			}
			// callee object constructed locally in the caller?
			addReq(lockReq{Key: key, Mode: cr.Mode, Field: cr.Field, Pos: ins.Pos(), Origin: cr.Origin, Chain: append([]string{fmt.Sprintf("%s: %s calls %s without %s", g.P.pos(ins.Pos()), name, fnName(cf), key)}, cr.Chain...)})
		}
	})
	g.reqs[fn] = out
	return out
}

// canonString folds ".cond.L" aliases on an already-rendered key when the engine knows the alias by suffix.
func (g *GuardEngine) canonString(k string) string { return k }

func rw(w bool) string {
	if w {
		return "write"
	}
	return "read"
}

// heldAtDeferredRun: locks certainly held when a deferred call runs = locks held at the defer
// statement whose release was itself deferred earlier (LIFO: released after this call).
func (g *GuardEngine) heldAtDeferredRun(d *ssa.Defer) map[string]int {
	fn := d.Parent()
	held := g.LE.HeldAt(d)
	out := map[string]int{}
	// collect unlock defers that precede d in the same block chain (dominating it)
	dom := map[string]bool{}
	for _, b := range fn.Blocks {
		for _, ins := range b.Instrs {
			if ins == d {
				goto done
			}
			if dd, ok := ins.(*ssa.Defer); ok {
				if op, recv := classifyLockCall(&dd.Call); op == opUnlock || op == opRUnlock {
					if pt := pathOf(recv); pt != nil && (b == d.Block() || b.Dominates(d.Block())) {
						dom[g.LE.Aliases.canonKey(pt)] = true
					}
				}
			}
		}
	}
done:
	for k, m := range held {
		if dom[k] {
			out[k] = m
		}
	}
	return out
}

// translateKey maps a key rooted at a callee parameter to the caller's terms.
func translateKey(calleeFn *ssa.Function, key string, args []ssa.Value) (string, bool) {
	for i, prm := range calleeFn.Params {
		pn := prm.Name()
		if key == pn || strings.HasPrefix(key, pn+".") {
			if i >= len(args) {
				return "", false
			}
			ap := pathOf(args[i])
			if ap == nil {
				return "", false
			}
			return ap.String() + strings.TrimPrefix(key, pn), true
		}
	}
	// free variables are already in the parent's terms; globals stay
	return key, true
}

// ---- roots ----

// isRoot: a function whose callers the analysis cannot enumerate (API, goroutine body,
// escaping function value, interface-invoked method).
type rootInfo struct {
	roots map[*ssa.Function]string
}

func computeRoots(p *Prog) *rootInfo {
	ri := &rootInfo{roots: map[*ssa.Function]string{}}
	staticCalled := map[*ssa.Function]bool{}
	handedOver := map[*ssa.Function]bool{} // function values whose only role is to be called by a helper they are handed to
	for _, fn := range p.Funcs {
		allInstrs(fn, func(ins ssa.Instruction) {
			switch x := ins.(type) {
			case *ssa.Go:
				if c := x.Call.StaticCallee(); c != nil {
					ri.roots[c] = "started by a go statement at " + p.pos(x.Pos())
				} else if c := closureOf(x.Call.Value); c != nil {
					ri.roots[c] = "started by a go statement at " + p.pos(x.Pos())
				}
			case *ssa.Call:
				if c := x.Call.StaticCallee(); c != nil {
					staticCalled[c] = true
				} else if c := closureOf(x.Call.Value); c != nil {
					staticCalled[c] = true
				}
			case *ssa.Defer:
				if c := x.Call.StaticCallee(); c != nil {
					staticCalled[c] = true
				} else if c := closureOf(x.Call.Value); c != nil {
					staticCalled[c] = true
				}
			}
			// function values used as operands (not in call position) escape
			var ops []*ssa.Value
			ops = ins.Operands(ops)
			cc := instrCall(ins)
			for _, op := range ops {
				if op == nil || *op == nil {
					continue
				}
				var f *ssa.Function
				switch v := (*op).(type) {
				case *ssa.Function:
					f = v
				case *ssa.MakeClosure:
					f = v.Fn.(*ssa.Function)
				}
				if f == nil {
					continue
				}
				if cc != nil && cc.Value == *op {
					continue // call position
				}
				if cc != nil {
					// handed to a helper that only calls it: accounted for at this call site (see Requires)
					handled := false
					for _, ic := range invokedClosureArgs(p, cc) {
						if ic.closure == f {
							handled = true
						}
					}
					if handled {
						handedOver[f] = true
						continue
					}
				}
				if _, isMC := ins.(*ssa.MakeClosure); isMC {
					continue // the MakeClosure itself; its uses are examined separately
				}
				if st, isSt := ins.(*ssa.Store); isSt && varargsOfPureInvoker(p, st, f) {
					handedOver[f] = true
					continue // an element of the variadic argument of a helper that only calls its arguments
				}
				if _, ok := ri.roots[f]; !ok {
					ri.roots[f] = "function value escapes at " + p.pos(ins.Pos())
				}
			}
		})
	}
	for _, fn := range p.Funcs {
		if _, ok := ri.roots[fn]; ok {
			continue
		}
		if fn.Parent() != nil {
			continue // closures: root only if escaping/go (handled above)
		}
		if handedOver[fn] {
			continue // e.g. the bound-method wrapper of x.m handed to firstError(x.m, …): accounted for at that call
		}
		obj, _ := fn.Object().(*types.Func)
		if obj == nil {
			if !staticCalled[fn] {
				ri.roots[fn] = "synthetic or init function"
			}
			continue
		}
		sig := obj.Type().(*types.Signature)
		if sig.Recv() == nil {
			if obj.Exported() {
				ri.roots[fn] = "exported function"
			} else if !staticCalled[fn] {
				ri.roots[fn] = "unexported function without static callers (function value or dead)"
			}
			continue
		}
		rn := namedOf(sig.Recv().Type())
		if obj.Exported() {
			if rn != nil && rn.Obj().Exported() {
				ri.roots[fn] = "exported method of exported type"
				continue
			}
			// exported method of unexported type: reachable through an interface?
			if rn != nil && implementsSomeInterfaceMethod(p, rn, obj) {
				ri.roots[fn] = "method callable through an interface"
				continue
			}
		}
		if !staticCalled[fn] {
			ri.roots[fn] = "method without static callers"
		}
	}
	return ri
}

// implementsSomeInterfaceMethod: is there an interface type in the module (or a used std one)
// with a method of this name that the receiver type implements?
func implementsSomeInterfaceMethod(p *Prog, rn *types.Named, m *types.Func) bool {
	for _, pk := range p.All {
		sc := pk.Types.Scope()
		for _, nm := range sc.Names() {
			tn, ok := sc.Lookup(nm).(*types.TypeName)
			if !ok {
				continue
			}
			it, ok := tn.Type().Underlying().(*types.Interface)
			if !ok || it.NumMethods() == 0 {
				continue
			}
			has := false
			for i := 0; i < it.NumMethods(); i++ {
				if it.Method(i).Name() == m.Name() {
					has = true
				}
			}
			if !has {
				continue
			}
			if types.Implements(types.NewPointer(rn), it) || types.Implements(rn, it) {
				return true
			}
		}
	}
	return false
}

// ---- discovery: per-field lock statistics ----

func discoverGuards(p *Prog) {
	le := newLockEngine(p)
	type stat struct {
		total, locked int
		byLock        map[string]int
		unlocked      []string
	}
	stats := map[string]*stat{}
	for _, fn := range p.Funcs {
		for _, a := range collectAccesses(fn) {
			if !strings.HasPrefix(a.Owner.Obj().Pkg().Path(), modPath) {
				continue
			}
			fk := fieldKey(a.Owner, a.Field)
			s := stats[fk]
			if s == nil {
				s = &stat{byLock: map[string]int{}}
				stats[fk] = s
			}
			s.total++
			held := le.HeldAt(a.Ins)
			if len(held) == 0 {
				s.unlocked = append(s.unlocked, fmt.Sprintf("%s %s %s(%s)", p.pos(a.Ins.Pos()), fnName(fn), a.What, rw(a.Write)))
				continue
			}
			s.locked++
			ks := []string{}
			for k, m := range held {
				// make the key relative to the base
				rel := k
				if a.Base != nil {
					bs := a.Base.String()
					if strings.HasPrefix(k, bs+".") {
						rel = "." + strings.TrimPrefix(k, bs+".")
					}
				}
				ks = append(ks, rel+"/"+modeName(m)[:1])
			}
			sort.Strings(ks)
			s.byLock[strings.Join(ks, ",")]++
		}
	}
	keys := []string{}
	for k, s := range stats {
		if s.locked > 0 {
			keys = append(keys, k)
		}
	}
	sort.Strings(keys)
	for _, k := range keys {
		s := stats[k]
		fmt.Printf("%s: %d/%d under lock %v\n", k, s.locked, s.total, s.byLock)
		for _, u := range s.unlocked {
			fmt.Printf("      unlocked: %s\n", u)
		}
	}
}

// ---- helpers that call a function argument under a lock: func (x *T) locked(f func()) { x.mu.Lock(); defer x.mu.Unlock(); f() } ----

// paramInvocations returns, for parameter index i of h, the call instructions of h that invoke that parameter — or
// ok=false when the parameter is also used in any other way (stored, passed on, started with go): then h is not a
// pure invoker and a closure handed to it escapes.
func paramInvocations(h *ssa.Function, i int) (sites []ssa.Instruction, ok bool) {
	if h == nil || h.Blocks == nil || i >= len(h.Params) {
		return nil, false
	}
	prm := h.Params[i]
	if sl, isSlice := prm.Type().Underlying().(*types.Slice); isSlice {
		// a (variadic) slice of functions that the helper only ranges over and calls: firstError(steps ...func() error)
		if _, isFunc := sl.Elem().Underlying().(*types.Signature); !isFunc || prm.Referrers() == nil {
			return nil, false
		}
		for _, ref := range *prm.Referrers() {
			switch x := ref.(type) {
			case *ssa.IndexAddr:
				if x.Referrers() == nil {
					return nil, false
				}
				for _, r2 := range *x.Referrers() {
					ld, isLd := r2.(*ssa.UnOp)
					if !isLd || ld.Referrers() == nil {
						return nil, false
					}
					for _, r3 := range *ld.Referrers() {
						if c, isCall := r3.(*ssa.Call); isCall && c.Call.Value == ssa.Value(ld) {
							sites = append(sites, c)
						} else if _, isDbg := r3.(*ssa.DebugRef); !isDbg {
							return nil, false
						}
					}
				}
			case *ssa.Call:
				if b, isB := x.Call.Value.(*ssa.Builtin); isB && (b.Name() == "len" || b.Name() == "cap") {
					continue
				}
				return nil, false
			case *ssa.DebugRef:
			default:
				return nil, false
			}
		}
		return sites, len(sites) > 0
	}
	if _, isFunc := prm.Type().Underlying().(*types.Signature); !isFunc {
		return nil, false
	}
	if prm.Referrers() == nil {
		return nil, false
	}
	for _, ref := range *prm.Referrers() {
		switch x := ref.(type) {
		case *ssa.Call:
			if x.Call.Value == ssa.Value(prm) && !x.Call.IsInvoke() {
				sites = append(sites, x)
				continue
			}
			return nil, false
		case *ssa.DebugRef:
			continue
		default:
			return nil, false
		}
	}
	return sites, len(sites) > 0
}

// invokedClosureArgs: for a call of a pure invoker, the closures it is handed and the invocation sites inside it.
func invokedClosureArgs(p *Prog, cc *ssa.CallCommon) (out []struct {
	closure *ssa.Function
	helper  *ssa.Function
	sites   []ssa.Instruction
}) {
	h := cc.StaticCallee()
	if h == nil || !p.Analysed(h) {
		return nil
	}
	for j, a := range cc.Args {
		var cls []*ssa.Function
		if cl := closureOf(a); cl != nil {
			cls = append(cls, cl)
		} else if sl, isSl := a.(*ssa.Slice); isSl {
			// variadic arguments: closures stored into the elements of a fresh array
			if arr, isAlloc := sl.X.(*ssa.Alloc); isAlloc && arr.Referrers() != nil {
				for _, ref := range *arr.Referrers() {
					if ia, isIA := ref.(*ssa.IndexAddr); isIA && ia.Referrers() != nil {
						for _, r2 := range *ia.Referrers() {
							if st, isSt := r2.(*ssa.Store); isSt && st.Addr == ssa.Value(ia) {
								if cl := closureOf(st.Val); cl != nil {
									cls = append(cls, cl)
								} else if mc, isMC := st.Val.(*ssa.MakeClosure); isMC {
									if f, isF := mc.Fn.(*ssa.Function); isF {
										cls = append(cls, f)
									}
								}
							}
						}
					}
				}
			}
		}
		if len(cls) == 0 {
			continue
		}
		if sites, ok := paramInvocations(h, j); ok {
			for _, cl := range cls {
				out = append(out, struct {
					closure *ssa.Function
					helper  *ssa.Function
					sites   []ssa.Instruction
				}{cl, h, sites})
			}
		}
	}
	return out
}

// varargsOfPureInvoker: st stores function value f into an element of an array whose only consumer is the variadic
// argument of a call to a helper that merely invokes its arguments (accounted for at that call, see Requires).
func varargsOfPureInvoker(p *Prog, st *ssa.Store, f *ssa.Function) bool {
	ia, ok := st.Addr.(*ssa.IndexAddr)
	if !ok {
		return false
	}
	arr, ok := ia.X.(*ssa.Alloc)
	if !ok || arr.Referrers() == nil {
		return false
	}
	for _, ref := range *arr.Referrers() {
		sl, isSl := ref.(*ssa.Slice)
		if !isSl || sl.Referrers() == nil {
			continue
		}
		for _, r2 := range *sl.Referrers() {
			cc := instrCall(r2)
			if cc == nil {
				continue
			}
			for _, ic := range invokedClosureArgs(p, cc) {
				if ic.closure == f {
					return true
				}
			}
		}
	}
	return false
}

// handedOverUnderLock: access a is the load of a map or slice field whose value is used only as an argument of static
// calls; the field is write-once (stored only on objects under construction); and every operation the callees perform
// on the corresponding parameter happens with the required lock (key, in the caller's terms) held inside the callee,
// in a sufficient mode. The parameter must not escape from the callee.
func (g *GuardEngine) handedOverUnderLock(a *Access, key string) bool {
	ld, ok := a.Ins.(*ssa.UnOp)
	if !ok || a.Write || a.What != "load" || ld.Referrers() == nil || len(*ld.Referrers()) == 0 {
		return false
	}
	switch ld.Type().Underlying().(type) {
	case *types.Map, *types.Slice:
	default:
		return false
	}
	for _, st := range g.P.fieldStores(a.Field) {
		if fa, isFA := st.Addr.(*ssa.FieldAddr); !isFA || !isLocalObject(pathOf(fa.X)) {
			return false // re-assigned on a shared object: the field itself needs the lock
		}
	}
	for _, ref := range *ld.Referrers() {
		call, isCall := ref.(*ssa.Call)
		if !isCall {
			return false
		}
		h := call.Call.StaticCallee()
		if h == nil || !g.P.Analysed(h) || h.Blocks == nil {
			return false
		}
		for i, arg := range call.Call.Args {
			if arg != ssa.Value(ld) {
				continue
			}
			if i >= len(h.Params) || h.Params[i].Referrers() == nil {
				return false
			}
			for _, use := range *h.Params[i].Referrers() {
				need := modeR
				switch x := use.(type) {
				case *ssa.Lookup:
					if x.X != ssa.Value(h.Params[i]) {
						return false
					}
				case *ssa.Range:
				case *ssa.MapUpdate:
					if x.Map != ssa.Value(h.Params[i]) {
						return false
					}
					need = modeW
				case *ssa.Call:
					b, isB := x.Call.Value.(*ssa.Builtin)
					if !isB {
						return false
					}
					switch b.Name() {
					case "len":
					case "delete":
						need = modeW
					default:
						return false
					}
				case *ssa.DebugRef:
					continue
				default:
					return false // returned, stored, captured: the container escapes the helper
				}
				held := 0
				for k, m := range g.LE.HeldAt(use) {
					if tk, okT := translateKey(h, k, call.Call.Args); okT && g.canonString(tk) == key && m > held {
						held = m
					}
				}
				if held < need {
					return false
				}
			}
		}
	}
	return true
}
