package main

import (
	"fmt"
	"go/token"
	"go/types"
	"sort"
	"strings"

	"golang.org/x/tools/go/ssa"
)

func init() {
	register(&PropSpec{
		ID:          "C04",
		Explanation: "Structural necessary conditions for exactly-once downstream acknowledgement and consistent alias announcement. R1: the function that builds the DownstreamChunkAck reads the three ack buffers and replaces all three by fresh containers with the stream mutex held in write mode, on every path, before the ack is sent. R2: the ack id generator's Next has one call site (not in a loop) feeding AckID and starts at 0. R3: ReadDataPoints pushes exactly one result on every path that returns a chunk and none on error paths; the result carries the chunk's own sequence number and the resolved upstream's stream id. R4: each alias generator's Next is dominated by a negative membership test by value (comma-ok lookup keyed by a value type, or == on non-pointer operands). R5: the close request is preceded by the wait for the final ack flush unless the stream was resuming, and the flusher closes that signal only after its last flush.",
		NotDecided:  []string{"exactly-once acknowledgement over histories and across resume", "alias injectivity under concurrent readers", "timing of flush intervals"},
		Rules: func(r *Run) {
			le := newLockEngine(r.P)
			ruleC04R1(r, le)
			ruleC04R2(r)
			ruleC04R3(r)
			ruleC04R4(r)
			ruleC04R5(r)
			ruleResumeRestoresConnected(r, "R6", "Downstream")
			ruleC04R8(r, le)
			ruleC04R9(r)
			ruleC04R11(r)
			ruleC04R13(r)
			ruleCheckThenActAtomic(r, "R12", "/iscp", "/wire")
			ruleOptionSetters(r, "R10", "downstream_options.go")
			r.borrow("C03", func() { ruleC03R2(r) }) // one alias generator for pre-registered and new aliases
			ruleLoopDrivers(r, "R7", "the ack flusher stays periodic: in package iscp every receive inside a loop from a time source is a Ticker, a time.After, or a Timer that is re-armed inside the loop when its branch continues the loop", func(fn *ssa.Function) bool { return fnPkgPath(fn) == modPath+"/iscp" }, 1)
		},
	})
}

var ackBuffers = []string{"/iscp.Downstream.upstreamInfoAckBuffer", "/iscp.Downstream.dataIDAckBuffer", "/iscp.Downstream.resultAckBuffer"}

func isFreshContainer(v ssa.Value) bool {
	switch x := v.(type) {
	case *ssa.MakeMap, *ssa.MakeSlice:
		return true
	case *ssa.Slice:
		// make([]T, 0) lowers to slice(new [0]T)
		if a, ok := x.X.(*ssa.Alloc); ok {
			if refs := a.Referrers(); refs != nil {
				for _, ref := range *refs {
					if _, isStore := ref.(*ssa.Store); isStore {
						return false
					}
				}
			}
			return true
		}
	case *ssa.Const:
		return x.Value == nil // nil slice/map is an empty container as well
	}
	return false
}

func ruleC04R1(r *Run, le *LockEngine) {
	r.Begin("R1", "atomic swap: where the DownstreamChunkAck is built, its UpstreamAliases/DataIDAliases/Results come from the three ack buffers, all three buffers are replaced by fresh empty containers on every path from there to a return and before the ack is sent, and the stream mutex is held in write mode throughout", 8)
	p := r.P
	ackT := r.named("/message", "DownstreamChunkAck")
	if ackT == nil {
		return
	}
	n := 0
	for _, lit := range p.allLiterals(ackT) {
		if fnPkgPath(lit.Fn) != modPath+"/iscp" {
			continue
		}
		n++
		fn := lit.Fn
		name := fnName(fn)
		mu := upstreamMuKey(fn)
		for field, buf := range map[string]string{"UpstreamAliases": ackBuffers[0], "DataIDAliases": ackBuffers[1], "Results": ackBuffers[2]} {
			v, ok := lit.Fields[field]
			if !ok {
				r.Check(name+" ack."+field, false, p.pos(lit.Alloc.Pos()), name, "field not set")
				continue
			}
			l := p.Leaves(v, provOpts{})
			bad := leavesWithin(l, []string{"field:" + buf, "param:*"})
			r.Check(name+" ack."+field, hasLeaf(l, "field:"+buf) && len(bad) == 0, p.pos(lit.Alloc.Pos()), name, fmt.Sprintf("%s <- [%s]; must be exactly %s", field, joinLeaves(l), buf))
			// read under lock
			if st := lit.Stores[field]; st != nil {
				h := le.HeldAt(st)
				r.Check(name+" ack."+field+" under lock", le.ModeAtOrByCallers(st, mu) == modeW, posOf(p, st), name, fmt.Sprintf("locks held: %v", h))
			}
		}
		// resets: measured from the read of each buffer that flows into the ack (not from the literal, so that
		// "read into temporaries, reset, then build the ack" is accepted as well)
		anchorOf := func(field string) ssa.Instruction {
			if st := lit.Stores[field]; st != nil {
				if ld, ok := canonVal(st.Val).(*ssa.UnOp); ok {
					return ld
				}
				if ld, ok := st.Val.(*ssa.UnOp); ok {
					return ld
				}
			}
			return lit.Alloc
		}
		fieldOfBuf := map[string]string{ackBuffers[0]: "UpstreamAliases", ackBuffers[1]: "DataIDAliases", ackBuffers[2]: "Results"}
		anchor := ssa.Instruction(lit.Alloc)
		sends := findCalls(fn, false, "/wire.ClientConn.SendDownstreamDataPointsAck")
		for _, buf := range ackBuffers {
			var val ssa.Value
			var resetIns ssa.Instruction
			anchor = anchorOf(fieldOfBuf[buf])
			w := reachesWithout(anchor, func(ins ssa.Instruction) bool {
				if isReturn(ins) {
					return true
				}
				for _, s := range sends {
					if ins == s {
						return true
					}
				}
				return false
			}, func(ins ssa.Instruction) bool {
				v, ok := p.resetsField(ins, buf)
				if ok {
					val = v
					resetIns = ins
				}
				return ok
			})
			if w != nil {
				what := "returns"
				if !isReturn(w) {
					what = "sends the ack"
				}
				r.Check(name+" resets "+buf, false, posOf(p, w), name, "a path from building the ack "+what+" without replacing "+buf+" (its contents would be acknowledged again by the next flush)",
					"entry: "+name, "ack built: "+p.pos(lit.Alloc.Pos()), "offending point: "+posOf(p, w))
				continue
			}
			okv := val != nil && isFreshContainer(val)
			h := map[string]int{}
			if resetIns != nil {
				h = le.HeldAt(resetIns)
			}
			okLock := h[mu] == modeW
			if resetIns != nil && !okLock {
				okLock = le.ModeAtOrByCallers(resetIns, mu) == modeW
			}
			r.Check(name+" resets "+buf, okv && okLock, posOf(p, resetIns), name, fmt.Sprintf("replaced by a fresh container: %v; locks held at the reset: %v", okv, h))
		}
		// stream alias and destination
		if v, ok := lit.Fields["StreamIDAlias"]; ok {
			l := p.Leaves(v, provOpts{})
			r.Check(name+" ack.StreamIDAlias", hasLeaf(l, "field:/iscp.Downstream.idAlias"), p.pos(lit.Alloc.Pos()), name, "StreamIDAlias <- ["+joinLeaves(l)+"]")
		}
	}
	if n == 0 {
		r.Undecided("ack literal", "no DownstreamChunkAck literal in package iscp")
	}
}

func ruleC04R2(r *Run) {
	r.Begin("R2", "ack ids: Next on Downstream.chunkAckIDSequence has exactly one call site, not in a loop, feeding DownstreamChunkAck.AckID; the generator starts at 0 and is never replaced", 3)
	p := r.P
	nexts := nextCallsOn(p, "/iscp.Downstream.chunkAckIDSequence")
	r.Check("ack id Next single site", len(nexts) == 1, "", "", fmt.Sprintf("%d call site(s) of Next on Downstream.chunkAckIDSequence", len(nexts)))
	for _, c := range nexts {
		r.Check("ack id Next not in loop", !inLoop(c), posOf(p, c), fnName(c.Parent()), "Next inside a loop")
	}
	ackT := p.Named("/message", "DownstreamChunkAck")
	if ackT != nil {
		for _, lit := range p.allLiterals(ackT) {
			if fnPkgPath(lit.Fn) != modPath+"/iscp" {
				continue
			}
			v, ok := lit.Fields["AckID"]
			name := fnName(lit.Fn)
			if !ok {
				r.Check(name+" AckID", false, p.pos(lit.Alloc.Pos()), name, "AckID not set")
				continue
			}
			l := p.Leaves(v, provOpts{})
			bad := leavesWithin(l, []string{"call:/iscp.sequenceNumberGenerator.Next", "field:/iscp.Downstream.chunkAckIDSequence", "param:*"})
			r.Check(name+" AckID", hasLeaf(l, "call:/iscp.sequenceNumberGenerator.Next") && hasLeaf(l, "field:/iscp.Downstream.chunkAckIDSequence") && len(bad) == 0, p.pos(lit.Alloc.Pos()), name, "AckID <- ["+joinLeaves(l)+"]")
		}
	}
	down := p.Named("/iscp", "Downstream")
	if down != nil {
		for _, lit := range p.allLiterals(down) {
			if v, ok := lit.Fields["chunkAckIDSequence"]; ok {
				okStart := false
				if c, isCall := v.(*ssa.Call); isCall && isCallNamed(c, "/iscp.newSequenceNumberGenerator") {
					if k, isC := constInt(c.Call.Args[0]); isC && k == 0 {
						okStart = true
					}
				}
				r.Check("ack id generator starts at 0", okStart, p.pos(lit.Alloc.Pos()), fnName(lit.Fn), "chunkAckIDSequence initialised by "+v.String())
			}
		}
		if f := p.Field("/iscp", "Downstream", "chunkAckIDSequence"); f != nil {
			for _, st := range p.fieldStores(f) {
				fa := st.Addr.(*ssa.FieldAddr)
				r.Check("ack id generator replaced in "+fnName(st.Parent()), isLocalObject(pathOf(fa.X)), p.pos(st.Pos()), fnName(st.Parent()), "the ack id generator must not be replaced after construction")
			}
		}
	}
}

func ruleC04R3(r *Run) {
	r.Begin("R3", "one result per returned chunk: in ReadDataPoints exactly one push to the result ack buffer exists, outside loops; every return of a chunk with nil error is dominated by it and no error return is reachable from it; the result carries the wire chunk's sequence number and the resolved upstream's stream id", 4)
	p := r.P
	fn := r.method("/iscp", "Downstream", "ReadDataPoints")
	if fn == nil {
		return
	}
	name := fnName(fn)
	// pushes: calls to functions that must-append to resultAckBuffer, or direct stores
	var pushes []ssa.Instruction
	allInstrs(fn, func(ins ssa.Instruction) {
		if _, ok := p.resetsField(ins, "/iscp.Downstream.resultAckBuffer"); ok {
			pushes = append(pushes, ins)
		}
	})
	if len(pushes) == 0 {
		// the handling of a received chunk may be a method of its own whose results ReadDataPoints returns as they
		// are (return d.acceptChunk(dps)): the rule is then about that method
		if g := tailCallee(p, fn); g != nil {
			fn = g
			allInstrs(fn, func(ins ssa.Instruction) {
				if _, ok := p.resetsField(ins, "/iscp.Downstream.resultAckBuffer"); ok {
					pushes = append(pushes, ins)
				}
			})
		}
	}
	r.Check(name+" single push", len(pushes) == 1 && !inLoop(pushes[0]), p.pos(fn.Pos()), name, fmt.Sprintf("%d push site(s) to resultAckBuffer in ReadDataPoints", len(pushes)))
	if len(pushes) != 1 {
		return
	}
	push := pushes[0]
	allInstrs(fn, func(ins ssa.Instruction) {
		ret, ok := ins.(*ssa.Return)
		if !ok || len(ret.Results) != 2 {
			return
		}
		errNil := isNilConst(retResults(ret)[1])
		chunkNil := isNilConst(retResults(ret)[0])
		key := fmt.Sprintf("%s return@%s", name, retKind(chunkNil, errNil))
		if !chunkNil && errNil {
			r.Check(key, dominatesInstr(push, ret), posOf(p, ret), name, "a chunk is returned: the push of its result must dominate this return (else the chunk is never acknowledged)")
		} else {
			w := reachesWithout(push, func(x ssa.Instruction) bool { return x == ssa.Instruction(ret) }, nil)
			r.Check(key, w == nil, posOf(p, ret), name, "no chunk is returned here: a result must not have been pushed on the way (it would acknowledge a chunk the application never saw)")
		}
	})
	// result literal fields
	resT := r.named("/message", "DownstreamChunkResult")
	if resT == nil {
		return
	}
	for _, lit := range literalsOf(fn, resT) {
		if v, ok := lit.Fields["SequenceNumberInUpstream"]; ok {
			l := p.Leaves(v, provOpts{})
			r.Check(name+" result sequence", hasLeaf(l, "field:/message.StreamChunk.SequenceNumber") && len(leavesWithin(l, []string{"field:/message.StreamChunk.SequenceNumber", "field:/message.DownstreamChunk.StreamChunk", "recv*", "param:*"})) == 0, p.pos(lit.Alloc.Pos()), name, "SequenceNumberInUpstream <- ["+joinLeaves(l)+"]")
		} else {
			r.Check(name+" result sequence", false, p.pos(lit.Alloc.Pos()), name, "SequenceNumberInUpstream not set")
		}
		if v, ok := lit.Fields["StreamIDOfUpstream"]; ok {
			l := p.Leaves(v, provOpts{WithBase: true})
			okID := hasLeaf(l, "field:/message.UpstreamInfo.StreamID")
			fromResolved := false
			for _, x := range l {
				if strings.Contains(x, "wireToDownstreamChunk") || strings.Contains(x, "field:/iscp.DownstreamChunk.UpstreamInfo") {
					fromResolved = true
				}
			}
			r.Check(name+" result upstream id", okID && fromResolved, p.pos(lit.Alloc.Pos()), name, "StreamIDOfUpstream <- ["+joinLeaves(l)+"]; must be the resolved upstream info's StreamID")
		} else {
			r.Check(name+" result upstream id", false, p.pos(lit.Alloc.Pos()), name, "StreamIDOfUpstream not set")
		}
	}
}

func retKind(chunkNil, errNil bool) string {
	switch {
	case !chunkNil && errNil:
		return "chunk"
	case chunkNil && !errNil:
		return "error"
	case chunkNil && errNil:
		return "nil,nil"
	}
	return "chunk,error"
}

func ruleC04R4(r *Run) {
	r.Begin("R4", "alias minted only for new values: each Next of the downstream's alias generators is preceded by a negative membership test by value — a comma-ok lookup keyed by a value type whose not-found edge dominates Next, or an == comparison of non-pointer operands over the existing table whose equal edge cannot reach Next", 2)
	p := r.P
	for _, gen := range []string{"/iscp.Downstream.dataIDAliasGenerator", "/iscp.Downstream.upstreamInfoAliasGenerator"} {
		var sites []ssa.Instruction
		for _, c := range p.moduleCalls("/wire.AliasGenerator.Next") {
			pt := pathOf(instrCall(c).Args[0])
			if pt == nil || pt.Last() == nil {
				continue
			}
			var ownerT types.Type
			if n := len(pt.Fields); n >= 2 {
				ownerT = pt.Fields[n-2].Type()
			} else {
				ownerT = pt.Root.Type()
			}
			if nn := namedOf(ownerT); nn != nil && fieldKey(nn, pt.Last()) == gen {
				sites = append(sites, c)
			}
		}
		if len(sites) == 0 {
			r.Undecided("Next sites of "+gen, "no call of Next on this generator through the stream's field")
			continue
		}
		for _, c := range sites {
			fn := c.Parent()
			name := fnName(fn)
			ok := false
			detail := "no membership test by value found"
			memberTable := ""
			var memberTest ssa.Instruction
			// (a) comma-ok lookup with value-typed key; Next dominated by the not-found edge
			allInstrs(fn, func(ins ssa.Instruction) {
				lk, isL := ins.(*ssa.Lookup)
				if !isL || !lk.CommaOk || lk.Referrers() == nil {
					return
				}
				if _, isPtr := lk.Index.Type().Underlying().(*types.Pointer); isPtr {
					return
				}
				src := ""
				if u, isU := lk.X.(*ssa.UnOp); isU {
					src = fieldKeyOfAddr(u.X)
				}
				if !strings.HasPrefix(src, "/iscp.Downstream.") {
					return
				}
				for _, ref := range *lk.Referrers() {
					ex, isEx := ref.(*ssa.Extract)
					if !isEx || ex.Index != 1 {
						continue
					}
					allInstrs(fn, func(x ssa.Instruction) {
						ifs, isIf := x.(*ssa.If)
						if !isIf || !sameValue(ifs.Cond, ex) {
							return
						}
						if edgeDominates(ifs.Block(), ifs.Block().Succs[1], c.Block()) {
							ok = true
							detail = "comma-ok lookup in " + src + " keyed by value type " + typeStr(lk.Index.Type()) + "; Next only on the not-found edge"
							memberTable, memberTest = src, lk
						}
					})
				}
			})
			// (b) == on non-pointer operands inside a range over the table; equal edge cannot reach Next
			allInstrs(fn, func(ins ssa.Instruction) {
				bo, isBo := ins.(*ssa.BinOp)
				if !isBo || bo.Op != token.EQL || bo.Referrers() == nil {
					return
				}
				_, xp := bo.X.Type().Underlying().(*types.Pointer)
				_, yp := bo.Y.Type().Underlying().(*types.Pointer)
				xl := p.Leaves(bo.X, provOpts{})
				yl := p.Leaves(bo.Y, provOpts{})
				fromTable := false
				for _, l := range append(xl, yl...) {
					if strings.HasPrefix(l, "rangeval:field:/iscp.Downstream.") || strings.HasPrefix(l, "elem:/iscp.Downstream.") {
						fromTable = true
					}
				}
				if !fromTable {
					return
				}
				if xp || yp {
					detail = "the membership test at " + p.pos(bo.Pos()) + " compares pointers (" + typeStr(bo.X.Type()) + "): every decoded message carries a fresh pointer, so the same value gets a second alias"
					return
				}
				for _, ref := range *bo.Referrers() {
					ifs, isIf := ref.(*ssa.If)
					if !isIf {
						continue
					}
					if !reachesWithoutBlock(ifs.Block().Succs[0], c.Block()) || !edgeReaches(ifs.Block(), ifs.Block().Succs[0], c) {
						ok = true
						detail = "== on values of type " + typeStr(bo.X.Type()) + " over the existing table; the equal edge cannot reach Next"
						for _, l := range append(xl, yl...) {
							if strings.HasPrefix(l, "rangeval:field:") {
								memberTable = strings.TrimPrefix(l, "rangeval:field:")
							}
						}
					}
				}
			})
			if !ok {
				// (c) the test lives in a predicate method and/or the minting in a worker: judged where the worker is
				// called (every static call site), or in this function when the predicate is called here
				if d := c04PredicateGuarded(p, fn, c, 0); d != "" {
					ok, detail = true, d
				}
			}
			r.Check(name+" "+gen[strings.LastIndexByte(gen, '.')+1:], ok, posOf(p, c), name, detail)
			if ok && memberTable != "" {
				// the table the membership test reads must record the new value before the test can run again
				w := reachesWithout(c, func(ins ssa.Instruction) bool {
					return isReturn(ins) || (memberTest != nil && ins == memberTest)
				}, func(ins ssa.Instruction) bool {
					mu, isMU := ins.(*ssa.MapUpdate)
					if !isMU {
						return false
					}
					if u, isU := mu.Map.(*ssa.UnOp); isU {
						return fieldKeyOfAddr(u.X) == memberTable
					}
					return false
				})
				r.Check(name+" "+gen[strings.LastIndexByte(gen, '.')+1:]+" recorded", w == nil, posOf(p, w), name,
					"after minting an alias, the table the membership test reads ("+memberTable+") must be updated before the test runs again or the function returns; otherwise the same value met twice gets two aliases",
					"entry: "+name, "alias minted: "+posOf(p, c), "reaches without recording: "+posOf(p, w))
			}
		}
	}
}

// c04ValuePredicate: pf answers "does this value already have an alias" by value — every return is the found flag of
// a comma-ok lookup, keyed by a non-pointer type, in a table of the Downstream; or pf scans such a table comparing
// non-pointer values with ==, returns the constant true only on the equal edge and the constant false otherwise.
func c04ValuePredicate(p *Prog, pf *ssa.Function) bool {
	if pf.Blocks == nil || pf.Signature.Results().Len() != 1 {
		return false
	}
	if b, isB := pf.Signature.Results().At(0).Type().Underlying().(*types.Basic); !isB || b.Kind() != types.Bool {
		return false
	}
	lookupForm, n := true, 0
	var consts []*ssa.Return
	allInstrs(pf, func(x ssa.Instruction) {
		ret, isRet := x.(*ssa.Return)
		if !isRet || len(ret.Results) != 1 {
			return
		}
		n++
		if _, isC := ret.Results[0].(*ssa.Const); isC {
			consts = append(consts, ret)
		}
		ex, isEx := canonVal(ret.Results[0]).(*ssa.Extract)
		if !isEx || ex.Index != 1 {
			lookupForm = false
			return
		}
		lk, isL := ex.Tuple.(*ssa.Lookup)
		if !isL || !lk.CommaOk {
			lookupForm = false
			return
		}
		if _, isPtr := lk.Index.Type().Underlying().(*types.Pointer); isPtr {
			lookupForm = false
			return
		}
		u, isU := lk.X.(*ssa.UnOp)
		if !isU || !strings.HasPrefix(fieldKeyOfAddr(u.X), "/iscp.Downstream.") {
			lookupForm = false
		}
	})
	if n > 0 && lookupForm {
		return true
	}
	if n == 0 || len(consts) != n {
		return false
	}
	// scan form
	okScan := false
	allInstrs(pf, func(ins ssa.Instruction) {
		bo, isBo := ins.(*ssa.BinOp)
		if !isBo || bo.Op != token.EQL || bo.Referrers() == nil {
			return
		}
		if _, xp := bo.X.Type().Underlying().(*types.Pointer); xp {
			return
		}
		if _, yp := bo.Y.Type().Underlying().(*types.Pointer); yp {
			return
		}
		fromTable := false
		for _, l := range append(p.Leaves(bo.X, provOpts{}), p.Leaves(bo.Y, provOpts{})...) {
			if strings.HasPrefix(l, "rangeval:field:/iscp.Downstream.") || strings.HasPrefix(l, "elem:/iscp.Downstream.") {
				fromTable = true
			}
		}
		if !fromTable {
			return
		}
		for _, ref := range *bo.Referrers() {
			ifs, isIf := ref.(*ssa.If)
			if !isIf {
				continue
			}
			good := true
			for _, ret := range consts {
				isTrue := ret.Results[0].(*ssa.Const).Value != nil && ret.Results[0].(*ssa.Const).Value.String() == "true"
				onEqual := edgeDominates(ifs.Block(), ifs.Block().Succs[0], ret.Block())
				if isTrue != onEqual {
					good = false
				}
			}
			if good {
				okScan = true
			}
		}
	})
	return okScan
}

// c04PredicateGuarded: instruction at (a call of Next, or of the worker that mints) runs only on the "no alias yet"
// edge of a value predicate called in the same function; when no such call is found and the function is an unexported
// worker, every static call site is judged in its caller instead. Returns a description, or "".
func c04PredicateGuarded(p *Prog, fn *ssa.Function, at ssa.Instruction, depth int) string {
	found := ""
	allInstrs(fn, func(x ssa.Instruction) {
		pc, isC := x.(*ssa.Call)
		if !isC || pc.Referrers() == nil {
			return
		}
		pf := pc.Call.StaticCallee()
		if pf == nil || !p.Analysed(pf) || !c04ValuePredicate(p, pf) {
			return
		}
		for _, ref := range *pc.Referrers() {
			if ifs, isIf := ref.(*ssa.If); isIf && edgeDominates(ifs.Block(), ifs.Block().Succs[1], at.Block()) {
				found = "value predicate " + fnName(pf) + " called in " + fnName(fn) + "; the alias is minted only on its false edge"
			}
		}
	})
	if found != "" || depth >= 2 || fn.Parent() != nil || (fn.Object() != nil && fn.Object().Exported()) {
		return found
	}
	sites := p.staticCallSites(fn)
	if len(sites) == 0 {
		return ""
	}
	out := ""
	for _, site := range sites {
		if _, isCall := site.(*ssa.Call); !isCall {
			return ""
		}
		d := c04PredicateGuarded(p, site.Parent(), site, depth+1)
		if d == "" {
			return ""
		}
		out = d + " (worker " + fnName(fn) + ")"
	}
	return out
}

func ruleC04R5(r *Run) {
	r.Begin("R5", "final flush precedes close: in the downstream's close path the close request is preceded, unless the stream was resuming, by a select that waits for finalAckFlushed; in the ack flusher the deferred close(finalAckFlushed) is registered before the deferred last flush (so it runs after it)", 2)
	p := r.P
	var closeFn *ssa.Function
	for _, c := range p.moduleCalls("/wire.ClientConn.SendDownstreamCloseRequest") {
		if recvTypeName(c.Parent()) == "Downstream" {
			closeFn = c.Parent()
			name := fnName(closeFn)
			resuming, _ := p.enumConst("/iscp", "streamStatusResuming")
			// the select waiting for finalAckFlushed
			var waitSel ssa.Instruction
			selectOn := func(fn *ssa.Function) ssa.Instruction {
				var found ssa.Instruction
				allInstrs(fn, func(ins ssa.Instruction) {
					if sel, ok := ins.(*ssa.Select); ok && sel.Blocking {
						for _, st := range sel.States {
							if st.Dir == types.RecvOnly && hasLeaf(p.Leaves(st.Chan, provOpts{}), "field:/iscp.Downstream.finalAckFlushed") {
								found = ins
							}
						}
					}
				})
				return found
			}
			waitSel = selectOn(closeFn)
			if waitSel == nil {
				// the wait may live in a helper of the stream that performs it on every path
				allInstrs(closeFn, func(ins ssa.Instruction) {
					call, ok := ins.(*ssa.Call)
					if !ok || waitSel != nil {
						return
					}
					cf := call.Call.StaticCallee()
					if cf == nil || !p.Analysed(cf) || cf.Blocks == nil {
						return
					}
					if sel := selectOn(cf); sel != nil {
						all := true
						for _, b := range cf.Blocks {
							if _, isRet := b.Instrs[len(b.Instrs)-1].(*ssa.Return); isRet && b != cf.Recover {
								if !(sel.Block() == b || sel.Block().Dominates(b)) {
									all = false
								}
							}
						}
						if all {
							waitSel = ins
						}
					}
				})
			}
			ok := false
			detail := "no blocking select on finalAckFlushed in the close path"
			if waitSel != nil {
				var resIf *ssa.If
				allInstrs(closeFn, func(ins ssa.Instruction) {
					if ifs, isIf := ins.(*ssa.If); isIf {
						if bo, isBo := ifs.Cond.(*ssa.BinOp); isBo {
							if v, isC := constInt(bo.Y); isC && v == resuming {
								resIf = ifs
							}
						}
					}
				})
				if resIf != nil {
					bo := resIf.Cond.(*ssa.BinOp)
					notRes := resIf.Block().Succs[0]
					if bo.Op == token.EQL {
						notRes = resIf.Block().Succs[1]
					}
					w := reachesWithoutFromBlock(notRes, func(ins ssa.Instruction) bool { return ins == c }, func(ins ssa.Instruction) bool { return ins == waitSel })
					ok = w == nil
					detail = fmt.Sprintf("on the not-resuming edge the close request is reachable without the wait: %v", w != nil)
				} else {
					ok = dominatesInstr(waitSel, c)
					detail = "wait dominates the close request unconditionally"
				}
			}
			r.Check(name+" waits for the final flush", ok, posOf(p, c), name, detail)
		}
	}
	if closeFn == nil {
		r.Undecided("close path", "no Downstream method sends DownstreamCloseRequest")
	}
	// flusher defers
	for _, fn := range p.Funcs {
		if recvTypeName(fn) != "Downstream" || fn.Parent() != nil {
			continue
		}
		var closeDefer, flushDefer ssa.Instruction
		allInstrs(fn, func(ins ssa.Instruction) {
			d, ok := ins.(*ssa.Defer)
			if !ok {
				return
			}
			if b, isB := d.Call.Value.(*ssa.Builtin); isB && b.Name() == "close" {
				if hasLeaf(p.Leaves(d.Call.Args[0], provOpts{}), "field:/iscp.Downstream.finalAckFlushed") {
					closeDefer = ins
				}
			}
			if cf := d.Call.StaticCallee(); cf != nil && p.reachesCall(cf, 0, "/wire.ClientConn.SendDownstreamDataPointsAck") {
				flushDefer = ins
			}
		})
		if closeDefer == nil {
			continue
		}
		name := fnName(fn)
		ok := flushDefer != nil && dominatesInstr(closeDefer, flushDefer)
		r.Check(name+" signals after the last flush", ok, posOf(p, closeDefer), name, "defer close(finalAckFlushed) must be registered before the deferred final flush so that (LIFO) the flush runs first")
	}
}

// emptyEdgeOf: if ifs decides on len(<field fk>) compared with 0 (or 1), the successor taken when the container is empty.
func emptyEdgeOf(p *Prog, ifs *ssa.If, fk string) *ssa.BasicBlock {
	bo, ok := ifs.Cond.(*ssa.BinOp)
	if !ok {
		return nil
	}
	isLen := func(v ssa.Value) bool {
		c, ok := v.(*ssa.Call)
		if !ok {
			return false
		}
		b, isB := c.Call.Value.(*ssa.Builtin)
		return isB && b.Name() == "len" && hasLeaf(p.Leaves(c.Call.Args[0], provOpts{}), "field:"+fk)
	}
	x, y, op := bo.X, bo.Y, bo.Op
	if !isLen(x) && isLen(y) {
		x, y = y, x
		switch op {
		case token.LSS:
			op = token.GTR
		case token.GTR:
			op = token.LSS
		case token.LEQ:
			op = token.GEQ
		case token.GEQ:
			op = token.LEQ
		}
	}
	if !isLen(x) {
		return nil
	}
	k, isK := constInt(y)
	if !isK {
		return nil
	}
	t, f := ifs.Block().Succs[0], ifs.Block().Succs[1]
	switch {
	case op == token.EQL && k == 0, op == token.LSS && k == 1, op == token.LEQ && k == 0:
		return t
	case op == token.NEQ && k == 0, op == token.GTR && k == 0, op == token.GEQ && k == 1:
		return f
	}
	return nil
}

// ruleC04R8: the flusher may skip sending only when there is nothing to acknowledge at all. A return that leaves the
// function before the ack is built must lie on the empty edge of a length test of every buffer that feeds the ack.
func ruleC04R8(r *Run, le *LockEngine) {
	r.Begin("R8", "nothing is left unacknowledged by a skipped flush: in the function that builds the DownstreamChunkAck, every return that is reachable without building the ack is dominated by the empty edge of a length test of each of the three ack buffers", 1)
	p := r.P
	ackT := r.named("/message", "DownstreamChunkAck")
	if ackT == nil {
		return
	}
	for _, lit := range p.allLiterals(ackT) {
		if fnPkgPath(lit.Fn) != modPath+"/iscp" {
			continue
		}
		fn := lit.Fn
		name := fnName(fn)
		k := 0
		for _, b := range fn.Blocks {
			ret, isRet := b.Instrs[len(b.Instrs)-1].(*ssa.Return)
			if !isRet || b == fn.Recover {
				continue
			}
			// reachable without building the ack?
			if reachesFromEntryWithout(fn, func(ins ssa.Instruction) bool { return ins == ssa.Instruction(ret) }, func(ins ssa.Instruction) bool { return ins == ssa.Instruction(lit.Alloc) }) == nil {
				continue
			}
			k++
			var missing []string
			for _, buf := range ackBuffers {
				ok := false
				allInstrs(fn, func(ins ssa.Instruction) {
					if ifs, isIf := ins.(*ssa.If); isIf {
						if ee := emptyEdgeOf(p, ifs, buf); ee != nil && edgeDominates(ifs.Block(), ee, b) {
							ok = true
						}
					}
				})
				if !ok {
					missing = append(missing, buf[strings.LastIndexByte(buf, '.')+1:])
				}
			}
			if len(missing) > 0 {
				// a dirty flag may stand in for the length tests when it mirrors the buffers
				if why, isFlag := skipOnMirroringFlag(p, le, fn, b); isFlag {
					r.Check(fmt.Sprintf("%s skip#%d", name, k), why == "", posOf(p, ret), name, "this return skips the ack on the strength of a flag; the flag does not mirror the ack buffers: "+why)
					continue
				}
			}
			r.Check(fmt.Sprintf("%s skip#%d", name, k), len(missing) == 0, posOf(p, ret), name, fmt.Sprintf("this return skips the ack; it is not confined to the case where these buffers are empty: %v (their content would stay unacknowledged until something else triggers a flush, or for ever at close)", missing))
		}
		if k == 0 {
			r.Check(name+" never skips", true, p.pos(fn.Pos()), name, "no return bypasses the construction of the ack")
		}
	}
}

// ruleC04R9: an alias that has been minted (and will be announced to the broker in the next ack) has to be remembered:
// as a key of the table through which incoming chunks resolve aliases, and — where the function's own membership test
// reads a reverse table — as a value of that reverse table. A minted alias that is not recorded makes the next chunk
// that uses it unresolvable, or is minted again for the same value.
func ruleC04R9(r *Run) {
	r.Begin("R9", "a minted alias is recorded: in every Downstream method that calls Next() on an alias generator, the result is used as the key of a map update on a table that is looked up by alias elsewhere in the module, and as the value of a map update on every map field that the method's own membership test looks up", 2)
	p := r.P
	// map fields of Downstream that are looked up (resolved) somewhere
	lookedUp := map[string]bool{}
	for _, fn := range p.Funcs {
		if fnPkgPath(fn) != modPath+"/iscp" {
			continue
		}
		allInstrs(fn, func(ins ssa.Instruction) {
			if lk, ok := ins.(*ssa.Lookup); ok {
				for _, l := range p.Leaves(lk.X, provOpts{}) {
					if strings.HasPrefix(l, "field:/iscp.Downstream.") {
						lookedUp[l[6:]] = true
					}
				}
			}
		})
	}
	n := 0
	for _, fn := range p.Funcs {
		if fnPkgPath(fn) != modPath+"/iscp" || recvTypeName(fn) != "Downstream" || fn.Blocks == nil {
			continue
		}
		name := fnName(fn)
		k := 0
		allInstrs(fn, func(ins ssa.Instruction) {
			c, ok := ins.(*ssa.Call)
			if !ok || !isCallNamed(c, "/wire.AliasGenerator.Next") {
				return
			}
			n++
			k++
			var keyOf, valOf []string
			allInstrs(fn, func(x ssa.Instruction) {
				mu, isMU := x.(*ssa.MapUpdate)
				if !isMU {
					return
				}
				for _, l := range p.Leaves(mu.Map, provOpts{}) {
					if !strings.HasPrefix(l, "field:/iscp.Downstream.") {
						continue
					}
					if canonVal(mu.Key) == ssa.Value(c) || sameValue(mu.Key, c) {
						keyOf = append(keyOf, l[6:])
					}
					if canonVal(mu.Value) == ssa.Value(c) || sameValue(mu.Value, c) {
						valOf = append(valOf, l[6:])
					}
				}
			})
			fwd := false
			for _, t := range keyOf {
				if lookedUp[t] {
					fwd = true
				}
			}
			// reverse tables consulted by this function's membership test: lookups on maps not keyed by the alias type
			var missingRev []string
			allInstrs(fn, func(x ssa.Instruction) {
				lk, isLk := x.(*ssa.Lookup)
				if !isLk || !dominatesInstr(lk, c) {
					return
				}
				mt, isMap := lk.X.Type().Underlying().(*types.Map)
				if !isMap || !types.Identical(mt.Elem(), c.Type()) {
					return
				}
				for _, l := range p.Leaves(lk.X, provOpts{}) {
					if strings.HasPrefix(l, "field:/iscp.Downstream.") {
						has := false
						for _, v := range valOf {
							if v == l[6:] {
								has = true
							}
						}
						if !has {
							missingRev = append(missingRev, l[6:])
						}
					}
				}
			})
			r.Check(fmt.Sprintf("%s alias#%d recorded", name, k), fwd && len(missingRev) == 0, posOf(p, c), name, fmt.Sprintf("the minted alias is stored as key of %v (tables resolved elsewhere: needs at least one) and as value of %v; reverse tables consulted by the membership test but not updated: %v", keyOf, valOf, missingRev))
		})
	}
	if n == 0 {
		r.Undecided("alias minting sites", "no Downstream method calls AliasGenerator.Next")
	}
}

// ruleC04R11: the loop that mints aliases for the new identifiers of one chunk has to look at every identifier: an
// already known one is skipped, it does not end the loop. The only way out of such a loop is its header (the range is
// exhausted).
func ruleC04R11(r *Run) {
	r.Begin("R11", "every identifier of a chunk is considered: in a Downstream method that mints aliases inside a loop, the loop is left only through its header (no return or break inside the body — an identifier that already has an alias is skipped, not the rest of the chunk)", 1)
	p := r.P
	n := 0
	for _, fn := range p.Funcs {
		if fnPkgPath(fn) != modPath+"/iscp" || recvTypeName(fn) != "Downstream" || fn.Blocks == nil {
			continue
		}
		allInstrs(fn, func(ins ssa.Instruction) {
			c, ok := ins.(*ssa.Call)
			if !ok || !isCallNamed(c, "/wire.AliasGenerator.Next") || !inLoop(c) {
				return
			}
			n++
			name := fnName(fn)
			loop := loopBlocks(c.Block())
			var header *ssa.BasicBlock
			for b := range loop {
				for _, pr := range b.Preds {
					if !loop[pr] {
						header = b
					}
				}
			}
			var leak *ssa.BasicBlock
			for b := range loop {
				if b == header {
					continue
				}
				for _, s := range b.Succs {
					if !loop[s] {
						leak = b
					}
				}
			}
			where := posOf(p, c)
			if leak != nil {
				where = posOf(p, leak.Instrs[len(leak.Instrs)-1])
			}
			r.Check(name+" loop looks at every identifier", leak == nil && header != nil, where, name, "the loop in which aliases are minted is left from inside its body: the identifiers after the first known one get no alias and are never announced")
			// and the loop is reached on every path: no return in front of it (an "already known" exit of another pass
			// of a merged function must not skip this one)
			if header != nil {
				byp := reachesFromEntryWithout(fn, func(x ssa.Instruction) bool {
					return isReturn(x) && x.Block() != fn.Recover && !c04PrescanCovers(fn, loop, x)
				}, func(x ssa.Instruction) bool { return x.Block() == header })
				w2 := posOf(p, c)
				if byp != nil {
					w2 = posOf(p, byp)
				}
				r.Check(name+" loop is reached on every path", byp == nil, w2, name, "a return is reachable from the entry without entering the loop in which this function mints aliases: the identifiers of that chunk get no alias and are never announced")
			}
		})
	}
	if n == 0 {
		r.Check("alias minting loops", true, "", "", "no alias is minted inside a loop")
	}
}

// c04PrescanCovers: a return in front of the minting loop is the "nothing new in this chunk" exit of a look-ahead pass
// when (a) another loop, whose header dominates the return, indexes the same collection as the minting loop, (b) that
// loop tests membership (comma-ok) in a table the minting loop also looks up, and (c) from the not-found edge of every
// such test the return cannot be reached once booleans are propagated along the path (the flag form
// `unknown = true; break … if !unknown { return }` included): an identifier without an alias always leads on to the
// minting loop, so every identifier is still considered.
func c04PrescanCovers(fn *ssa.Function, mint map[*ssa.BasicBlock]bool, ret ssa.Instruction) bool {
	indexed := func(blocks map[*ssa.BasicBlock]bool) map[ssa.Value]bool {
		out := map[ssa.Value]bool{}
		for b := range blocks {
			for _, ins := range b.Instrs {
				switch x := ins.(type) {
				case *ssa.IndexAddr:
					out[canonVal(x.X)] = true
				case *ssa.Index:
					out[canonVal(x.X)] = true
				}
			}
		}
		return out
	}
	tables := func(blocks map[*ssa.BasicBlock]bool) map[string][]*ssa.Lookup {
		out := map[string][]*ssa.Lookup{}
		for b := range blocks {
			for _, ins := range b.Instrs {
				if lk, ok := ins.(*ssa.Lookup); ok && lk.CommaOk {
					if u, isU := lk.X.(*ssa.UnOp); isU && u.Op == token.MUL {
						if fk := fieldKeyOfAddr(u.X); fk != "" {
							out[fk] = append(out[fk], lk)
						}
					}
				}
			}
		}
		return out
	}
	mintIdx, mintTab := indexed(mint), tables(mint)
	if len(mintTab) == 0 {
		return false
	}
	seenLoop := map[*ssa.BasicBlock]bool{}
	for _, b := range fn.Blocks {
		if mint[b] || seenLoop[b] || len(b.Instrs) == 0 || !inLoop(b.Instrs[0]) {
			continue
		}
		pre := loopBlocks(b)
		for x := range pre {
			seenLoop[x] = true
		}
		overlap := false
		for x := range pre {
			if mint[x] {
				overlap = true
			}
		}
		if overlap {
			continue
		}
		var hdr *ssa.BasicBlock
		for x := range pre {
			for _, pr := range x.Preds {
				if !pre[pr] {
					hdr = x
				}
			}
		}
		if hdr == nil || !hdr.Dominates(ret.Block()) {
			continue
		}
		same := false
		for v := range indexed(pre) {
			if mintIdx[v] {
				same = true
			}
		}
		if !same {
			continue
		}
		tests, covered := 0, true
		for fk, lks := range tables(pre) {
			if _, shared := mintTab[fk]; !shared {
				continue
			}
			for _, lk := range lks {
				for _, ref := range *lk.Referrers() {
					ex, isEx := ref.(*ssa.Extract)
					if !isEx || ex.Index != 1 {
						continue
					}
					for _, r2 := range *ex.Referrers() {
						var ifs *ssa.If
						notFound := 1
						switch y := r2.(type) {
						case *ssa.If:
							ifs = y
						case *ssa.UnOp:
							if y.Op == token.NOT {
								for _, r3 := range *y.Referrers() {
									if i3, isIf := r3.(*ssa.If); isIf {
										ifs, notFound = i3, 0
									}
								}
							}
						}
						if ifs == nil {
							covered = false // the outcome goes somewhere this rule does not follow
							continue
						}
						tests++
						if edgeReaches(ifs.Block(), ifs.Block().Succs[notFound], ret) {
							covered = false
						}
					}
				}
			}
		}
		if tests > 0 && covered {
			return true
		}
	}
	return false
}

// ruleC04R13: an ack buffer is emptied only where its contents have just been packed into an ack, or on a stream that
// nobody else can see yet. Results and alias announcements queued while the stream is detached (chunks are still
// served from the queue during a resume) wait in the buffers for the first flush on the new connection; a "fresh
// buffers for the next run" step in resume throws them away.
func ruleC04R13(r *Run) {
	r.Begin("R13", "who empties the ack buffers: every store of a fresh container into Downstream.upstreamInfoAckBuffer/dataIDAckBuffer/resultAckBuffer is made on a stream constructed in that function (not yet shared), or after the DownstreamChunkAck literal that reads the buffers — judged at the call sites when the stores sit in a helper", 3)
	p := r.P
	ackT := r.named("/message", "DownstreamChunkAck")
	isBuf := map[string]bool{}
	for _, b := range ackBuffers {
		isBuf[b] = true
	}
	// sites: direct stores of fresh containers
	type site struct {
		ins  ssa.Instruction
		recv ssa.Value // the Downstream the store goes to, in the function's terms
		fk   string
	}
	var sites []site
	for _, fn := range p.Funcs {
		if fnPkgPath(fn) != modPath+"/iscp" || fn.Blocks == nil {
			continue
		}
		allInstrs(fn, func(ins ssa.Instruction) {
			st, ok := ins.(*ssa.Store)
			if !ok {
				return
			}
			fa, isFA := st.Addr.(*ssa.FieldAddr)
			if !isFA || !isBuf[fieldKeyOfAddr(st.Addr)] {
				return
			}
			switch v := canonVal(st.Val).(type) {
			case *ssa.MakeMap, *ssa.MakeSlice:
			case *ssa.Slice:
				_ = v
			case *ssa.Const:
			default:
				return // an append or another derived value: not an emptying store
			}
			sites = append(sites, site{ins, fa.X, fieldKeyOfAddr(st.Addr)})
		})
	}
	packsBefore := func(at ssa.Instruction) bool {
		if ackT == nil {
			return false
		}
		for _, lit := range literalsOf(at.Parent(), ackT) {
			reads := 0
			for _, v := range lit.Fields {
				for _, l := range p.Leaves(v, provOpts{}) {
					if strings.HasPrefix(l, "field:") && isBuf[strings.TrimPrefix(l, "field:")] {
						reads++
					}
				}
			}
			// packed: the ack literal of this function reads all three buffers (before the store, or from temporaries that
			// were loaded before it — the order of literal and store does not matter as long as both are on the path)
			if reads >= 3 {
				return true
			}
		}
		return false
	}
	var judge func(at ssa.Instruction, recv ssa.Value, depth int) (bool, string)
	judge = func(at ssa.Instruction, recv ssa.Value, depth int) (bool, string) {
		fn := at.Parent()
		if pt := pathOf(recv); isLocalObject(pt) {
			// constructed here, and this is the constructing function itself (a closure or goroutine of it sees a
			// stream that is already shared), before any goroutine was started
			if a, isA := pt.Root.(*ssa.Alloc); isA && a.Parent() == fn {
				shared := false
				allInstrs(fn, func(x ssa.Instruction) {
					if g, isGo := x.(*ssa.Go); isGo && dominatesInstr(g, at) {
						shared = true
					}
				})
				if !shared {
					return true, "on a stream constructed in " + fnName(fn)
				}
			}
		}
		if packsBefore(at) {
			return true, "after the ack was packed in " + fnName(fn)
		}
		// the stream is a parameter (the receiver) of a helper: judged at the helper's call sites
		prm, isP := canonVal(recv).(*ssa.Parameter)
		if !isP || depth >= 3 {
			return false, "in " + fnName(fn) + " on a shared stream, without packing the buffers first"
		}
		top := prm.Parent()
		idx := -1
		for i, q := range top.Params {
			if q == prm {
				idx = i
			}
		}
		callSites := p.staticCallSites(top)
		if idx < 0 || len(callSites) == 0 || (top.Object() != nil && top.Object().Exported()) {
			return false, "in " + fnName(fn) + " on a shared stream, without packing the buffers first"
		}
		for _, cs := range callSites {
			cc := instrCall(cs)
			if cc == nil || idx >= len(cc.Args) {
				return false, "at an unusual call of " + fnName(top)
			}
			if ok, why := judge(cs, cc.Args[idx], depth+1); !ok {
				return false, "through " + fnName(top) + ", " + why
			}
		}
		return true, "at every call of " + fnName(top)
	}
	per := map[string]int{}
	for _, s := range sites {
		name := fnName(s.ins.Parent())
		per[name+s.fk]++
		ok, why := judge(s.ins, s.recv, 0)
		short := s.fk[strings.LastIndexByte(s.fk, '.')+1:]
		r.Check(fmt.Sprintf("%s empties %s#%d only after packing or before sharing", name, short, per[name+s.fk]), ok, posOf(p, s.ins), name, "the buffer is replaced by an empty one "+why)
	}
}

// skipOnMirroringFlag: block b (a return that skips the ack) is dominated by the "not set" edge of a load of an
// atomic.Bool field of the stream. The flag may stand in for "all ack buffers are empty" when it is false only while
// they are: (a) every instruction that grows an ack buffer sits in a function that also sets the flag, with the stream
// mutex held in write mode at both and no release in between (one Lock per function, released by defer or at the end);
// (b) the flag is cleared only by the function that builds the ack (which empties all buffers, C04.R1), with the mutex
// held. isFlag is false when b is not guarded by such a flag; why is empty when the flag mirrors the buffers.
func skipOnMirroringFlag(p *Prog, le *LockEngine, fn *ssa.Function, b *ssa.BasicBlock) (why string, isFlag bool) {
	flagOf := func(c *ssa.CallCommon, method string) string {
		if c == nil || !isAtomicBoolMethod(c, method) || len(c.Args) == 0 {
			return ""
		}
		fk := fieldKeyOfAddr(c.Args[0])
		if !strings.HasPrefix(fk, "/iscp.Downstream.") {
			return ""
		}
		return fk
	}
	flag := ""
	allInstrs(fn, func(ins ssa.Instruction) {
		ifs, ok := ins.(*ssa.If)
		if !ok || flag != "" {
			return
		}
		cond, neg := ifs.Cond, false
		if u, isU := cond.(*ssa.UnOp); isU && u.Op == token.NOT {
			cond, neg = u.X, true
		}
		c, isC := cond.(*ssa.Call)
		if !isC {
			return
		}
		fk := flagOf(&c.Call, "Load")
		if fk == "" {
			return
		}
		unset := ifs.Block().Succs[1]
		if neg {
			unset = ifs.Block().Succs[0]
		}
		if edgeDominates(ifs.Block(), unset, b) {
			flag = fk
		}
	})
	if flag == "" {
		return "", false
	}
	short := flag[strings.LastIndexByte(flag, '.')+1:]
	muHeld := func(ins ssa.Instruction) bool {
		for k, m := range le.HeldAt(ins) {
			if strings.HasSuffix(k, ".mu") && m == modeW {
				return true
			}
		}
		return false
	}
	var problems []string
	for _, g := range p.Funcs {
		if fnPkgPath(g) != modPath+"/iscp" || g.Blocks == nil {
			continue
		}
		var grows, sets, clears []ssa.Instruction
		locks := 0
		allInstrs(g, func(ins ssa.Instruction) {
			switch x := ins.(type) {
			case *ssa.MapUpdate:
				if u, isU := x.Map.(*ssa.UnOp); isU {
					for _, buf := range ackBuffers {
						if fieldKeyOfAddr(u.X) == buf && !isLocalObject(pathOf(u.X).Prefix(1)) {
							grows = append(grows, ins)
						}
					}
				}
			case *ssa.Store:
				for _, buf := range ackBuffers {
					if fieldKeyOfAddr(x.Addr) == buf && !isFreshContainer(x.Val) && !isLocalObject(pathOf(x.Addr).Prefix(1)) {
						grows = append(grows, ins)
					}
				}
			}
			if cc := instrCall(ins); cc != nil {
				if op, _ := classifyLockCall(cc); op == opLock {
					if _, isDefer := ins.(*ssa.Defer); !isDefer {
						locks++
					}
				}
				if flagOf(cc, "Store") == flag && len(cc.Args) > 1 {
					if k, isK := cc.Args[1].(*ssa.Const); isK && k.Value != nil {
						if k.Value.String() == "true" {
							sets = append(sets, ins)
						} else {
							clears = append(clears, ins)
						}
					} else {
						clears = append(clears, ins) // a computed value may be false
					}
				}
			}
		})
		for _, gr := range grows {
			ok := false
			for _, st := range sets {
				if muHeld(gr) && muHeld(st) && locks == 1 {
					ok = true
				}
			}
			if !ok {
				problems = append(problems, fmt.Sprintf("%s adds to an ack buffer without setting %s in the same critical section (%s)", fnName(g), short, posOf(p, gr)))
			}
		}
		for _, cl := range clears {
			if topFunc(g) != fn {
				problems = append(problems, fmt.Sprintf("%s clears %s but does not build the ack (%s)", fnName(g), short, posOf(p, cl)))
				continue
			}
			if !muHeld(cl) {
				problems = append(problems, fmt.Sprintf("%s is cleared without the stream mutex (%s)", short, posOf(p, cl)))
				continue
			}
			if d, isDefer := cl.(*ssa.Defer); isDefer {
				// runs at return: before the deferred Unlock only if registered after it
				unlockFirst := false
				allInstrs(g, func(y ssa.Instruction) {
					if dy, isD := y.(*ssa.Defer); isD {
						if op, _ := classifyLockCall(&dy.Call); op == opUnlock && dominatesInstr(dy, d) {
							unlockFirst = true
						}
					}
				})
				if !unlockFirst {
					problems = append(problems, fmt.Sprintf("the deferred clear of %s runs after the mutex is released (%s)", short, posOf(p, cl)))
				}
			}
		}
	}
	sort.Strings(problems)
	return strings.Join(problems, "; "), true
}

func isAtomicBoolMethod(c *ssa.CallCommon, method string) bool {
	o := calleeObj(c)
	if o == nil || o.Pkg() == nil || o.Pkg().Path() != "sync/atomic" || o.Name() != method {
		return false
	}
	return recvNamed(o) == "Bool"
}

// tailCallee: fn returns, on some path, exactly the results of a call to an unexported function of its package with
// the same result types (return g(x)); that function, when there is exactly one such.
func tailCallee(p *Prog, fn *ssa.Function) *ssa.Function {
	var out []*ssa.Function
	for _, ret := range returnsOf(fn) {
		if len(ret.Results) == 0 {
			continue
		}
		var call *ssa.Call
		all := true
		for i, rv := range retResults(ret) {
			switch x := rv.(type) {
			case *ssa.Extract:
				c, ok := x.Tuple.(*ssa.Call)
				if !ok || x.Index != i || (call != nil && c != call) {
					all = false
				} else {
					call = c
				}
			case *ssa.Call:
				if len(ret.Results) != 1 {
					all = false
				} else {
					call = x
				}
			default:
				all = false
			}
		}
		if !all || call == nil {
			continue
		}
		g := call.Call.StaticCallee()
		if g == nil || !p.Analysed(g) || g.Pkg != fn.Pkg || (g.Object() != nil && g.Object().Exported()) {
			continue
		}
		if !types.Identical(g.Signature.Results(), fn.Signature.Results()) {
			continue
		}
		dup := false
		for _, o := range out {
			if o == g {
				dup = true
			}
		}
		if !dup {
			out = append(out, g)
		}
	}
	if len(out) == 1 {
		return out[0]
	}
	return nil
}
