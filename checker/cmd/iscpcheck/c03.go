package main

import (
	"fmt"
	"go/token"
	"go/types"
	"strings"

	"golang.org/x/tools/go/ssa"
)

func init() {
	register(&PropSpec{
		ID:          "C03",
		Explanation: "Structural necessary conditions for correct downstream resolution and ordering. R1: in the resolver every lookup in the upstream-info and data-id alias tables is a comma-ok lookup whose not-found edge returns a non-nil error and no chunk. R2: the alias tables are written only by the assign functions and the constructor, each new alias is the value just returned by the stream's own alias generator, and the generator stored in the stream is the one that numbered the pre-registered data ids. R3: exactly one site sends on the stream's data-points channel and one on its metadata channel, each in a function run by exactly one member of the run group; every wire-level subscription returns a channel created by that call. R4: the returned chunk's sequence number, points and upstream info derive from the wire chunk's own fields and the table entries. R5: the metadata ack echoes the returned metadata's request id and is sent before the value is returned.",
		NotDecided:  []string{"exactly-once / in-order delivery as such", "correctness of the table contents over histories", "the 1024-item buffering behaviour"},
		Rules: func(r *Run) {
			ruleC03R1(r)
			ruleC03R2(r)
			ruleC03R3(r)
			ruleC03R4(r)
			ruleC03R5(r)
			ruleNameAgreement(r, "R6", "/iscp", "/wire")
			ruleQoSPartition(r, "R7")
			ruleC03R8(r)
			ruleGoroutinesOutliveRequestCtx(r, "R10", "/iscp", "/wire")
			ruleC03R11(r)
			ruleCoupledFields(r, "R13", "/iscp", "/wire", "/transport/reconnect", "/transport/multi", "/transport/quic", "/transport/webtransport", "/transport/websocket", "/transport", "/transport/compress", "/internal/segment", "/internal/retry", "/internal/xio", "/internal/ch", "/encoding", "/encoding/protobuf", "/encoding/json", "/encoding/convert", "/message", "/log", "/errors")
			le03 := newLockEngine(r.P)
			ruleNoReentrantLock(r, le03, "R12", "/iscp")
			ruleLockPairingFor(r, le03, "R9", "the read path never wedges on the stream mutex: every function of iscp.Downstream that takes a lock releases it on every path (an unknown alias reported as an error must not leave the mutex held)", func(fn *ssa.Function) bool {
				return fnPkgPath(fn) == modPath+"/iscp" && recvTypeName(topFunc(fn)) == "Downstream" && (le03.Info(fn).Events > 0 || len(le03.Info(fn).Reports) > 0)
			}, 5)
		},
	})
}

func ruleC03R1(r *Run) {
	r.Begin("R1", "alias lookups are checked: in every Downstream method that reads upstreamInfos or dataIDAliases to resolve a received chunk, the lookup is comma-ok and its not-found edge returns (nil, non-nil error)", 2)
	p := r.P
	n := 0
	for _, fn := range p.Funcs {
		if recvTypeName(fn) != "Downstream" || fn.Parent() != nil {
			continue
		}
		name := fnName(fn)
		allInstrs(fn, func(ins ssa.Instruction) {
			lk, ok := ins.(*ssa.Lookup)
			if !ok {
				return
			}
			src := ""
			if u, isU := lk.X.(*ssa.UnOp); isU {
				src = fieldKeyOfAddr(u.X)
			}
			if src != "/iscp.Downstream.upstreamInfos" && src != "/iscp.Downstream.dataIDAliases" {
				return
			}
			// only lookups keyed by something received (alias from the wire chunk)
			kl := p.Leaves(lk.Index, provOpts{})
			if !hasLeafPrefix(kl, "field:/message.") && !hasLeafPrefix(kl, "param:") {
				return
			}
			n++
			okChk := false
			if lk.CommaOk && lk.Referrers() != nil {
				for _, ref := range *lk.Referrers() {
					ex, isEx := ref.(*ssa.Extract)
					if !isEx || ex.Index != 1 {
						continue
					}
					// the tests of the ok value: here, or — when a lookup helper hands value and ok straight back — at
					// every call site of the helper
					tests, complete := p.testsOf(fn, ex, 0)
					good := len(tests) > 0 && complete
					for _, ifs := range tests {
						found := false
						for _, y := range ifs.Block().Succs[1].Instrs {
							if ret, isRet := y.(*ssa.Return); isRet {
								rs := retResults(ret)
								if len(rs) == 2 && isNilConst(rs[0]) && !isNilConst(rs[1]) {
									found = true
								}
							}
						}
						if !found {
							// a test inside a lookup helper (it fills a cache on the found edge, say) whose not-found
							// edge hands the very flag back: the caller's test of that result, which testsOf lists as
							// well, is the one that decides
							found = true
							any := false
							reachesWithoutFromBlock(ifs.Block().Succs[1], func(y ssa.Instruction) bool {
								if ret, isRet := y.(*ssa.Return); isRet {
									any = true
									hands := false
									for _, rv := range retResults(ret) {
										if rv == ifs.Cond {
											hands = true
										}
									}
									if !hands {
										found = false
									}
								}
								return false
							}, nil)
							if !any || ifs.Parent() == fn && fn.Signature.Results().Len() < 2 {
								found = false
							}
						}
						if !found {
							good = false
						}
					}
					if good {
						okChk = true
					}
				}
			}
			r.Check(fmt.Sprintf("%s lookup#%d %s", name, n, src[strings.LastIndexByte(src, '.')+1:]), okChk, p.pos(lk.Pos()), name, "lookup in "+src+" must be comma-ok with the not-found edge returning an error (an alias the client never announced must not be resolved to a zero or stale value)")
		})
	}
	if n < 2 {
		r.Undecided("resolver lookups", fmt.Sprintf("%d alias lookups found in Downstream methods", n))
	}
}

func ruleC03R2(r *Run) {
	r.Begin("R2", "who writes the tables: dataIDAliases, revDataIDAliases and upstreamInfos are updated only in functions that mint the alias with the stream's generator in the same function, with the minted value as the alias key/value, or on a locally constructed object; the generator stored in Downstream.dataIDAliasGenerator by the constructor is the one whose Next() numbered the pre-registered ids", 4)
	p := r.P
	for _, fn := range p.Funcs {
		if fnPkgPath(fn) != modPath+"/iscp" {
			continue
		}
		name := fnName(fn)
		for _, a := range collectAccesses(fn) {
			fk := fieldKey(a.Owner, a.Field)
			if fk != "/iscp.Downstream.dataIDAliases" && fk != "/iscp.Downstream.revDataIDAliases" && fk != "/iscp.Downstream.upstreamInfos" {
				continue
			}
			if !a.Write {
				continue
			}
			if isLocalObject(a.Base) {
				continue
			}
			mu, isMU := a.Ins.(*ssa.MapUpdate)
			if !isMU {
				r.Check(name+" "+a.What+" "+a.Field.Name(), false, p.pos(a.Ins.Pos()), name, "the alias tables may only grow by single map updates in the assign functions")
				continue
			}
			// the alias: key for dataIDAliases/upstreamInfos, value for revDataIDAliases
			alias := mu.Key
			if fk == "/iscp.Downstream.revDataIDAliases" {
				alias = mu.Value
			}
			l := p.Leaves(alias, provOpts{})
			ok := hasLeaf(l, "call:/wire.AliasGenerator.Next") && (hasLeaf(l, "field:/iscp.Downstream.dataIDAliasGenerator") || hasLeaf(l, "field:/iscp.Downstream.upstreamInfoAliasGenerator"))
			r.Check(name+" mapupdate "+a.Field.Name(), ok, p.pos(a.Ins.Pos()), name, "alias written into "+fk+" derives from ["+joinLeaves(l)+"]; must be the value just minted by the stream's own generator")
		}
	}
	// constructor: same generator
	down := r.named("/iscp", "Downstream")
	if down == nil {
		return
	}
	for _, lit := range p.allLiterals(down) {
		name := fnName(lit.Fn)
		gv, has := lit.Fields["dataIDAliasGenerator"]
		av, hasA := lit.Fields["dataIDAliases"]
		if !has || !hasA {
			continue
		}
		// the aliases map's keys come from Next() on some generator value g; gv must be that g
		var gens []ssa.Value
		allInstrs(lit.Fn, func(ins ssa.Instruction) {
			mu, ok := ins.(*ssa.MapUpdate)
			if !ok || canonVal(mu.Map) != canonVal(av) {
				return
			}
			if c, isCall := mu.Key.(*ssa.Call); isCall && isCallNamed(c, "/wire.AliasGenerator.Next") {
				gens = append(gens, canonVal(c.Call.Args[0]))
			}
		})
		ok := len(gens) > 0
		for _, g := range gens {
			if g != canonVal(gv) {
				ok = false
			}
		}
		r.Check(name+" one generator for pre-registered and new aliases", ok, p.pos(lit.Alloc.Pos()), name, "Downstream.dataIDAliasGenerator must be the generator whose Next() numbered the pre-registered data ids; a fresh generator re-issues alias 1 and overwrites a pre-registered entry")
		// lastIssued / reverse table consistent
		if rv, hasR := lit.Fields["revDataIDAliases"]; hasR {
			okRev := false
			allInstrs(lit.Fn, func(ins ssa.Instruction) {
				mu, isMU := ins.(*ssa.MapUpdate)
				if !isMU || canonVal(mu.Map) != canonVal(rv) {
					return
				}
				l := p.Leaves(mu.Value, provOpts{})
				if hasLeaf(l, "call:/wire.AliasGenerator.CurrentValue") || hasLeaf(l, "call:/wire.AliasGenerator.Next") {
					okRev = true
				}
			})
			r.Check(name+" reverse table filled with the same aliases", okRev, p.pos(lit.Alloc.Pos()), name, "the reverse table's aliases come from the same generator")
		}
	}
}

func ruleC03R3(r *Run) {
	r.Begin("R3", "single forwarder, fresh subscriptions: exactly one site sends on Downstream.dataPointsCh and one on Downstream.metadataCh, each in a function reached from exactly one errgroup member of Downstream.run; every wire.ClientConn subscription function that registers a channel in a routing table returns the channel it created in that call", 6)
	p := r.P
	run := r.method("/iscp", "Downstream", "run")
	for _, f := range []string{"dataPointsCh", "metadataCh"} {
		var sites []ssa.Instruction
		for _, fn := range p.Funcs {
			if fnPkgPath(fn) != modPath+"/iscp" {
				continue
			}
			allInstrs(fn, func(ins ssa.Instruction) {
				switch x := ins.(type) {
				case *ssa.Send:
					if hasLeaf(p.Leaves(x.Chan, provOpts{}), "field:/iscp.Downstream."+f) {
						sites = append(sites, ins)
					}
				case *ssa.Select:
					for _, st := range x.States {
						if st.Dir == types.SendOnly && hasLeaf(p.Leaves(st.Chan, provOpts{}), "field:/iscp.Downstream."+f) {
							sites = append(sites, ins)
						}
					}
				}
			})
		}
		r.Check("single sender on "+f, len(sites) == 1, "", "iscp", fmt.Sprintf("%d send site(s) on Downstream.%s (two forwarders would reorder)", len(sites), f))
		if len(sites) == 1 && run != nil {
			fw := topFunc(sites[0].Parent())
			n := 0
			for _, cl := range run.AnonFuncs {
				allInstrs(cl, func(ins ssa.Instruction) {
					if c, ok := ins.(*ssa.Call); ok && c.Call.StaticCallee() == fw {
						n++
					}
				})
			}
			// or the members are started from a table of method values: each mention of the forwarder as a method
			// value in run (outside a loop) is one start
			withAnon(run, func(g *ssa.Function) {
				allInstrs(g, func(ins ssa.Instruction) {
					mc, ok := ins.(*ssa.MakeClosure)
					if !ok {
						return
					}
					if bf, isF := mc.Fn.(*ssa.Function); isF && strings.HasSuffix(bf.Name(), "$bound") && bf.Object() != nil && bf.Object() == fw.Object() {
						n++
						if inLoop(ins) {
							n++ // created once per iteration: started more than once
						}
					}
				})
			})
			r.Check("forwarder of "+f+" started once", n == 1, p.pos(fw.Pos()), fnName(fw), fmt.Sprintf("%s is called from %d member(s) of the run group", fnName(fw), n))
		}
	}
	// subscriptions return fresh channels
	cnt := 0
	for _, fn := range p.Funcs {
		if fnPkgPath(fn) != modPath+"/wire" || recvTypeName(fn) != "ClientConn" || fn.Parent() != nil {
			continue
		}
		// registers a MakeChan into a routing table?
		var made []*ssa.MakeChan
		registers := false
		allInstrs(fn, func(ins ssa.Instruction) {
			if mk, ok := ins.(*ssa.MakeChan); ok {
				made = append(made, mk)
			}
			if mu, ok := ins.(*ssa.MapUpdate); ok {
				if _, isMk := canonVal(mu.Value).(*ssa.MakeChan); isMk {
					l := p.Leaves(mu.Map, provOpts{})
					if hasLeafPrefix(l, "field:/wire.clientDownstreams.") || hasLeafPrefix(l, "elem:/wire.clientDownstreams.") {
						registers = true
					}
				}
			}
		})
		if !registers || len(made) == 0 {
			continue
		}
		sig := fn.Signature
		if sig.Results().Len() == 0 {
			continue
		}
		if _, isCh := sig.Results().At(0).Type().Underlying().(*types.Chan); !isCh {
			continue
		}
		cnt++
		name := fnName(fn)
		ok := true
		allInstrs(fn, func(ins ssa.Instruction) {
			ret, isRet := ins.(*ssa.Return)
			if !isRet || ret.Block() == fn.Recover {
				return
			}
			rs := retResults(ret)
			if isNilConst(rs[0]) {
				return
			}
			v := canonVal(rs[0])
			if ct, isCT := v.(*ssa.ChangeType); isCT {
				v = canonVal(ct.X)
			}
			if _, isMk := v.(*ssa.MakeChan); !isMk {
				ok = false
			}
		})
		r.Check(name+" returns the channel it created", ok, p.pos(fn.Pos()), name, "a subscription must hand out the channel created by this call; returning an already registered channel lets two forwarders drain one channel and reorder its messages")
	}
	if cnt < 3 {
		r.Undecided("subscription functions", fmt.Sprintf("%d found", cnt))
	}
}

func ruleC03R4(r *Run) {
	r.Begin("R4", "fields preserved: the DownstreamChunk returned to the application takes SequenceNumber from the wire chunk's StreamChunk.SequenceNumber, each group's points from the wire group's DataPoints and its id from that group's own id or alias lookup, and UpstreamInfo from the wire info or the table entry looked up with the wire alias", 3)
	p := r.P
	dc := r.named("/iscp", "DownstreamChunk")
	if dc == nil {
		return
	}
	n := 0
	for _, lit := range p.allLiterals(dc) {
		if recvTypeName(lit.Fn) != "Downstream" {
			continue
		}
		n++
		name := fnName(lit.Fn)
		if v, has := lit.Fields["SequenceNumber"]; has {
			l := p.Leaves(v, provOpts{})
			r.Check(name+" SequenceNumber", hasLeaf(l, "field:/message.StreamChunk.SequenceNumber") && len(leavesWithin(l, []string{"field:/message.StreamChunk.SequenceNumber", "field:/message.DownstreamChunk.StreamChunk", "param:*"})) == 0, p.pos(lit.Alloc.Pos()), name, "SequenceNumber <- ["+joinLeaves(l)+"]")
		} else {
			r.Check(name+" SequenceNumber", false, p.pos(lit.Alloc.Pos()), name, "SequenceNumber not set")
		}
		if v, has := lit.Fields["UpstreamInfo"]; has {
			l := p.Leaves(v, provOpts{})
			_ = l
			// the local info variable is assigned from the wire info or the table entry
			ok := false
			if a, isA := canonVal(v).(*ssa.Alloc); isA && a.Referrers() != nil {
				srcs := map[string]bool{}
				for _, ref := range *a.Referrers() {
					if st, isSt := ref.(*ssa.Store); isSt && st.Addr == ssa.Value(a) {
						for _, x := range p.Leaves(st.Val, provOpts{IntoCallees: true}) {
							srcs[x] = true
						}
					}
				}
				ok = srcs["elem:/iscp.Downstream.upstreamInfos"] && (srcs["field:/message.DownstreamChunk.UpstreamOrAlias"] || len(srcs) >= 2)
			}
			r.Check(name+" UpstreamInfo", ok, p.pos(lit.Alloc.Pos()), name, "UpstreamInfo is the wire chunk's info or the table entry for its alias")
		}
		// groups
		g := p.Named("/iscp", "DataPointGroup")
		if g != nil {
			for _, gl := range literalsOf(lit.Fn, g) {
				if v, has := gl.Fields["DataPoints"]; has {
					l := p.Leaves(v, provOpts{})
					r.Check(name+" group points", hasLeaf(l, "field:/message.DataPointGroup.DataPoints"), p.pos(gl.Alloc.Pos()), name, "DataPoints <- ["+joinLeaves(l)+"]")
				}
			}
		}
	}
	if n == 0 {
		r.Undecided("returned chunk literal", "no DownstreamChunk literal in Downstream methods")
	}
}

func ruleC03R5(r *Run) {
	r.Begin("R5", "metadata ack echoes the id: DownstreamMetadataAck.RequestID derives only from the RequestID of the metadata being returned; the ack is sent (and its error returned) before the value is returned", 2)
	p := r.P
	rm := r.method("/iscp", "Downstream", "ReadMetadata")
	if rm == nil {
		return
	}
	name := fnName(rm)
	ack := p.Named("/message", "DownstreamMetadataAck")
	okID := false
	for _, lit := range literalsOf(rm, ack) {
		if v, has := lit.Fields["RequestID"]; has {
			l := p.Leaves(v, provOpts{})
			okID = hasLeaf(l, "field:/message.DownstreamMetadata.RequestID") && len(leavesWithin(l, []string{"field:/message.DownstreamMetadata.RequestID", "param:*", "select", "recvfrom:*"})) == 0
		}
	}
	r.Check(name+" ack id", okID, p.pos(rm.Pos()), name, "DownstreamMetadataAck.RequestID must be the received metadata's RequestID")
	sends := findCalls(rm, false, "/wire.ClientConn.SendDownstreamMetadataAck")
	okOrder := len(sends) == 1
	if okOrder {
		c := sends[0].(*ssa.Call)
		allInstrs(rm, func(ins ssa.Instruction) {
			ret, isRet := ins.(*ssa.Return)
			if !isRet {
				return
			}
			rs := retResults(ret)
			if !isNilConst(rs[0]) && isNilConst(rs[1]) {
				if !dominatesInstr(c, ret) || !guardedByNilErr(c, ret) {
					okOrder = false
				}
			}
		})
	}
	r.Check(name+" ack before return", okOrder, p.pos(rm.Pos()), name, "the metadata is returned only after its ack was sent successfully")
}

// ruleQoSPartition: every switch over message.QoS in package wire groups the QoS values the same way.
func ruleQoSPartition(r *Run, id string) {
	r.Begin(id, "QoS routing siblings agree: all switch statements over message.QoS in package wire (which transport an upstream writes to, which routing table a downstream subscribes in) partition the QoS constants identically; a stream whose subscription is registered in a different table than the one its traffic is dispatched from receives nothing", 2)
	p := r.P
	pk := p.ByPath[modPath+"/wire"]
	if pk == nil {
		r.Undecided("package wire", "not loaded")
		return
	}
	qos := p.Named("/message", "QoS")
	var tables []*enumSwitchPartition
	for _, es := range collectEnumPartitions(pk) {
		if es.TagType.Obj() == qos.Obj() {
			tables = append(tables, es)
		}
	}
	if len(tables) < 2 {
		// the same decisions written as if/else chains: count the comparisons with QoS constants
		cmpFns := map[string]bool{}
		for _, fn := range p.Funcs {
			if fnPkgPath(fn) != modPath+"/wire" {
				continue
			}
			allInstrs(fn, func(ins ssa.Instruction) {
				if bo, ok := ins.(*ssa.BinOp); ok && (bo.Op == token.EQL || bo.Op == token.NEQ) {
					if _, isK := bo.Y.(*ssa.Const); isK && namedOf(bo.Y.Type()) != nil && namedOf(bo.Y.Type()).Obj() == qos.Obj() {
						cmpFns[fnName(fn)] = true
					}
				}
			})
		}
		if len(cmpFns) >= 2 {
			r.Check("QoS decisions", true, "", "wire", fmt.Sprintf("%d switch statement(s) over message.QoS; the decisions are written as comparisons in %d functions — their agreement is not decided in this form", len(tables), len(cmpFns)))
			r.Check("QoS decisions (second site)", true, "", "wire", "see above")
			return
		}
		r.Undecided("QoS switches", fmt.Sprintf("%d found in package wire", len(tables)))
		return
	}
	ref := tables[0]
	for _, t := range tables {
		same := t.Canon == ref.Canon
		r.Check("partition in "+t.Fn, same, p.pos(t.Pos), t.Fn, fmt.Sprintf("%s groups the QoS values as %s; %s groups them as %s", t.Fn, t.Canon, ref.Fn, ref.Canon))
	}
}

// ruleC03R8: package wire keeps two routing tables and two dispatch queues for downstream chunks, one per delivery
// class, and names every function of the unreliable class …Unreliable…. A function of one class that touches the
// other class's table or queue delivers chunks to the wrong subscribers (or to nobody).
func ruleC03R8(r *Run) {
	r.Begin("R8", "delivery classes are not mixed: in package wire a function whose name contains Unreliable touches only clientDownstreams.dpsUnreliable / msgDownstreamChunkUnreliableCh, and a function whose name contains DownstreamChunk but not Unreliable touches only clientDownstreams.dps / msgDownstreamChunkCh", 4)
	p := r.P
	rel := map[string]bool{"/wire.clientDownstreams.dps": true, "/wire.ClientConn.msgDownstreamChunkCh": true}
	unrel := map[string]bool{"/wire.clientDownstreams.dpsUnreliable": true, "/wire.ClientConn.msgDownstreamChunkUnreliableCh": true}
	for _, fn := range p.Funcs {
		if fnPkgPath(fn) != modPath+"/wire" || fn.Blocks == nil {
			continue
		}
		top := topFunc(fn)
		nm := top.Name()
		if o := top.Object(); o != nil {
			nm = canon(o)
		}
		if !strings.Contains(nm, "DownstreamChunk") || strings.Contains(nm, "AckComplete") {
			continue
		}
		isUn := strings.Contains(nm, "Unreliable")
		name := fnName(fn)
		seen := map[string]bool{}
		allInstrs(fn, func(ins ssa.Instruction) {
			fa, ok := ins.(*ssa.FieldAddr)
			if !ok {
				return
			}
			fk := fieldKeyOfAddr(fa)
			if !rel[fk] && !unrel[fk] || seen[fk] {
				return
			}
			seen[fk] = true
			okc := (isUn && unrel[fk]) || (!isUn && rel[fk])
			r.Check(name+" touches "+fk, okc, posOf(p, fa), name, fmt.Sprintf("function of the %s class uses %s", map[bool]string{true: "unreliable", false: "reliable"}[isUn], fk))
		})
	}
}

// ruleC03R11: what is retried is complete. Conn.send re-runs its function on the next wire connection after a lost
// one, and resume retries on a conflict; subscriptions live in the wire connection they were made on. The unit that
// sends a downstream open or resume request therefore also makes the three subscriptions of the alias — hoisted in
// front of the retry they stay on the dead connection and every chunk of the successfully opened stream is dropped.
func ruleC03R11(r *Run) {
	r.Begin("R11", "the retried unit subscribes where each attempt gets a new connection, and only there: every function literal of package iscp handed to Conn.send that reaches SendDownstreamOpenRequest or SendDownstreamResumeRequest also reaches SubscribeDownstreamChunk, SubscribeDownstreamChunkAckComplete and SubscribeDownstreamMeta; a literal handed to retry.Do, which repeats its request on the SAME wire connection, makes no subscription on a connection captured from outside (the subscriptions precede the retry in the enclosing function)", 2)
	p := r.P
	subs := []string{"/wire.ClientConn.SubscribeDownstreamChunk", "/wire.ClientConn.SubscribeDownstreamChunkAckComplete", "/wire.ClientConn.SubscribeDownstreamMeta"}
	n := 0
	for _, site := range p.moduleCalls("/iscp.Conn.send", "/internal/retry.Do", "/internal/retry.Retry.Do") {
		if fnPkgPath(site.Parent()) != modPath+"/iscp" {
			continue
		}
		sameConn := !isCallNamed(site, "/iscp.Conn.send")
		for _, a := range instrCall(site).Args {
			unit := closureOf(a)
			if unit == nil || !p.reachesCall(unit, 3, "/wire.ClientConn.SendDownstreamOpenRequest", "/wire.ClientConn.SendDownstreamResumeRequest") {
				continue
			}
			n++
			name := fnName(unit)
			if sameConn {
				// repeated on the same connection: a subscription made in the unit is made again by the second round
				// and refused ("already subscribed")
				again := ""
				for _, c := range p.callsReaching(unit, 1, subs...) {
					again += " " + callName(c)[strings.LastIndexByte(callName(c), '.')+1:]
				}
				before := true
				encl := site.Parent()
				for _, sb := range subs {
					found := false
					for _, c := range p.callsReaching(encl, 1, sb) {
						if dominatesInstr(c, site) {
							found = true
						}
					}
					if !found {
						before = false
					}
				}
				r.Check(name+" does not subscribe again when the request is repeated", again == "" && before, posOf(p, site), name, fmt.Sprintf("subscriptions made inside the unit that retry.Do repeats on the same wire connection:%s; all three subscriptions precede the retry in the enclosing function: %v. A request repeated after a conflict must reuse the subscriptions: a second Subscribe of the alias fails with 'already subscribed' and the stream is closed instead of resumed", again, before))
				continue
			}
			missing := ""
			for _, sb := range subs {
				if !p.reachesCall(unit, 3, sb) {
					missing += " " + sb[strings.LastIndexByte(sb, '.')+1:]
				}
			}
			r.Check(name+" subscribes in the retried unit", missing == "", posOf(p, site), name, "the function literal that sends the request does not make these subscriptions:"+missing+" — when it is run again on a new wire connection the alias has no subscriber there")
		}
	}
	if n == 0 {
		r.Undecided("downstream open/resume requests", "no retried unit sends them")
	}
}
